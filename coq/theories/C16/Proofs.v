(* C16 — proofs about the symbolic model (all by induction over batches / components; no sampling). *)
From Coq Require Import List Arith Bool String Lia.
Import ListNotations.
From AgileV Require Import C16.Model.
Open Scope string_scope.
Open Scope list_scope.
Local Notation length := List.length.
Local Notation concat := List.concat.

(* ------------------------------------------------------------------ list helpers *)
Lemma zipWith_length {A B C} (f : A -> B -> C) la lb :
  length (zipWith f la lb) = Nat.min (length la) (length lb).
Proof. unfold zipWith. rewrite map_length, combine_length. reflexivity. Qed.

Lemma zipWith_cons {A B C} (f : A -> B -> C) a la b lb :
  zipWith f (a :: la) (b :: lb) = f a b :: zipWith f la lb.
Proof. reflexivity. Qed.

Lemma zipWith_nil_l {A B C} (f : A -> B -> C) lb : zipWith f [] lb = [].
Proof. reflexivity. Qed.

Lemma zipWith_nil_r {A B C} (f : A -> B -> C) la : zipWith f la [] = [].
Proof. destruct la; reflexivity. Qed.

Lemma map_zipWith {A B C D} (g : C -> D) (f : A -> B -> C) la lb :
  map g (zipWith f la lb) = zipWith (fun x y => g (f x y)) la lb.
Proof. unfold zipWith. rewrite map_map. reflexivity. Qed.

Lemma zipWith_map_l {A A' B C} (f : A' -> B -> C) (h : A -> A') la lb :
  zipWith f (map h la) lb = zipWith (fun x y => f (h x) y) la lb.
Proof.
  revert lb; induction la as [|a la IH]; intros [|b lb]; try reflexivity.
  cbn [map]. rewrite !zipWith_cons, IH. reflexivity.
Qed.

Lemma zipWith_map_r {A B B' C} (f : A -> B' -> C) (h : B -> B') la lb :
  zipWith f la (map h lb) = zipWith (fun x y => f x (h y)) la lb.
Proof.
  revert lb; induction la as [|a la IH]; intros [|b lb]; try reflexivity.
  cbn [map]. rewrite !zipWith_cons, IH. reflexivity.
Qed.

Lemma zipWith_ext {A B C} (f g : A -> B -> C) la lb :
  (forall a b, In a la -> In b lb -> f a b = g a b) -> zipWith f la lb = zipWith g la lb.
Proof.
  revert lb; induction la as [|a la IH]; intros [|b lb] H; try reflexivity.
  rewrite !zipWith_cons. f_equal; [apply H; left; reflexivity|].
  apply IH. intros; apply H; right; assumption.
Qed.

(* zipWith as an indexed map *)
Lemma zipWith_seq {A B C} (f : A -> B -> C) (da : A) (db : B) la lb :
  zipWith f la lb = map (fun j => f (nth j la da) (nth j lb db)) (seq 0 (Nat.min (length la) (length lb))).
Proof.
  revert lb; induction la as [|a la IH]; intros [|b lb]; try reflexivity.
  rewrite zipWith_cons. cbn [length Nat.min seq map nth]. f_equal.
  rewrite IH, <- seq_shift, map_map. reflexivity.
Qed.

Lemma map_nth_seq {A B} (g : A -> B) (d : A) l :
  map (fun j => g (nth j l d)) (seq 0 (length l)) = map g l.
Proof.
  induction l as [|a l IH]; [reflexivity|].
  cbn [length seq map nth]. f_equal. rewrite <- seq_shift, map_map. exact IH.
Qed.

Lemma nth_map_in {A B} (g : A -> B) (d : A) (d' : B) l b : b < length l -> nth b (map g l) d' = g (nth b l d).
Proof. revert b; induction l as [|a l IH]; intros [|b] H; cbn in *; try lia; auto. apply IH; lia. Qed.

Lemma map_seq_ext {B} (f g : nat -> B) s n : (forall j, s <= j < s + n -> f j = g j) -> map f (seq s n) = map g (seq s n).
Proof. intro H. apply map_ext_in. intros j Hj. apply in_seq in Hj. apply H. lia. Qed.

(* ------------------------------------------------------------------ handlers = definition, per distribution *)
Lemma rows_of_T1 v : rows_of (T1 v) = map (fun x => [x]) v.
Proof. reflexivity. Qed.

(* Categorical *)
Lemma cat_is_spec n lg ls av :
  h_log_prob (DCat lg) (T1 av) = spec_logprob (Discrete n) false lg ls (T1 av).
Proof.
  unfold spec_logprob, h_log_prob, cat_log_prob. rewrite rows_of_T1, zipWith_map_r. reflexivity.
Qed.

(* Bernoulli *)
Lemma bern_is_spec n lg ls am :
  h_log_prob (DBern lg) (T2 am) = spec_logprob (MultiBinary n) false lg ls (T2 am).
Proof.
  unfold spec_logprob, h_log_prob, sum_dim1. cbn [rows_of spec_logprob_row]. rewrite map_zipWith. reflexivity.
Qed.

(* Normal *)
Lemma combine_expand (lg : list (list expr)) (ls : list expr) :
  zipWith (@combine expr expr) lg (map (map Exp) (map (fun _ => ls) lg))
  = map (fun lrow => combine lrow (map Exp ls)) lg.
Proof. induction lg as [|r lg IH]; [reflexivity|]. cbn [map]. rewrite zipWith_cons, IH. reflexivity. Qed.

Lemma combine_map_r {A B B'} (h : B -> B') (la : list A) (lb : list B) :
  combine la (map h lb) = map (fun p => (fst p, h (snd p))) (combine la lb).
Proof. revert lb; induction la as [|a la IH]; intros [|b lb]; cbn; try reflexivity. rewrite IH. reflexivity. Qed.

Lemma normal_rows lg ls am (w : expr -> expr) :
  normal_log_prob lg (map (map Exp) (map (fun _ => ls) lg)) (map (map w) am)
  = zipWith (fun lrow arow => zip3With (fun m s a => NormalLogPdf m (Exp s) (w a)) lrow ls arow) lg am.
Proof.
  unfold normal_log_prob. rewrite combine_expand, zipWith_map_l, zipWith_map_r.
  apply zipWith_ext. intros lrow arow _ _.
  unfold zip3With. rewrite combine_map_r, zipWith_map_l, zipWith_map_r. reflexivity.
Qed.

Lemma map_id_rows (am : list (list expr)) : map (map (fun x : expr => x)) am = am.
Proof. rewrite (map_ext _ (fun r => r)); [apply map_id|]. intro; apply map_id. Qed.

Lemma normal_is_spec d lg ls am :
  h_log_prob (DNormal lg (map (map Exp) (map (fun _ => ls) lg))) (T2 am) = spec_logprob (Box d) false lg ls (T2 am).
Proof.
  unfold spec_logprob, h_log_prob, sum_independent_tensor. cbn [rows_of spec_logprob_row].
  rewrite <- (map_id_rows am) at 1. rewrite normal_rows, map_zipWith. reflexivity.
Qed.

Lemma zipWith_sub_fused {A B} (F : A -> B -> expr) (h : B -> B) (G : B -> expr) la lb :
  zipWith Sub (zipWith F la (map h lb)) (map G lb) = zipWith (fun l a => Sub (F l (h a)) (G a)) la lb.
Proof.
  revert lb; induction la as [|a la IH]; intros [|b lb]; try reflexivity.
  cbn [map]. rewrite !zipWith_cons, IH. reflexivity.
Qed.

Lemma normal_squashed_is_spec d lg ls am :
  tsub (h_log_prob (DNormal lg (map (map Exp) (map (fun _ => ls) lg))) (unsquash (T2 am)))
       (sum_dim1 (tmap Log1mSq (T2 am)))
  = spec_logprob (Box d) true lg ls (T2 am).
Proof.
  unfold spec_logprob, unsquash, h_log_prob, sum_independent_tensor, sum_dim1, tsub. cbn [tmap rows_of spec_logprob_row].
  rewrite normal_rows, map_zipWith, map_map.
  rewrite <- (map_id_rows am) at 1. rewrite (map_ext (map (fun x : expr => x)) (fun r => r)) by (intro; apply map_id).
  rewrite (zipWith_sub_fused (fun lrow arow => SumL (zip3With (fun m s a => NormalLogPdf m (Exp s) (Atanh (Clamp1 a))) lrow ls arow))
                             (fun r => r) (fun r => SumL (map Log1mSq r))).
  reflexivity.
Qed.

(* MultiCategorical: split(dim=1) / unbind(dim=1) / stack(dim=1) / sum(dim=1) *)
Lemma split_sizes_length {A} sizes (l : list A) : length (split_sizes sizes l) = length sizes.
Proof. revert l; induction sizes as [|n r IH]; intro l; cbn; [reflexivity|]. rewrite IH. reflexivity. Qed.

Lemma nth_zipWith {A B C} (f : A -> B -> C) (da : A) (db : B) (d : C) la lb b :
  b < length la -> b < length lb -> nth b (zipWith f la lb) d = f (nth b la da) (nth b lb db).
Proof.
  revert lb b; induction la as [|a la IH]; intros [|x lb] [|b] H1 H2; cbn [length] in *; try lia.
  - reflexivity.
  - rewrite zipWith_cons. cbn [nth]. apply IH; lia.
Qed.

Lemma zipWith_map_same {A B C D} (f : B -> C -> D) (g : A -> B) (h : A -> C) l :
  zipWith f (map g l) (map h l) = map (fun x => f (g x) (h x)) l.
Proof. induction l as [|a l IH]; [reflexivity|]. cbn [map]. rewrite zipWith_cons, IH. reflexivity. Qed.

Lemma ncols_wf B D (t : list (list expr)) : wf_rows B D t -> 0 < B -> ncols t = D.
Proof. intros [HL HF] HB. destruct t as [|r t]; cbn in *; [lia|]. inversion HF; assumption. Qed.

Lemma wf_rows_nth B D t b : wf_rows B D t -> b < B -> length (nth b t []) = D.
Proof.
  intros [HL HF] Hb. rewrite Forall_forall in HF. apply HF. apply nth_In. lia.
Qed.

Lemma multi_rows nv (lg am : list (list expr)) B (G : list expr -> expr -> expr) :
  nv <> [] -> length lg = B -> wf_rows B (length nv) am ->
  stack_dim1 (zipWith (fun d u => zipWith G d u) (split_dim1 nv lg) (unbind_dim1 am))
  = zipWith (fun lrow arow => zipWith G (split_sizes nv lrow) arow) lg am.
Proof.
  intros Hnv HL Ham.
  destruct (Nat.eq_dec B 0) as [HB|HB].
  { subst B. destruct lg; [|discriminate]. destruct Ham as [Ha _]. destruct am; [|discriminate].
    unfold unbind_dim1. cbn [ncols seq map]. rewrite zipWith_nil_r. reflexivity. }
  assert (Hk : ncols am = length nv) by (eapply ncols_wf; [eassumption|lia]).
  unfold unbind_dim1, split_dim1. rewrite Hk, zipWith_map_same.
  set (k := length nv) in *.
  assert (Hkpos : 0 < k) by (destruct nv; [contradiction|cbn; lia]).
  unfold stack_dim1.
  assert (Hnc : ncols (map (fun x => zipWith G (map (fun row => nth x (split_sizes nv row) []) lg)
                                              (map (fun row => nth x row dflt) am)) (seq 0 k)) = B).
  { destruct k as [|k']; [lia|]. cbn [seq map ncols]. rewrite zipWith_length, !map_length.
    destruct Ham as [Ha _]. lia. }
  rewrite Hnc.
  rewrite (zipWith_seq _ [] [] lg am).
  destruct Ham as [Ha HF]. rewrite HL, Ha, Nat.min_id.
  apply map_seq_ext. intros b Hb.
  rewrite map_map.
  rewrite (zipWith_seq G [] dflt).
  rewrite split_sizes_length.
  assert (Hrow : length (nth b am []) = k) by (apply (wf_rows_nth B k); [split; assumption|lia]).
  rewrite Hrow. fold k. rewrite Nat.min_id.
  apply map_seq_ext. intros j Hj.
  rewrite (nth_zipWith G [] dflt) by (rewrite map_length; lia).
  rewrite (nth_map_in _ []) by lia. rewrite (nth_map_in _ []) by lia. reflexivity.
Qed.

Lemma multi_is_spec nv lg ls am B :
  nv <> [] -> length lg = B -> wf_rows B (length nv) am ->
  h_log_prob (DMulti (split_dim1 nv lg)) (T2 am) = spec_logprob (MultiDiscrete nv) false lg ls (T2 am).
Proof.
  intros Hnv HL Ham. unfold spec_logprob, h_log_prob, sum_dim1, cat_log_prob. cbn [rows_of spec_logprob_row].
  rewrite (multi_rows nv lg am B LogSoftmaxAt) by assumption. rewrite map_zipWith. reflexivity.
Qed.

(* ------------------------------------------------------------------ masking: split / where / cat = element-wise where *)
Lemma zipWith_firstn_skipn {A B C} (f : A -> B -> C) n la lb :
  zipWith f (firstn n la) (firstn n lb) ++ zipWith f (skipn n la) (skipn n lb) = zipWith f la lb.
Proof.
  revert la lb; induction n as [|n IH]; intros la lb; [reflexivity|].
  destruct la as [|a la]; [reflexivity|]. destruct lb as [|b lb].
  - cbn [firstn skipn]. rewrite !zipWith_nil_r. reflexivity.
  - cbn [firstn skipn]. rewrite !zipWith_cons. cbn [app]. f_equal. apply IH.
Qed.

Lemma split_zip_concat {A B C} (f : A -> B -> C) nv (la : list A) (lb : list B) :
  length la = list_sum nv ->
  concat (zipWith (zipWith f) (split_sizes nv la) (split_sizes nv lb)) = zipWith f la lb.
Proof.
  revert la lb; induction nv as [|n nv IH]; intros la lb HL.
  - cbn in HL. destruct la; [reflexivity|discriminate].
  - cbn [split_sizes]. rewrite zipWith_cons. cbn [concat]. rewrite IH.
    + apply zipWith_firstn_skipn.
    + rewrite skipn_length. change (list_sum (n :: nv)) with (n + list_sum nv) in HL. lia.
Qed.

Lemma split_mask_cat nv lg mk B :
  nv <> [] -> wf_rows B (list_sum nv) lg -> wf_rows B (list_sum nv) mk ->
  cat_dim1 (zipWith mask_discrete (split_dim1 nv lg) (split_dim1 nv mk)) = masked_spec lg mk.
Proof.
  intros Hnv Hlg Hmk. unfold split_dim1. rewrite zipWith_map_same.
  assert (Hk : 0 < length nv) by (destruct nv; [contradiction|cbn; lia]).
  unfold cat_dim1, masked_spec.
  destruct Hlg as [HL HF], Hmk as [HL' HF'].
  assert (Hlen : match map (fun x => mask_discrete (map (fun row => nth x (split_sizes nv row) []) lg)
                                                   (map (fun row => nth x (split_sizes nv row) []) mk)) (seq 0 (length nv))
                 with p :: _ => length p | [] => 0 end = B).
  { destruct (length nv) as [|k']; [lia|]. cbn [seq map]. unfold mask_discrete. rewrite zipWith_length, !map_length. lia. }
  rewrite Hlen.
  rewrite (zipWith_seq _ [] [] lg mk), HL, HL', Nat.min_id.
  apply map_seq_ext. intros b Hb. rewrite map_map.
  rewrite <- (split_zip_concat (fun l m => MaskFill m l) nv).
  2:{ rewrite Forall_forall in HF. apply HF. apply nth_In. lia. }
  f_equal.
  rewrite (zipWith_seq (zipWith (fun l m => MaskFill m l)) [] []), !split_sizes_length, Nat.min_id.
  apply map_seq_ext. intros j Hj.
  unfold mask_discrete.
  rewrite (nth_zipWith _ [] [] []) by (rewrite map_length; lia).
  rewrite (nth_map_in _ []) by lia. rewrite (nth_map_in _ []) by lia. reflexivity.
Qed.

Definition space_ok (sp : space) : Prop :=
  match sp with MultiDiscrete nv => nv <> [] | _ => True end.

Lemma apply_mask_elementwise ed lg mk B :
  is_box (ed_space ed) = false -> space_ok (ed_space ed) ->
  wf_rows B (flatdim (ed_space ed)) lg -> wf_rows B (flatdim (ed_space ed)) mk ->
  apply_mask ed lg mk = Some (masked_spec lg mk).
Proof.
  unfold apply_mask. destruct (ed_space ed) as [n|nv|n|d]; cbn [is_box flatdim space_ok]; intros Hb Hok Hlg Hmk.
  - reflexivity.
  - f_equal. apply (split_mask_cat nv lg mk B); assumption.
  - f_equal. apply (split_mask_cat [n] lg mk B); [discriminate| |]; change (list_sum [n]) with (n + 0); rewrite Nat.add_0_r; assumption.
  - discriminate.
Qed.

(* ------------------------------------------------------------------ entropy *)
Lemma multi_rows_unary nv (lg : list (list expr)) (G : list expr -> expr) :
  nv <> [] ->
  stack_dim1 (map (map G) (split_dim1 nv lg)) = map (fun lrow => map G (split_sizes nv lrow)) lg.
Proof.
  intros Hnv. unfold split_dim1, stack_dim1. rewrite map_map.
  assert (Hk : 0 < length nv) by (destruct nv; [contradiction|cbn; lia]).
  assert (Hnc : ncols (map (fun x => map G (map (fun row => nth x (split_sizes nv row) []) lg)) (seq 0 (length nv))) = length lg).
  { destruct (length nv) as [|k']; [lia|]. cbn [seq map ncols]. rewrite !map_length. reflexivity. }
  rewrite Hnc. rewrite <- (map_nth_seq (fun lrow => map G (split_sizes nv lrow)) [] lg).
  apply map_seq_ext. intros b Hb. rewrite map_map.
  rewrite <- (map_nth_seq G [] (split_sizes nv (nth b lg []))), split_sizes_length.
  apply map_seq_ext. intros j Hj. rewrite map_map.
  rewrite (nth_map_in _ []) by lia. reflexivity.
Qed.

Lemma entropy_is_spec_dist sp lg ls :
  space_ok sp ->
  h_entropy (dist_of sp ls lg) = spec_entropy sp lg ls.
Proof.
  intro Hok. unfold dist_of, spec_entropy.
  destruct sp as [n|nv|n|d]; cbn [h_entropy spec_entropy_row sum_dim1 sum_independent_tensor].
  - reflexivity.
  - rewrite (multi_rows_unary nv lg CatEntropy Hok), map_map. reflexivity.
  - rewrite map_map. reflexivity.
  - rewrite !map_map. reflexivity.
Qed.

(* ------------------------------------------------------------------ syntactic equality is reflexive (the cached-sample test succeeds on the fresh action) *)
Section ExprInd.
  Variable P : expr -> Prop.
  Hypothesis HVar : forall n b i, P (Var n b i).
  Hypothesis HAdd : forall a b, P a -> P b -> P (Add a b).
  Hypothesis HSub : forall a b, P a -> P b -> P (Sub a b).
  Hypothesis HNeg : forall a, P a -> P (Neg a).
  Hypothesis HSumL : forall l, Forall P l -> P (SumL l).
  Hypothesis HMeanL : forall l, Forall P l -> P (MeanL l).
  Hypothesis HExp : forall a, P a -> P (Exp a).
  Hypothesis HTanh : forall a, P a -> P (Tanh a).
  Hypothesis HAtanh : forall a, P a -> P (Atanh a).
  Hypothesis HClamp : forall a, P a -> P (Clamp1 a).
  Hypothesis HLog : forall a, P a -> P (Log1mSq a).
  Hypothesis HScale : forall a b c, P a -> P b -> P c -> P (Scale a b c).
  Hypothesis HMask : forall a b, P a -> P b -> P (MaskFill a b).
  Hypothesis HNlp : forall a b c, P a -> P b -> P c -> P (NormalLogPdf a b c).
  Hypothesis HNent : forall a, P a -> P (NormalEntropy a).
  Hypothesis HLsm : forall l k, Forall P l -> P k -> P (LogSoftmaxAt l k).
  Hypothesis HCent : forall l, Forall P l -> P (CatEntropy l).
  Hypothesis HBlp : forall a b, P a -> P b -> P (BernLogP a b).
  Hypothesis HBent : forall a, P a -> P (BernEntropy a).

  Fixpoint expr_ind' (e : expr) : P e :=
    let all := fix go (l : list expr) : Forall P l :=
      match l with [] => Forall_nil P | x :: r => Forall_cons x (expr_ind' x) (go r) end in
    match e with
    | Var n b i => HVar n b i
    | Add a b => HAdd a b (expr_ind' a) (expr_ind' b)
    | Sub a b => HSub a b (expr_ind' a) (expr_ind' b)
    | Neg a => HNeg a (expr_ind' a)
    | SumL l => HSumL l (all l)
    | MeanL l => HMeanL l (all l)
    | Exp a => HExp a (expr_ind' a)
    | Tanh a => HTanh a (expr_ind' a)
    | Atanh a => HAtanh a (expr_ind' a)
    | Clamp1 a => HClamp a (expr_ind' a)
    | Log1mSq a => HLog a (expr_ind' a)
    | Scale a b c => HScale a b c (expr_ind' a) (expr_ind' b) (expr_ind' c)
    | MaskFill a b => HMask a b (expr_ind' a) (expr_ind' b)
    | NormalLogPdf a b c => HNlp a b c (expr_ind' a) (expr_ind' b) (expr_ind' c)
    | NormalEntropy a => HNent a (expr_ind' a)
    | LogSoftmaxAt l k => HLsm l k (all l) (expr_ind' k)
    | CatEntropy l => HCent l (all l)
    | BernLogP a b => HBlp a b (expr_ind' a) (expr_ind' b)
    | BernEntropy a => HBent a (expr_ind' a)
    end.
End ExprInd.

Lemma list_eqb_refl {A} (eqb : A -> A -> bool) l : Forall (fun x => eqb x x = true) l -> list_eqb eqb l l = true.
Proof. induction 1; cbn; [reflexivity|]. rewrite H, IHForall. reflexivity. Qed.

Lemma expr_eqb_refl e : expr_eqb e e = true.
Proof.
  induction e using expr_ind'; cbn [expr_eqb];
    repeat match goal with H : expr_eqb _ _ = true |- _ => rewrite H; clear H end; cbn [andb]; try reflexivity.
  - rewrite String.eqb_refl, !Nat.eqb_refl. reflexivity.
  - induction H; [reflexivity|]. rewrite H, IHForall. reflexivity.
  - induction H; [reflexivity|]. rewrite H, IHForall. reflexivity.
  - rewrite andb_true_r. induction H; [reflexivity|]. rewrite H, IHForall. reflexivity.
  - induction H; [reflexivity|]. rewrite H, IHForall. reflexivity.
Qed.

Lemma tens_eqb_refl t : t <> TErr -> tens_eqb t t = true.
Proof.
  destruct t as [v|m|]; intro H; [| |contradiction]; cbn [tens_eqb].
  - apply list_eqb_refl. apply Forall_forall. intros; apply expr_eqb_refl.
  - apply list_eqb_refl. apply Forall_forall. intros r _. apply list_eqb_refl. apply Forall_forall. intros; apply expr_eqb_refl.
Qed.

Lemma shape_tmap f t : shape (tmap f t) = shape t.
Proof. destruct t as [v|m|]; cbn; [rewrite map_length; reflexivity| |reflexivity].
  rewrite map_length. destruct m; cbn; [reflexivity|]. rewrite map_length. reflexivity. Qed.

Lemma shape_eqb_tmap f t : t <> TErr -> shape_eqb t (tmap f t) = true.
Proof.
  intro H. unfold shape_eqb. rewrite shape_tmap. destruct t as [v|m|]; [| |contradiction]; cbn [shape];
    apply list_eqb_refl; repeat constructor; apply Nat.eqb_refl.
Qed.

(* ------------------------------------------------------------------ TorchDistribution.log_prob = definition *)
Lemma td_log_prob_plain d s a : td_log_prob {| td_dist := d; td_squash := false; td_sampled := s |} a = h_log_prob d a.
Proof. reflexivity. Qed.

Lemma td_log_prob_miss d s a :
  cache_hit {| td_dist := d; td_squash := true; td_sampled := s |} a = false ->
  td_log_prob {| td_dist := d; td_squash := true; td_sampled := s |} a
  = tsub (h_log_prob d (unsquash a)) (sum_dim1 (tmap Log1mSq a)).
Proof.
  unfold cache_hit, td_log_prob. cbn [td_squash td_sampled td_dist]. destruct s as [s|]; [|reflexivity].
  intros ->. reflexivity.
Qed.

Lemma td_log_prob_hit d s :
  s <> TErr ->
  td_log_prob {| td_dist := d; td_squash := true; td_sampled := Some s |} (tmap Tanh s)
  = tsub (h_log_prob d s) (sum_dim1 (tmap Log1mSq (tmap Tanh s))).
Proof.
  intro Hs. unfold td_log_prob. cbn [td_squash td_sampled td_dist].
  rewrite shape_eqb_tmap by assumption. rewrite tens_eqb_refl; [reflexivity|].
  destruct s; try discriminate; contradiction.
Qed.

Definition ed_ok (ed : edist) : Prop := ed_squash ed = true -> is_box (ed_space ed) = true.

Lemma ed_init_ok sp sq : ed_ok (ed_init sp sq).
Proof. unfold ed_ok, ed_init. cbn. intro H. apply andb_true_iff in H. tauto. Qed.

Lemma log_prob_is_spec sp sq ls lg s act B :
  (sq = true -> is_box sp = true) -> space_ok sp -> length lg = B -> wf_action sp B act ->
  (sq = false \/ cache_hit {| td_dist := dist_of sp ls lg; td_squash := sq; td_sampled := s |} act = false) ->
  td_log_prob {| td_dist := dist_of sp ls lg; td_squash := sq; td_sampled := s |} act = spec_logprob sp sq lg ls act.
Proof.
  intros Hsq Hok HL Hact Hmiss.
  destruct sq.
  - destruct Hmiss as [Hm|Hm]; [discriminate|]. rewrite td_log_prob_miss by exact Hm.
    destruct sp as [n|nv|n|d]; try (specialize (Hsq eq_refl); discriminate).
    destruct act as [v|am|]; cbn [wf_action] in Hact; try contradiction.
    apply normal_squashed_is_spec.
  - rewrite td_log_prob_plain.
    destruct sp as [n|nv|n|d]; destruct act as [v|am|]; cbn [wf_action] in Hact; try contradiction; cbn [dist_of].
    + apply cat_is_spec.
    + apply (multi_is_spec nv lg ls am B); assumption.
    + apply bern_is_spec.
    + apply normal_is_spec.
Qed.

(* ------------------------------------------------------------------ EvolvableDistribution.forward *)
Definition eff_logits (lg : list (list expr)) (mask : option (list (list expr))) : list (list expr) :=
  match mask with None => lg | Some mk => masked_spec lg mk end.

Definition mask_ok (sp : space) (B : nat) (mask : option (list (list expr))) : Prop :=
  match mask with None => True | Some mk => is_box sp = false /\ wf_rows B (flatdim sp) mk end.

Lemma eff_logits_length lg mask sp B :
  wf_rows B (flatdim sp) lg -> mask_ok sp B mask -> length (eff_logits lg mask) = B.
Proof.
  intros [HL _] Hm. destruct mask as [mk|]; cbn [eff_logits]; [|assumption].
  destruct Hm as [_ [HL' _]]. unfold masked_spec. rewrite zipWith_length. lia.
Qed.

Lemma ed_forward_eq ed lg mask dr B :
  space_ok (ed_space ed) -> wf_rows B (flatdim (ed_space ed)) lg -> mask_ok (ed_space ed) B mask ->
  ed_forward ed lg mask dr =
    let d1a := td_sample (get_distribution ed (eff_logits lg mask)) dr in
    Some ({| ed_space := ed_space ed; ed_squash := ed_squash ed; ed_log_std := ed_log_std ed; ed_dist := Some (fst d1a) |},
          snd d1a, td_log_prob (fst d1a) (snd d1a), td_entropy (fst d1a)).
Proof.
  intros Hok Hlg Hm. unfold ed_forward.
  destruct mask as [mk|]; cbn [eff_logits].
  - destruct Hm as [Hb Hmk]. rewrite (apply_mask_elementwise ed lg mk B) by assumption.
    destruct (td_sample (get_distribution ed (masked_spec lg mk)) dr); reflexivity.
  - destruct (td_sample (get_distribution ed lg) dr); reflexivity.
Qed.

Theorem logprob_is_spec_stored_lemma ed lg mask dr ed' a lp ent act B :
  ed_ok ed -> space_ok (ed_space ed) -> wf_rows B (flatdim (ed_space ed)) lg -> mask_ok (ed_space ed) B mask ->
  wf_action (ed_space ed) B act ->
  ed_forward ed lg mask dr = Some (ed', a, lp, ent) ->
  (ed_squash ed = false \/ forall d1, ed_dist ed' = Some d1 -> cache_hit d1 act = false) ->
  ed_log_prob ed' act = spec_logprob (ed_space ed) (ed_squash ed) (eff_logits lg mask) (ed_log_std ed) act.
Proof.
  intros Hedok Hok Hlg Hm Hact Hf Hmiss.
  rewrite (ed_forward_eq ed lg mask dr B) in Hf by assumption. cbv zeta in Hf.
  injection Hf as <- _ _ _. unfold ed_log_prob. cbn [ed_dist] in *.
  unfold td_sample, get_distribution. cbn [fst td_dist td_squash].
  apply (log_prob_is_spec _ _ _ _ _ _ B); try assumption.
  - eapply eff_logits_length; eassumption.
  - destruct Hmiss as [H|H]; [left; exact H|right]. apply (H _ eq_refl).
Qed.

(* shape of what sample() returns *)
Lemma stack_wf cols k B : 0 < k -> length cols = k -> Forall (fun c => length c = B) cols -> wf_rows B k (stack_dim1 cols).
Proof.
  intros Hk HL HF. unfold stack_dim1.
  assert (Hn : ncols cols = B) by (destruct cols; cbn in *; [lia|inversion HF; assumption]).
  rewrite Hn. split.
  - rewrite map_length, seq_length. reflexivity.
  - apply Forall_forall. intros r Hr. apply in_map_iff in Hr as [b [<- _]]. rewrite map_length. exact HL.
Qed.

Lemma sample_wf sp ls lg dr B :
  space_ok sp -> wf_draws sp B dr -> wf_action sp B (h_sample (dist_of sp ls lg) dr).
Proof.
  intros Hok Hd. destruct sp as [n|nv|n|d]; destruct dr as [t|cols]; cbn [wf_draws dist_of h_sample] in *; try contradiction; try assumption.
  destruct Hd as [HL HF]. cbn [wf_action ncomp]. apply stack_wf; try assumption.
  destruct nv; [contradiction|cbn; lia].
Qed.

Lemma wf_action_not_err sp B t : wf_action sp B t -> t <> TErr.
Proof. destruct sp, t; cbn; try contradiction; discriminate. Qed.

Lemma zipWith_sub_fused' {A B} (F : A -> B -> expr) (G : B -> expr) la lb :
  zipWith Sub (zipWith F la lb) (map G lb) = zipWith (fun l a => Sub (F l a) (G a)) la lb.
Proof.
  revert lb; induction la as [|a la IH]; intros [|b lb]; try reflexivity.
  cbn [map]. rewrite !zipWith_cons, IH. reflexivity.
Qed.

Lemma fresh_squash_simp d lg ls um :
  tmap simp (tsub (h_log_prob (dist_of (Box d) ls lg) (T2 um)) (sum_dim1 (tmap Log1mSq (tmap Tanh (T2 um)))))
  = tmap simp (spec_logprob (Box d) true lg ls (tmap Tanh (T2 um))).
Proof.
  unfold spec_logprob. cbn [dist_of h_log_prob sum_independent_tensor sum_dim1 tmap rows_of tsub spec_logprob_row].
  rewrite <- (map_id_rows um) at 1. rewrite normal_rows.
  rewrite !map_map, (map_zipWith SumL), zipWith_sub_fused', zipWith_map_r, !map_zipWith.
  f_equal. apply zipWith_ext. intros lrow urow _ _.
  cbn [simp]. unfold zip3With. rewrite !map_zipWith, zipWith_map_r, !map_map. reflexivity.
Qed.

Theorem logprob_is_spec_fresh_lemma ed lg mask dr ed' a lp ent B :
  ed_ok ed -> space_ok (ed_space ed) -> wf_rows B (flatdim (ed_space ed)) lg -> mask_ok (ed_space ed) B mask ->
  wf_draws (ed_space ed) B dr ->
  ed_forward ed lg mask dr = Some (ed', a, lp, ent) ->
  tmap simp lp = tmap simp (spec_logprob (ed_space ed) (ed_squash ed) (eff_logits lg mask) (ed_log_std ed) a)
  /\ (ed_squash ed = false -> lp = spec_logprob (ed_space ed) false (eff_logits lg mask) (ed_log_std ed) a).
Proof.
  intros Hedok Hok Hlg Hm Hdr Hf.
  rewrite (ed_forward_eq ed lg mask dr B) in Hf by assumption. cbv zeta in Hf.
  injection Hf as _ <- <- _.
  unfold td_sample, get_distribution. cbn [fst snd td_dist td_squash].
  pose proof (sample_wf (ed_space ed) (ed_log_std ed) (eff_logits lg mask) dr B Hok Hdr) as Hs.
  set (s := h_sample (dist_of (ed_space ed) (ed_log_std ed) (eff_logits lg mask)) dr) in *.
  assert (HL : length (eff_logits lg mask) = B) by (eapply eff_logits_length; eassumption).
  destruct (ed_squash ed) eqn:Hsq.
  - split; [|discriminate].
    rewrite td_log_prob_hit by (eapply wf_action_not_err; eassumption).
    specialize (Hedok Hsq). destruct (ed_space ed) as [n|nv|n|d]; try discriminate.
    destruct s as [v|um|]; cbn [wf_action] in Hs; try contradiction.
    apply fresh_squash_simp.
  - assert (E : td_log_prob {| td_dist := dist_of (ed_space ed) (ed_log_std ed) (eff_logits lg mask); td_squash := false; td_sampled := Some s |} s
                = spec_logprob (ed_space ed) false (eff_logits lg mask) (ed_log_std ed) s).
    { apply (log_prob_is_spec _ _ _ _ _ _ B); try assumption; [discriminate|left; reflexivity]. }
    split; [rewrite E; reflexivity|intros _; exact E].
Qed.

Theorem entropy_is_spec_lemma ed lg mask dr ed' a lp ent B :
  space_ok (ed_space ed) -> wf_rows B (flatdim (ed_space ed)) lg -> mask_ok (ed_space ed) B mask ->
  ed_forward ed lg mask dr = Some (ed', a, lp, ent) ->
  ent = if ed_squash ed then None else Some (spec_entropy (ed_space ed) (eff_logits lg mask) (ed_log_std ed)).
Proof.
  intros Hok Hlg Hm Hf.
  rewrite (ed_forward_eq ed lg mask dr B) in Hf by assumption. cbv zeta in Hf.
  injection Hf as _ _ _ <-.
  unfold td_sample, get_distribution, td_entropy. cbn [fst td_dist td_squash].
  destruct (ed_squash ed); [reflexivity|]. f_equal. apply entropy_is_spec_dist. assumption.
Qed.

(* ------------------------------------------------------------------ masking: every logit is guarded by its own mask bit *)
Lemma masked_entry lg mk B D b i :
  wf_rows B D lg -> wf_rows B D mk -> b < B -> i < D ->
  nth i (nth b (masked_spec lg mk) []) dflt = MaskFill (nth i (nth b mk []) dflt) (nth i (nth b lg []) dflt).
Proof.
  intros Hlg Hmk Hb Hi. unfold masked_spec.
  destruct Hlg as [HL HF], Hmk as [HL' HF'].
  rewrite (nth_zipWith _ [] [] []) by lia.
  assert (length (nth b lg []) = D) by (apply (wf_rows_nth B D); [split; assumption|lia]).
  assert (length (nth b mk []) = D) by (apply (wf_rows_nth B D); [split; assumption|lia]).
  rewrite (nth_zipWith _ dflt dflt dflt) by lia. reflexivity.
Qed.

(* ------------------------------------------------------------------ sum over the components of one row *)
Lemma zip3With_length {A B C D} (f : A -> B -> C -> D) la lb lc :
  length (zip3With f la lb lc) = Nat.min (Nat.min (length la) (length lb)) (length lc).
Proof. unfold zip3With. rewrite zipWith_length, combine_length. reflexivity. Qed.

Lemma sum_over_components_lemma sp lrow ls arow :
  length lrow = flatdim sp -> length ls = flatdim sp -> length arow = ncomp sp ->
  match sp with
  | Discrete _ => True
  | _ => exists terms, spec_logprob_row sp false lrow ls arow = SumL terms /\ length terms = ncomp sp
  end.
Proof.
  intros H1 H2 H3. destruct sp as [n|nv|n|d]; [exact I| | |]; cbn [spec_logprob_row ncomp flatdim] in *; eexists; split; try reflexivity.
  - rewrite zipWith_length, split_sizes_length. lia.
  - rewrite zipWith_length. lia.
  - rewrite zip3With_length. lia.
Qed.

(* the batched log-probability has exactly one entry per row of the batch *)
Lemma spec_logprob_rows sp sq lg ls act B :
  length lg = B -> wf_action sp B act ->
  exists v, spec_logprob sp sq lg ls act = T1 v /\ length v = B.
Proof.
  intros HL Hact. unfold spec_logprob. eexists; split; [reflexivity|]. rewrite zipWith_length.
  destruct sp, act; cbn [wf_action rows_of] in *; try contradiction; try rewrite map_length; try destruct Hact; lia.
Qed.

(* ------------------------------------------------------------------ StochasticActor / PPO *)
Lemma actor_forward_head ac lg mask dr ac' a lp ent :
  actor_forward ac lg mask dr = Some (ac', a, lp, ent) ->
  exists ed' a0, ed_forward (ac_head ac) lg mask dr = Some (ed', a0, lp, ent) /\ ac_head ac' = ed' /\
    a = match ed_space ed' with Box d => if ac_squash ac then scale_action d a0 else a0 | _ => a0 end.
Proof.
  unfold actor_forward. destruct (ed_forward (ac_head ac) lg mask dr) as [[[[ed' a0] lp0] ent0]|]; [|discriminate].
  intro H. injection H as <- <- <- <-. exists ed', a0. repeat split.
Qed.

Lemma ed_forward_space ed lg mask dr ed' a lp ent :
  ed_forward ed lg mask dr = Some (ed', a, lp, ent) ->
  ed_space ed' = ed_space ed /\ ed_squash ed' = ed_squash ed /\ ed_log_std ed' = ed_log_std ed.
Proof.
  unfold ed_forward. destruct (match mask with None => Some lg | Some m => apply_mask ed lg m end); [|discriminate].
  destruct (td_sample _ dr). intro H. injection H as <- _ _ _. repeat split.
Qed.

Theorem ppo_evaluate_is_spec_lemma ac lg dr actions ac' lp ent B :
  ed_ok (ac_head ac) -> space_ok (ed_space (ac_head ac)) -> wf_rows B (flatdim (ed_space (ac_head ac))) lg ->
  wf_action (ed_space (ac_head ac)) B actions ->
  ppo_evaluate_actions ac lg dr actions = Some (ac', lp, ent) ->
  (ed_squash (ac_head ac) = false \/ forall d1, ed_dist (ac_head ac') = Some d1 -> cache_hit d1 actions = false) ->
  lp = spec_logprob (ed_space (ac_head ac)) (ed_squash (ac_head ac)) lg (ed_log_std (ac_head ac)) actions.
Proof.
  intros Hedok Hok Hlg Hact Hev Hmiss. unfold ppo_evaluate_actions in Hev.
  destruct (ed_forward (ac_head ac) lg None dr) as [[[[ed' a0] lp0] ent0]|] eqn:Hf; [|discriminate].
  injection Hev as <- <- _. unfold action_log_prob. cbn [ac_head] in *.
  apply (logprob_is_spec_stored_lemma (ac_head ac) lg None dr ed' a0 lp0 ent0 actions B); try assumption. exact I.
Qed.

(* ------------------------------------------------------------------ the pinned (pre-fix) code violates the property *)
Lemma squash_reeval_refuted_lemma :
  exists B d lg1 lg2 dr1 dr2 act ed1 ed2 x1 x2 x3 y1 y2 y3,
    wf_rows B d lg1 /\ wf_rows B d lg2 /\ wf_action (Box d) B act /\
    ed_forward (ed_init (Box d) true) lg1 None dr1 = Some (ed1, x1, x2, x3) /\
    ed_forward ed1 lg2 None dr2 = Some (ed2, y1, y2, y3) /\
    ed_log_prob_pinned ed2 act <> spec_logprob (Box d) true lg2 (ed_log_std ed2) act.
Proof.
  exists 1, 1, (var_t2 "logit" 1 1), (var_t2 "logit2" 1 1), (var_draws "sampled" (Box 1) 1), (var_draws "sampled2" (Box 1) 1),
         (var_action "action" (Box 1) 1).
  do 8 eexists. repeat split; try (repeat constructor; fail).
  vm_compute. intro H. discriminate H.
Qed.

(* ------------------------------------------------------------------ learn(): squeeze() then the restored component axis is the identity *)
Lemma singleton_rows (m : list (list expr)) :
  Forall (fun r => length r = 1) m -> map (fun x => [x]) (map (fun r => nth 0 r dflt) m) = m.
Proof.
  induction 1 as [|r m Hr _ IH]; [reflexivity|]. cbn [map]. rewrite IH. f_equal.
  destruct r as [|x [|y r]]; cbn in Hr; try discriminate. reflexivity.
Qed.

Lemma learn_actions_id_lemma sp B a : wf_action sp B a -> learn_actions sp a = a.
Proof.
  unfold learn_actions, squeeze. destruct sp as [n|nv|n|d]; destruct a as [v|m|]; cbn [wf_action]; try contradiction; intro H;
    try reflexivity;
    (destruct (Nat.eqb (ncols m) 1) eqn:E; cbn [restore_axis]; [|reflexivity];
     apply Nat.eqb_eq in E; f_equal; apply singleton_rows;
     destruct H as [_ HF]; destruct m as [|r m]; [constructor|];
     cbn [ncols] in E; inversion HF as [|? ? Hr HF']; subst;
     rewrite E in Hr; rewrite <- Hr in *; assumption).
Qed.

Lemma learn_squeeze_refuted_lemma :
  exists sp B lg dr stored ac1 r, wf_rows B (flatdim sp) lg /\ wf_action sp B stored /\ 1 < B /\
    actor_forward (actor_init sp false) lg None dr = Some ac1 /\
    ppo_learn_evaluate_pinned (fst (fst (fst ac1))) lg dr stored = Some r /\
    snd (fst r) <> spec_logprob sp false lg (ed_log_std (ac_head (actor_init sp false))) stored.
Proof.
  exists (Box 1), 2, (var_t2 "logit2" 2 1), (var_draws "sampled2" (Box 1) 2), (var_action "action" (Box 1) 2).
  do 2 eexists. repeat split; try (repeat constructor; fail).
  vm_compute. intro H. discriminate H.
Qed.

(* ------------------------------------------------------------------ a row of the result reads only its own row of the inputs *)
Lemma Forall_zipWith {A B C} (PA : A -> Prop) (PB : B -> Prop) (PC : C -> Prop) (f : A -> B -> C) la lb :
  Forall PA la -> Forall PB lb -> (forall a b, PA a -> PB b -> PC (f a b)) -> Forall PC (zipWith f la lb).
Proof.
  intros Ha. revert lb. induction Ha as [|a la Pa Ha IH]; intros lb Hb Hf; [constructor|].
  destruct Hb as [|b lb Pb Hb]; [rewrite zipWith_nil_r; constructor|].
  rewrite zipWith_cons. constructor; [apply Hf; assumption|apply IH; assumption].
Qed.

Lemma Forall_firstn' {A} (P : A -> Prop) n l : Forall P l -> Forall P (firstn n l).
Proof. intro H. revert n. induction H; intros [|n]; cbn; constructor; auto. Qed.

Lemma Forall_skipn' {A} (P : A -> Prop) n l : Forall P l -> Forall P (skipn n l).
Proof. intro H. revert n. induction H; intros [|n]; cbn; try constructor; auto. Qed.

Lemma Forall_split_sizes {A} (P : A -> Prop) nv l : Forall P l -> Forall (Forall P) (split_sizes nv l).
Proof.
  revert l; induction nv as [|n nv IH]; intros l H; cbn; constructor.
  - apply Forall_firstn'; assumption.
  - apply IH. apply Forall_skipn'; assumption.
Qed.

Lemma Forall_combine {A B} (PA : A -> Prop) (PB : B -> Prop) la lb :
  Forall PA la -> Forall PB lb -> Forall (fun p => PA (fst p) /\ PB (snd p)) (combine la lb).
Proof.
  intros Ha. revert lb. induction Ha; intros lb Hb; [constructor|].
  destruct Hb; cbn; constructor; auto.
Qed.

Lemma forallb_Forall (b : nat) l : forallb (only_row b) l = true <-> Forall (fun e => only_row b e = true) l.
Proof. rewrite forallb_forall, Forall_forall. reflexivity. Qed.

Lemma spec_row_local sp sq b lrow ls arow :
  Forall (fun e => only_row b e = true) lrow -> Forall (fun e => only_row b e = true) ls ->
  Forall (fun e => only_row b e = true) arow -> arow <> [] ->
  only_row b (spec_logprob_row sp sq lrow ls arow) = true.
Proof.
  intros Hl Hs Ha Hne.
  destruct sp as [n|nv|n|d]; cbn [spec_logprob_row].
  - cbn [only_row]. apply andb_true_iff. split; [apply forallb_Forall; assumption|].
    destruct arow; [contradiction|]. inversion Ha; assumption.
  - cbn [only_row]. apply forallb_Forall.
    apply (Forall_zipWith (Forall (fun e => only_row b e = true)) (fun e => only_row b e = true)); try assumption.
    + apply Forall_split_sizes; assumption.
    + intros seg a Hseg Hx. cbn [only_row]. apply andb_true_iff. split; [apply forallb_Forall|]; assumption.
  - cbn [only_row]. apply forallb_Forall.
    apply (Forall_zipWith (fun e => only_row b e = true) (fun e => only_row b e = true)); try assumption.
    intros l a Hx Hy. cbn [only_row]. rewrite Hx, Hy. reflexivity.
  - assert (HN : forall w, (forall a, only_row b a = true -> only_row b (w a) = true) ->
                 Forall (fun e => only_row b e = true) (zip3With (fun m s a => NormalLogPdf m (Exp s) (w a)) lrow ls arow)).
    { intros w Hw. unfold zip3With.
      apply (Forall_zipWith (fun p => only_row b (fst p) = true /\ only_row b (snd p) = true) (fun e => only_row b e = true));
        [apply (Forall_combine (fun e => only_row b e = true) (fun e => only_row b e = true)); assumption|assumption|].
      intros [m s] a [Hm Hs'] Hx. cbn [fst snd only_row] in *. rewrite Hm, Hs', (Hw a Hx). reflexivity. }
    destruct sq; cbn [only_row].
    + apply andb_true_iff. split; apply forallb_Forall.
      * apply (HN (fun a => Atanh (Clamp1 a))). intros a Hx. exact Hx.
      * apply Forall_forall. intros e He. apply in_map_iff in He as [a [<- Hin]]. cbn [only_row].
        rewrite Forall_forall in Ha. apply Ha; assumption.
    + apply forallb_Forall. apply (HN (fun a => a)). auto.
Qed.

Lemma rows_of_nonempty sp B act b : wf_action sp B act -> 0 < ncomp sp -> b < B -> nth b (rows_of act) [] <> [].
Proof.
  destruct sp as [n|nv|n|d]; destruct act as [v|m|]; cbn [wf_action rows_of]; try contradiction; intros H Hc Hb.
  1: { rewrite (nth_map_in _ dflt) by lia. discriminate. }
  all: pose proof (wf_rows_nth B _ m b H Hb) as HL; intro E; rewrite E in HL; cbn [ncomp length] in *; lia.
Qed.

Lemma rows_of_length sp B act : wf_action sp B act -> length (rows_of act) = B.
Proof.
  destruct sp, act; cbn [wf_action rows_of]; try contradiction; try (intros [H _]; exact H).
  intro H. rewrite map_length. exact H.
Qed.

Theorem rows_independent_lemma sp sq lg ls act B b :
  length lg = B -> wf_action sp B act -> 0 < ncomp sp ->
  local2 lg -> local2 (rows_of act) -> (forall b', Forall (fun e => only_row b' e = true) ls) ->
  b < B ->
  match spec_logprob sp sq lg ls act with
  | T1 v => only_row b (nth b v dflt) = true
  | _ => False
  end.
Proof.
  intros HL Hact Hc Hlg Hac Hls Hb. unfold spec_logprob.
  pose proof (rows_of_length sp B act Hact) as HR.
  rewrite (nth_zipWith _ [] [] dflt) by lia.
  apply spec_row_local.
  - apply Hlg. lia.
  - apply Hls.
  - apply Hac. lia.
  - eapply rows_of_nonempty; eassumption.
Qed.

(* ------------------------------------------------------------------ the rewrite is sound for every interpretation with atanh(clamp(tanh x)) = x *)
Section SimpSound.
  Variable T : Type.
  Variable P : prims T.
  Variable rho : string -> nat -> nat -> T.
  Hypothesis inv : forall x, p_atanh T P (p_clamp T P (p_tanh T P x)) = x.

  Let den := denote T P rho.

  Lemma map_den_simp l : Forall (fun e => den (simp e) = den e) l -> map den (map simp l) = map den l.
  Proof. induction 1 as [|e l He _ IH]; [reflexivity|]. cbn [map]. rewrite He, IH. reflexivity. Qed.

  Lemma simp_sound_e e : den (simp e) = den e.
  Proof.
    induction e using expr_ind'; unfold den in *; cbn [simp denote];
      try (repeat match goal with H : denote _ _ _ (simp _) = _ |- _ => rewrite H; clear H end; reflexivity);
      try (fold den; rewrite map_den_simp by assumption; try rewrite IHe; reflexivity).
    - (* Atanh *)
      destruct e; cbn [simp denote] in *; try reflexivity; try (rewrite IHe; reflexivity).
      destruct e; cbn [simp denote] in *; try reflexivity; try (rewrite IHe; reflexivity).
      apply (f_equal (p_atanh T P)) in IHe. rewrite !inv in IHe. rewrite inv. exact IHe.
    - (* LogSoftmaxAt *)
      fold den. rewrite map_den_simp by assumption. unfold den. rewrite IHe. reflexivity.
  Qed.

  Lemma simp_sound_t t : tdenote T P rho (tmap simp t) = tdenote T P rho t.
  Proof.
    destruct t as [v|m|]; cbn [tmap tdenote]; [| |reflexivity]; f_equal.
    - apply map_den_simp. apply Forall_forall. intros; apply simp_sound_e.
    - rewrite !concat_map, map_map. f_equal. apply map_ext. intro r.
      apply map_den_simp. apply Forall_forall. intros; apply simp_sound_e.
  Qed.
End SimpSound.

(* the VALUE of the log-probability returned by forward() is the value of the definition at the returned action *)
Theorem fresh_logprob_value_lemma (T : Type) (P : prims T) (rho : string -> nat -> nat -> T) ed lg mask dr ed' a lp ent B :
  (forall x, p_atanh T P (p_clamp T P (p_tanh T P x)) = x) ->
  ed_ok ed -> space_ok (ed_space ed) -> wf_rows B (flatdim (ed_space ed)) lg -> mask_ok (ed_space ed) B mask ->
  wf_draws (ed_space ed) B dr ->
  ed_forward ed lg mask dr = Some (ed', a, lp, ent) ->
  tdenote T P rho lp = tdenote T P rho (spec_logprob (ed_space ed) (ed_squash ed) (eff_logits lg mask) (ed_log_std ed) a).
Proof.
  intros inv Hedok Hok Hlg Hm Hdr Hf.
  destruct (logprob_is_spec_fresh_lemma ed lg mask dr ed' a lp ent B Hedok Hok Hlg Hm Hdr Hf) as [E _].
  rewrite <- (simp_sound_t T P rho inv lp), E. apply simp_sound_t. exact inv.
Qed.

(* ------------------------------------------------------------------ the code's rows are independent (stored-action evaluation) *)
Lemma local2_masked lg mk B D : wf_rows B D lg -> wf_rows B D mk -> local2 lg -> local2 mk -> local2 (masked_spec lg mk).
Proof.
  intros [HL HF] [HL' HF'] Hlg Hmk b Hb. unfold masked_spec in *. rewrite zipWith_length in Hb.
  rewrite (nth_zipWith _ [] [] []) by lia.
  apply (Forall_zipWith (fun e => only_row b e = true) (fun e => only_row b e = true)).
  - apply Hlg. lia.
  - apply Hmk. lia.
  - intros l m Hl Hm. cbn [only_row]. rewrite Hl, Hm. reflexivity.
Qed.

Lemma var_t2_local name B D : local2 (var_t2 name B D).
Proof.
  intros b Hb. unfold var_t2 in *. rewrite map_length, seq_length in Hb.
  rewrite (nth_map_in _ 0) by (rewrite seq_length; lia). rewrite seq_nth by lia. cbn [Nat.add].
  apply Forall_forall. intros e He. apply in_map_iff in He as [i [<- _]]. cbn [only_row].
  rewrite Nat.eqb_refl. apply orb_true_r.
Qed.

Theorem stored_rows_independent_lemma ed lg mask dr ed' a lp ent act B b :
  ed_ok ed -> space_ok (ed_space ed) -> wf_rows B (flatdim (ed_space ed)) lg -> mask_ok (ed_space ed) B mask ->
  wf_action (ed_space ed) B act -> 0 < ncomp (ed_space ed) ->
  ed_forward ed lg mask dr = Some (ed', a, lp, ent) ->
  (ed_squash ed = false \/ forall d1, ed_dist ed' = Some d1 -> cache_hit d1 act = false) ->
  local2 lg -> (forall mk, mask = Some mk -> local2 mk) -> local2 (rows_of act) ->
  (forall b', Forall (fun e => only_row b' e = true) (ed_log_std ed)) ->
  b < B ->
  match ed_log_prob ed' act with T1 v => length v = B /\ only_row b (nth b v dflt) = true | _ => False end.
Proof.
  intros Hedok Hok Hlg Hm Hact Hc Hf Hmiss Ll Lm La Ls Hb.
  rewrite (logprob_is_spec_stored_lemma ed lg mask dr ed' a lp ent act B) by assumption.
  assert (HL : length (eff_logits lg mask) = B) by (eapply eff_logits_length; eassumption).
  assert (Lloc : local2 (eff_logits lg mask)).
  { destruct mask as [mk|]; cbn [eff_logits]; [|assumption]. destruct Hm as [_ Hmk].
    eapply local2_masked; try eassumption. apply Lm. reflexivity. }
  pose proof (rows_independent_lemma (ed_space ed) (ed_squash ed) (eff_logits lg mask) (ed_log_std ed) act B b HL Hact Hc Lloc La Ls Hb) as H.
  destruct (spec_logprob_rows (ed_space ed) (ed_squash ed) (eff_logits lg mask) (ed_log_std ed) act B HL Hact) as [v [E Hv]].
  rewrite E in *. split; assumption.
Qed.

(* ------------------------------------------------------------------ what StochasticActor.forward returns with squashing *)
Theorem squashed_action_lemma d lg um ac' a lp ent B :
  wf_rows B d lg ->
  actor_forward (actor_init (Box d) true) lg None (DrOne (T2 um)) = Some (ac', a, lp, ent) ->
  a = T2 (map (fun urow => zip3With Scale (map (fun i => Var "low" 0 i) (seq 0 d)) (map (fun i => Var "high" 0 i) (seq 0 d))
                                     (map Tanh urow)) um)
  /\ ent = None.
Proof.
  intros Hlg Hf. apply actor_forward_head in Hf as [ed' [a0 [Hf [_ Ha]]]].
  pose proof (ed_forward_space _ _ _ _ _ _ _ _ Hf) as [Hsp _]. cbn [actor_init ac_head ac_squash ed_init ed_space] in *.
  rewrite Hsp in Ha.
  rewrite (ed_forward_eq _ lg None (DrOne (T2 um)) B) in Hf by (cbn; auto).
  cbv zeta in Hf. injection Hf as _ <- _ <-. subst a.
  cbn. rewrite map_map. split; reflexivity.
Qed.

(* ------------------------------------------------------------------ deepening: the stored-action theorem without the cache-miss guard *)
Lemma expr_eqb_eq x : forall y, expr_eqb x y = true -> x = y.
Proof.
  induction x using expr_ind'; intros y Hy; destruct y; cbn [expr_eqb] in Hy; try discriminate;
    repeat match goal with H : _ && _ = true |- _ => apply andb_true_iff in H; destruct H end;
    repeat match goal with
           | IH : forall y, expr_eqb ?a y = true -> ?a = y, H : expr_eqb ?a _ = true |- _ => apply IH in H; subst
           | H : String.eqb _ _ = true |- _ => apply String.eqb_eq in H; subst
           | H : Nat.eqb _ _ = true |- _ => apply Nat.eqb_eq in H; subst
           end; try reflexivity.
  all: f_equal;
    match goal with F : Forall _ ?l, Hy : _ = true |- ?l = ?l0 =>
      clear -F Hy; revert l0 Hy; induction F as [|e l He _ IH]; intros [|e0 l0] Hy; try discriminate; [reflexivity|];
      apply andb_true_iff in Hy as [H1 H2]; f_equal; [apply He; exact H1|apply IH; exact H2] end.
Qed.

Lemma list_eqb_eq {A} (eqb : A -> A -> bool) (Heq : forall x y, eqb x y = true -> x = y) l :
  forall l', list_eqb eqb l l' = true -> l = l'.
Proof.
  induction l as [|a l IH]; intros [|b l'] H; cbn in H; try discriminate; [reflexivity|].
  apply andb_true_iff in H as [H1 H2]. f_equal; [apply Heq; exact H1|apply IH; exact H2].
Qed.

Lemma tens_eqb_eq x y : tens_eqb x y = true -> x = y.
Proof.
  destruct x as [v|m|], y as [v'|m'|]; cbn [tens_eqb]; intro H; try discriminate; f_equal.
  - apply (list_eqb_eq expr_eqb expr_eqb_eq); exact H.
  - apply (list_eqb_eq (list_eqb expr_eqb)); [|exact H]. intros a b. apply (list_eqb_eq expr_eqb expr_eqb_eq).
Qed.

(* whatever tensor is passed — a stored action or the fresh one, whether or not the torch.equal test fires — the
   log-probability is the definition at that tensor, modulo atanh(clamp(tanh x)) -> x (no guard on the cache test) *)
Theorem logprob_is_spec_any_lemma ed lg mask dr ed' a lp ent act B :
  ed_ok ed -> space_ok (ed_space ed) -> wf_rows B (flatdim (ed_space ed)) lg -> mask_ok (ed_space ed) B mask ->
  wf_action (ed_space ed) B act ->
  ed_forward ed lg mask dr = Some (ed', a, lp, ent) ->
  tmap simp (ed_log_prob ed' act)
  = tmap simp (spec_logprob (ed_space ed) (ed_squash ed) (eff_logits lg mask) (ed_log_std ed) act).
Proof.
  intros Hedok Hok Hlg Hm Hact Hf.
  destruct (ed_squash ed) eqn:Hsq.
  2:{ rewrite (logprob_is_spec_stored_lemma ed lg mask dr ed' a lp ent act B) by (try assumption; left; exact Hsq).
      rewrite Hsq. reflexivity. }
  pose proof Hf as Hf0.
  rewrite (ed_forward_eq ed lg mask dr B) in Hf by assumption. cbv zeta in Hf.
  injection Hf as <- _ _ _.
  unfold ed_log_prob. cbn [ed_dist]. unfold td_sample, get_distribution. cbn [fst td_dist td_squash]. rewrite Hsq.
  set (s := h_sample (dist_of (ed_space ed) (ed_log_std ed) (eff_logits lg mask)) dr).
  set (d1 := {| td_dist := dist_of (ed_space ed) (ed_log_std ed) (eff_logits lg mask); td_squash := true; td_sampled := Some s |}).
  assert (HL : length (eff_logits lg mask) = B) by (eapply eff_logits_length; eassumption).
  destruct (cache_hit d1 act) eqn:Hc.
  - unfold cache_hit in Hc. cbn [d1 td_sampled] in Hc. apply andb_true_iff in Hc as [_ Hc]. apply tens_eqb_eq in Hc. subst act.
    specialize (Hedok Hsq). destruct (ed_space ed) as [n|nv|n|d]; try discriminate.
    destruct s as [v|um|]; cbn [tmap wf_action] in Hact; try contradiction.
    unfold d1. rewrite td_log_prob_hit by discriminate. apply fresh_squash_simp.
  - unfold d1 in *. rewrite (log_prob_is_spec (ed_space ed) true (ed_log_std ed) (eff_logits lg mask) (Some s) act B); try assumption.
    + reflexivity.
    + intros _. apply Hedok. exact Hsq.
    + right. exact Hc.
Qed.

Theorem stored_logprob_value_lemma (T : Type) (P : prims T) (rho : string -> nat -> nat -> T) ed lg mask dr ed' a lp ent act B :
  (forall x, p_atanh T P (p_clamp T P (p_tanh T P x)) = x) ->
  ed_ok ed -> space_ok (ed_space ed) -> wf_rows B (flatdim (ed_space ed)) lg -> mask_ok (ed_space ed) B mask ->
  wf_action (ed_space ed) B act ->
  ed_forward ed lg mask dr = Some (ed', a, lp, ent) ->
  tdenote T P rho (ed_log_prob ed' act)
  = tdenote T P rho (spec_logprob (ed_space ed) (ed_squash ed) (eff_logits lg mask) (ed_log_std ed) act).
Proof.
  intros inv Hedok Hok Hlg Hm Hact Hf.
  rewrite <- (simp_sound_t T P rho inv (ed_log_prob ed' act)).
  rewrite (logprob_is_spec_any_lemma ed lg mask dr ed' a lp ent act B) by assumption.
  apply simp_sound_t. exact inv.
Qed.

(* ------------------------------------------------------------------ deepening: IPPO mask rows follow the observation rows for every key order of infos *)
From Coq Require Import Permutation.

Lemma agent_eqb_eq a b : agent_eqb a b = true <-> a = b.
Proof.
  unfold agent_eqb. destruct a as [g m], b as [g' m']. cbn [fst snd]. rewrite andb_true_iff, !Nat.eqb_eq.
  split; [intros [-> ->]; reflexivity|intro H; injection H; auto].
Qed.

Lemma lookup_agent_in {V} (k : agent) (v : V) l : NoDup (map fst l) -> In (k, v) l -> lookup_agent k l = Some v.
Proof.
  induction l as [|[k' v'] l IH]; intros Hnd Hin; [contradiction|]. cbn [lookup_agent map fst] in *.
  inversion Hnd as [|? ? Hni Hnd']; subst. destruct Hin as [E|Hin].
  - injection E as -> ->. destruct (agent_eqb k k) eqn:Ek; [reflexivity|].
    assert (agent_eqb k k = true) by (apply agent_eqb_eq; reflexivity). congruence.
  - destruct (agent_eqb k k') eqn:Ek; [|apply IH; assumption].
    apply agent_eqb_eq in Ek. subst k'. exfalso. apply Hni. apply (in_map fst) in Hin. exact Hin.
Qed.

Lemma lookup_agent_none {V} (k : agent) (l : list (agent * V)) : ~ In k (map fst l) -> lookup_agent k l = None.
Proof.
  induction l as [|[k' v'] l IH]; intro H; [reflexivity|]. cbn [lookup_agent map fst] in *.
  destruct (agent_eqb k k') eqn:Ek; [apply agent_eqb_eq in Ek; subst; exfalso; apply H; left; reflexivity|].
  apply IH. intro Hin. apply H. right. exact Hin.
Qed.

Lemma lookup_agent_perm {V} (k : agent) (l l' : list (agent * V)) :
  NoDup (map fst l) -> Permutation l l' -> lookup_agent k l' = lookup_agent k l.
Proof.
  intros Hnd Hp.
  assert (Hnd' : NoDup (map fst l')) by (eapply Permutation_NoDup; [apply Permutation_map; exact Hp|exact Hnd]).
  destruct (lookup_agent k l) as [v|] eqn:E.
  - assert (Hin : In (k, v) l).
    { clear -E. induction l as [|[k' v'] l IH]; [discriminate|]. cbn [lookup_agent] in E.
      destruct (agent_eqb k k') eqn:Ek; [apply agent_eqb_eq in Ek; subst; injection E as ->; left; reflexivity|right; apply IH; exact E]. }
    apply lookup_agent_in; [exact Hnd'|]. eapply Permutation_in; eassumption.
  - apply lookup_agent_none. intro Hin.
    assert (Hin' : In k (map fst l)) by (eapply Permutation_in; [apply Permutation_sym, Permutation_map; exact Hp|exact Hin]).
    apply in_map_iff in Hin' as [[k0 v0] [Hk Hin0]]. cbn in Hk. subst k0.
    rewrite (lookup_agent_in k v0 l Hnd Hin0) in E. discriminate.
Qed.

(* whatever key order the caller used for infos, policy group g receives, row by row, the mask of the agent whose
   observation is in that row (the group's members in agent_ids order) *)
Theorem ippo_masks_follow_observations_lemma {V} (ids : list agent) (infos infos' : list (agent * V)) (g : nat) :
  NoDup (map fst infos) -> Permutation infos infos' ->
  ippo_masks ids infos' g = ippo_masks ids infos g /\
  length (ippo_masks ids infos g) = length (group_members ids g) /\
  (forall r a, nth_error (group_members ids g) r = Some a -> nth_error (ippo_masks ids infos' g) r = Some (lookup_agent a infos)).
Proof.
  intros Hnd Hp. unfold ippo_masks. repeat split.
  - apply map_ext. intro a. apply lookup_agent_perm; assumption.
  - apply map_length.
  - intros r a Hr. rewrite nth_error_map, Hr. cbn. f_equal. apply lookup_agent_perm; assumption.
Qed.

(* before 0c075e0 the rows followed the caller's key order: refuted by a two-agent group listed in the other order *)
Lemma ippo_masks_pinned_refuted_lemma :
  exists (ids : list agent) (infos infos' : list (agent * nat)) g,
    NoDup (map fst infos) /\ Permutation infos infos' /\ ippo_masks_pinned infos' g <> ippo_masks ids infos g.
Proof.
  exists [(0, 1); (0, 0)], [((0, 1), 11); ((0, 0), 10)], [((0, 0), 10); ((0, 1), 11)], 0.
  repeat split.
  - repeat constructor; cbn; intuition discriminate.
  - apply perm_swap.
  - vm_compute. discriminate.
Qed.

(* ------------------------------------------------------------------ deepening 3 *)
(* forward() overwrites the distribution state: nothing of an earlier forward (on this or any other batch) survives *)
Theorem forward_forgets_history_lemma ed ed0 lg mask dr :
  ed_space ed = ed_space ed0 -> ed_squash ed = ed_squash ed0 -> ed_log_std ed = ed_log_std ed0 ->
  ed_forward ed lg mask dr = ed_forward ed0 lg mask dr.
Proof.
  destruct ed as [sp sq ls d], ed0 as [sp0 sq0 ls0 d0]. cbn [ed_space ed_squash ed_log_std]. intros -> -> ->.
  unfold ed_forward, apply_mask, get_distribution. cbn [ed_space ed_squash ed_log_std]. reflexivity.
Qed.

(* a forward that raises (mask on a Box space) returns no new state: the caller keeps the old object, whose log_prob is unchanged *)
Lemma failed_forward_is_noop_lemma ed lg mk dr : is_box (ed_space ed) = true -> ed_forward ed lg (Some mk) dr = None.
Proof. unfold ed_forward, apply_mask. destruct (ed_space ed); try discriminate. reflexivity. Qed.

(* entropy rows are independent too *)
Lemma spec_entropy_row_local sp b lrow ls :
  Forall (fun e => only_row b e = true) lrow -> Forall (fun e => only_row b e = true) ls ->
  only_row b (spec_entropy_row sp lrow ls) = true.
Proof.
  intros Hl Hs. destruct sp as [n|nv|n|d]; cbn [spec_entropy_row only_row]; apply forallb_Forall; try assumption.
  - apply Forall_forall. intros e He. apply in_map_iff in He as [seg [<- Hin]]. cbn [only_row]. apply forallb_Forall.
    pose proof (Forall_split_sizes (fun e => only_row b e = true) nv lrow Hl) as H. rewrite Forall_forall in H. apply H. exact Hin.
  - apply Forall_forall. intros e He. apply in_map_iff in He as [x [<- Hin]]. cbn [only_row]. rewrite Forall_forall in Hl. apply Hl. exact Hin.
  - apply Forall_forall. intros e He. apply in_map_iff in He as [x [<- Hin]]. cbn [only_row]. rewrite Forall_forall in Hs. apply Hs. exact Hin.
Qed.

Theorem entropy_rows_independent_lemma sp lg ls b :
  local2 lg -> (forall b', Forall (fun e => only_row b' e = true) ls) -> b < length lg ->
  match spec_entropy sp lg ls with
  | T1 v => length v = length lg /\ only_row b (nth b v dflt) = true
  | _ => False
  end.
Proof.
  intros Hlg Hls Hb. unfold spec_entropy. split; [apply map_length|].
  rewrite (nth_map_in _ []) by exact Hb. apply spec_entropy_row_local; [apply Hlg; exact Hb|apply Hls].
Qed.

(* vectorised IPPO: row k*E + e of a group's stacked tensor is row e of the k-th member of the group (agent_ids order) *)
Lemma nth_error_concat_uniform {R} (E : nat) (l : list (list R)) : Forall (fun r => length r = E) l ->
  forall k e, e < E -> nth_error (concat l) (k * E + e) = nth_error (nth k l []) e.
Proof.
  induction 1 as [|r l Hr _ IH]; intros k e He.
  - cbn [concat]. destruct k; cbn [nth]; rewrite !(proj2 (nth_error_None (@nil R) _)) by (cbn; lia); reflexivity.
  - destruct k as [|k]; cbn [concat nth Nat.mul Nat.add].
    + rewrite nth_error_app1 by lia. reflexivity.
    + rewrite nth_error_app2 by lia. replace (E + k * E + e - length r) with (k * E + e) by lia. apply IH. exact He.
Qed.

Theorem stack_rows_agent_major_lemma {R} (E : nat) (ids : list agent) (d d' : list (agent * list R)) (g : nat) :
  NoDup (map fst d) -> Permutation d d' ->
  (forall a, In a (group_members ids g) -> exists rows, lookup_agent a d = Some rows /\ length rows = E) ->
  stack_rows ids d' g = stack_rows ids d g /\
  forall k a e, nth_error (group_members ids g) k = Some a -> e < E ->
    nth_error (stack_rows ids d' g) (k * E + e) = match lookup_agent a d with Some rows => nth_error rows e | None => None end.
Proof.
  intros Hnd Hp Hall.
  assert (Heq : stack_rows ids d' g = stack_rows ids d g).
  { unfold stack_rows. f_equal. apply map_ext. intro a. rewrite (lookup_agent_perm a d d' Hnd Hp). reflexivity. }
  split; [exact Heq|]. intros k a e Hk He. rewrite Heq. unfold stack_rows.
  rewrite (nth_error_concat_uniform E).
  - assert (Hlt : k < length (group_members ids g)) by (apply (proj1 (nth_error_Some _ _)); rewrite Hk; discriminate).
    rewrite (nth_map_in _ (0, 0)) by exact Hlt.
    rewrite (nth_error_nth _ _ _ Hk). destruct (lookup_agent a d); [reflexivity|destruct e; reflexivity].
  - apply Forall_forall. intros r Hr. apply in_map_iff in Hr as [a0 [<- Hin]].
    destruct (Hall a0 Hin) as [rows [-> HL]]. exact HL.
  - exact He.
Qed.

(* env-major stacking (the seeded round-3 change) puts another agent's row there: refuted for 2 agents x 2 envs *)
Lemma stack_rows_env_major_refuted_lemma :
  exists (ids : list agent) (d : list (agent * list nat)) g E,
    stack_rows_env_major E ids d g <> map Some (stack_rows ids d g).
Proof. exists [(0, 0); (0, 1)], [((0, 0), [10; 11]); ((0, 1), [20; 21])], 0, 2. vm_compute. discriminate. Qed.

(* a mask whose entries all denote "legal" does not change any value: masking is the identity on unmasked rows *)
Section OnesMask.
  Variable T : Type.
  Variable P : prims T.
  Variable rho : string -> nat -> nat -> T.
  Let den := denote T P rho.
  Definition legal (m : expr) : Prop := forall v, p_maskfill T P (den m) v = v.

  Lemma ones_row lr : forall mr, length mr = length lr -> Forall legal mr ->
    map den (zipWith (fun l m => MaskFill m l) lr mr) = map den lr.
  Proof.
    induction lr as [|l lr IH]; intros [|m mr] HL HF; try discriminate; [reflexivity|].
    rewrite zipWith_cons. cbn [map]. inversion HF as [|? ? Hm HF']; subst. rewrite IH; [|cbn in HL; lia|assumption].
    unfold den at 1. cbn [denote]. fold den. rewrite (Hm (den l)). reflexivity.
  Qed.

  Theorem ones_mask_identity_lemma lg : forall mk, length mk = length lg ->
    Forall (fun p => length (snd p) = length (fst p) /\ Forall legal (snd p)) (combine lg mk) ->
    map (map den) (masked_spec lg mk) = map (map den) lg.
  Proof.
    unfold masked_spec. induction lg as [|lr lg IH]; intros [|mr mk] HL HF; try discriminate; [reflexivity|].
    rewrite zipWith_cons. cbn [map combine] in *. inversion HF as [|? ? [H1 H2] HF']; subst. cbn [fst snd] in *.
    rewrite ones_row by assumption. rewrite IH; [reflexivity|cbn in HL; lia|assumption].
  Qed.
End OnesMask.
