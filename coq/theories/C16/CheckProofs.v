(* C16 — the skeleton evaluator of the correspondence check computes the value of the whole formula:
   exact rational arithmetic for Add/Sub/Neg/SumL/MeanL, supplied values for the primitive atoms. *)
From Coq Require Import List Arith Bool String QArith Lia.
Import ListNotations.
From AgileV Require Import C16.Model C16.Check C16.Proofs.
Open Scope list_scope.
Local Notation length := List.length.
Local Notation concat := List.concat.

Section EvSound.
  Variable phi : expr -> Q.

  Definition ev_ok (e : expr) : Prop :=
    forall rest, exists q, ev e (map phi (atoms e) ++ rest) = Some (q, rest) /\ (q == denoteQ phi e)%Q.

  Lemma ev_sum_ok l : Forall ev_ok l ->
    forall rest, exists q, ev_sum ev l (map phi (concat (map atoms l)) ++ rest) = Some (q, rest)
                           /\ (q == fold_right (fun x acc => (denoteQ phi x + acc)%Q) 0%Q l)%Q.
  Proof.
    induction 1 as [|e l He _ IH]; intro rest.
    - exists 0%Q. split; reflexivity.
    - cbn [map concat ev_sum fold_right]. rewrite map_app, <- app_assoc.
      destruct (He (map phi (concat (map atoms l)) ++ rest)) as [a [Ea Qa]]. rewrite Ea.
      destruct (IH rest) as [b [Eb Qb]]. rewrite Eb.
      eexists; split; [reflexivity|]. rewrite Qred_correct, Qa, Qb. reflexivity.
  Qed.

  Theorem ev_sound_lemma e : ev_ok e.
  Proof.
    induction e using expr_ind'; intro rest;
      try (cbn [atoms map app ev denoteQ]; eexists; split; reflexivity).
    - (* Add *) cbn [atoms ev denoteQ]. rewrite map_app, <- app_assoc.
      destruct (IHe1 (map phi (atoms e2) ++ rest)) as [x [Ex Qx]]. rewrite Ex.
      destruct (IHe2 rest) as [y [Ey Qy]]. rewrite Ey.
      eexists; split; [reflexivity|]. rewrite Qred_correct, Qx, Qy. reflexivity.
    - (* Sub *) cbn [atoms ev denoteQ]. rewrite map_app, <- app_assoc.
      destruct (IHe1 (map phi (atoms e2) ++ rest)) as [x [Ex Qx]]. rewrite Ex.
      destruct (IHe2 rest) as [y [Ey Qy]]. rewrite Ey.
      eexists; split; [reflexivity|]. rewrite Qred_correct, Qx, Qy. reflexivity.
    - (* Neg *) cbn [atoms ev denoteQ]. destruct (IHe rest) as [x [Ex Qx]]. rewrite Ex.
      eexists; split; [reflexivity|]. rewrite Qx. reflexivity.
    - (* SumL *) cbn [atoms ev denoteQ]. apply ev_sum_ok. assumption.
    - (* MeanL *) cbn [atoms ev denoteQ].
      destruct (ev_sum_ok l H rest) as [s [Es Qs]]. rewrite Es.
      eexists; split; [reflexivity|]. rewrite Qred_correct, Qs. reflexivity.
  Qed.
End EvSound.

(* ------------------------------------------------------------------ the formula K evaluates for the stored-action scenario
   IS the definition, for every space, size, batch, mask and squash setting *)
Lemma var_t2_wf name B D : wf_rows B D (var_t2 name B D).
Proof.
  unfold var_t2. split; [rewrite map_length, seq_length; reflexivity|].
  apply Forall_forall. intros r Hr. apply in_map_iff in Hr as [b [<- _]]. rewrite map_length, seq_length. reflexivity.
Qed.

Lemma var_action_wf name sp B : wf_action sp B (var_action name sp B).
Proof.
  destruct sp; cbn [var_action wf_action]; try apply var_t2_wf.
  unfold var_t1. rewrite map_length, seq_length. reflexivity.
Qed.

Lemma var_draws_wf name sp B : wf_draws sp B (var_draws name sp B).
Proof.
  destruct sp as [n|nv|n|d]; cbn [var_draws wf_draws wf_action ncomp]; try apply var_t2_wf.
  - unfold var_t1. rewrite map_length, seq_length. reflexivity.
  - split; [rewrite map_length, seq_length; reflexivity|].
    apply Forall_forall. intros c Hc. apply in_map_iff in Hc as [j [<- _]]. rewrite map_length, seq_length. reflexivity.
Qed.

Lemma opt_mask_ok masked name sp B : (masked = true -> is_box sp = false) -> mask_ok sp B (opt_mask masked name sp B).
Proof. intro H. destruct masked; cbn; [split; [auto|apply var_t2_wf]|exact I]. Qed.

Lemma var_action_misses s name d B : 0 < B -> 0 < d -> tens_eqb (tmap Tanh s) (var_action name (Box d) B) = false.
Proof.
  intros HB Hd. cbn [var_action ncomp]. unfold var_t2.
  destruct B as [|B]; [lia|]. destruct d as [|d]; [lia|].
  cbn [seq map]. destruct s as [v|m|]; cbn [tmap tens_eqb]; try reflexivity.
  destruct m as [|r m]; cbn [map list_eqb]; [reflexivity|].
  destruct r as [|x r]; cbn [map list_eqb expr_eqb]; reflexivity.
Qed.

Theorem scenario_stored_formula_lemma sp squash masked B :
  space_ok sp -> 0 < B -> 0 < ncomp sp -> (masked = true -> is_box sp = false) ->
  run_scenario ScStored sp squash masked B false
  = named "lp2" (spec_logprob sp (squash && is_box sp)
                              (eff_logits (var_t2 "logit2" B (flatdim sp)) (opt_mask masked "mask2" sp B))
                              (ed_log_std (ed_init sp squash)) (var_action "action" sp B)).
Proof.
  intros Hok HB Hc Hm. unfold run_scenario.
  set (ac := actor_init sp squash).
  destruct (actor_forward ac (var_t2 "logit" B (flatdim sp)) (opt_mask masked "mask" sp B) (var_draws "sampled" sp B))
    as [[[[ac1 a1] lp1] e1]|] eqn:F1.
  2:{ unfold actor_forward in F1. rewrite (ed_forward_eq _ _ _ _ B) in F1; try discriminate;
      cbn [ac actor_init ac_head ed_init ed_space]; [assumption|apply var_t2_wf|apply opt_mask_ok; assumption]. }
  apply actor_forward_head in F1 as [ed1 [a0 [F1 [H1 _]]]].
  pose proof (ed_forward_space _ _ _ _ _ _ _ _ F1) as [Hsp1 [Hsq1 Hls1]].
  cbn [ac actor_init ac_head ed_init ed_space ed_squash ed_log_std] in Hsp1, Hsq1, Hls1.
  destruct (actor_forward ac1 (var_t2 "logit2" B (flatdim sp)) (opt_mask masked "mask2" sp B) (var_draws "sampled2" sp B))
    as [[[[ac2 a2] lp2] e2]|] eqn:F2.
  2:{ unfold actor_forward in F2. rewrite H1 in F2. rewrite (ed_forward_eq _ _ _ _ B) in F2; try discriminate;
      rewrite Hsp1; [assumption|apply var_t2_wf|apply opt_mask_ok; assumption]. }
  apply actor_forward_head in F2 as [ed2 [b0 [F2 [H2 _]]]]. rewrite H1 in F2.
  unfold action_log_prob. rewrite H2. f_equal.
  rewrite (logprob_is_spec_stored_lemma ed1 (var_t2 "logit2" B (flatdim sp)) (opt_mask masked "mask2" sp B)
             (var_draws "sampled2" sp B) ed2 b0 lp2 e2 (var_action "action" sp B) B); try assumption.
  - rewrite Hsp1, Hsq1, Hls1. reflexivity.
  - unfold ed_ok. rewrite Hsq1, Hsp1. intro H. apply andb_true_iff in H. tauto.
  - rewrite Hsp1. assumption.
  - rewrite Hsp1. apply var_t2_wf.
  - rewrite Hsp1. apply opt_mask_ok. assumption.
  - rewrite Hsp1. apply var_action_wf.
  - rewrite Hsq1. destruct (squash && is_box sp) eqn:E; [right|left; reflexivity].
    apply andb_true_iff in E as [_ Eb]. destruct sp as [n|nv|n|d]; try discriminate.
    intros d1 _. unfold cache_hit. destruct (td_sampled d1); [|reflexivity].
    rewrite (var_action_misses t "action" d B) by assumption. apply andb_false_r.
Qed.

(* the same for PPO: get_action on batch 1 (with mask), then evaluate_actions(batch 2, stored actions) *)
Theorem scenario_ppo_eval_formula_lemma sp squash masked B :
  space_ok sp -> 0 < B -> 0 < ncomp sp -> (masked = true -> is_box sp = false) ->
  let S := spec_logprob sp (squash && is_box sp) (var_t2 "logit2" B (flatdim sp)) (ed_log_std (ed_init sp squash))
                        (var_action "action" sp B) in
  run_scenario ScPPOEval sp squash masked B false
  = oapp (named "lp2" S)
         (named "ent2" (ppo_entropy S (if squash && is_box sp then None
                                       else Some (spec_entropy sp (var_t2 "logit2" B (flatdim sp)) (ed_log_std (ed_init sp squash)))))).
Proof.
  intros Hok HB Hc Hm S. unfold run_scenario.
  set (ac := actor_init sp squash).
  unfold ppo_get_action.
  destruct (ed_forward (ac_head ac) (var_t2 "logit" B (flatdim sp)) (opt_mask masked "mask" sp B) (var_draws "sampled" sp B))
    as [[[[ed1 a1] lp1] e1]|] eqn:F1.
  2:{ rewrite (ed_forward_eq _ _ _ _ B) in F1
        by (cbn [ac actor_init ac_head ed_init ed_space]; first [assumption|apply var_t2_wf|apply opt_mask_ok; assumption]).
      cbv zeta in F1. discriminate. }
  pose proof (ed_forward_space _ _ _ _ _ _ _ _ F1) as [Hsp1 [Hsq1 Hls1]].
  cbn [ac actor_init ac_head ed_init ed_space ed_squash ed_log_std] in Hsp1, Hsq1, Hls1.
  destruct (ppo_evaluate_actions {| ac_head := ed1; ac_squash := ac_squash ac |} (var_t2 "logit2" B (flatdim sp))
              (var_draws "sampled2" sp B) (var_action "action" sp B)) as [[[ac2 lp2] e2]|] eqn:E.
  2:{ unfold ppo_evaluate_actions in E. cbn [ac_head] in E.
      rewrite (ed_forward_eq _ _ None _ B) in E by (rewrite Hsp1; first [assumption|apply var_t2_wf|exact I]).
      cbv zeta in E. discriminate. }
  assert (Hedok : ed_ok ed1).
  { unfold ed_ok. rewrite Hsq1, Hsp1. intro H. apply andb_true_iff in H. tauto. }
  pose proof E as E'. unfold ppo_evaluate_actions in E'. cbn [ac_head] in E'.
  destruct (ed_forward ed1 (var_t2 "logit2" B (flatdim sp)) None (var_draws "sampled2" sp B)) as [[[[ed2 b0] lpx] entx]|] eqn:F2;
    [|discriminate].
  injection E' as <- Hlp He.
  assert (Hent : entx = if squash && is_box sp then None
                        else Some (spec_entropy sp (var_t2 "logit2" B (flatdim sp)) (ed_log_std (ed_init sp squash)))).
  { rewrite (entropy_is_spec_lemma ed1 (var_t2 "logit2" B (flatdim sp)) None (var_draws "sampled2" sp B) ed2 b0 lpx entx B) ; try eassumption;
      try (rewrite Hsp1; first [assumption|apply var_t2_wf|exact I]).
    rewrite Hsq1, Hsp1, Hls1. reflexivity. }
  assert (HS : lp2 = S).
  { pose proof (ppo_evaluate_is_spec_lemma {| ac_head := ed1; ac_squash := ac_squash ac |} (var_t2 "logit2" B (flatdim sp))
                  (var_draws "sampled2" sp B) (var_action "action" sp B) {| ac_head := ed2; ac_squash := squash |} lp2 e2 B) as L.
    cbn [ac_head] in L. rewrite Hsp1, Hsq1, Hls1 in L. unfold S. apply L; try assumption.
    - apply var_t2_wf.
    - apply var_action_wf.
    - destruct (squash && is_box sp) eqn:Eb; [right|left; reflexivity].
      apply andb_true_iff in Eb as [_ Eb]. destruct sp as [n|nv|n|d]; try discriminate.
      intros d1 _. unfold cache_hit. destruct (td_sampled d1); [|reflexivity].
      rewrite (var_action_misses t "action" d B) by assumption. apply andb_false_r. }
  rewrite <- He, Hent, <- Hlp. fold (action_log_prob {| ac_head := ed2; ac_squash := ac_squash ac |} (var_action "action" sp B)).
  rewrite Hlp, HS. reflexivity.
Qed.

(* learn(): with the restored component axis the formula of the learn scenario is the one of evaluate_actions *)
Theorem scenario_ppo_learn_formula_lemma sp squash masked B :
  run_scenario ScPPOLearn sp squash masked B false = run_scenario ScPPOEval sp squash masked B false.
Proof.
  unfold run_scenario.
  destruct (ppo_get_action (actor_init sp squash) (var_t2 "logit" B (flatdim sp)) (opt_mask masked "mask" sp B)
              (var_draws "sampled" sp B)) as [[[[ac1 a1] lp1] e1]|] eqn:G; [|reflexivity].
  unfold ppo_learn_evaluate.
  assert (Hsp : ed_space (ac_head ac1) = sp).
  { unfold ppo_get_action in G.
    destruct (ed_forward (ac_head (actor_init sp squash)) (var_t2 "logit" B (flatdim sp)) (opt_mask masked "mask" sp B)
                (var_draws "sampled" sp B)) as [[[[ed1 x1] x2] x3]|] eqn:F; [|discriminate].
    injection G as <- _ _ _. cbn [ac_head]. apply (ed_forward_space _ _ _ _ _ _ _ _ F). }
  rewrite Hsp, (learn_actions_id_lemma sp B) by apply var_action_wf. reflexivity.
Qed.

(* IPPO._learn_individual: actor(batch_states) then action_log_prob(minibatch actions) *)
Theorem scenario_ippo_learn_formula_lemma sp squash masked B :
  space_ok sp -> 0 < B -> 0 < ncomp sp -> (masked = true -> is_box sp = false) ->
  run_scenario ScIPPOLearn sp squash masked B false
  = oapp (named "lp2" (spec_logprob sp (squash && is_box sp) (var_t2 "logit2" B (flatdim sp)) (ed_log_std (ed_init sp squash))
                                    (var_action "action" sp B)))
         (if squash && is_box sp then Some [("ent2"%string, [])]
          else named "ent2" (spec_entropy sp (var_t2 "logit2" B (flatdim sp)) (ed_log_std (ed_init sp squash)))).
Proof.
  intros Hok HB Hc Hm. unfold run_scenario.
  set (ac := actor_init sp squash).
  destruct (actor_forward ac (var_t2 "logit" B (flatdim sp)) (opt_mask masked "mask" sp B) (var_draws "sampled" sp B))
    as [[[[ac1 a1] lp1] e1]|] eqn:F1.
  2:{ unfold actor_forward in F1.
      rewrite (ed_forward_eq _ _ _ _ B) in F1
        by (cbn [ac actor_init ac_head ed_init ed_space]; first [assumption|apply var_t2_wf|apply opt_mask_ok; assumption]).
      cbv zeta in F1. discriminate. }
  apply actor_forward_head in F1 as [ed1 [a0 [F1 [H1 _]]]].
  pose proof (ed_forward_space _ _ _ _ _ _ _ _ F1) as [Hsp1 [Hsq1 Hls1]].
  cbn [ac actor_init ac_head ed_init ed_space ed_squash ed_log_std] in Hsp1, Hsq1, Hls1.
  unfold ippo_learn_evaluate. rewrite H1, Hsp1.
  rewrite (learn_actions_id_lemma sp B) by apply var_action_wf.
  destruct (actor_forward ac1 (var_t2 "logit2" B (flatdim sp)) None (var_draws "sampled2" sp B))
    as [[[[ac2 a2] lp2] e2]|] eqn:F2.
  2:{ unfold actor_forward in F2. rewrite H1 in F2.
      rewrite (ed_forward_eq _ _ None _ B) in F2 by (rewrite Hsp1; first [assumption|apply var_t2_wf|exact I]).
      cbv zeta in F2. discriminate. }
  apply actor_forward_head in F2 as [ed2 [b0 [F2 [H2 _]]]]. rewrite H1 in F2.
  assert (Hedok : ed_ok ed1).
  { unfold ed_ok. rewrite Hsq1, Hsp1. intro H. apply andb_true_iff in H. tauto. }
  unfold action_log_prob. rewrite H2.
  rewrite (logprob_is_spec_stored_lemma ed1 (var_t2 "logit2" B (flatdim sp)) None
             (var_draws "sampled2" sp B) ed2 b0 lp2 e2 (var_action "action" sp B) B); try assumption;
    try (rewrite Hsp1; first [assumption|apply var_t2_wf|apply var_action_wf|exact I]).
  2:{ rewrite Hsq1. destruct (squash && is_box sp) eqn:E; [right|left; reflexivity].
      apply andb_true_iff in E as [_ Eb]. destruct sp as [n|nv|n|d]; try discriminate.
      intros d1 _. unfold cache_hit. destruct (td_sampled d1); [|reflexivity].
      rewrite (var_action_misses t "action" d B) by assumption. apply andb_false_r. }
  rewrite (entropy_is_spec_lemma ed1 (var_t2 "logit2" B (flatdim sp)) None (var_draws "sampled2" sp B) ed2 b0 lp2 e2 B);
    try exact F2; try (rewrite Hsp1; first [assumption|apply var_t2_wf|exact I]).
  cbn [eff_logits]. rewrite Hsp1, Hsq1, Hls1.
  destruct (squash && is_box sp); reflexivity.
Qed.
