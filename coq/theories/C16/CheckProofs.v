(* C16 — the skeleton evaluator of the correspondence check computes the value of the whole formula:
   exact rational arithmetic for Add/Sub/Neg/SumL/MeanL, supplied values for the primitive atoms. *)
From Coq Require Import List Arith Bool String QArith Lia.
Import ListNotations.
From AgileV Require Import C16.Model C16.Check C16.Proofs.
Open Scope list_scope.
Local Notation length := List.length.
Local Notation concat := List.concat.

Section EvSound.
  Variable phi : expr -> Q.

  Definition ev_ok (e : expr) : Prop :=
    forall rest, exists q, ev e (map phi (atoms e) ++ rest) = Some (q, rest) /\ (q == denoteQ phi e)%Q.

  Lemma ev_sum_ok l : Forall ev_ok l ->
    forall rest, exists q, ev_sum ev l (map phi (concat (map atoms l)) ++ rest) = Some (q, rest)
                           /\ (q == fold_right (fun x acc => (denoteQ phi x + acc)%Q) 0%Q l)%Q.
  Proof.
    induction 1 as [|e l He _ IH]; intro rest.
    - exists 0%Q. split; reflexivity.
    - cbn [map concat ev_sum fold_right]. rewrite map_app, <- app_assoc.
      destruct (He (map phi (concat (map atoms l)) ++ rest)) as [a [Ea Qa]]. rewrite Ea.
      destruct (IH rest) as [b [Eb Qb]]. rewrite Eb.
      eexists; split; [reflexivity|]. rewrite Qred_correct, Qa, Qb. reflexivity.
  Qed.

  Theorem ev_sound_lemma e : ev_ok e.
  Proof.
    induction e using expr_ind'; intro rest;
      try (cbn [atoms map app ev denoteQ]; eexists; split; reflexivity).
    - (* Add *) cbn [atoms ev denoteQ]. rewrite map_app, <- app_assoc.
      destruct (IHe1 (map phi (atoms e2) ++ rest)) as [x [Ex Qx]]. rewrite Ex.
      destruct (IHe2 rest) as [y [Ey Qy]]. rewrite Ey.
      eexists; split; [reflexivity|]. rewrite Qred_correct, Qx, Qy. reflexivity.
    - (* Sub *) cbn [atoms ev denoteQ]. rewrite map_app, <- app_assoc.
      destruct (IHe1 (map phi (atoms e2) ++ rest)) as [x [Ex Qx]]. rewrite Ex.
      destruct (IHe2 rest) as [y [Ey Qy]]. rewrite Ey.
      eexists; split; [reflexivity|]. rewrite Qred_correct, Qx, Qy. reflexivity.
    - (* Neg *) cbn [atoms ev denoteQ]. destruct (IHe rest) as [x [Ex Qx]]. rewrite Ex.
      eexists; split; [reflexivity|]. rewrite Qx. reflexivity.
    - (* SumL *) cbn [atoms ev denoteQ]. apply ev_sum_ok. assumption.
    - (* MeanL *) cbn [atoms ev denoteQ].
      destruct (ev_sum_ok l H rest) as [s [Es Qs]]. rewrite Es.
      eexists; split; [reflexivity|]. rewrite Qred_correct, Qs. reflexivity.
  Qed.
End EvSound.
