(* C19 — the instance that the correspondence check EXECUTES (the generic model over Bignums' BigQ, as
   set up in C19/Check.v) is covered by the theorems: CoqEAL's proven interpretation bigQ2rat : bigQ -> rat
   is a homomorphism for the normalising BigQ operations, every function of the generic model commutes
   with a homomorphism, and rat is a real field. *)
From Coq Require QArith.
From Bignums Require Import BigQ.
From mathcomp Require Import all_ssreflect all_algebra.
From CoqEAL Require Import hrel param refinements binrat.
From AgileV Require Import C19.Model C19.Check C19.SM C19.Refine C19.Proofs.
Import Refinements.Op.
Set Implicit Arguments.
Unset Strict Implicit.
Unset Printing Implicit Defensive.
Import GRing.Theory Num.Theory.
Local Open Scope ring_scope.

(* ---- every function of the generic model commutes with a homomorphism of the carrier ---- *)
Section Hom.
Variables (A B : Type) (h : A -> B).
Variables (zA oA : A) (addA subA mulA divA : A -> A -> A).
Variables (zB oB : B) (addB subB mulB divB : B -> B -> B).
Hypothesis h0 : h zA = zB.
Hypothesis h1 : h oA = oB.
Hypothesis hadd : forall a b, h (addA a b) = addB (h a) (h b).
Hypothesis hsub : forall a b, h (subA a b) = subB (h a) (h b).
Hypothesis hmul : forall a b, h (mulA a b) = mulB (h a) (h b).
Hypothesis hdiv : forall a b, h (divA a b) = divB (h a) (h b).
Notation hv := (map h).
Notation hm := (map (map h)).

Lemma map2_hom X Y Z X' Y' Z' (f : X -> Y -> Z) (g : X' -> Y' -> Z') (k : Z -> Z') (k1 : X -> X') (k2 : Y -> Y') :
  (forall x y, k (f x y) = g (k1 x) (k2 y)) ->
  forall a b, map k (map2 f a b) = map2 g (map k1 a) (map k2 b).
Proof. by move=> H; elim=> [|x a IH] [|y b] //=; rewrite H IH. Qed.

Lemma dot_hom u v : h (dot zA addA mulA u v) = dot zB addB mulB (hv u) (hv v).
Proof. by elim: u v => [|x u IH] [|y v] //=; rewrite hadd hmul IH. Qed.

Lemma nth_hom r j : h (List.nth j r zA) = List.nth j (hv r) zB.
Proof. by elim: r j => [|x r IH] [|j] //=. Qed.

Lemma mvec_hom S v : hv (mvec zA addA mulA S v) = mvec zB addB mulB (hm S) (hv v).
Proof. by rewrite /mvec !lmapE -!map_comp; apply: eq_map => r /=; exact: dot_hom. Qed.

Lemma col_hom S j : hv (col zA S j) = col zB (hm S) j.
Proof. by rewrite /col !lmapE -!map_comp; apply: eq_map => r /=; exact: nth_hom. Qed.

Lemma vmat_hom v S : hv (vmat zA addA mulA v S) = vmat zB addB mulB (hv v) (hm S).
Proof.
rewrite /vmat !lmapE !lengthE size_map -map_comp; apply: eq_map => j /=.
by rewrite dot_hom col_hom.
Qed.

Lemma quad_hom S v : h (Model.quad zA addA mulA S v) = Model.quad zB addB mulB (hm S) (hv v).
Proof. by rewrite /Model.quad dot_hom vmat_hom. Qed.

Lemma sm_step_hom S v :
  hm (sm_step zA oA addA subA mulA divA S v) = sm_step zB oB addB subB mulB divB (hm S) (hv v).
Proof.
rewrite /sm_step -mvec_hom -vmat_hom.
apply: map2_hom => ui r; apply: map2_hom => sij wj.
by rewrite hsub hdiv hmul hadd h1 dot_hom.
Qed.

Lemma scal_id_hom n x : hm (scal_id zA n x) = scal_id zB n (h x).
Proof.
rewrite /scal_id !lmapE -map_comp; apply: eq_map => i /=.
by rewrite !lmapE -map_comp; apply: eq_map => j /=; case: ifP.
Qed.

Lemma sigma_init_hom l n : hm (sigma_init zA oA divA l n) = sigma_init zB oB divB (h l) n.
Proof. by rewrite /sigma_init scal_id_hom hdiv h1. Qed.

Lemma gram_step_hom M v : hm (gram_step addA mulA M v) = gram_step addB mulB (hm M) (hv v).
Proof.
rewrite /gram_step; apply: map2_hom => vi r; apply: map2_hom => a vj.
by rewrite hadd hmul.
Qed.

Lemma sigma_run_hom l n vs :
  hm (sigma_run zA oA addA subA mulA divA l n vs) = sigma_run zB oB addB subB mulB divB (h l) n (map hv vs).
Proof.
rewrite /sigma_run -sigma_init_hom; elim: vs (sigma_init _ _ _ _ _) => [|v vs IH] S0 //=.
by rewrite IH sm_step_hom.
Qed.

Lemma gram_hom l n vs :
  hm (Model.gram zA addA mulA l n vs) = Model.gram zB addB mulB (h l) n (map hv vs).
Proof.
rewrite /Model.gram -scal_id_hom; elim: vs (scal_id _ _ _) => [|v vs IH] S0 //=.
by rewrite IH gram_step_hom.
Qed.
End Hom.

(* ---- BigQ with the normalising operations, interpreted in rat ---- *)
Notation q2r := bigQ2rat.
Lemma q2r_add a b : q2r (BigQ.add_norm a b) = q2r a + q2r b.
Proof. have := refine_ratBigQ_add; rewrite refinesE => H; exact: (H _ a erefl _ b erefl). Qed.
Lemma q2r_sub a b : q2r (BigQ.sub_norm a b) = fsub (q2r a) (q2r b).
Proof. have := refine_ratBigQ_sub; rewrite refinesE => H; exact: (H _ a erefl _ b erefl). Qed.
Lemma q2r_mul a b : q2r (BigQ.mul_norm a b) = q2r a * q2r b.
Proof. have := refine_ratBigQ_mul; rewrite refinesE => H; exact: (H _ a erefl _ b erefl). Qed.
Lemma q2r_div a b : q2r (BigQ.div_norm a b) = fdiv (q2r a) (q2r b).
Proof. have := refine_ratBigQ_div; rewrite refinesE => H; exact: (H _ a erefl _ b erefl). Qed.
Lemma q2r_0 : q2r B0 = 0.
Proof. have := refine_ratBigQ_zero; rewrite refinesE => H; exact: H. Qed.
Lemma q2r_1 : q2r B1 = 1.
Proof. have := refine_ratBigQ_one; rewrite refinesE => H; exact: H. Qed.
Lemma q2r_eqb a b : BigQ.eq_bool a b = (q2r a == q2r b).
Proof. have := refine_ratBigQ_eq; rewrite refinesE => H; by rewrite (H _ a erefl _ b erefl). Qed.
(* the comparison used by Check.v *)
Lemma q2r_le a b : bq_le a b = (q2r a <= q2r b).
Proof.
have := refine_ratBigQ_le; rewrite refinesE => H.
have E : forall x y, bool_R x y -> x = y by move=> x y [].
rewrite (E _ _ (H _ a erefl _ b erefl)) /leq_op /le_bigQ /bq_le !BigQ.spec_compare.
rewrite -(QArith_base.Qcompare_antisym (BigQ.to_Q a)).
by case: (QArith_base.Qcompare _ _).
Qed.

Lemma q2r_gt0 a : ~~ bq_le a B0 -> 0 < q2r a.
Proof. by rewrite q2r_le q2r_0 -Order.TotalTheory.ltNge. Qed.

Section Executed.
Notation qm := (map (map q2r)).
Notation qv := (map q2r).
(* exactly what Check.v runs *)
Notation Bsigma_run := (@sigma_run bigQ B0 B1 BigQ.add_norm BigQ.sub_norm BigQ.mul_norm BigQ.div_norm).
Notation Bgram := (@Model.gram bigQ B0 BigQ.add_norm BigQ.mul_norm).

(* The matrices computed by the EXECUTED instance, read as rationals: inverse of the regularised Gram
   matrix, symmetric, non-negative radicands (as decided by Check.v's own comparison bq_le). *)
Theorem executed_gram_inverse (lam : bigQ) (n : nat) (vs : seq (seq bigQ)) :
  0 < q2r lam -> all (fun v => size v == n) vs ->
  let S := Bsigma_run lam n vs in
  [/\ mx_of n (qm (Bgram lam n vs)) *m mx_of n (qm S) = 1%:M,
      (mx_of n (qm S))^T = mx_of n (qm S)
    & forall g, size g = n -> bq_le B0 (Bquad S g)].
Proof.
move=> l0 szs S.
have szs' : all (fun v : seq rat => size v == n) (map qv vs).
  by rewrite all_map; apply: sub_all szs => v /=; rewrite size_map.
have [H1 H2 H3] := model_gram_inverse l0 szs'.
have ES : qm S = sigma_run 0 1 +%R (@fsub rat_realFieldType) *%R (@fdiv rat_realFieldType) (q2r lam) n (map qv vs).
  exact: (sigma_run_hom q2r_0 q2r_1 q2r_add q2r_sub q2r_mul q2r_div).
have EG : qm (Bgram lam n vs) = Model.gram 0 +%R *%R (q2r lam) n (map qv vs).
  exact: (gram_hom q2r_0 q2r_add q2r_mul).
split=> [||g sg]; rewrite ?ES ?EG //.
rewrite q2r_le q2r_0 /Bquad (quad_hom q2r_0 q2r_add q2r_mul) ES.
by apply: H3; rewrite size_map.
Qed.

(* agent level, executed instance: after any history without the private resize helper, the matrix held
   by the state machine that Check.v steps is that run *)
Theorem executed_agent_sigma (rr : bool) (lam : bigQ) (ly : layer) (ops : seq (@op bigQ)) :
  List.forallb no_resize ops = true -> lam_clean ops = true ->
  sig (List.fold_left (Bstep rr) ops (Binit lam ly)) = Bsigma_run (cur_lam lam ops) (segment ly ops).1 (segment ly ops).2.
Proof. exact: agent_sigma_is_run. Qed.
End Executed.
