(* C19, part 1 (mathcomp, ssreflect style): the Sherman–Morrison update keeps an exact inverse of the
   regularised Gram matrix, for every dimension, every real field and every sequence of features. *)
From mathcomp Require Import all_ssreflect all_algebra.
Set Implicit Arguments.
Unset Strict Implicit.
Unset Printing Implicit Defensive.
Import Order.Theory GRing.Theory Num.Theory.
Local Open Scope ring_scope.

Section SM.
Variable F : realFieldType.
Variable n : nat.
Implicit Types (A S : 'M[F]_n) (v x : 'cV[F]_n).

Definition qform S v : F := (v^T *m S *m v) 0 0.
(* sigma_inv -= (sigma_inv @ v @ v.T @ sigma_inv) / (1 + v.T @ sigma_inv @ v) *)
Definition sm_update S v : 'M[F]_n :=
  S - (1 + qform S v)^-1 *: (S *m v *m v^T *m S).

Lemma quad_scalar S v : v^T *m S *m v = (qform S v)%:M.
Proof. by rewrite [LHS]mx11_scalar. Qed.

Lemma sherman_morrison A S v :
  A *m S = 1%:M -> 1 + qform S v != 0 ->
  (A + v *m v^T) *m sm_update S v = 1%:M.
Proof.
move=> AS nz; rewrite /sm_update.
set c := qform S v. set k := (1 + c)^-1.
pose P := v *m v^T *m S.
have E1 : A *m (S *m v *m v^T *m S) = P by rewrite !mulmxA AS mul1mx.
have E2 : v *m v^T *m (S *m v *m v^T *m S) = c *: P.
  have -> : v *m v^T *m (S *m v *m v^T *m S) = v *m (v^T *m S *m v) *m (v^T *m S).
    by rewrite !mulmxA.
  by rewrite quad_scalar -/c mul_mx_scalar -scalemxAl /P mulmxA.
rewrite mulmxBr -scalemxAr mulmxDl AS mulmxDl E1 E2 -/P.
rewrite scalerDr scalerA opprD addrA.
rewrite -[1%:M + P - _]addrA -[_ + (P - _) - _]addrA.
have -> : P - k *: P - (k * c) *: P = (1 - k - k * c) *: P.
  by rewrite !scalerBl scale1r.
have -> : 1 - k - k * c = 0.
  by rewrite -addrA -opprD -{1}[k]mulr1 -mulrDr /k mulVf // subrr.
by rewrite scale0r addr0.
Qed.

Variable lam : F.
Hypothesis lam_gt0 : 0 < lam.

(* newest feature first *)
Fixpoint gram (vs : seq 'cV[F]_n) : 'M[F]_n :=
  if vs is v :: vs' then gram vs' + v *m v^T else lam%:M.
Fixpoint sinv (vs : seq 'cV[F]_n) : 'M[F]_n :=
  if vs is v :: vs' then sm_update (sinv vs') v else (lam^-1)%:M.

Lemma sq_ge0 m (x : 'cV[F]_m) : 0 <= (x^T *m x) 0 0.
Proof.
rewrite mxE; apply: sumr_ge0 => i _; rewrite mxE; exact: sqr_ge0.
Qed.

Lemma sq_eq0 m (x : 'cV[F]_m) : (x^T *m x) 0 0 = 0 -> x = 0.
Proof.
rewrite mxE => /eqP; rewrite psumr_eq0; last by move=> i _; rewrite mxE; exact: sqr_ge0.
move/allP => H; apply/colP => i; rewrite [RHS]mxE.
have := H i (mem_index_enum _); rewrite mxE /= mulf_eq0 orbb => /eqP. done.
Qed.

Lemma sq_gt0 m (x : 'cV[F]_m) : x != 0 -> 0 < (x^T *m x) 0 0.
Proof.
move=> xn0; rewrite lt_def sq_ge0 andbT; apply: contraNneq xn0 => /sq_eq0 ->. done.
Qed.

Lemma quad_gram_ge0 vs x : 0 <= qform (gram vs) x.
Proof.
rewrite /qform; elim: vs => [|v vs IH] /=.
  by rewrite mul_mx_scalar -scalemxAl mxE mulr_ge0 ?sq_ge0 // ltW.
rewrite mulmxDr mulmxDl mxE addr_ge0 //.
have -> : x^T *m (v *m v^T) *m x = (v^T *m x)^T *m (v^T *m x).
  by rewrite trmx_mul trmxK !mulmxA.
exact: sq_ge0.
Qed.

(* x^T A_k x = lam |x|^2 + sum (v_i^T x)^2 > 0 : the regularised Gram matrix is positive definite *)
Lemma quad_gram_gt0 vs x : x != 0 -> 0 < qform (gram vs) x.
Proof.
move=> xn0; rewrite /qform; elim: vs => [|v vs IH] /=.
  by rewrite mul_mx_scalar -scalemxAl mxE mulr_gt0 ?sq_gt0.
rewrite mulmxDr mulmxDl mxE ltr_paddr //.
have -> : x^T *m (v *m v^T) *m x = (v^T *m x)^T *m (v^T *m x).
  by rewrite trmx_mul trmxK !mulmxA.
exact: sq_ge0.
Qed.

Theorem gram_inverse vs :
  [/\ gram vs *m sinv vs = 1%:M, (sinv vs)^T = sinv vs & forall x, 0 <= qform (sinv vs) x].
Proof.
elim: vs => [|v vs [IH1 IH2 IH3]] /=.
  split.
  - by rewrite -scalar_mxM mulfV // gt_eqF.
  - by rewrite tr_scalar_mx.
  - by move=> x; rewrite /qform mul_mx_scalar -scalemxAl mxE mulr_ge0 ?sq_ge0 // invr_ge0 ltW.
have nz : 1 + qform (sinv vs) v != 0.
  by rewrite gt_eqF // ltr_paddr ?ltr01 ?IH3.
have H1 := sherman_morrison IH1 nz.
have Hsym : (sm_update (sinv vs) v)^T = sm_update (sinv vs) v.
  rewrite /sm_update linearB /= linearZ /= !trmx_mul trmxK IH2.
  by rewrite !mulmxA.
split=> // x.
set S' := sm_update (sinv vs) v. set G' := gram vs + v *m v^T.
have H2 : S' *m G' = 1%:M by apply: mulmx1C.
have -> : qform S' x = qform (gram (v :: vs)) (S' *m x).
  rewrite /qform /= -/G' trmx_mul Hsym.
  have -> : x^T *m S' *m G' *m (S' *m x) = x^T *m (S' *m G') *m S' *m x by rewrite !mulmxA.
  by rewrite H2 mulmx1.
exact: quad_gram_ge0.
Qed.

(* the maintained matrix IS the inverse (mathcomp's invmx) of the regularised Gram matrix *)
Theorem sinv_is_invmx vs : gram vs \in unitmx /\ sinv vs = invmx (gram vs).
Proof.
have [H1 _ _] := gram_inverse vs.
have U : gram vs \in unitmx by case/mulmx1_unit: H1.
split=> //.
by rewrite -[LHS]mul1mx -(mulVmx U) -mulmxA H1 mulmx1.
Qed.

(* every step of the update divides by a number >= 1 *)
Theorem denominator_ge1 vs v : 1 <= 1 + qform (sinv vs) v.
Proof. by have [_ _ H] := gram_inverse vs; rewrite ler_addl. Qed.

(* sigma_inv is positive definite, not just semi-definite *)
Theorem sinv_posdef vs x : x != 0 -> 0 < qform (sinv vs) x.
Proof.
move=> xn0; have [H1 Hsym _] := gram_inverse vs.
have H2 : sinv vs *m gram vs = 1%:M by apply: mulmx1C.
have -> : qform (sinv vs) x = qform (gram vs) (sinv vs *m x).
  rewrite /qform trmx_mul Hsym.
  have -> : x^T *m sinv vs *m gram vs *m (sinv vs *m x) = x^T *m (sinv vs *m gram vs) *m sinv vs *m x.
    by rewrite !mulmxA.
  by rewrite H2 mulmx1.
apply: quad_gram_gt0; apply: contraNneq xn0 => E.
by rewrite -[x]mul1mx -H1 -mulmxA E mulmx0.
Qed.

(* the behaviour before the fix commits ca382d7 / 2aab0c8: sigma_inv started at lam * I, which is the
   inverse of the empty regularised Gram matrix lam * I only when lam = 1 *)
Theorem init_lambda_refuted : (0 < n)%N -> lam != 1 -> gram [::] *m lam%:M != 1%:M.
Proof.
move=> n0 l1 /=; rewrite -scalar_mxM; pose i := Ordinal n0.
apply/eqP => /matrixP /(_ i i); rewrite !mxE eqxx !mulr1n => E.
have : lam ^+ 2 == 1 ^+ 2 by rewrite expr2 E expr1n.
by rewrite eqr_expn2 ?ler01 ?ltW // (negbTE l1).
Qed.

End SM.
