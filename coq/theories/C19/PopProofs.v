(* C19 — population level: agents are created by cloning, every operation acts on ONE member. Each member's state —
   in particular its confidence matrix — is a function of its own lineage (the founder's construction, the operations its
   ancestors went through before each clone, its own operations) and of nothing else: operations on one member never
   change another (the clone's matrix is a copy, not an alias). Any carrier. *)
From Coq Require Import List Arith Bool Lia.
Import ListNotations.
From AgileV Require Import Base.Prelude C19.Model C19.Proofs.
Local Open Scope nat_scope.

Section Pop.
Context {T : Type}.
Variables (zero one : T) (add sub mul div : T -> T -> T) (rr : bool).
Notation bstate := (@bstate T).
Notation op := (@op T).
Notation step := (@step T zero one add sub mul div rr).
Notation run := (@run T zero one add sub mul div rr).

Inductive pop_op :=
| On (i : nat) (o : op)        (* member i decides / learns / is mutated / reloaded *)
| CloneOf (i : nat).           (* a clone of member i joins the population (tournament selection) *)

Variable s0 : bstate.           (* the founder, as constructed *)

Definition pstep (pop : list bstate) (po : pop_op) : list bstate :=
  match po with
  | On i o => update i (step (nth i pop s0) o) pop
  | CloneOf i => pop ++ [step (nth i pop s0) Clone]
  end.
(* the lineage of every member, kept alongside *)
Definition hstep (hist : list (list op)) (po : pop_op) : list (list op) :=
  match po with
  | On i o => update i (nth i hist [] ++ [o]) hist
  | CloneOf i => hist ++ [nth i hist [] ++ [Clone]]
  end.
Definition prun (pos : list pop_op) : list bstate := fold_left pstep pos [s0].
Definition lineages (pos : list pop_op) : list (list op) := fold_left hstep pos [[]].

Definition agree (pop : list bstate) (hist : list (list op)) : Prop :=
  length pop = length hist /\ forall j, nth j pop s0 = run s0 (nth j hist []).

Lemma run_snoc h o : run s0 (h ++ [o]) = step (run s0 h) o.
Proof. unfold Model.run. now rewrite fold_left_app. Qed.

Lemma agree_step pop hist po : agree pop hist -> agree (pstep pop po) (hstep hist po).
Proof.
  intros [HL HA]. destruct po as [i o|i]; cbn [pstep hstep]; split.
  - now rewrite !update_length.
  - intros j. rewrite !nth_update, <- HL.
    destruct ((j =? i) && (i <? length pop)); [|apply HA].
    now rewrite run_snoc, <- HA.
  - rewrite !app_length. cbn. lia.
  - intros j. destruct (Nat.lt_ge_cases j (length pop)) as [Hj|Hj].
    + rewrite !app_nth1 by lia. apply HA.
    + rewrite !app_nth2 by lia. rewrite <- HL.
      destruct (j - length pop) as [|k] eqn:E; cbn [nth].
      * now rewrite run_snoc, <- HA.
      * destruct k; cbn; reflexivity.
Qed.

(* every member is the founder run through its own lineage *)
Lemma pop_lineage_lemma : forall pos j,
  length (prun pos) = length (lineages pos) /\ nth j (prun pos) s0 = run s0 (nth j (lineages pos) []).
Proof.
  intros pos j. unfold prun, lineages.
  assert (agree [s0] [[]]) as H0.
  { split; [reflexivity|]. intros [|[|k]]; reflexivity. }
  revert H0. generalize [s0] as pop, (@nil op :: nil) as hist.
  induction pos as [|po pos IH]; intros pop hist [HL HA]; cbn [fold_left].
  - split; auto.
  - apply IH. now apply agree_step.
Qed.

(* frame: an operation on member i leaves every other member exactly as it was *)
Lemma pop_frame_lemma pop i o j : j <> i -> nth j (pstep pop (On i o)) s0 = nth j pop s0.
Proof.
  intros Hji. cbn [pstep]. rewrite nth_update.
  destruct (Nat.eqb_spec j i); [contradiction|]. reflexivity.
Qed.

(* a clone joins with its parent's matrix, and the parent keeps its own *)
Lemma pop_clone_lemma pop i :
  i < length pop ->
  sig (nth (length pop) (pstep pop (CloneOf i)) s0) = sig (nth i pop s0) /\
  forall j, j < length pop -> nth j (pstep pop (CloneOf i)) s0 = nth j pop s0.
Proof.
  intros Hi. cbn [pstep]. split.
  - rewrite app_nth2 by lia. rewrite Nat.sub_diag. reflexivity.
  - intros j Hj. now rewrite app_nth1.
Qed.
End Pop.

(* hence (with agent_sigma_is_run): the matrix of every member of a population founded by one constructed agent is the
   Sherman–Morrison run, for that member's current lambda, over the features chosen IN ITS OWN LINEAGE since its last
   initialisation *)
Lemma pop_member_sigma_lemma {T} (zero one : T) (add sub mul div : T -> T -> T) (rr : bool) l ly
      (pos : list (@pop_op T)) (j : nat) :
  let h := nth j (lineages pos) [] in
  forallb no_resize h = true -> lam_clean h = true ->
  sig (nth j (prun zero one add sub mul div rr (init_params zero one div l ly) pos) (init_params zero one div l ly)) =
  sigma_run zero one add sub mul div (cur_lam l h) (fst (segment ly h)) (snd (segment ly h)).
Proof.
  intros h Hn Hc.
  destruct (pop_lineage_lemma zero one add sub mul div rr (init_params zero one div l ly) pos j) as [_ E].
  rewrite E. now apply agent_sigma_is_run.
Qed.
