(* C19 — the arm chosen by get_action: masked argmax returns a legal arm whose action value is maximal
   among the legal arms, and the first such arm. Any carrier with a strict total order. *)
From Coq Require Import List Arith Bool Lia QArith Lqa.
Import ListNotations.
From AgileV Require Import Base.Prelude C19.Model.
Local Open Scope nat_scope.

Lemma skipn_S_cons {A} : forall i (l : list A) x r, skipn i l = x :: r -> skipn (S i) l = r.
Proof.
  induction i as [|i IH]; intros [|y l] x r H; cbn in *; try discriminate.
  - now inversion H.
  - destruct l; [destruct i; discriminate|]. now apply IH in H.
Qed.

Section Choice.
Context {T : Type}.
Variable ltb : T -> T -> bool.
Hypothesis ltb_trans : forall a b c, ltb a b = true -> ltb b c = true -> ltb a c = true.
Hypothesis ltb_irrefl : forall a, ltb a a = false.
Hypothesis ltb_negtrans : forall a b c, ltb a c = true -> ltb a b = true \/ ltb b c = true.
Variable d : T.

(* what "best so far" means after scanning the first i positions (offset by i0) *)
Definition best_inv (vals : list T) (legal : list bool) (i : nat) (best : option (nat * T)) : Prop :=
  match best with
  | None => forall j, j < i -> nth j legal false = false
  | Some (bi, bv) =>
      bi < i /\ bv = nth bi vals d /\ nth bi legal false = true /\
      (forall j, j < i -> nth j legal false = true -> ltb bv (nth j vals d) = false) /\
      (forall j, j < bi -> nth j legal false = true -> ltb (nth j vals d) bv = true)
  end.

Lemma argmax_from_inv : forall (vs : list T) (ls : list bool) (vals : list T) (legal : list bool) i best,
  skipn i vals = vs -> skipn i legal = ls -> i <= length vals -> i <= length legal ->
  best_inv vals legal i best ->
  best_inv vals legal (i + Nat.min (length vs) (length ls)) (argmax_from ltb i best vs ls).
Proof.
  induction vs as [|v vs IH]; intros ls vals legal i best Hv Hl Hiv Hil Hb; cbn [argmax_from length Nat.min].
  - now rewrite Nat.add_0_r.
  - destruct ls as [|l ls]; cbn [length Nat.min]; [now rewrite Nat.add_0_r|].
    assert (nth i vals d = v) as Ev.
    { rewrite <- (Nat.add_0_r i), <- nth_skipn_add, Hv. reflexivity. }
    assert (nth i legal false = l) as El.
    { rewrite <- (Nat.add_0_r i), <- nth_skipn_add, Hl. reflexivity. }
    assert (i < length vals) as Hiv'.
    { destruct (Nat.eq_dec i (length vals)) as [E|]; [|lia]. subst i. rewrite skipn_all in Hv. discriminate. }
    assert (i < length legal) as Hil'.
    { destruct (Nat.eq_dec i (length legal)) as [E|]; [|lia]. subst i. rewrite skipn_all in Hl. discriminate. }
    replace (i + S (Nat.min (length vs) (length ls))) with (S i + Nat.min (length vs) (length ls)) by lia.
    apply IH; try lia.
    + eapply skipn_S_cons; eauto.
    + eapply skipn_S_cons; eauto.
    + destruct l.
      * destruct best as [[bi bv]|].
        -- destruct Hb as (Hbi & Hbv & Hbl & Hmax & Hfirst).
           destruct (ltb bv v) eqn:E.
           ++ (* v becomes the best *)
              repeat split; auto.
              ** intros j Hj Hlj. destruct (Nat.eq_dec j i) as [->|Hne].
                 --- rewrite Ev. apply ltb_irrefl.
                 --- assert (j < i) as Hji by lia. specialize (Hmax j Hji Hlj).
                     destruct (ltb v (nth j vals d)) eqn:E2; auto.
                     rewrite (ltb_trans _ _ _ E E2) in Hmax. discriminate.
              ** intros j Hj Hlj. specialize (Hmax j Hj Hlj).
                 destruct (ltb_negtrans _ (nth j vals d) _ E) as [H|H]; [congruence|auto].
           ++ repeat split; auto.
              intros j Hj Hlj. destruct (Nat.eq_dec j i) as [->|Hne]; [now rewrite Ev|].
              apply Hmax; auto. lia.
        -- cbn in Hb. repeat split; auto.
           ++ intros j Hj Hlj. destruct (Nat.eq_dec j i) as [->|Hne].
              ** rewrite Ev. apply ltb_irrefl.
              ** rewrite Hb in Hlj by lia. discriminate.
           ++ intros j Hj Hlj. rewrite Hb in Hlj by lia. discriminate.
      * destruct best as [[bi bv]|]; cbn [best_inv] in *.
        -- destruct Hb as (Hbi & Hbv & Hbl & Hmax & Hfirst). repeat split; auto.
           intros j Hj Hlj. destruct (Nat.eq_dec j i) as [->|Hne]; [congruence|]. apply Hmax; auto. lia.
        -- intros j Hj. destruct (Nat.eq_dec j i) as [->|Hne]; auto. apply Hb. lia.
Qed.

Lemma masked_argmax_spec_lemma (vals : list T) (legal : list bool) :
  length vals = length legal ->
  (exists j, j < length vals /\ nth j legal false = true) ->
  let r := masked_argmax ltb vals legal in
  r < length vals /\ nth r legal false = true /\
  (forall j, j < length vals -> nth j legal false = true -> ltb (nth r vals d) (nth j vals d) = false) /\
  (forall j, j < r -> nth j legal false = true -> ltb (nth j vals d) (nth r vals d) = true).
Proof.
  intros Hlen [j0 [Hj0 Hl0]]. unfold masked_argmax.
  pose proof (argmax_from_inv vals legal vals legal 0 None eq_refl eq_refl (Nat.le_0_l _) (Nat.le_0_l _)) as H.
  cbn [best_inv] in H. specialize (H (fun j Hj => match Nat.nlt_0_r j Hj with end)).
  rewrite <- Hlen, Nat.min_id, Nat.add_0_l in H.
  destruct (argmax_from ltb 0 None vals legal) as [[bi bv]|]; cbn [best_inv] in H.
  - destruct H as (Hbi & Hbv & Hbl & Hmax & Hfirst). subst bv. cbn. repeat split; auto.
  - rewrite (H j0 Hj0) in Hl0. discriminate.
Qed.

Lemma masked_argmax_none_lemma (vals : list T) (legal : list bool) :
  length vals = length legal ->
  (forall j, j < length vals -> nth j legal false = false) -> masked_argmax ltb vals legal = 0.
Proof.
  intros Hlen Hall. unfold masked_argmax.
  pose proof (argmax_from_inv vals legal vals legal 0 None eq_refl eq_refl (Nat.le_0_l _) (Nat.le_0_l _)) as H.
  cbn [best_inv] in H. specialize (H (fun j Hj => match Nat.nlt_0_r j Hj with end)).
  rewrite <- Hlen, Nat.min_id, Nat.add_0_l in H.
  destruct (argmax_from ltb 0 None vals legal) as [[bi bv]|]; cbn [best_inv] in H; auto.
  destruct H as (Hbi & _ & Hbl & _). rewrite (Hall bi Hbi) in Hbl. discriminate.
Qed.
End Choice.

(* the instance used on action values (floats imported as exact rationals) *)
Lemma Qltb_iff a b : Qltb a b = true <-> (a < b)%Q.
Proof.
  unfold Qltb. rewrite negb_true_iff. split; intros H.
  - apply Qnot_le_lt. intros Hle. apply Qle_bool_iff in Hle. congruence.
  - destruct (Qle_bool b a) eqn:E; auto. apply Qle_bool_iff in E. lra.
Qed.
Lemma Qltb_irrefl a : Qltb a a = false.
Proof. destruct (Qltb a a) eqn:E; auto. apply Qltb_iff in E. lra. Qed.
Lemma Qltb_trans a b c : Qltb a b = true -> Qltb b c = true -> Qltb a c = true.
Proof. rewrite !Qltb_iff. lra. Qed.
Lemma Qltb_negtrans a b c : Qltb a c = true -> Qltb a b = true \/ Qltb b c = true.
Proof.
  rewrite !Qltb_iff. intros H. destruct (Qlt_le_dec a b) as [H1|H1]; [now left|right]. lra.
Qed.

Lemma Qmasked_argmax_spec_lemma (vals : list Q) (legal : list bool) :
  length vals = length legal ->
  (exists j, j < length vals /\ nth j legal false = true) ->
  let r := Qmasked_argmax vals legal in
  r < length vals /\ nth r legal false = true /\
  (forall j, j < length vals -> nth j legal false = true -> (nth j vals 0 <= nth r vals 0)%Q) /\
  (forall j, j < r -> nth j legal false = true -> (nth j vals 0 < nth r vals 0)%Q).
Proof.
  intros Hlen Hex.
  destruct (masked_argmax_spec_lemma Qltb Qltb_trans Qltb_irrefl Qltb_negtrans 0%Q vals legal Hlen Hex)
    as (H1 & H2 & H3 & H4).
  repeat split; auto.
  - intros j Hj Hl. specialize (H3 j Hj Hl). apply Qnot_lt_le. intros Hlt. apply Qltb_iff in Hlt.
    unfold Qmasked_argmax in *. congruence.
  - intros j Hj Hl. apply Qltb_iff. now apply H4.
Qed.
