(* C19, part 2 (stdlib style): size invariants of the executable agent model, for every carrier,
   every history. *)
From Coq Require Import List Arith Bool Lia.
Import ListNotations.
From AgileV Require Import C19.Model.
Local Open Scope nat_scope.

Definition square {T} (n : nat) (S : list (list T)) : Prop :=
  length S = n /\ Forall (fun r => length r = n) S.

Lemma map2_length {A B C} (f : A -> B -> C) : forall a b, length (map2 f a b) = Nat.min (length a) (length b).
Proof. induction a as [|x a IH]; intros [|y b]; cbn; auto. Qed.

Lemma Forall_map2 {A B C} (f : A -> B -> C) (P : C -> Prop) :
  forall a b, (forall x y, In x a -> In y b -> P (f x y)) -> Forall P (map2 f a b).
Proof.
  induction a as [|x a IH]; intros [|y b] H; cbn; constructor.
  - apply H; now left.
  - apply IH. intros; apply H; now right.
Qed.

Section Dims.
Context {T : Type}.
Variables (zero one : T) (add sub mul div : T -> T -> T).

Lemma mvec_length (S : list (list T)) v : length (mvec zero add mul S v) = length S.
Proof. unfold mvec. now rewrite map_length. Qed.

Lemma vmat_length (S : list (list T)) v : length (vmat zero add mul v S) = length S.
Proof. unfold vmat. now rewrite map_length, seq_length. Qed.

Lemma sm_step_square n (S : list (list T)) v :
  square n S -> square n (sm_step zero one add sub mul div S v).
Proof.
  intros [HL HR]. unfold sm_step. split.
  - rewrite map2_length, mvec_length. lia.
  - apply Forall_map2. intros ui r _ Hr.
    rewrite map2_length, vmat_length.
    rewrite Forall_forall in HR. rewrite (HR r Hr). lia.
Qed.

Lemma scal_id_square n (x : T) : square n (scal_id zero n x).
Proof.
  unfold scal_id. split.
  - now rewrite map_length, seq_length.
  - rewrite Forall_forall. intros r Hr. apply in_map_iff in Hr. destruct Hr as [i [<- _]].
    now rewrite map_length, seq_length.
Qed.

Lemma sigma_init_square lam n : square n (sigma_init zero one div lam n).
Proof. apply scal_id_square. Qed.

Lemma gram_step_square n (A : list (list T)) v :
  square n A -> length v = n -> square n (gram_step add mul A v).
Proof.
  intros [HL HR] Hv. unfold gram_step. split.
  - rewrite map2_length. lia.
  - apply Forall_map2. intros vi r _ Hr. rewrite map2_length.
    rewrite Forall_forall in HR. rewrite (HR r Hr). lia.
Qed.

Lemma sigma_run_square lam n vs : square n (sigma_run zero one add sub mul div lam n vs).
Proof.
  unfold sigma_run. generalize (sigma_init_square lam n).
  generalize (sigma_init zero one div lam n) as S.
  induction vs as [|v vs IH]; intros S HS; cbn; auto.
  apply IH. now apply sm_step_square.
Qed.

(* ---- agent level ---- *)
Variable rr : bool.
Notation bstate := (@bstate T).
Notation step := (@step T zero one add sub mul div rr).
Notation run := (@run T zero one add sub mul div rr).

(* numel, the matrix and the live output layer agree *)
Definition size_ok (s : bstate) : Prop :=
  numel s = layer_numel (live s) /\ square (layer_numel (live s)) (sig s).

(* guards the real code relies on: parameter/activation mutations keep the output layer's shape;
   [Resize] (the private helper called with the pre-mutation layer) is treated in resize_* below *)
Definition op_ok (s : bstate) (o : @op T) : Prop :=
  match o with
  | MutDirect new => layer_numel new = layer_numel (live s)
  | Resize new => square (layer_numel new) (reinit_bandit_grads zero true (live s) new (div one (lam s)) (sig s))
  | _ => True
  end.
Fixpoint ops_ok (s : bstate) (ops : list (@op T)) : Prop :=
  match ops with [] => True | o :: r => op_ok s o /\ ops_ok (step s o) r end.

Lemma step_size_ok s o : size_ok s -> op_ok s o -> size_ok (step s o).
Proof.
  intros [Hn Hs] Hok. destruct o; unfold size_ok; cbn [step Model.step op_ok live numel sig lam bound init_params] in *.
  - split; auto. now apply sm_step_square.
  - split; auto.
  - split; auto. apply sigma_init_square.
  - rewrite Hok. now split.
  - split; auto.
  - split; auto.
  - split; auto.
  - split; auto.
Qed.

Lemma size_inv_lemma : forall ops s, size_ok s -> ops_ok s ops -> size_ok (run s ops).
Proof.
  induction ops as [|o ops IH]; intros s Hs Hok; cbn in *; auto.
  destruct Hok as [H1 H2]. apply IH; auto. now apply step_size_ok.
Qed.

Lemma init_size_ok l ly : size_ok (init_params zero one div l ly).
Proof. split; cbn; auto. apply sigma_init_square. Qed.

(* with the repaired reload, exp_layer is always the live layer; without it one reload breaks it *)
Lemma bound_inv_lemma : rr = true -> forall ops s, bound s = true -> bound (run s ops) = true.
Proof.
  intros Hrr. induction ops as [|o ops IH]; intros s Hb; cbn; auto.
  apply IH. destruct o; cbn; auto.
Qed.
End Dims.

Lemma bound_inv_repaired {T} zero one add sub mul div :
  forall (ops : list (@op T)) (s : @bstate T),
  bound s = true -> bound (run zero one add sub mul div true s ops) = true.
Proof. intros. now apply bound_inv_lemma. Qed.

Lemma reload_unbinds_witness : exists (ops : list (@op nat)) (s : @bstate nat),
  bound s = true /\ bound (run 0 1 Nat.add Nat.sub Nat.mul Nat.div false s ops) = false.
Proof. exists [Act [1]; Reload; Learn], (init_params 0 1 Nat.div 1 [(0, 1)]). split; reflexivity. Qed.

(* the hook-based paths never need the guard: histories without MutDirect/Resize *)
Definition public_op {T} (o : @op T) : bool :=
  match o with MutDirect _ | Resize _ => false | _ => true end.

Lemma public_ops_ok {T} zero one add sub mul div rr :
  forall (ops : list (@op T)) s, forallb public_op ops = true ->
  ops_ok zero one add sub mul div rr s ops.
Proof.
  induction ops as [|o ops IH]; intros s H; cbn in *; auto.
  apply andb_prop in H. destruct H as [H1 H2]. split; [|now apply IH].
  destruct o; cbn in *; auto; discriminate.
Qed.

(* ---- agent level: which features is sigma_inv made of? ---- *)
(* (dimension, features chosen since the matrix was last initialised, oldest first) *)
Definition seg_step {T} (g : nat * list (list T)) (o : @op T) : nat * list (list T) :=
  match o with
  | Act v => (fst g, snd g ++ [v])
  | MutHook new => (layer_numel new, [])
  | _ => g
  end.
Definition segment {T} (ly : layer) (ops : list (@op T)) : nat * list (list T) :=
  fold_left seg_step ops (layer_numel ly, []).
Definition no_resize {T} (o : @op T) : bool := match o with Resize _ => false | _ => true end.

(* the agent's current lambda: the last value an RL-hyperparameter mutation gave it *)
Definition lam_step {T} (l : T) (o : @op T) : T := match o with SetLam l' => l' | _ => l end.
Definition cur_lam {T} (l : T) (ops : list (@op T)) : T := fold_left lam_step ops l.
(* was the matrix re-initialised after the last change of lambda? (Mutations.mutation runs the hook after the change) *)
Definition clean_step {T} (c : bool) (o : @op T) : bool :=
  match o with SetLam _ => false | MutHook _ => true | _ => c end.
Definition lam_clean {T} (ops : list (@op T)) : bool := fold_left clean_step ops true.

Section Segment.
Context {T : Type}.
Variables (zero one : T) (add sub mul div : T -> T -> T) (rr : bool).
Notation run := (@run T zero one add sub mul div rr).
Notation step := (@step T zero one add sub mul div rr).
Notation sigma_run := (@sigma_run T zero one add sub mul div).

Lemma run_cur_lam : forall (ops : list (@op T)) (s : @bstate T), lam (run s ops) = cur_lam (lam s) ops.
Proof.
  induction ops as [|o ops IH]; intros s; [reflexivity|].
  specialize (IH (step s o)). unfold Model.run, cur_lam in *. cbn [fold_left]. rewrite IH.
  f_equal. destruct o; reflexivity.
Qed.

Lemma run_segment_gen : forall (ops : list (@op T)) (s : @bstate T) (g : nat * list (list T)) (c : bool),
  forallb no_resize ops = true ->
  (c = true -> sig s = sigma_run (lam s) (fst g) (snd g)) ->
  fold_left clean_step ops c = true ->
  sig (run s ops) = sigma_run (lam (run s ops)) (fst (fold_left seg_step ops g)) (snd (fold_left seg_step ops g)).
Proof.
  induction ops as [|o ops IH]; intros s g c Hnr Hs Hc; cbn [Model.run fold_left] in *; [now apply Hs|].
  apply andb_prop in Hnr. destruct Hnr as [Ho Hnr].
  apply (IH (step s o) (seg_step g o) (clean_step c o) Hnr); auto.
  intros Hc'. destruct o; cbn [Model.step seg_step clean_step lam sig fst snd init_params] in *;
    try discriminate; auto.
  - unfold Model.sigma_run in *. rewrite fold_left_app. cbn [fold_left]. now rewrite (Hs Hc').
Qed.

(* after construction and any history without the private resize helper in which every change of lambda was followed
   by a re-initialisation, sigma_inv is exactly the Sherman–Morrison run, for the agent's CURRENT lambda, over the
   features chosen since the last initialisation, in the current dimension *)
Lemma agent_sigma_is_run l ly (ops : list (@op T)) :
  forallb no_resize ops = true -> lam_clean ops = true ->
  sig (run (init_params zero one div l ly) ops) =
  sigma_run (cur_lam l ops) (fst (segment ly ops)) (snd (segment ly ops)).
Proof.
  intros H Hc.
  replace (cur_lam l ops) with (lam (run (init_params zero one div l ly) ops)) by (apply run_cur_lam).
  apply (run_segment_gen ops (init_params zero one div l ly) (layer_numel ly, []) true H); auto.
Qed.
End Segment.

(* an RL-hyperparameter mutation of lambda NOT followed by a re-initialisation (Mutations.mutation skipping the hook for
   hyperparameter mutations): the agent holds lambda = 2 with the matrix of lambda = 1 — lambda*I*sigma_inv is 2, not 1 *)
Lemma setlam_without_init_witness :
  let q := fun z => QArith_base.Qmake z BinNums.xH in
  let s := fold_left Qstep [SetLam (q (BinNums.Zpos (BinNums.xO BinNums.xH)))] (Qinit (q (BinNums.Zpos BinNums.xH)) [(0, 1)]) in
  lam s = q (BinNums.Zpos (BinNums.xO BinNums.xH)) /\ Qmatmul (@scal_id QArith_base.Q (q BinNums.Z0) 1 (lam s)) (sig s) = [[q (BinNums.Zpos (BinNums.xO BinNums.xH))]] /\
  sig (fold_left Qstep [SetLam (q (BinNums.Zpos (BinNums.xO BinNums.xH))); MutHook [(0, 1)]] (Qinit (q (BinNums.Zpos BinNums.xH)) [(0, 1)])) = [[QArith_base.Qmake (BinNums.Zpos BinNums.xH) (BinNums.xO BinNums.xH)]].
Proof. vm_compute. auto. Qed.
