(* C19 — Mutations._reinit_bandit_grads on the output layer of a ValueNetwork (a Linear layer with
   w weights and one bias): what the index surgery computes, for every w, every growth k, every carrier. *)
From Coq Require Import List Arith Bool Lia.
Import ListNotations.
From AgileV Require Import C19.Model C19.Proofs.
Local Open Scope nat_scope.
Local Arguments Nat.ltb : simpl never.
Local Arguments Nat.leb : simpl never.
Local Arguments Nat.sub : simpl never.
Local Arguments Nat.add : simpl never.

(* trainable parameters of nn.Linear(w, 1): ("weight", w), ("bias", 1) *)
Definition lin (w : nat) : layer := [(0, w); (1, 1)].

Lemma layer_numel_lin w : layer_numel (lin w) = w + 1.
Proof. cbn. lia. Qed.

(* ---- the index lists ---- *)
Lemma to_remove_grow w k : to_remove (lin w) (lin (w + k)) 0 = [].
Proof.
  cbn. destruct (w + k <? w) eqn:E; [apply Nat.ltb_lt in E; lia|]. reflexivity.
Qed.

Lemma to_add_grow w k : to_add (lin w) (lin (w + k)) 0 = seq w k.
Proof.
  cbn. destruct (w <? w + k) eqn:E.
  - replace (w + k - w) with k by lia. now rewrite app_nil_r.
  - apply Nat.ltb_ge in E. assert (k = 0) by lia. subst. reflexivity.
Qed.

Lemma to_remove_shrink w k : to_remove (lin (w + k)) (lin w) 0 = seq w k.
Proof.
  cbn. destruct (w <? w + k) eqn:E.
  - replace (w + k - w) with k by lia. now rewrite app_nil_r.
  - apply Nat.ltb_ge in E. assert (k = 0) by lia. subst. reflexivity.
Qed.

Lemma to_add_shrink w k : to_add (lin (w + k)) (lin w) 0 = [].
Proof.
  cbn. destruct (w + k <? w) eqn:E; [apply Nat.ltb_lt in E; lia|]. reflexivity.
Qed.

Lemma adjust_add_seq w k : forall s, map2 (fun a j => a - 0 - j) (seq (w + s) k) (seq s k) = repeat w k.
Proof.
  induction k as [|k IH]; intros s; cbn; auto.
  f_equal; [lia|]. replace (S (w + s)) with (w + S s) by lia. apply IH.
Qed.

Lemma adjust_add_grow w k : adjust_add (seq w k) [] = repeat w k.
Proof.
  unfold adjust_add. rewrite seq_length. cbn [filter length].
  replace w with (w + 0) at 1 by lia. apply adjust_add_seq.
Qed.

Lemma shifted_positions w k : forall s, map2 (fun a j => a + j) (repeat w k) (seq s k) = seq (w + s) k.
Proof.
  induction k as [|k IH]; intros s; cbn; auto.
  f_equal. rewrite IH. f_equal. lia.
Qed.

(* ---- np.insert with k copies of the same index w <= len ---- *)
Lemma filter_eqb_repeat p w k :
  length (filter (Nat.eqb p) (repeat w k)) = if Nat.eqb p w then k else 0.
Proof.
  induction k as [|k IH]; cbn; [now destruct (Nat.eqb p w)|].
  destruct (Nat.eqb p w) eqn:E; cbn; rewrite IH; reflexivity.
Qed.

Lemma filter_ltb_repeat p w k :
  length (filter (fun i => p <? i) (repeat w k)) = if p <? w then k else 0.
Proof.
  induction k as [|k IH]; cbn; [now destruct (p <? w)|].
  destruct (p <? w) eqn:E; cbn; rewrite IH; reflexivity.
Qed.

Lemma insert_at_past {A} (x : A) w k : forall (l : list A) p,
  w < p -> insert_at (repeat w k) x l p = l.
Proof.
  induction l as [|y l IH]; intros p Hp; cbn [insert_at].
  - rewrite filter_eqb_repeat, filter_ltb_repeat.
    destruct (Nat.eqb_spec p w); [lia|]. destruct (Nat.ltb_spec p w); [lia|]. reflexivity.
  - rewrite filter_eqb_repeat. destruct (Nat.eqb_spec p w); [lia|]. cbn [repeat app].
    f_equal. apply IH. lia.
Qed.

Lemma insert_at_repeat {A} (x : A) w k : forall (l : list A) p,
  p <= w -> w <= p + length l ->
  insert_at (repeat w k) x l p = firstn (w - p) l ++ repeat x k ++ skipn (w - p) l.
Proof.
  induction l as [|y l IH]; intros p Hp Hw; cbn [insert_at length] in *.
  - assert (w = p) by lia. subst. rewrite filter_eqb_repeat, filter_ltb_repeat, Nat.eqb_refl, Nat.ltb_irrefl.
    rewrite Nat.sub_diag. cbn. now rewrite !app_nil_r.
  - rewrite filter_eqb_repeat. destruct (Nat.eqb_spec p w) as [->|E].
    + rewrite Nat.sub_diag. cbn [firstn skipn app].
      rewrite insert_at_past by lia. reflexivity.
    + cbn [repeat app].
      rewrite IH by lia. replace (w - p) with (S (w - S p)) by lia. reflexivity.
Qed.

(* ---- np.delete of a contiguous block ---- *)
Lemma existsb_seq s w k : existsb (Nat.eqb s) (seq w k) = (w <=? s) && (s <? w + k).
Proof.
  revert w. induction k as [|k IH]; intros w; cbn [seq existsb].
  - destruct (Nat.leb_spec w s), (Nat.ltb_spec s (w + 0)); cbn; auto; lia.
  - rewrite IH. destruct (Nat.eqb_spec s w), (Nat.leb_spec (S w) s), (Nat.ltb_spec s (S w + k)),
      (Nat.leb_spec w s), (Nat.ltb_spec s (w + S k)); cbn; auto; lia.
Qed.

Lemma delete_block_gen {A} w k : forall (l : list A) s,
  map snd (filter (fun p => negb (existsb (Nat.eqb (fst p)) (seq w k))) (combine (seq s (length l)) l))
  = firstn (w - s) l ++ skipn (w + k - s) l.
Proof.
  induction l as [|y l IH]; intros s; cbn [length seq combine filter map fst].
  - now rewrite firstn_nil, skipn_nil.
  - rewrite existsb_seq.
    destruct (Nat.leb_spec w s) as [H1|H1], (Nat.ltb_spec s (w + k)) as [H2|H2]; cbn [andb negb map snd];
      rewrite IH.
    + replace (w - s) with 0 by lia. replace (w - S s) with 0 by lia.
      replace (w + k - s) with (S (w + k - S s)) by lia. reflexivity.
    + replace (w - s) with 0 by lia. replace (w - S s) with 0 by lia.
      replace (w + k - s) with 0 by lia. replace (w + k - S s) with 0 by lia. reflexivity.
    + replace (w - s) with (S (w - S s)) by lia.
      replace (w + k - s) with (S (w + k - S s)) by lia. reflexivity.
    + lia.
Qed.

Lemma delete_block {A} w k (l : list A) : delete_idx (seq w k) l = firstn w l ++ skipn (w + k) l.
Proof. unfold delete_idx. rewrite delete_block_gen. now rewrite !Nat.sub_0_r. Qed.

Lemma In_firstn_local {A} (l : list A) : forall n x, In x (firstn n l) -> In x l.
Proof. induction l as [|a l IH]; intros [|n] x H; cbn in *; try contradiction. destruct H; [left|right]; eauto. Qed.
Lemma In_skipn_local {A} (l : list A) : forall n x, In x (skipn n l) -> In x l.
Proof. induction l as [|a l IH]; intros [|n] x H; cbn in *; auto. right. eauto. Qed.

Section ResizeSpec.
Context {T : Type}.
Variable zero : T.

Lemma set_diag_square n (M : list (list T)) i x : square n M -> square n (set_diag M i x).
Proof.
  intros [HL HR]. unfold set_diag. split.
  - rewrite map2_length, seq_length. lia.
  - apply Forall_map2. intros r j Hr _. rewrite Forall_forall in HR.
    destruct (Nat.eqb j i); [|now apply HR].
    rewrite map2_length, seq_length, (HR r Hr). lia.
Qed.

Lemma fold_set_diag_square n x : forall pos (M : list (list T)),
  square n M -> square n (fold_left (fun M i => set_diag M i x) pos M).
Proof. induction pos as [|i pos IH]; intros M HM; cbn; auto. apply IH. now apply set_diag_square. Qed.

Lemma nth_map2_gen {A B C} (f : A -> B -> C) da db dc : forall a b i,
  i < length a -> i < length b -> nth i (map2 f a b) dc = f (nth i a da) (nth i b db).
Proof.
  induction a as [|x a IH]; intros [|y b] [|i] Ha Hb; cbn in *; try lia; auto. apply IH; lia.
Qed.

(* one entry of set_diag *)
Lemma nth_set_diag n (M : list (list T)) i x a b d :
  square n M -> a < n -> b < n ->
  nth a (nth b (set_diag M i x) []) d =
  if Nat.eqb b i && Nat.eqb a i then x else nth a (nth b M []) d.
Proof.
  intros [HL HR] Ha Hb. unfold set_diag.
  rewrite (nth_map2_gen _ [] 0) by (rewrite ?seq_length; lia).
  rewrite seq_nth by lia. rewrite Nat.add_0_l.
  destruct (Nat.eqb b i) eqn:E; cbn [andb]; auto.
  assert (length (nth b M []) = n) as Hr.
  { rewrite Forall_forall in HR. apply HR. apply nth_In. lia. }
  rewrite (nth_map2_gen _ d 0) by (rewrite ?seq_length; lia).
  rewrite seq_nth by lia. rewrite Nat.add_0_l. reflexivity.
Qed.

Lemma nth_fold_set_diag n x a b d : forall pos (M : list (list T)),
  square n M -> a < n -> b < n ->
  nth a (nth b (fold_left (fun M i => set_diag M i x) pos M) []) d =
  if Nat.eqb b a && existsb (Nat.eqb a) pos then x else nth a (nth b M []) d.
Proof.
  induction pos as [|i pos IH]; intros M HM Ha Hb; cbn [fold_left existsb].
  - now rewrite andb_false_r.
  - rewrite IH by (auto using set_diag_square). rewrite (nth_set_diag n) by auto.
    destruct (Nat.eqb_spec b a) as [->|Hba]; cbn [andb].
    + destruct (existsb (Nat.eqb a) pos); [now rewrite orb_true_r|].
      rewrite orb_false_r. destruct (Nat.eqb a i); reflexivity.
    + destruct (Nat.eqb_spec b i), (Nat.eqb_spec a i); cbn [andb]; auto. congruence.
Qed.

(* growing the layer by k >= 1 weights: k zero rows/columns are inserted before the bias coordinate
   and the k new diagonal entries w .. w+k-1 are set to dval *)
Definition grown (w k : nat) (dval : T) (S : list (list T)) : list (list T) :=
  fold_left (fun M i => set_diag M i dval) (seq w k)
    (map (fun r => firstn w r ++ repeat zero k ++ skipn w r)
         (firstn w S ++ repeat (repeat zero (w + 1)) k ++ skipn w S)).

Lemma reinit_grow_lemma w k dval (M : list (list T)) : square (w + 1) M -> 0 < k ->
  reinit_bandit_grads zero true (lin w) (lin (w + k)) dval M = grown w k dval M.
Proof.
  intros [HL HR] Hk. unfold reinit_bandit_grads, grown.
  rewrite to_remove_grow, to_add_grow, adjust_add_grow.
  destruct k as [|k]; [lia|]. set (K := S k) in *.
  change (repeat w K) with (w :: repeat w k) at 1. cbv iota.
  change (w :: repeat w k) with (repeat w K).
  rewrite repeat_length, shifted_positions, Nat.add_0_r, HL.
  rewrite insert_at_repeat by lia. rewrite Nat.sub_0_r.
  f_equal. apply map_ext_in. intros r Hr.
  assert (length r = w + 1) as Hlen.
  { apply in_app_or in Hr. destruct Hr as [Hr|Hr].
    - rewrite Forall_forall in HR. apply HR. eapply In_firstn_local; eauto.
    - apply in_app_or in Hr. destruct Hr as [Hr|Hr].
      + apply repeat_spec in Hr. subst. apply repeat_length.
      + rewrite Forall_forall in HR. apply HR. eapply In_skipn_local; eauto. }
  rewrite insert_at_repeat by lia. now rewrite Nat.sub_0_r.
Qed.

Lemma grown_square w k dval (M : list (list T)) : square (w + 1) M -> square (w + k + 1) (grown w k dval M).
Proof.
  intros [HL HR]. unfold grown. apply fold_set_diag_square. split.
  - rewrite map_length, !app_length, repeat_length, firstn_length, skipn_length. lia.
  - rewrite Forall_forall. intros r Hr. apply in_map_iff in Hr. destruct Hr as [r0 [<- Hr0]].
    assert (length r0 = w + 1) as Hlen.
    { apply in_app_or in Hr0. destruct Hr0 as [Hr|Hr].
      - rewrite Forall_forall in HR. apply HR. eapply In_firstn_local; eauto.
      - apply in_app_or in Hr. destruct Hr as [Hr|Hr].
        + apply repeat_spec in Hr. subst. apply repeat_length.
        + rewrite Forall_forall in HR. apply HR. eapply In_skipn_local; eauto. }
    rewrite !app_length, repeat_length, firstn_length, skipn_length. lia.
Qed.

(* every coordinate that did not exist before carries dval on the diagonal *)
Lemma grown_diag w k dval d (M : list (list T)) j : square (w + 1) M -> j < k ->
  nth (w + j) (nth (w + j) (grown w k dval M) []) d = dval.
Proof.
  intros HM Hj. unfold grown.
  set (M0 := map _ _).
  assert (square (w + k + 1) M0) as H0.
  { pose proof (grown_square w 0 dval M HM) as _.
    destruct HM as [HL HR]. subst M0. split.
    - rewrite map_length, !app_length, repeat_length, firstn_length, skipn_length. lia.
    - rewrite Forall_forall. intros r Hr. apply in_map_iff in Hr. destruct Hr as [r0 [<- Hr0]].
      assert (length r0 = w + 1) as Hlen.
      { apply in_app_or in Hr0. destruct Hr0 as [Hr|Hr].
        - rewrite Forall_forall in HR. apply HR. eapply In_firstn_local; eauto.
        - apply in_app_or in Hr. destruct Hr as [Hr|Hr].
          + apply repeat_spec in Hr. subst. apply repeat_length.
          + rewrite Forall_forall in HR. apply HR. eapply In_skipn_local; eauto. }
      rewrite !app_length, repeat_length, firstn_length, skipn_length. lia. }
  rewrite (nth_fold_set_diag (w + k + 1)) by (auto; lia).
  rewrite Nat.eqb_refl. cbn [andb].
  replace (existsb (Nat.eqb (w + j)) (seq w k)) with true; auto.
  symmetry. rewrite existsb_seq.
  destruct (Nat.leb_spec w (w + j)), (Nat.ltb_spec (w + j) (w + k)); cbn; auto; lia.
Qed.

Lemma resize_new_diagonal_lemma w k dval d (M : list (list T)) j : square (w + 1) M -> j < k ->
  nth (w + j) (nth (w + j) (reinit_bandit_grads zero true (lin w) (lin (w + k)) dval M) []) d = dval.
Proof. intros HM Hj. rewrite reinit_grow_lemma by (auto; lia). now apply grown_diag. Qed.

(* shrinking by k >= 1 weights deletes rows and columns w .. w+k-1 *)
Definition shrunk (w k : nat) (M : list (list T)) : list (list T) :=
  map (fun r => firstn w r ++ skipn (w + k) r) (firstn w M ++ skipn (w + k) M).

Lemma reinit_shrink_lemma w k dval (M : list (list T)) : 0 < k ->
  reinit_bandit_grads zero true (lin (w + k)) (lin w) dval M = shrunk w k M.
Proof.
  intros Hk. unfold reinit_bandit_grads, shrunk.
  rewrite to_remove_shrink, to_add_shrink. cbn [adjust_add map2 length seq].
  destruct k as [|k]; [lia|]. cbn [seq]. cbv iota.
  change (w :: seq (S w) k) with (seq w (S k)).
  rewrite delete_block. apply map_ext. intros r. apply delete_block.
Qed.

Lemma shrunk_square w k (M : list (list T)) : square (w + k + 1) M -> square (w + 1) (shrunk w k M).
Proof.
  intros [HL HR]. unfold shrunk. split.
  - rewrite map_length, app_length, firstn_length, skipn_length. lia.
  - rewrite Forall_forall. intros r Hr. apply in_map_iff in Hr. destruct Hr as [r0 [<- Hr0]].
    assert (length r0 = w + k + 1) as Hlen.
    { rewrite Forall_forall in HR. apply HR. apply in_app_or in Hr0. destruct Hr0 as [Hr|Hr];
        [eapply In_firstn_local | eapply In_skipn_local]; eauto. }
    rewrite app_length, firstn_length, skipn_length. lia.
Qed.

(* same layer before and after (what architecture_mutate actually passes): nothing happens *)
Lemma reinit_same_lemma w dval (M : list (list T)) :
  reinit_bandit_grads zero true (lin w) (lin w) dval M = M.
Proof.
  unfold reinit_bandit_grads.
  replace (to_remove (lin w) (lin w) 0) with (@nil nat)
    by (symmetry; replace w with (w + 0) at 2 by lia; apply to_remove_grow).
  replace (to_add (lin w) (lin w) 0) with (@nil nat)
    by (symmetry; replace w with (w + 0) at 1 by lia; apply to_add_shrink).
  reflexivity.
Qed.

(* the size clause for the helper, every pair of Linear output layers *)
Lemma resize_linear_square w w' dval (M : list (list T)) :
  square (w + 1) M -> square (w' + 1) (reinit_bandit_grads zero true (lin w) (lin w') dval M).
Proof.
  intros HM. destruct (Nat.lt_trichotomy w w') as [H|[H|H]].
  - replace w' with (w + (w' - w)) by lia. rewrite reinit_grow_lemma by (auto; lia).
    now apply grown_square.
  - subst. now rewrite reinit_same_lemma.
  - replace w with (w' + (w - w')) in * by lia. rewrite reinit_shrink_lemma by lia.
    now apply shrunk_square.
Qed.
End ResizeSpec.

(* the tree without fixes/C19-resize-diagonal.patch: growing by two leaves a zero diagonal entry *)
Lemma resize_pinned_witness :
  let M := [[5; 1; 1]; [1; 5; 1]; [1; 1; 5]] in
  nth 3 (nth 3 (reinit_bandit_grads 0 false (lin 2) (lin 4) 7 M) []) 99 = 0 /\
  nth 3 (nth 3 (reinit_bandit_grads 0 true (lin 2) (lin 4) 7 M) []) 99 = 7 /\
  reinit_bandit_grads 0 true (lin 2) (lin 4) 7 M =
    [[5; 1; 0; 0; 1]; [1; 5; 0; 0; 1]; [0; 0; 7; 0; 0]; [0; 0; 0; 7; 0]; [1; 1; 0; 0; 5]].
Proof. vm_compute. auto. Qed.

(* the guard of [size_inv] for a Resize between Linear output layers follows from the invariant *)
Lemma resize_guard_linear_lemma {T} (zero one : T) (div : T -> T -> T) (s : @bstate T) w w' :
  live s = lin w -> size_ok s -> @op_ok T zero one div s (Resize (lin w')).
Proof.
  intros Hl [Hn Hs]. cbn [op_ok]. rewrite Hl in *. rewrite !layer_numel_lin in *.
  now apply resize_linear_square.
Qed.

(* Outside the Linear(w,1)+bias layers the library builds: when a parameter disappears while another grows, the
   index correction of _reinit_bandit_grads mixes old-layout and new-layout indices. Linear(1, bias) -> Linear(3, no bias):
   the retained weight entry (5) is lost. (The expected result would be [[5;0;0];[0;7;0];[0;0;7]].) *)
Lemma resize_general_layer_witness :
  reinit_bandit_grads 0 true [(0, 1); (1, 1)] [(0, 3)] 7 [[5; 1]; [1; 9]] = [[0; 0; 0]; [0; 7; 0]; [0; 0; 0]].
Proof. vm_compute. reflexivity. Qed.
