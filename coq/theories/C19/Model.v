(* C19 — executable model of the confidence matrix of agilerl's neural bandits
   (NeuralUCB / NeuralTS: init_params, get_action's Sherman–Morrison update; Mutations.mutation /
   architecture_mutate (+ init_params hook), Mutations._reinit_bandit_grads, clone, checkpoint reload).
   Model only (no proofs) so that it still runs when a proof breaks.

   The matrix code is GENERIC over the carrier and its operations: the same Gallina functions are
   (a) executed over Q (normalised with Qred) by the correspondence check, and
   (b) instantiated at an arbitrary mathcomp realFieldType in C19/Refine.v, where they are proved to
       compute the matrices that the Sherman–Morrison / Gram-inverse theorems of C19/SM.v talk about. *)
From Coq Require Import List Arith Bool QArith Qreduction.
Import ListNotations.
Local Open Scope nat_scope.

Section Generic.
Context {T : Type}.
Variables (zero one : T) (add sub mul div : T -> T -> T).

Definition vec := list T.
Definition mat := list (list T).

Fixpoint dot (u v : vec) : T :=
  match u, v with
  | x :: u', y :: v' => add (mul x y) (dot u' v')
  | _, _ => zero
  end.

Fixpoint map2 {A B C} (f : A -> B -> C) (a : list A) (b : list B) : list C :=
  match a, b with
  | x :: a', y :: b' => f x y :: map2 f a' b'
  | _, _ => []
  end.

(* S @ v  (column) *)
Definition mvec (S : mat) (v : vec) : vec := map (fun r => dot r v) S.
(* j-th column of S *)
Definition col (S : mat) (j : nat) : vec := map (fun r => nth j r zero) S.
(* v.T @ S  (row) *)
Definition vmat (v : vec) (S : mat) : vec := map (fun j => dot v (col S j)) (seq 0 (length S)).
(* v.T @ S @ v : the radicand of the exploration bonus of an arm with feature v *)
Definition quad (S : mat) (v : vec) : T := dot (vmat v S) v.
(* u @ w.T *)
Definition outer (u w : vec) : mat := map (fun ui => map (fun wj => mul ui wj) w) u.
Definition matmul (A B : mat) : mat := map (fun r => vmat r B) A.

(* get_action, last statement:
     self.sigma_inv -= (self.sigma_inv @ v @ v.T @ self.sigma_inv) / (1 + v.T @ self.sigma_inv @ v)   *)
Definition sm_step (S : mat) (v : vec) : mat :=
  let u := mvec S v in            (* sigma_inv @ v            *)
  let w := vmat v S in            (* v.T @ sigma_inv          *)
  let c := add one (dot w v) in   (* 1 + v.T @ sigma_inv @ v  *)
  map2 (fun ui r => map2 (fun sij wj => sub sij (div (mul ui wj) c)) r w) u S.

(* x * torch.eye(n) *)
Definition scal_id (n : nat) (x : T) : mat :=
  map (fun i => map (fun j => if Nat.eqb i j then x else zero) (seq 0 n)) (seq 0 n).

(* init_params: sigma_inv = torch.eye(numel) / lamb *)
Definition sigma_init (lam : T) (n : nat) : mat := scal_id n (div one lam).

(* the regularised Gram matrix  lambda * I + sum_i v_i v_i^T  the property talks about *)
Definition gram_step (A : mat) (v : vec) : mat :=
  map2 (fun vi r => map2 (fun a vj => add a (mul vi vj)) r v) v A.
Definition gram (lam : T) (n : nat) (vs : list vec) : mat := fold_left gram_step vs (scal_id n lam).
Definition sigma_run (lam : T) (n : nat) (vs : list vec) : mat := fold_left sm_step vs (sigma_init lam n).

Definition transpose_sq (S : mat) : mat := map (fun j => col S j) (seq 0 (length S)).
End Generic.

(* ------------------------------------------------------------------------------------------- *)
(* get_action, choice of the arm:
     action = np.argmax(action_values)                                   (no mask)
     action = np.argmax(np.ma.array(action_values, mask = 1 - action_mask))
   numpy fills masked entries with the smallest value and returns the FIRST index of the maximum;
   with every arm masked it returns 0. [legal] is the mask (all true when no mask is given). *)
Section Argmax.
Context {T : Type}.
Variable ltb : T -> T -> bool.      (* strict order on action values *)

Fixpoint argmax_from (i : nat) (best : option (nat * T)) (vals : list T) (legal : list bool) : option (nat * T) :=
  match vals, legal with
  | v :: vs, l :: ls =>
      let best' := if l then
                     match best with
                     | None => Some (i, v)
                     | Some (_, b) => if ltb b v then Some (i, v) else best
                     end
                   else best in
      argmax_from (S i) best' vs ls
  | _, _ => best
  end.

Definition masked_argmax (vals : list T) (legal : list bool) : nat :=
  match argmax_from 0 None vals legal with Some (i, _) => i | None => 0 end.
End Argmax.

Definition Qltb (a b : Q) : bool := negb (Qle_bool b a).
Definition Qmasked_argmax := @masked_argmax Q Qltb.

(* ------------------------------------------------------------------------------------------- *)
(* Mutations._reinit_bandit_grads: index surgery on sigma_inv when the output layer is resized.  *)
(* A layer is the list of its trainable named parameters (key, numel) in named_parameters order. *)
Definition layer := list (nat * nat).

Definition lookup (k : nat) (l : layer) : option nat :=
  match find (fun p => Nat.eqb (fst p) k) l with Some p => Some (snd p) | None => None end.
Definition layer_numel (l : layer) : nat := fold_right (fun p a => snd p + a) 0 l.

(* first loop: positions (in the old matrix) to delete *)
Fixpoint to_remove (old new : layer) (i : nat) : list nat :=
  match old with
  | [] => []
  | (k, osz) :: old' =>
      (match lookup k new with
       | None => seq i osz
       | Some nsz => if nsz <? osz then seq (i + nsz) (osz - nsz) else []
       end) ++ to_remove old' new (i + osz)
  end.

(* second loop: positions (in the new matrix) that are new *)
Fixpoint to_add (old new : layer) (i : nat) : list nat :=
  match new with
  | [] => []
  | (k, nsz) :: new' =>
      (match lookup k old with
       | Some osz => if osz <? nsz then seq (i + osz) (nsz - osz) else []
       | None => seq i nsz
       end) ++ to_add old new' (i + nsz)
  end.

(* to_add -= np.sum(to_add[:, None] > to_remove, axis=1);  to_add -= np.arange(len(to_add)) *)
Definition adjust_add (ta tr : list nat) : list nat :=
  map2 (fun a k => a - length (filter (fun r => r <? a) tr) - k) ta (seq 0 (length ta)).

(* np.delete(arr, idx, axis) on a list *)
Definition delete_idx {A} (idx : list nat) (l : list A) : list A :=
  map snd (filter (fun p => negb (existsb (Nat.eqb (fst p)) idx)) (combine (seq 0 (length l)) l)).

(* np.insert(arr, idx, x, axis): every index refers to the ORIGINAL array; the value is inserted before it *)
Fixpoint insert_at {A} (idx : list nat) (x : A) (l : list A) (pos : nat) : list A :=
  let here := repeat x (length (filter (Nat.eqb pos) idx)) in
  match l with
  | [] => here ++ repeat x (length (filter (fun i => pos <? i) idx))
  | y :: l' => here ++ y :: insert_at idx x l' (S pos)
  end.

Section Resize.
Context {T : Type}.
Variables (zero : T).
(* [shifted] = true: repaired semantics (fixes/C19-resize-diagonal.patch), the k-th inserted coordinate
   is at to_add[k] + k;  false: the tree without that patch uses to_add[k] itself *)
Variable shifted : bool.

Definition set_diag (S : list (list T)) (i : nat) (x : T) : list (list T) :=
  map2 (fun r k => if Nat.eqb k i then map2 (fun y j => if Nat.eqb j i then x else y) r (seq 0 (length r)) else r)
       S (seq 0 (length S)).

(* the whole function; [dval] is the value written on the diagonal (1 / lamb) *)
Definition reinit_bandit_grads (old new : layer) (dval : T) (S : list (list T)) : list (list T) :=
  let tr := to_remove old new 0 in
  let ta := adjust_add (to_add old new 0) tr in
  let S1 := match tr with [] => S | _ => map (delete_idx tr) (delete_idx tr S) end in
  match ta with
  | [] => S1
  | _ =>
      let n1 := length S1 in
      let S2 := insert_at ta (repeat zero n1) S1 0 in          (* np.insert(..., to_add, 0, 0) *)
      let S3 := map (fun r => insert_at ta zero r 0) S2 in      (* np.insert(..., to_add, 0, 1) *)
      let pos := if shifted then map2 (fun a k => a + k) ta (seq 0 (length ta)) else ta in
      fold_left (fun M i => set_diag M i dval) pos S3           (* for i in ...: M[i, i] = 1 / lamb *)
  end.
End Resize.

(* ------------------------------------------------------------------------------------------- *)
(* Agent-level state machine (what the property calls a history).                              *)
Section Agent.
Context {T : Type}.
Variables (zero one : T) (add sub mul div : T -> T -> T).
(* does a checkpoint reload leave exp_layer bound to the restored network's output layer?
   true = repaired semantics (fixes/C19-exp-layer-after-load.patch); false = tree without that patch *)
Variable reload_rebinds : bool.

Record bstate := {
  lam : T;
  live : layer;      (* trainable parameters of actor.get_output_dense() — the live output layer *)
  bound : bool;      (* agent.exp_layer IS that live layer object *)
  numel : nat;       (* agent.numel *)
  sig : list (list T)  (* agent.sigma_inv *)
}.

Inductive op :=
| Act (v : list T)          (* get_action: v = gradient feature of the chosen arm                      *)
| Learn                     (* learn(): sigma_inv untouched                                              *)
| MutHook (new : layer)     (* Mutations.mutation(...) of any kind / architecture_mutate: the registered
                               init_params hook runs last. For an architecture mutation
                               _reinit_bandit_grads is called first with old_exp_layer = the ALREADY
                               mutated layer, i.e. it is the identity on sigma_inv.                    *)
| MutDirect (new : layer)   (* parameter_mutation / activation_mutation called directly: no hook       *)
| Resize (new : layer)      (* _reinit_bandit_grads(agent, actor, layer before the mutation)            *)
| Clone                     (* agent.clone(): hook on the clone, then copy_attributes                   *)
| Reload                    (* save_checkpoint + load / load_checkpoint                                 *)
| SetLam (l : T).           (* Mutations.rl_hyperparam_mutation drew `lamb` (a legal HyperparameterConfig entry):
                               agent.lamb = l, sigma_inv untouched. On the current tree Mutations.mutation then runs
                               the init_params hook (a MutHook op), which re-initialises with the NEW lambda.    *)

Definition init_params (l : T) (ly : layer) : bstate :=
  {| lam := l; live := ly; bound := true; numel := layer_numel ly;
     sig := sigma_init zero one div l (layer_numel ly) |}.

Definition step (s : bstate) (o : op) : bstate :=
  match o with
  | Act v => {| lam := lam s; live := live s; bound := bound s; numel := numel s;
                sig := sm_step zero one add sub mul div (sig s) v |}
  | Learn => s
  | MutHook new =>
      (* whatever _reinit_bandit_grads did before, the hook overwrites numel, sigma_inv, exp_layer *)
      init_params (lam s) new
  | MutDirect new => {| lam := lam s; live := new; bound := true; numel := numel s; sig := sig s |}
  | Resize new =>
      {| lam := lam s; live := new; bound := true; numel := layer_numel new;
         sig := reinit_bandit_grads zero true (live s) new (div one (lam s)) (sig s) |}
  | Clone => {| lam := lam s; live := live s; bound := true; numel := numel s; sig := sig s |}
  | Reload => {| lam := lam s; live := live s; bound := reload_rebinds; numel := numel s; sig := sig s |}
  | SetLam l => {| lam := l; live := live s; bound := bound s; numel := numel s; sig := sig s |}
  end.

Definition run (s : bstate) (ops : list op) : bstate := fold_left step ops s.
(* all intermediate states, one per op *)
Fixpoint trace (s : bstate) (ops : list op) : list bstate :=
  match ops with [] => [] | o :: ops' => let s' := step s o in s' :: trace s' ops' end.
End Agent.

(* ------------------------------------------------------------------------------------------- *)
(* The Q instance executed by the correspondence check (every operation normalises with Qred).  *)
Definition qadd (a b : Q) : Q := Qred (a + b)%Q.
Definition qsub (a b : Q) : Q := Qred (a - b)%Q.
Definition qmul (a b : Q) : Q := Qred (a * b)%Q.
Definition qdiv (a b : Q) : Q := Qred (a / b)%Q.

Definition Qsm_step := @sm_step Q 0%Q 1%Q qadd qsub qmul qdiv.
Definition Qsigma_init := @sigma_init Q 0%Q 1%Q qdiv.
Definition Qgram_step := @gram_step Q qadd qmul.
Definition Qmatmul := @matmul Q 0%Q qadd qmul.
Definition Qquad := @quad Q 0%Q qadd qmul.
Definition Qstep := @step Q 0%Q 1%Q qadd qsub qmul qdiv true.
Definition Qinit := @init_params Q 0%Q 1%Q qdiv.
Definition Qtrace := @trace Q 0%Q 1%Q qadd qsub qmul qdiv true.

(* The behaviour before the fix commits ca382d7 / 2aab0c8 (kept for the refutation theorem):
   sigma_inv = lamb * torch.eye(numel) *)
Definition Qsigma_init_pinned (l : Q) (n : nat) : list (list Q) := @scal_id Q 0%Q n l.
