(* C19 — boolean comparison of the model with observations of the implementation (used by K only),
   plus the per-case inverse certificate  (lambda*I + sum v v^T) * S = I  evaluated exactly.
   The generic model of C19/Model.v is executed here over Bignums' BigQ (certified arbitrary-precision
   rationals on machine integers; every operation normalises) — the stdlib-Q instance of Model.v
   computes the same values but ~10x slower under vm_compute. Literals cross as exact Q values. *)
From Coq Require Import List Arith Bool QArith.
From Bignums Require Import BigQ.
Import ListNotations.
From AgileV Require Import C19.Model.
Local Open Scope nat_scope.

Definition B0 : bigQ := BigQ.zero.
Definition B1 : bigQ := BigQ.one.
(* [rr]: which variant of the checkpoint reload the tree under test exhibits (true = exp_layer re-bound to the
   restored network, i.e. fixes/C19-exp-layer-after-load.patch applied). The harness determines it from the
   observation of the case; the property's oracle — not K — judges rr = false as a violation. *)
Definition Bstep (rr : bool) := @step bigQ B0 B1 BigQ.add_norm BigQ.sub_norm BigQ.mul_norm BigQ.div_norm rr.
Definition Binit := @init_params bigQ B0 B1 BigQ.div_norm.
Definition Bgram_step := @gram_step bigQ BigQ.add_norm BigQ.mul_norm.
Definition Bmatmul := @matmul bigQ B0 BigQ.add_norm BigQ.mul_norm.
Definition Bquad := @quad bigQ B0 BigQ.add_norm BigQ.mul_norm.
Definition toB (M : list (list Q)) : list (list bigQ) := map (map BigQ.of_Q) M.
Definition op_toB (o : @op Q) : @op bigQ :=
  match o with
  | Act v => Act (map BigQ.of_Q v)
  | Learn => Learn
  | MutHook l => MutHook l
  | MutDirect l => MutDirect l
  | Resize l => Resize l
  | Clone => Clone
  | Reload => Reload
  | SetLam l => SetLam (BigQ.of_Q l)
  end.

Fixpoint forallb2 {A B} (f : A -> B -> bool) (a : list A) (b : list B) : bool :=
  match a, b with
  | [], [] => true
  | x :: a', y :: b' => f x y && forallb2 f a' b'
  | _, _ => false
  end.

Definition bq_le (a b : bigQ) : bool := match BigQ.compare a b with Gt => false | _ => true end.
Definition qclose (tol a b : bigQ) : bool :=
  let d := BigQ.sub a b in bq_le d tol && bq_le (BigQ.opp d) tol.
Definition mat_close (tol : bigQ) (A B : list (list bigQ)) : bool := forallb2 (forallb2 (qclose tol)) A B.
Definition mat_eq (A B : list (list bigQ)) : bool := forallb2 (forallb2 BigQ.eqb) A B.
Definition has_dims {T} (r c : nat) (S : list (list T)) : bool :=
  (length S =? r) && forallb (fun row => length row =? c) S.

(* what the harness reports after every operation *)
Record obs1 := {
  o_numel : nat;                       (* agent.numel *)
  o_bound : bool;                      (* agent.exp_layer is actor.get_output_dense() *)
  o_rows : nat; o_cols : nat;          (* agent.sigma_inv.shape *)
  o_sigma : option (list (list Q));    (* agent.sigma_inv (only at observed steps) *)
  o_arms : list (list Q);              (* features of all arms at this decision (may be empty) *)
  o_bonus : list Q;                    (* gamma^-1 * exploration bonus the implementation used, per arm (may be empty) *)
  o_choice : option (list Q * list bool * nat)
                                       (* action values handed to np.argmax, legality mask, arm returned by get_action *)
}.

(* the arm get_action returned is the model's masked argmax of the action values it compared *)
Definition check_choice (ob : obs1) : bool :=
  match o_choice ob with
  | None => true
  | Some (vals, legal, a) => (length vals =? length legal) && (Qmasked_argmax vals legal =? a)
  end.

(* the bonus the implementation used, squared, against the radicand g^T S g computed by the model on the
   matrix BEFORE the update:  | b^2 - g^T S g | <= tolb * (1 + g^T S g)   (b >= 0 is part of the claim) *)
Definition check_bonus (tolb : bigQ) (Sbefore : list (list bigQ)) (ob : obs1) : bool :=
  match o_bonus ob with
  | [] => true
  | bs =>
      forallb2 (fun g b =>
                  let r := Bquad Sbefore (map BigQ.of_Q g) in
                  let bb := BigQ.of_Q b in
                  bq_le B0 bb && bq_le B0 r &&
                  qclose (BigQ.mul_norm tolb (BigQ.add_norm B1 r)) (BigQ.mul_norm bb bb) r)
               (o_arms ob) bs
  end.

(* certificate state: Some G while sigma_inv is claimed to be the inverse of A = lam*I + G, G = sum v v^T of the features
   chosen since the last initialisation and lam = the agent's CURRENT lambda (it can change: SetLam) *)
Definition cert_step (c : option (list (list bigQ))) (o : @op bigQ) : option (list (list bigQ)) :=
  match o with
  | Act v => match c with Some G => Some (Bgram_step G v) | None => None end
  | MutHook new => Some (@scal_id bigQ B0 (layer_numel new) B0)
  | Resize _ => None
  | _ => c
  end.

Definition add_diag (l : bigQ) (G : list (list bigQ)) : list (list bigQ) :=
  map2 (fun r i => map2 (fun x j => if Nat.eqb i j then BigQ.add_norm x l else x) r (seq 0 (length r))) G (seq 0 (length G)).

Definition check_state (tol : bigQ) (s : @bstate bigQ) (c : option (list (list bigQ))) (ob : obs1) : bool :=
  (numel s =? o_numel ob) && Bool.eqb (bound s) (o_bound ob) &&
  has_dims (o_rows ob) (o_cols ob) (sig s) && (layer_numel (live s) =? o_rows ob) &&
  match o_sigma ob with
  | None => true
  | Some M =>
      mat_close (BigQ.div_norm tol (lam s)) (sig s) (toB M) &&
      (* model-side sanity, exact: symmetric; inverse certificate; radicands of all arms >= 0 *)
      mat_eq (sig s) (@transpose_sq bigQ B0 (sig s)) &&
      match c with
      | Some G => mat_eq (Bmatmul (add_diag (lam s) G) (sig s)) (@scal_id bigQ B0 (length (sig s)) B1)
      | None => true
      end &&
      forallb (fun g => bq_le B0 (Bquad (sig s) (map BigQ.of_Q g))) (o_arms ob)
  end.

Fixpoint check_trace (rr : bool) (tol : bigQ) (s : @bstate bigQ) (c : option (list (list bigQ)))
         (ops : list (@op bigQ)) (obs : list obs1) : bool :=
  match ops, obs with
  | [], [] => true
  | o :: ops', ob :: obs' =>
      let s' := Bstep rr s o in
      let c' := cert_step c o in
      check_state tol s' c' ob &&
      (match o with Act _ => check_bonus (BigQ.of_Q (1 # 1024)) (sig s) ob && check_choice ob | _ => true end) &&
      check_trace rr tol s' c' ops' obs'
  | _, _ => false
  end.

(* a whole history: construction (init_params) observed first, then one observation per op *)
Definition check_hist (rr : bool) (lamq tolq : Q) (ly : layer) (ob0 : obs1) (ops : list (@op Q)) (obs : list obs1) : bool :=
  let lam := BigQ.of_Q lamq in
  let tol := BigQ.of_Q tolq in
  let s0 := Binit lam ly in
  let c0 := Some (@scal_id bigQ B0 (layer_numel ly) B0) in
  check_state tol s0 c0 ob0 && check_trace rr tol s0 c0 (map op_toB ops) obs.

(* unit level: Mutations._reinit_bandit_grads on an integer-tagged matrix, exact *)
(* [shifted]: which variant of the diagonal fill the tree exhibits (true = fixes/C19-resize-diagonal.patch);
   the two variants differ only for growth by >= 2 parameters; the oracle judges shifted = false as a violation *)
Definition check_resize (shifted : bool) (old new : layer) (dval : Q) (S M : list (list Q)) : bool :=
  mat_eq (@reinit_bandit_grads bigQ B0 shifted old new (BigQ.of_Q dval) (toB S)) (toB M) &&
  has_dims (layer_numel new) (layer_numel new) M.

(* numpy semantics assumed by the model, validated exhaustively on small arrays against the real numpy:
   np.delete(arange(1..n), idx)  and  np.insert(arange(1..n), idx, 0)  for every index list up to length 3 *)
Definition check_np_delete (n : nat) (cs : list (list nat * list nat)) : bool :=
  forallb (fun c => forallb2 Nat.eqb (delete_idx (fst c) (seq 1 n)) (snd c)) cs.
Definition check_np_insert (n : nat) (cs : list (list nat * list nat)) : bool :=
  forallb (fun c => forallb2 Nat.eqb (insert_at (fst c) 0 (seq 1 n) 0) (snd c)) cs.
