(* C19 — boolean comparison of the model with observations of the implementation (used by K only),
   plus the per-case inverse certificate  (lambda*I + sum v v^T) * S = I  evaluated exactly over Q. *)
From Coq Require Import List Arith Bool QArith Qabs Qreduction.
Import ListNotations.
From AgileV Require Import C19.Model.
Local Open Scope nat_scope.

Fixpoint forallb2 {A B} (f : A -> B -> bool) (a : list A) (b : list B) : bool :=
  match a, b with
  | [], [] => true
  | x :: a', y :: b' => f x y && forallb2 f a' b'
  | _, _ => false
  end.

Definition qclose (tol a b : Q) : bool := Qle_bool (Qabs (a - b)) tol.
Definition mat_close (tol : Q) (A B : list (list Q)) : bool := forallb2 (forallb2 (qclose tol)) A B.
Definition mat_eq (A B : list (list Q)) : bool := forallb2 (forallb2 Qeq_bool) A B.
Definition has_dims (r c : nat) (S : list (list Q)) : bool :=
  (length S =? r) && forallb (fun row => length row =? c) S.

(* what the harness reports after every operation *)
Record obs1 := {
  o_numel : nat;                       (* agent.numel *)
  o_bound : bool;                      (* agent.exp_layer is actor.get_output_dense() *)
  o_rows : nat; o_cols : nat;          (* agent.sigma_inv.shape *)
  o_sigma : option (list (list Q));    (* agent.sigma_inv (only at observed steps) *)
  o_arms : list (list Q)               (* features of all arms at the NEXT decision (may be empty) *)
}.

(* certificate state: Some A while sigma_inv is claimed to be the inverse of A = lam*I + sum v v^T *)
Definition cert_step (lam : Q) (c : option (list (list Q))) (o : @op Q) : option (list (list Q)) :=
  match o with
  | Act v => match c with Some A => Some (Qgram_step A v) | None => None end
  | MutHook new => Some (@scal_id Q 0%Q (layer_numel new) lam)
  | Resize _ => None
  | _ => c
  end.

Definition check_state (lam tol : Q) (s : @bstate Q) (c : option (list (list Q))) (ob : obs1) : bool :=
  (numel s =? o_numel ob) && Bool.eqb (bound s) (o_bound ob) &&
  has_dims (o_rows ob) (o_cols ob) (sig s) && (layer_numel (live s) =? o_rows ob) &&
  match o_sigma ob with
  | None => true
  | Some M =>
      mat_close (Qred (tol / lam)) (sig s) M &&
      (* model-side sanity, exact: symmetric; inverse certificate; radicands of all arms >= 0 *)
      mat_eq (sig s) (@transpose_sq Q 0%Q (sig s)) &&
      match c with
      | Some A => mat_eq (Qmatmul A (sig s)) (@scal_id Q 0%Q (length (sig s)) 1%Q)
      | None => true
      end &&
      forallb (fun g => Qle_bool 0 (Qquad (sig s) g)) (o_arms ob)
  end.

Fixpoint check_trace (lam tol : Q) (s : @bstate Q) (c : option (list (list Q)))
         (ops : list (@op Q)) (obs : list obs1) : bool :=
  match ops, obs with
  | [], [] => true
  | o :: ops', ob :: obs' =>
      let s' := Qstep s o in
      let c' := cert_step lam c o in
      check_state lam tol s' c' ob && check_trace lam tol s' c' ops' obs'
  | _, _ => false
  end.

(* a whole history: construction (init_params) observed first, then one observation per op *)
Definition check_hist (lam tol : Q) (ly : layer) (ob0 : obs1) (ops : list (@op Q)) (obs : list obs1) : bool :=
  let s0 := Qinit lam ly in
  let c0 := Some (@scal_id Q 0%Q (layer_numel ly) lam) in
  check_state lam tol s0 c0 ob0 && check_trace lam tol s0 c0 ops obs.

(* unit level: Mutations._reinit_bandit_grads on an integer-tagged matrix, exact *)
Definition check_resize (old new : layer) (dval : Q) (S M : list (list Q)) : bool :=
  mat_eq (@reinit_bandit_grads Q 0%Q old new dval S) M &&
  has_dims (layer_numel new) (layer_numel new) M.
