(* C19 — the generic executable model of C19/Model.v, instantiated at an arbitrary real field,
   computes exactly the matrices of C19/SM.v. Hence the theorems of SM.v (inverse of the regularised
   Gram matrix, symmetric, positive definite, bonus radicand >= 0) hold for the model's own code. *)
From mathcomp Require Import all_ssreflect all_algebra.
From AgileV Require Import C19.Model C19.SM.
Set Implicit Arguments.
Unset Strict Implicit.
Unset Printing Implicit Defensive.
Import Order.Theory GRing.Theory Num.Theory.
Local Open Scope ring_scope.

(* ---- stdlib list functions used by the model vs mathcomp's seq functions ---- *)
Lemma lengthE T (s : seq T) : List.length s = size s.
Proof. by elim: s => //= x s ->. Qed.
Lemma lmapE T U (f : T -> U) s : List.map f s = map f s.
Proof. by elim: s => //= x s ->. Qed.
Lemma lnthE T (d : T) s i : List.nth i s d = nth d s i.
Proof. by elim: s i => [|x s IH] [|i] //=. Qed.
Lemma lseqE a m : List.seq a m = iota a m.
Proof. by elim: m a => //= m IH a; rewrite IH. Qed.
Lemma lfoldlE T U (f : U -> T -> U) s a : List.fold_left f s a = foldl f a s.
Proof. by elim: s a => //= x s IH a. Qed.

Lemma size_map2 A B C (f : A -> B -> C) a b : size (map2 f a b) = minn (size a) (size b).
Proof. by elim: a b => [|x a IH] [|y b] //=; rewrite IH minnSS. Qed.

Lemma nth_map2 A B C (f : A -> B -> C) da db dc a b i :
  (i < size a)%N -> (i < size b)%N -> nth dc (map2 f a b) i = f (nth da a i) (nth db b i).
Proof. by elim: a b i => [|x a IH] [|y b] [|i] //= Ha Hb; apply: IH. Qed.

Lemma sm_update_entry (F : realFieldType) n (A : 'M[F]_n) (v : 'cV[F]_n) i j :
  (sm_update A v) i j = A i j - (1 + qform A v)^-1 * ((A *m v) i 0 * (v^T *m A) 0 j).
Proof.
rewrite /sm_update.
have -> : A *m v *m v^T *m A = (A *m v) *m (v^T *m A) by rewrite !mulmxA.
rewrite mxE [X in _ + X]mxE [X in _ + - X]mxE; congr (_ - _ * _).
by rewrite mxE big_ord1.
Qed.

Section Refine.
Variable F : realFieldType.
Variable n : nat.

Definition fsub (a b : F) : F := a - b.
Definition fdiv (a b : F) : F := a / b.
Notation dotF := (@dot F 0 +%R *%R).
Notation mvecF := (@mvec F 0 +%R *%R).
Notation colF := (@col F 0).
Notation vmatF := (@vmat F 0 +%R *%R).
Notation quadF := (@Model.quad F 0 +%R *%R).
Notation sm_stepF := (@sm_step F 0 1 +%R fsub *%R fdiv).
Notation scal_idF := (@scal_id F 0).
Notation gram_stepF := (@gram_step F +%R *%R).

(* well-shaped n x n list matrix *)
Definition wf (S : seq (seq F)) : bool := (size S == n) && all (fun r => size r == n) S.
Definition mx_of (S : seq (seq F)) : 'M[F]_n := \matrix_(i, j) nth 0 (nth [::] S i) j.
Definition cv_of (v : seq F) : 'cV[F]_n := \col_i nth 0 v i.

Lemma wf_row S (i : 'I_n) : wf S -> size (nth [::] S i) = n.
Proof.
case/andP => /eqP sS /allP H; apply/eqP/H/mem_nth; by rewrite sS.
Qed.

Lemma dot_sum (u v : seq F) : size u = n -> size v = n ->
  dotF u v = \sum_(i < n) nth 0 u i * nth 0 v i.
Proof.
elim: n u v => [|m IH] [|x u] [|y v] //= => [_ _|[su] [sv]]; first by rewrite big_ord0.
by rewrite big_ord_recl /= (IH _ _ su sv).
Qed.

Lemma nth_col S j (i : 'I_n) : wf S -> nth 0 (colF S j) i = nth 0 (nth [::] S i) j.
Proof.
case/andP => /eqP sS _; rewrite /col lmapE (nth_map [::]) ?sS // lnthE. done.
Qed.

Lemma size_col S j : wf S -> size (colF S j) = n.
Proof. by case/andP => /eqP sS _; rewrite /col lmapE size_map. Qed.

Lemma size_mvec S v : wf S -> size (mvecF S v) = n.
Proof. by case/andP => /eqP sS _; rewrite /mvec lmapE size_map. Qed.

Lemma size_vmat S v : wf S -> size (vmatF v S) = n.
Proof. by case/andP => /eqP sS _; rewrite /vmat lmapE size_map lseqE size_iota lengthE. Qed.

Lemma nth_mvec S v (i : 'I_n) : wf S -> size v = n ->
  nth 0 (mvecF S v) i = (mx_of S *m cv_of v) i 0.
Proof.
move=> wS sv; have [/eqP sS _] := andP wS.
rewrite /mvec lmapE (nth_map [::]) ?sS // (dot_sum (wf_row i wS) sv) mxE.
by apply: eq_bigr => k _; rewrite !mxE.
Qed.

Lemma nth_vmat S v (j : 'I_n) : wf S -> size v = n ->
  nth 0 (vmatF v S) j = ((cv_of v)^T *m mx_of S) 0 j.
Proof.
move=> wS sv; have [/eqP sS _] := andP wS.
rewrite /vmat lmapE lseqE lengthE sS (nth_map 0%N) ?size_iota // nth_iota // add0n.
rewrite (dot_sum sv (size_col j wS)) mxE.
by apply: eq_bigr => k _; rewrite !mxE nth_col.
Qed.

Lemma quad_refines S v : wf S -> size v = n ->
  quadF S v = qform (mx_of S) (cv_of v).
Proof.
move=> wS sv; rewrite /Model.quad /qform (dot_sum (size_vmat v wS) sv) mxE.
by apply: eq_bigr => k _; rewrite nth_vmat // !mxE.
Qed.

Lemma wf_sm_step S v : wf S -> wf (sm_stepF S v).
Proof.
move=> wS; have [/eqP sS /allP aS] := andP wS.
rewrite /wf /sm_step size_map2 size_mvec // sS minnn eqxx /=.
apply/allP => r /(nthP [::]) [i]; rewrite size_map2 size_mvec // sS minnn => lti <-.
rewrite (nth_map2 _ 0 [::]) ?size_mvec ?sS // size_map2 size_vmat //.
by rewrite (eqP (aS _ (mem_nth _ _))) ?sS // minnn.
Qed.

(* one step of the model's code is the Sherman–Morrison update of SM.v *)
Lemma sm_step_refines S v : wf S -> size v = n ->
  mx_of (sm_stepF S v) = sm_update (mx_of S) (cv_of v).
Proof.
move=> wS sv; have [/eqP sS /allP aS] := andP wS.
apply/matrixP => i j; rewrite sm_update_entry /sm_step mxE.
rewrite (nth_map2 _ 0 [::]) ?size_mvec ?sS //.
rewrite (nth_map2 _ 0 0) ?size_vmat ?(wf_row i wS) //.
rewrite nth_mvec // nth_vmat // /fsub /fdiv.
have -> : dotF (vmatF v S) v = qform (mx_of S) (cv_of v) by rewrite -quad_refines.
by rewrite [mx_of S i j]mxE [_^-1 * _]mulrC.
Qed.

Lemma sm_step_refines_wf S v : wf S -> size v = n ->
  wf (sm_stepF S v) /\ mx_of (sm_stepF S v) = sm_update (mx_of S) (cv_of v).
Proof. by move=> w s; split; [exact: wf_sm_step | exact: sm_step_refines]. Qed.

Lemma wf_scal_id x : wf (scal_idF n x).
Proof.
rewrite /wf /scal_id lmapE size_map lseqE size_iota eqxx /=.
by apply/allP => r /mapP [i _ ->]; rewrite lmapE size_map size_iota.
Qed.

Lemma scal_id_refines x : mx_of (scal_idF n x) = x%:M.
Proof.
apply/matrixP => i j; rewrite !mxE /scal_id lmapE lseqE.
rewrite (nth_map 0%N) ?size_iota // nth_iota // add0n lmapE.
rewrite (nth_map 0%N) ?size_iota // nth_iota // add0n.
by rewrite -(inj_eq val_inj) /=; case: PeanoNat.Nat.eqb_spec => [->|/eqP/negbTE ->]; rewrite ?eqxx ?mulr1n ?mulr0n.
Qed.

Lemma wf_gram_step A v : wf A -> size v = n -> wf (gram_stepF A v).
Proof.
move=> wA sv; have [/eqP sA /allP aA] := andP wA.
rewrite /wf /gram_step size_map2 sv sA minnn eqxx /=.
apply/allP => r /(nthP [::]) [i]; rewrite size_map2 sv sA minnn => lti <-.
rewrite (nth_map2 _ 0 [::]) ?sv ?sA // size_map2 sv.
by rewrite (eqP (aA _ (mem_nth _ _))) ?sA // minnn.
Qed.

Lemma gram_step_refines A v : wf A -> size v = n ->
  mx_of (gram_stepF A v) = mx_of A + cv_of v *m (cv_of v)^T.
Proof.
move=> wA sv; have [/eqP sA /allP aA] := andP wA.
apply/matrixP => i j; rewrite /gram_step !mxE.
rewrite (nth_map2 _ 0 [::]) ?sv ?sA //.
rewrite (nth_map2 _ 0 0) ?sv ?(wf_row i wA) //.
by rewrite big_ord1 !mxE.
Qed.

(* ---- whole runs ---- *)
Variable lam : F.
Hypothesis lam_gt0 : 0 < lam.
Notation sigma_runF := (@sigma_run F 0 1 +%R fsub *%R fdiv lam n).
Notation gramF := (@Model.gram F 0 +%R *%R lam n).

Definition feats (vs : seq (seq F)) := rev (map cv_of vs).

Lemma sigma_run_refines vs : all (fun v => size v == n) vs ->
  wf (sigma_runF vs) /\ mx_of (sigma_runF vs) = sinv lam (feats vs).
Proof.
rewrite /sigma_run lfoldlE /feats; elim/last_ind: vs => [_|vs v IH].
  by rewrite /= /sigma_init wf_scal_id scal_id_refines /fdiv mul1r.
rewrite all_rcons => /andP [/eqP sv /IH [w E]].
by rewrite -cats1 foldl_cat /= map_cat rev_cat /= wf_sm_step // sm_step_refines // E.
Qed.

Lemma gram_refines vs : all (fun v => size v == n) vs ->
  wf (gramF vs) /\ mx_of (gramF vs) = SM.gram lam (feats vs).
Proof.
rewrite /Model.gram lfoldlE /feats; elim/last_ind: vs => [_|vs v IH].
  by rewrite /= wf_scal_id scal_id_refines.
rewrite all_rcons => /andP [/eqP sv /IH [w E]].
by rewrite -cats1 foldl_cat /= map_cat rev_cat /= wf_gram_step // gram_step_refines // E.
Qed.

(* The model's own code, on any real field: after any sequence of well-sized features the matrix it
   maintains is the inverse of the regularised Gram matrix it would accumulate, is symmetric, and
   the radicand of every arm's bonus (computed by the model's quad) is non-negative. *)
Theorem model_gram_inverse vs : all (fun v => size v == n) vs ->
  [/\ mx_of (gramF vs) *m mx_of (sigma_runF vs) = 1%:M,
      (mx_of (sigma_runF vs))^T = mx_of (sigma_runF vs)
    & forall g, size g = n -> 0 <= quadF (sigma_runF vs) g].
Proof.
move=> szs; have [wS ES] := sigma_run_refines szs; have [_ EG] := gram_refines szs.
have [H1 H2 H3] := gram_inverse lam_gt0 (feats vs).
by split=> [||g sg]; rewrite ?quad_refines // ?EG ES.
Qed.

(* the model never divides by zero: the denominator of every step is >= 1 *)
Theorem model_denominator_ge1 vs v : all (fun v => size v == n) vs -> size v = n ->
  1 <= 1 + dotF (vmatF v (sigma_runF vs)) v.
Proof.
move=> szs sv; have [wS ES] := sigma_run_refines szs.
have -> : dotF (vmatF v (sigma_runF vs)) v = quadF (sigma_runF vs) v by [].
by rewrite quad_refines // ES; apply: denominator_ge1.
Qed.

End Refine.

(* ---- agent level: the property's sentence, for every public history, over any real field ---- *)
From AgileV Require Import C19.Proofs.

Section AgentLevel.
Variable F : realFieldType.
Variable lam : F.

(* every decision hands in a feature vector of the current size (numel) *)
Fixpoint feats_ok (g : nat * seq (seq F)) (ops : seq (@op F)) : bool :=
  if ops is o :: r then
    (if o is Act v then size v == g.1 else true) && feats_ok (seg_step g o) r
  else true.

Lemma feats_ok_all ops : forall g, feats_ok g ops -> all (fun v => size v == g.1) g.2 ->
  all (fun v => size v == (List.fold_left seg_step ops g).1) (List.fold_left seg_step ops g).2.
Proof.
elim: ops => [|o ops IH] g //= /andP [Ho Hr] Hg; apply: IH => //.
by case: o Ho {Hr} => //= v sv; rewrite all_cat Hg /= sv.
Qed.

(* [cur_lam lam ops] is the lambda the agent holds at the end (RL-hyperparameter mutations may change it); [lam_clean]
   says that every such change was followed by a re-initialisation, as Mutations.mutation does by running the hook *)
Theorem agent_gram_inverse (ly : layer) (ops : seq (@op F)) (rr : bool) :
  List.forallb no_resize ops = true -> lam_clean ops = true -> 0 < cur_lam lam ops ->
  feats_ok (layer_numel ly, [::]) ops ->
  let n := (segment ly ops).1 in
  let vs := (segment ly ops).2 in
  let S := sig (run 0 1 +%R (@fsub F) *%R (@fdiv F) rr (init_params 0 1 (@fdiv F) lam ly) ops) in
  [/\ mx_of n (Model.gram 0 +%R *%R (cur_lam lam ops) n vs) *m mx_of n S = 1%:M,
      (mx_of n S)^T = mx_of n S
    & forall g, size g = n -> 0 <= Model.quad 0 +%R *%R S g].
Proof.
move=> Hnr Hcl Hpos Hok n vs S.
have E : S = sigma_run 0 1 +%R (@fsub F) *%R (@fdiv F) (cur_lam lam ops) n vs by rewrite /S agent_sigma_is_run.
rewrite E; apply: model_gram_inverse => //.
exact: (feats_ok_all Hok).
Qed.
End AgentLevel.

(* ---- the whole tail of get_action: choose the arm, then update with THAT arm's feature ---- *)
From AgileV Require Import C19.ChoiceProofs.

Section Decide.
Variable F : realFieldType.
Variable n : nat.

(* action = masked argmax of the action values; v = g[action]; sigma_inv -= ... *)
Definition decide (S : seq (seq F)) (arms : seq (seq F)) (vals : seq F) (legal : seq bool) : nat * seq (seq F) :=
  let a := masked_argmax (fun x y : F => x < y) vals legal in
  (a, sm_step 0 1 +%R (@fsub F) *%R (@fdiv F) S (nth [::] arms a)).

Lemma ltF_trans (a b c : F) : (a < b) = true -> (b < c) = true -> (a < c) = true.
Proof. exact: lt_trans. Qed.
Lemma ltF_irrefl (a : F) : (a < a) = false.
Proof. exact: ltxx. Qed.
Lemma ltF_negtrans (a b c : F) : (a < c) = true -> (a < b) = true \/ (b < c) = true.
Proof. by move=> ac; case: (ltP a b) => [|ba]; [left | right; exact: le_lt_trans ba ac]. Qed.

(* for every matrix that is the inverse of A, every list of per-arm features of the right size, every vector of action values and
   every mask with at least one legal arm: the arm returned is legal, no legal arm has a strictly larger value, earlier legal arms
   are strictly smaller, and the new matrix is the inverse of A + g_a g_a^T for the feature g_a of the RETURNED arm *)
Theorem decide_spec (A : 'M[F]_n) (S : seq (seq F)) (arms : seq (seq F)) (vals : seq F) (legal : seq bool) :
  wf n S -> A *m mx_of n S = 1%:M -> (forall x, 0 <= qform (mx_of n S) x) ->
  all (fun g => size g == n) arms -> size arms = size vals -> List.length vals = List.length legal ->
  (exists j, (j < List.length vals)%coq_nat /\ List.nth j legal false = true) ->
  let a := (decide S arms vals legal).1 in
  let g := cv_of n (nth [::] arms a) in
  [/\ (a < size vals)%N, List.nth a legal false = true,
      forall j, (j < List.length vals)%coq_nat -> List.nth j legal false = true -> (List.nth a vals 0 < List.nth j vals 0) = false
    & (A + g *m g^T) *m mx_of n (decide S arms vals legal).2 = 1%:M].
Proof.
move=> wS AS psd szs sav slen ex a g.
have [H1 [H2 [H3 _]]] := @masked_argmax_spec_lemma F (fun x y : F => x < y) ltF_trans ltF_irrefl ltF_negtrans 0 vals legal slen ex.
have alt : (a < size vals)%N by rewrite -lengthE; apply/ssrnat.ltP; exact: H1.
split=> //.
have sg : size (nth [::] arms a) = n.
  by apply/eqP; apply: (allP szs); apply: mem_nth; rewrite sav.
rewrite /decide /= (sm_step_refines wS sg).
apply: sherman_morrison => //.
by rewrite gt_eqF // ltr_paddr ?ltr01 ?psd.
Qed.
End Decide.
