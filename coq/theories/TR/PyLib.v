(* TR — the run-time library of the Python -> Gallina translator (harness/pytrans.py).

   Every translated function returns a [res]: [Ok v] (normal return), [OutOfFuel] (a loop / a
   recursion ran longer than the explicit fuel: the equivalence theorems show this is unreachable with
   the fuel they pass) or [PyErr e] (the Python code would raise — or would enter semantics the
   translator does not model, e.g. a negative list index).  Python `int` is Z (`//` and `%` are
   Z.div / Z.modulo: both round toward minus infinity, like Python's), list indices are Z.
   Definitions only + the few rewriting lemmas the equivalence files need; no property is proved here. *)
From Coq Require Import List Arith Bool ZArith Lia.
Import ListNotations.

Inductive pyerr :=
| IndexError            (* list index / slice outside the list *)
| NegativeIndex         (* a negative index or slice bound: Python would wrap around, not modelled *)
| AssertionError
| ZeroDivisionError
| ShapeError            (* slice assignment with a right-hand side of another length *)
| ValueError.           (* unpacking a sequence of the wrong length *)

Inductive res (A : Type) := Ok (a : A) | OutOfFuel | PyErr (e : pyerr).
Arguments Ok {A}. Arguments OutOfFuel {A}. Arguments PyErr {A}.

Definition bind {A B} (r : res A) (k : A -> res B) : res B :=
  match r with Ok a => k a | OutOfFuel => OutOfFuel | PyErr e => PyErr e end.

(* ---- lists indexed by Python ints ---- *)
Definition zlen {A} (l : list A) : Z := Z.of_nat (length l).

Definition zget {A} (l : list A) (i : Z) : res A :=
  if (i <? 0)%Z then PyErr NegativeIndex
  else match nth_error l (Z.to_nat i) with Some x => Ok x | None => PyErr IndexError end.

Fixpoint upd_nat {A} (l : list A) (i : nat) (v : A) : list A :=
  match l, i with
  | [], _ => []
  | _ :: t, O => v :: t
  | h :: t, S j => h :: upd_nat t j v
  end.

Definition zset {A} (l : list A) (i : Z) (v : A) : res (list A) :=
  if (i <? 0)%Z then PyErr NegativeIndex
  else if (i <? zlen l)%Z then Ok (upd_nat l (Z.to_nat i) v) else PyErr IndexError.

(* l[a:b] with optional bounds; bounds beyond the end are clamped (Python), negative ones are not modelled *)
Definition zslice {A} (l : list A) (a b : option Z) : res (list A) :=
  let a' := match a with Some x => x | None => 0%Z end in
  let b' := match b with Some x => x | None => zlen l end in
  if ((a' <? 0) || (b' <? 0))%Z then PyErr NegativeIndex
  else Ok (firstn (Z.to_nat b' - Z.to_nat a') (skipn (Z.to_nat a') l)).

(* l[a:b] = xs  for a tensor-like store: the row count of the slice must equal the row count of xs
   (a one-row right-hand side would be broadcast by torch: not modelled, ShapeError) *)
Definition zslice_assign {A} (l : list A) (a b : option Z) (xs : list A) : res (list A) :=
  let a' := match a with Some x => x | None => 0%Z end in
  let b' := match b with Some x => x | None => zlen l end in
  if ((a' <? 0) || (b' <? 0))%Z then PyErr NegativeIndex
  else
    let lo := Nat.min (Z.to_nat a') (length l) in
    let hi := Nat.max lo (Nat.min (Z.to_nat b') (length l)) in
    if Nat.eqb (hi - lo) (length xs) then Ok (firstn lo l ++ xs ++ skipn hi l) else PyErr ShapeError.

(* a, b = l[-2:] : the last two elements (a shorter list cannot be unpacked into two names) *)
Definition zlast2 {A} (l : list A) : res (A * A) :=
  match rev l with
  | b :: a :: _ => Ok (a, b)
  | _ => PyErr ValueError
  end.

(* ---- integer arithmetic that can fail ---- *)
Definition zfloordiv (a b : Z) : res Z := if (b =? 0)%Z then PyErr ZeroDivisionError else Ok (a / b)%Z.
Definition zmod (a b : Z) : res Z := if (b =? 0)%Z then PyErr ZeroDivisionError else Ok (a mod b)%Z.

(* builtin min(a, b) returns a unless b < a; max(a, b) returns a unless b > a *)
Definition py_min {A} (ltb : A -> A -> bool) (a b : A) : A := if ltb b a then b else a.
Definition py_max {A} (ltb : A -> A -> bool) (a b : A) : A := if ltb a b then b else a.

(* ---- loops ---- *)
(* one iteration returns [inl s] = go round again, [inr s] = the loop is left (condition false / break) *)
Fixpoint while_loop {S : Type} (fuel : nat) (step : S -> res (S + S)) (s : S) : res S :=
  match fuel with
  | O => OutOfFuel
  | Datatypes.S f =>
      bind (step s) (fun r => match r with inl s' => while_loop f step s' | inr s' => Ok s' end)
  end.

(* for i in range(lo, hi): the number of iterations is known on entry, no fuel is needed *)
Fixpoint for_go {S : Type} (n : nat) (i : Z) (body : Z -> S -> res (S + S)) (s : S) : res S :=
  match n with
  | O => Ok s
  | Datatypes.S k =>
      bind (body i s) (fun r => match r with inl s' => for_go k (i + 1)%Z body s' | inr s' => Ok s' end)
  end.
Definition for_range {S : Type} (lo hi : Z) (body : Z -> S -> res (S + S)) (s : S) : res S :=
  for_go (Z.to_nat (hi - lo)) lo body s.

(* ------------------------------------------------------------------------------------------ *)
(* rewriting lemmas used by the equivalence files                                             *)
(* ------------------------------------------------------------------------------------------ *)
Lemma bind_Ok {A B} (a : A) (k : A -> res B) : bind (Ok a) k = k a.
Proof. reflexivity. Qed.

Lemma while_loop_S {S : Type} (f : nat) (step : S -> res (S + S)) (s : S) :
  while_loop (Datatypes.S f) step s =
  bind (step s) (fun r => match r with inl s' => while_loop f step s' | inr s' => Ok s' end).
Proof. reflexivity. Qed.

Lemma zget_nat {A} (l : list A) (i : nat) (d : A) :
  i < length l -> zget l (Z.of_nat i) = Ok (nth i l d).
Proof.
  intros H. unfold zget.
  destruct (Z.ltb_spec (Z.of_nat i) 0); [lia|].
  rewrite Nat2Z.id. destruct (nth_error l i) eqn:E.
  - rewrite (nth_error_nth _ _ d E). reflexivity.
  - apply nth_error_None in E. lia.
Qed.

Lemma zset_nat {A} (l : list A) (i : nat) (v : A) :
  i < length l -> zset l (Z.of_nat i) v = Ok (upd_nat l i v).
Proof.
  intros H. unfold zset, zlen.
  destruct (Z.ltb_spec (Z.of_nat i) 0); [lia|].
  destruct (Z.ltb_spec (Z.of_nat i) (Z.of_nat (length l))); [|lia].
  rewrite Nat2Z.id. reflexivity.
Qed.

Lemma upd_nat_length {A} (l : list A) i v : length (upd_nat l i v) = length l.
Proof. revert i. induction l; destruct i; simpl; auto. Qed.
