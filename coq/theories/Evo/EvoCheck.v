(* Evo/EvoCheck.v — comparison functions of the shadow-execution correspondence check (K), shared by the Evo
   properties (C01, C02, C07).  Nothing here is used by a theorem.
   A case = initial world (built from the real initial population by harness/evo.py), an operation list and one
   observation per state (initial state included).  For every state the model must agree with the
   implementation on:
     - the alias partition over all owned slots of the population (exact: bijection loc <-> class),
     - the value partition (refinement: equal model content ids => equal observed values; the map
       content id -> observed value class is threaded through the WHOLE run, so "the model says this
       cell was not written" implies "its value did not change"),
     - per agent: index, mutation label, architecture ids, optimizer<->parameter identity, lr,
       hyper-parameter values, block sizes.
   The initial world must satisfy the hypothesis of the population theorems ([sep_b]). *)
From Coq Require Import List NArith QArith Bool FMapPositive.
From AgileV Require Import Evo.Heap Evo.Evo.
Import ListNotations.
Open Scope N_scope.

Record aobs := mkAObs { ao_index : N; ao_mut : N; ao_archs : list N; ao_opts : list (bool * Q);
                        ao_hps : list Q; ao_counts : list nat }.
Record obs := mkObs { ob_alias : list N; ob_vals : list N; ob_agents : list aobs }.

Definition heap_of (l : list (N * N)) : heap := fold_left (fun h p => upd h (fst p) (snd p)) l hempty.

Fixpoint list_eqb {A B} (f : A -> B -> bool) (l : list A) (m : list B) : bool :=
  match l, m with
  | [], [] => true
  | a :: r, b :: s => f a b && list_eqb f r s
  | _, _ => false
  end.

(* the optimizer references exactly the exposed parameters of its networks (order irrelevant:
   multi-agent optimizers list them agent by agent) *)
Definition same_set (l m : list N) : bool :=
  Nat.eqb (length l) (length m) && forallb (fun x => mem x m) l && forallb (fun x => mem x l) m.
Definition refs_ok (a : agent) (o : opt) : bool :=
  match find_optcfg (a_reg a) (o_name o) with
  | Some c => same_set (o_refs o) (want_refs a c)
  | None => false
  end.

Definition agent_ok (a : agent) (o : aobs) : bool :=
  N.eqb (a_index a) (ao_index o) && N.eqb (a_mut a) (ao_mut o) &&
  list_eqb N.eqb (map snd (a_arch a)) (ao_archs o) &&
  list_eqb (fun x p => Bool.eqb (refs_ok a x) (fst p) && Qeq_bool (o_lr x) (snd p)) (a_opts a) (ao_opts o) &&
  list_eqb Qeq_bool (map snd (a_hps a)) (ao_hps o) &&
  list_eqb Nat.eqb (map (fun kv => length (snd kv)) (a_blocks a)) (ao_counts o).

Fixpoint bij (ls cs : list N) (m1 m2 : PositiveMap.t N) : bool :=
  match ls, cs with
  | [], [] => true
  | l :: lr, c :: cr =>
      let k1 := N.succ_pos l in
      let k2 := N.succ_pos c in
      match PositiveMap.find k1 m1, PositiveMap.find k2 m2 with
      | Some c', Some l' => N.eqb c c' && N.eqb l l' && bij lr cr m1 m2
      | None, None => bij lr cr (PositiveMap.add k1 c m1) (PositiveMap.add k2 l m2)
      | _, _ => false
      end
  | _, _ => false
  end.

Fixpoint valref (cs vs : list N) (m : PositiveMap.t N) : option (PositiveMap.t N) :=
  match cs, vs with
  | [], [] => Some m
  | c :: cr, v :: vr =>
      match PositiveMap.find (N.succ_pos c) m with
      | Some v' => if N.eqb v v' then valref cr vr m else None
      | None => valref cr vr (PositiveMap.add (N.succ_pos c) v m)
      end
  | _, _ => None
  end.

Definition state_ok (w : world) (o : obs) (m : PositiveMap.t N) : option (PositiveMap.t N) :=
  if list_eqb agent_ok (w_pop w) (ob_agents o)
     && bij (all_locs w) (ob_alias o) (PositiveMap.empty N) (PositiveMap.empty N)
  then valref (map (rd (w_store w)) (all_locs w)) (ob_vals o) m
  else None.

Fixpoint check_steps (w : world) (ops : list op) (os : list obs) (m : PositiveMap.t N) : bool :=
  match ops, os with
  | [], [] => true
  | o :: r, ob :: obr =>
      let w' := step w o in
      match state_ok w' ob m with
      | Some m' => check_steps w' r obr m'
      | None => false
      end
  | _, _ => false
  end.

Definition check_run (w : world) (ops : list op) (os : list obs) : bool :=
  match os with
  | [] => false
  | o0 :: r =>
      sep_b w &&
      match state_ok w o0 (PositiveMap.empty N) with
      | Some m => check_steps w ops r m
      | None => false
      end
  end.

(* index of the first state on which model and implementation disagree (diagnostics only) *)
Fixpoint first_bad (w : world) (ops : list op) (os : list obs) (m : PositiveMap.t N) (k : nat) : nat :=
  match ops, os with
  | o :: r, ob :: obr =>
      let w' := step w o in
      match state_ok w' ob m with
      | Some m' => first_bad w' r obr m' (S k)
      | None => k
      end
  | _, _ => 9999%nat
  end.
