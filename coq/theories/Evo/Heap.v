(* Evo/Heap.v — the store of the shared Evo model (used by C01, later C02 / C07).

   AgileRL's evolutionary loop manipulates a graph of mutable Python / PyTorch objects.  What the
   Evo properties say about it (independence of copies, coherence, faithful checkpoints) is about
   identity, ownership and which cells an operation writes, not about the numbers inside tensors.

   * [loc]   identity of a mutable object (a parameter tensor, an optimizer-state tensor, a Python
             list such as [scores], an [RL-param], a [hidden_size] list).           (binary [N])
   * [cval]  content identifier: equal identifiers = equal values.  A write of an opaque result
             (gradient step, noise, re-initialisation) stores a brand-new identifier.     (binary [N])
   * [store] = allocation pointer + fresh-content counter + heap (total function loc -> cval).
   * primitives: [alloc] (one new cell per source: copy of an existing cell's content / fresh content),
     [write_fresh] (in-place write of opaque new values), [write_vals] (in-place write of given contents).

   This file holds definitions AND their basic lemmas (allocation yields the interval
   [next, next+k), nothing below [next] is touched, contents of copies), because every Evo client
   needs them; the lemmas are closed (no axioms).  Pure stdlib style (no mathcomp / std++). *)
From Coq Require Import List NArith Lia Bool FMapPositive.
Import ListNotations.
Open Scope N_scope.

Definition loc := N.
Definition cval := N.

(* the heap is a finite map (binary trie, so that the model runs fast under vm_compute) read as a
   total function with default content 0; [hget_upd] is the only fact the rest relies on *)
Definition heap := PositiveMap.t cval.
Definition hget (h : heap) (l : loc) : cval :=
  match PositiveMap.find (N.succ_pos l) h with Some c => c | None => 0 end.
Definition upd (h : heap) (l : loc) (c : cval) : heap := PositiveMap.add (N.succ_pos l) c h.
Definition hempty : heap := PositiveMap.empty cval.

Record store := mkStore { s_next : loc; s_fresh : cval; s_heap : heap }.
Definition rd (s : store) (l : loc) : cval := hget (s_heap s) l.

Fixpoint nseq (n : N) (k : nat) : list N :=
  match k with O => [] | S k' => n :: nseq (N.succ n) k' end.

Inductive src := CopyOf (l : loc) | FreshV.

Definition alloc1 (s : store) (x : src) : store :=
  match x with
  | CopyOf l0 => mkStore (N.succ (s_next s)) (s_fresh s) (upd (s_heap s) (s_next s) (rd s l0))
  | FreshV => mkStore (N.succ (s_next s)) (N.succ (s_fresh s)) (upd (s_heap s) (s_next s) (s_fresh s))
  end.

(* allocate one new cell per source, at consecutive locations starting at [s_next] *)
Fixpoint alloc (s : store) (srcs : list src) : store * list loc :=
  match srcs with
  | [] => (s, [])
  | x :: r => let '(s2, ls) := alloc (alloc1 s x) r in (s2, s_next s :: ls)
  end.

(* in-place write of opaque new values *)
Fixpoint write_fresh (s : store) (ls : list loc) : store :=
  match ls with
  | [] => s
  | l :: r => write_fresh (mkStore (s_next s) (N.succ (s_fresh s)) (upd (s_heap s) l (s_fresh s))) r
  end.

(* in-place write of given contents (zip; extra elements ignored) *)
Fixpoint write_vals (s : store) (ls : list loc) (cs : list cval) : store :=
  match ls, cs with
  | l :: r, c :: cr => write_vals (mkStore (s_next s) (s_fresh s) (upd (s_heap s) l c)) r cr
  | _, _ => s
  end.

(* dst[i] := src[i]; all sources are read before the first write (tensor.copy_ of a state dict) *)
Definition write_copy (s : store) (dsts srcs : list loc) : store :=
  write_vals s dsts (map (rd s) srcs).

Definition mem (l : loc) (ls : list loc) : bool := existsb (N.eqb l) ls.

Fixpoint nodupb (ls : list loc) : bool :=
  match ls with [] => true | l :: r => negb (mem l r) && nodupb r end.

(* ------------------------------------------------------------------------------------------ *)
(* lemmas *)

Lemma succ_pos_inj a b : N.succ_pos a = N.succ_pos b -> a = b.
Proof. intros H. rewrite <- (N.pos_pred_succ a), <- (N.pos_pred_succ b), H. reflexivity. Qed.

Lemma hget_upd h l c x : hget (upd h l c) x = if N.eqb x l then c else hget h x.
Proof.
  unfold hget, upd. destruct (N.eqb_spec x l).
  - subst. rewrite PositiveMap.gss. reflexivity.
  - rewrite PositiveMap.gso; auto. intro E. apply n. apply succ_pos_inj; auto.
Qed.

Lemma in_nseq : forall k n x, In x (nseq n k) <-> n <= x < n + N.of_nat k.
Proof.
  induction k as [|k IH]; intros n x; cbn [nseq].
  - split; [contradiction|lia].
  - cbn [In]. rewrite IH. lia.
Qed.

Lemma nseq_length : forall k n, length (nseq n k) = k.
Proof. induction k; intros; cbn; auto. Qed.

Lemma nseq_NoDup : forall k n, NoDup (nseq n k).
Proof.
  induction k as [|k IH]; intros n; cbn [nseq]; constructor; auto.
  rewrite in_nseq. lia.
Qed.

Lemma nseq_app : forall a b n, nseq n (a + b) = nseq n a ++ nseq (n + N.of_nat a) b.
Proof.
  induction a as [|a IH]; intros b n.
  - cbn. f_equal. lia.
  - cbn [Nat.add nseq app]. f_equal. rewrite IH. f_equal. f_equal. lia.
Qed.

Lemma mem_In l ls : mem l ls = true <-> In l ls.
Proof.
  unfold mem. rewrite existsb_exists. split.
  - intros (x & Hx & E). apply N.eqb_eq in E. subst; auto.
  - intros H. exists l. split; auto. apply N.eqb_refl.
Qed.

Lemma nodupb_NoDup ls : nodupb ls = true <-> NoDup ls.
Proof.
  induction ls as [|l r IH]; cbn [nodupb].
  - split; auto. constructor.
  - rewrite andb_true_iff, negb_true_iff, IH. split.
    + intros [Hm Hn]. constructor; auto. intro Hin. apply mem_In in Hin. congruence.
    + intros H. inversion H; subst. split; auto.
      destruct (mem l r) eqn:E; auto. apply mem_In in E. contradiction.
Qed.

Lemma alloc1_next s x : s_next (alloc1 s x) = N.succ (s_next s).
Proof. destruct x; reflexivity. Qed.

Lemma alloc1_frame s x l : l < s_next s -> rd (alloc1 s x) l = rd s l.
Proof.
  intros H. unfold rd. destruct x; cbn [alloc1 s_heap]; rewrite hget_upd;
    destruct (N.eqb_spec l (s_next s)); auto; lia.
Qed.

Lemma alloc1_fresh_mono s x : s_fresh s <= s_fresh (alloc1 s x).
Proof. destruct x; cbn; lia. Qed.

Lemma alloc_locs : forall srcs s, snd (alloc s srcs) = nseq (s_next s) (length srcs).
Proof.
  induction srcs as [|x r IH]; intros s; cbn [alloc length nseq]; auto.
  specialize (IH (alloc1 s x)). destruct (alloc (alloc1 s x) r) as [s2 ls]. cbn [snd] in *.
  rewrite IH, alloc1_next. reflexivity.
Qed.

Lemma alloc_next : forall srcs s, s_next (fst (alloc s srcs)) = s_next s + N.of_nat (length srcs).
Proof.
  induction srcs as [|x r IH]; intros s; cbn [alloc length].
  - cbn. lia.
  - specialize (IH (alloc1 s x)). destruct (alloc (alloc1 s x) r) as [s2 ls]. cbn [fst] in *.
    rewrite IH, alloc1_next. lia.
Qed.

Lemma alloc_frame : forall srcs s l, l < s_next s -> rd (fst (alloc s srcs)) l = rd s l.
Proof.
  induction srcs as [|x r IH]; intros s l H; cbn [alloc]; auto.
  specialize (IH (alloc1 s x) l). destruct (alloc (alloc1 s x) r) as [s2 ls]. cbn [fst] in *.
  rewrite IH by (rewrite alloc1_next; lia). apply alloc1_frame; auto.
Qed.

Lemma alloc_fresh_mono : forall srcs s, s_fresh s <= s_fresh (fst (alloc s srcs)).
Proof.
  induction srcs as [|x r IH]; intros s; cbn [alloc]; [cbn; lia|].
  specialize (IH (alloc1 s x)). destruct (alloc (alloc1 s x) r) as [s2 ls]. cbn [fst] in *.
  pose proof (alloc1_fresh_mono s x). lia.
Qed.

(* contents of cells allocated as copies of existing cells *)
Lemma alloc_copy_content : forall ls s, Forall (fun l => l < s_next s) ls ->
  map (rd (fst (alloc s (map CopyOf ls)))) (snd (alloc s (map CopyOf ls))) = map (rd s) ls.
Proof.
  induction ls as [|l r IH]; intros s Hall; cbn [map alloc]; auto.
  inversion Hall as [|? ? Hl Hr]; subst.
  pose proof (IH (alloc1 s (CopyOf l))) as IH'.
  pose proof (alloc_frame (map CopyOf r) (alloc1 s (CopyOf l)) (s_next s)) as Hf.
  destruct (alloc (alloc1 s (CopyOf l)) (map CopyOf r)) as [s2 out]. cbn [fst snd map] in *.
  rewrite Hf by (rewrite alloc1_next; lia).
  f_equal.
  - unfold rd. cbn [alloc1 s_heap]. rewrite hget_upd, N.eqb_refl. reflexivity.
  - rewrite IH'.
    + apply map_ext_in. intros x Hx. apply alloc1_frame.
      rewrite Forall_forall in Hr. auto.
    + eapply Forall_impl; [|exact Hr]. intros a Ha. cbn beta in *. rewrite alloc1_next. lia.
Qed.

Lemma write_fresh_next : forall ls s, s_next (write_fresh s ls) = s_next s.
Proof. induction ls; intros; cbn [write_fresh]; auto. rewrite IHls. reflexivity. Qed.

Lemma write_fresh_frame : forall ls s x, ~ In x ls -> rd (write_fresh s ls) x = rd s x.
Proof.
  induction ls as [|l r IH]; intros s x Hx; cbn [write_fresh]; auto.
  rewrite IH by (intro; apply Hx; right; auto). unfold rd. cbn [s_heap]. rewrite hget_upd.
  destruct (N.eqb_spec x l); auto. subst. exfalso. apply Hx. left; auto.
Qed.

Lemma write_fresh_mono : forall ls s, s_fresh s <= s_fresh (write_fresh s ls).
Proof. induction ls as [|l r IH]; intros; cbn [write_fresh]; [lia|]. specialize (IH (mkStore (s_next s) (N.succ (s_fresh s)) (upd (s_heap s) l (s_fresh s)))). cbn in IH. lia. Qed.

Lemma write_vals_next : forall ls cs s, s_next (write_vals s ls cs) = s_next s.
Proof. induction ls; intros [|c cr] s; cbn [write_vals]; auto. rewrite IHls. reflexivity. Qed.

Lemma write_vals_fresh : forall ls cs s, s_fresh (write_vals s ls cs) = s_fresh s.
Proof. induction ls; intros [|c cr] s; cbn [write_vals]; auto. rewrite IHls. reflexivity. Qed.

Lemma write_vals_frame : forall ls cs s x, ~ In x ls -> rd (write_vals s ls cs) x = rd s x.
Proof.
  induction ls as [|l r IH]; intros [|c cr] s x Hx; cbn [write_vals]; auto.
  rewrite IH by (intro; apply Hx; right; auto). unfold rd. cbn [s_heap]. rewrite hget_upd.
  destruct (N.eqb_spec x l); auto. subst. exfalso. apply Hx. left; auto.
Qed.

(* writing a duplicate-free list of cells stores exactly the given contents *)
Lemma write_vals_content : forall ls cs s, NoDup ls -> length ls = length cs ->
  map (rd (write_vals s ls cs)) ls = cs.
Proof.
  induction ls as [|l r IH]; intros [|c cr] s ND HL; cbn [write_vals map length] in *; try discriminate; auto.
  inversion ND; subst. f_equal.
  - rewrite write_vals_frame by auto. unfold rd. cbn [s_heap]. rewrite hget_upd, N.eqb_refl. reflexivity.
  - apply IH; auto.
Qed.

Lemma write_copy_next s d r : s_next (write_copy s d r) = s_next s.
Proof. apply write_vals_next. Qed.

Lemma write_copy_frame s d r x : ~ In x d -> rd (write_copy s d r) x = rd s x.
Proof. apply write_vals_frame. Qed.

Lemma write_copy_content s d r : NoDup d -> length d = length r ->
  map (rd (write_copy s d r)) d = map (rd s) r.
Proof. intros. unfold write_copy. apply write_vals_content; auto. rewrite map_length; auto. Qed.
