(* Evo/EvoProofs.v — lemmas about the Evo model (shared by C01, C02, C07).

   Structure:
   1. block lists ([getb], [setb]) and duplicate-freeness of concatenations;
   2. [local_ok f]: the contract of an agent-local transformer — it may allocate, may write the
      agent's own cells, returns an agent whose cells are its old cells or newly allocated ones, keeps
      them duplicate-free, and leaves every other allocated cell of the heap untouched.  The
      primitives [realloc], [wfresh], [wcopy], [pure] satisfy it and it is closed under sequencing,
      hence learn / score / act / every mutation kind / hooks / optimizer re-creation satisfy it;
   3. [clone_agent]: all cells of the copy are newly allocated, duplicate-free, nothing that existed
      is written ([clone_spec]); contents of the copy ([copy_blocks_spec]);
   4. populations: [WF] (separation + boundedness) is preserved by every operation ([step_WF],
      [run_WF]) and an operation on agent i leaves agent j <> i and all of its cells alone
      ([apply_local_frame], [clone_into_frame], [step_frame]). *)
From Coq Require Import List NArith Lia Bool Permutation.
From AgileV Require Import Evo.Heap Evo.Evo.
Import ListNotations.
Open Scope N_scope.

Definition bounded (s : store) (ls : list loc) : Prop := Forall (fun l => l < s_next s) ls.
Definition locs_of (bs : blocks) : list loc := concat (map snd bs).

(* ---------------------------------------------------------------------------------------------- *)
(* 1. lists *)

Lemma NoDup_app_inv {A} (l l' : list A) : NoDup (l ++ l') ->
  NoDup l /\ NoDup l' /\ forall x, In x l -> ~ In x l'.
Proof.
  induction l as [|a l IH]; cbn [app]; intros ND.
  - repeat split; auto. constructor.
  - inversion ND as [|? ? Hn ND']; subst. destruct (IH ND') as (N1 & N2 & D).
    repeat split; auto.
    + constructor; auto. intro; apply Hn; apply in_or_app; auto.
    + intros x [->|Hx]; auto. intro; apply Hn; apply in_or_app; auto.
Qed.

Lemma NoDup_app_intro {A} (l l' : list A) :
  NoDup l -> NoDup l' -> (forall x, In x l -> ~ In x l') -> NoDup (l ++ l').
Proof.
  induction l as [|a l IH]; intros N1 N2 D; cbn [app]; auto.
  inversion N1; subst. constructor.
  - intro Hin. apply in_app_or in Hin as [Hin|Hin]; auto. apply (D a); [left|]; auto.
  - apply IH; auto. intros x Hx. apply D. right; auto.
Qed.

Lemma getb_incl k bs l : In l (getb k bs) -> In l (locs_of bs).
Proof.
  unfold locs_of. induction bs as [|kv r IH]; cbn [getb map concat]; [contradiction|].
  destruct (key_eqb k (fst kv)); intros H; apply in_or_app; auto.
Qed.

Lemma setb_incl k v bs l : In l (locs_of (setb k v bs)) -> In l (locs_of bs) \/ In l v.
Proof.
  unfold locs_of. induction bs as [|kv r IH]; cbn [setb map concat]; [contradiction|].
  destruct (key_eqb k (fst kv)); cbn [map concat fst snd]; intros H; apply in_app_or in H as [H|H].
  - right; auto.
  - left. apply in_or_app; auto.
  - left. apply in_or_app; auto.
  - destruct (IH H); auto. left. apply in_or_app; auto.
Qed.

Lemma setb_NoDup k v bs : NoDup (locs_of bs) -> NoDup v ->
  (forall l, In l v -> ~ In l (locs_of bs)) -> NoDup (locs_of (setb k v bs)).
Proof.
  unfold locs_of. induction bs as [|kv r IH]; cbn [setb map concat]; intros ND NV D; auto.
  destruct (NoDup_app_inv _ _ ND) as (N1 & N2 & D12).
  destruct (key_eqb k (fst kv)); cbn [map concat fst snd].
  - apply NoDup_app_intro; auto. intros x Hx Hr. apply (D x Hx). apply in_or_app; auto.
  - apply NoDup_app_intro; auto.
    + apply IH; auto. intros l Hl Hr. apply (D l Hl). apply in_or_app; auto.
    + intros x Hx Hs. destruct (setb_incl k v r x Hs) as [H|H].
      * apply (D12 x Hx H).
      * apply (D x H). apply in_or_app; auto.
Qed.

Lemma setb_keys k v bs : map fst (setb k v bs) = map fst bs.
Proof. induction bs as [|kv r IH]; cbn [setb map]; auto. destruct (key_eqb k (fst kv)); cbn [map fst]; f_equal; auto. Qed.

(* ---------------------------------------------------------------------------------------------- *)
(* 2. agent-local transformers *)

Definition local_ok (f : lstate -> lstate) : Prop :=
  forall x : lstate,
    s_next (fst x) <= s_next (fst (f x)) /\
    (forall l, In l (agent_locs (snd (f x))) ->
               In l (agent_locs (snd x)) \/ s_next (fst x) <= l < s_next (fst (f x))) /\
    (NoDup (agent_locs (snd x)) -> bounded (fst x) (agent_locs (snd x)) -> NoDup (agent_locs (snd (f x)))) /\
    (forall l, l < s_next (fst x) -> ~ In l (agent_locs (snd x)) -> rd (fst (f x)) l = rd (fst x) l).

Lemma local_ok_id : local_ok (fun x => x).
Proof. intros x. repeat split; auto; try lia. Qed.

Lemma local_ok_comp f g : local_ok f -> local_ok g -> local_ok (fun x => g (f x)).
Proof.
  intros Hf Hg x. destruct (Hf x) as (F1 & F2 & F3 & F4). destruct (Hg (f x)) as (G1 & G2 & G3 & G4).
  split; [lia|]. split; [|split].
  - intros l Hl. destruct (G2 l Hl) as [H|H].
    + destruct (F2 l H) as [H'|H']; auto. right; lia.
    + right; lia.
  - intros ND B. apply G3; auto.
    apply Forall_forall. intros l Hl. destruct (F2 l Hl) as [H|H].
    + unfold bounded in B. rewrite Forall_forall in B. specialize (B l H). lia.
    + lia.
  - intros l Hl Hn. rewrite G4.
    + apply F4; auto.
    + lia.
    + intro H. destruct (F2 l H) as [H'|H']; auto. lia.
Qed.

Lemma local_ok_dep (F : lstate -> lstate -> lstate) :
  (forall y, local_ok (F y)) -> local_ok (fun x => F x x).
Proof. intros H x. exact (H x x). Qed.

Lemma local_ok_seqL fs : Forall local_ok fs -> local_ok (seqL fs).
Proof.
  unfold seqL. induction fs as [|f r IH]; intros H; cbn [fold_left].
  - apply local_ok_id.
  - inversion H; subst. apply (local_ok_comp f (fun x => fold_left (fun st g => g st) r x)); auto.
Qed.

Lemma local_ok_if (b : lstate -> bool) f g : local_ok f -> local_ok g -> local_ok (fun x => if b x then f x else g x).
Proof. intros Hf Hg x. destruct (b x); [apply Hf|apply Hg]. Qed.

Lemma local_ok_pure f : (forall a, a_blocks (f a) = a_blocks a) -> local_ok (pure f).
Proof.
  intros H x. unfold pure, agent_locs. cbn [fst snd]. rewrite H. repeat split; auto; try lia.
Qed.

Lemma local_ok_realloc k srcs : local_ok (realloc k srcs).
Proof.
  intros [s a]. unfold realloc. cbn [fst snd].
  pose proof (alloc_locs srcs s) as HL. pose proof (alloc_next srcs s) as HN.
  pose proof (alloc_frame srcs s) as HF.
  destruct (alloc s srcs) as [s' ls]. cbn [fst snd] in *.
  unfold agent_locs. cbn [with_blocks a_blocks]. fold (locs_of (setb k ls (a_blocks a))). fold (locs_of (a_blocks a)).
  split; [lia|]. split; [|split].
  - intros l Hl. destruct (setb_incl _ _ _ _ Hl) as [H|H]; auto.
    right. rewrite HL in H. apply in_nseq in H. lia.
  - intros ND B. apply setb_NoDup; auto.
    + rewrite HL. apply nseq_NoDup.
    + intros l Hl Hin. rewrite HL in Hl. apply in_nseq in Hl.
      unfold bounded in B. rewrite Forall_forall in B. specialize (B l Hin). lia.
  - intros l Hl _. apply HF; auto.
Qed.

Lemma local_ok_wfresh k : local_ok (wfresh k).
Proof.
  intros [s a]. unfold wfresh. cbn [fst snd]. rewrite write_fresh_next.
  repeat split; auto; try lia.
  intros l _ Hn. apply write_fresh_frame. intro H. apply Hn. eapply getb_incl; eauto.
Qed.

Lemma local_ok_wcopy kd ks : local_ok (wcopy kd ks).
Proof.
  intros [s a]. unfold wcopy. cbn [fst snd].
  destruct (Nat.eqb _ _); cbn [fst snd]; [rewrite write_copy_next|]; repeat split; auto; try lia.
  intros l _ Hn. apply write_copy_frame. intro H. apply Hn. eapply getb_incl; eauto.
Qed.

Ltac lok :=
  repeat first
    [ apply local_ok_realloc | apply local_ok_wfresh | apply local_ok_wcopy | apply local_ok_id
    | apply local_ok_pure; intros; reflexivity
    | apply local_ok_seqL
    | apply Forall_nil
    | apply Forall_cons
    | apply Forall_app; split ].

Lemma Forall_map_ok {A} (g : A -> lstate -> lstate) l : (forall a, local_ok (g a)) -> Forall local_ok (map g l).
Proof. intros H. induction l; cbn; constructor; auto. Qed.

Lemma Forall_flat_map_ok {A} (g : A -> list (lstate -> lstate)) l :
  (forall a, Forall local_ok (g a)) -> Forall local_ok (flat_map g l).
Proof. intros H. induction l; cbn [flat_map]; [constructor|]. apply Forall_app. split; auto. Qed.

Lemma local_ok_reinit_one c : local_ok (reinit_one c).
Proof. unfold reinit_one. lok. Qed.

Lemma local_ok_reinit_opts w : local_ok (reinit_opts w).
Proof.
  unfold reinit_opts. apply (local_ok_dep (fun y => seqL (map reinit_one (filter w (r_opts (a_reg (snd y))))))).
  intros y. apply local_ok_seqL. apply Forall_map_ok. apply local_ok_reinit_one.
Qed.

Lemma local_ok_run_hook h : local_ok (run_hook h).
Proof.
  destruct h as [e t|p others|]; unfold run_hook.
  - apply (local_ok_if (fun x => Nat.eqb (length (blk (snd x) (t, cEnc))) (length (blk (snd x) (e, cEnc))) &&
                                  Nat.eqb (length (blk (snd x) (t, cHead))) (length (blk (snd x) (e, cHead))) &&
                                  Nat.eqb (length (blk (snd x) (t, cBuf))) (length (blk (snd x) (e, cBuf))))).
    + lok.
    + apply local_ok_id.
  - apply local_ok_seqL. apply Forall_flat_map_ok. intros o. constructor; [|constructor; [|constructor; [|constructor]]].
    + apply (local_ok_dep (fun y => realloc (o, cHenc) (map CopyOf (blk (snd y) (p, cEnc))))). intros; apply local_ok_realloc.
    + apply local_ok_realloc.
    + apply local_ok_wfresh.
  - apply (local_ok_dep (fun y => realloc kExt (map (fun _ => FreshV) (blk (snd y) kExt)))). intros; apply local_ok_realloc.
Qed.

Lemma local_ok_run_hooks : local_ok run_hooks.
Proof.
  unfold run_hooks. apply (local_ok_dep (fun y => seqL (map run_hook (r_hooks (a_reg (snd y)))))).
  intros y. apply local_ok_seqL. apply Forall_map_ok. apply local_ok_run_hook.
Qed.

Lemma local_ok_learn_opt ok : local_ok (learn_opt ok).
Proof.
  unfold learn_opt.
  apply (local_ok_if (fun x => Nat.eqb (length (blk (snd x) (fst ok, cOst))) (snd ok))).
  - apply local_ok_wfresh.
  - apply local_ok_realloc.
Qed.

Lemma local_ok_learn st : local_ok (learn_agent st).
Proof.
  unfold learn_agent.
  apply (local_ok_dep (fun y => seqL (flat_map (fun n => [wfresh (n, cEnc); wfresh (n, cHead); wfresh (n, cBuf)]) (net_names (snd y))
                                      ++ [wfresh kExt] ++ map learn_opt st))).
  intros y. apply local_ok_seqL. apply Forall_app. split; [|apply Forall_app; split].
  - apply Forall_flat_map_ok. intros n. lok.
  - lok.
  - apply Forall_map_ok. apply local_ok_learn_opt.
Qed.

Lemma local_ok_score : local_ok score_agent.
Proof. apply local_ok_wfresh. Qed.

Lemma local_ok_act : local_ok act_agent.
Proof.
  unfold act_agent.
  apply (local_ok_dep (fun y => seqL (map (fun n => wfresh (n, cBuf)) (net_names (snd y)) ++ [wfresh kExt]))).
  intros y. apply local_ok_seqL. apply Forall_app. split.
  - apply Forall_map_ok. intros n. apply local_ok_wfresh.
  - lok.
Qed.

Lemma local_ok_rebuild_eval sh : local_ok (rebuild_eval sh).
Proof. unfold rebuild_eval. lok. Qed.

Lemma local_ok_rebuild_shared_one e s : local_ok (rebuild_shared_one e s).
Proof.
  unfold rebuild_shared_one.
  apply (local_ok_dep (fun y => seqL
     [ realloc (s, cEnc) (map CopyOf (blk (snd y) (e, cEnc)) ++ repeat FreshV (length (blk (snd y) (e, cHenc))));
       realloc (s, cHead) (map CopyOf (blk (snd y) (e, cHead)));
       realloc (s, cHenc) [];
       realloc (s, cConst) (map CopyOf (blk (snd y) (e, cConst)));
       realloc (s, cCfg) (map CopyOf (blk (snd y) (e, cCfg)));
       realloc (s, cBuf) (map CopyOf (blk (snd y) (e, cBuf)));
       pure (fun a' => with_arch a' (setN s (lookupN 0 e (a_arch a')) (a_arch a'))) ])).
  intros y. lok.
Qed.

Lemma local_ok_rebuild_shared : local_ok rebuild_shared.
Proof.
  unfold rebuild_shared.
  apply (local_ok_dep (fun y => seqL (flat_map (fun g => map (fun s z => rebuild_shared_one (g_eval g) s z) (g_shared g))
                                               (r_groups (a_reg (snd y)))))).
  intros y. apply local_ok_seqL. apply Forall_flat_map_ok. intros g.
  apply Forall_map_ok. intros s. apply local_ok_rebuild_shared_one.
Qed.

Lemma local_ok_mutate_kind k sh : local_ok (mutate_kind k sh).
Proof.
  destruct k; unfold mutate_kind.
  - apply local_ok_id.
  - apply local_ok_seqL. apply Forall_app. split.
    + apply Forall_map_ok. apply local_ok_rebuild_eval.
    + constructor; [apply local_ok_run_hooks|constructor; [apply local_ok_reinit_opts|constructor]].
  - apply (local_ok_dep (fun y => seqL [wfresh (policy_name (a_reg (snd y)), cEnc); wfresh (policy_name (a_reg (snd y)), cHead);
                                        wfresh (policy_name (a_reg (snd y)), cBuf); reinit_opts (fun _ => true)])).
    intros y. apply local_ok_seqL. repeat (constructor; try apply local_ok_wfresh; try apply local_ok_reinit_opts).
  - apply (local_ok_if (fun x => r_act_skip (a_reg (snd x)))).
    + apply local_ok_id.
    + apply local_ok_seqL. apply Forall_app. split.
      * apply Forall_map_ok. apply local_ok_rebuild_eval.
      * constructor; [apply local_ok_reinit_opts|constructor].
  - apply local_ok_seqL. constructor; [apply local_ok_pure; intros; reflexivity|].
    constructor; [apply local_ok_wfresh|]. constructor; [apply local_ok_reinit_opts|constructor].
Qed.

Lemma local_ok_mutate k sh label : local_ok (mutate_agent k sh label).
Proof.
  unfold mutate_agent. apply local_ok_seqL.
  constructor; [apply local_ok_mutate_kind|]. constructor; [apply local_ok_rebuild_shared|].
  constructor; [apply local_ok_run_hooks|]. constructor; [apply local_ok_pure; intros; reflexivity|constructor].
Qed.

(* ---------------------------------------------------------------------------------------------- *)
(* 3. clone *)

Lemma copy_blocks_spec : forall bs s,
  let r := copy_blocks s bs in
  locs_of (snd r) = nseq (s_next s) (length (locs_of bs)) /\
  s_next (fst r) = s_next s + N.of_nat (length (locs_of bs)) /\
  map fst (snd r) = map fst bs /\
  (forall l, l < s_next s -> rd (fst r) l = rd s l) /\
  (bounded s (locs_of bs) ->
     map (fun kv => map (rd (fst r)) (snd kv)) (snd r) = map (fun kv => map (rd s) (snd kv)) bs).
Proof.
  unfold locs_of. induction bs as [|kv rest IH]; intros s; cbn [copy_blocks map concat length].
  - cbn. repeat split; auto. lia.
  - pose proof (alloc_locs (map CopyOf (snd kv)) s) as HL.
    pose proof (alloc_next (map CopyOf (snd kv)) s) as HN.
    pose proof (alloc_frame (map CopyOf (snd kv)) s) as HF.
    pose proof (alloc_copy_content (snd kv) s) as HC.
    destruct (alloc s (map CopyOf (snd kv))) as [s1 ls]. cbn [fst snd] in *.
    rewrite map_length in HL, HN.
    specialize (IH s1). cbn zeta in IH.
    destruct (copy_blocks s1 rest) as [s2 out]. cbn [fst snd map concat] in *.
    destruct IH as (I1 & I2 & I3 & I4 & I5).
    split; [|split; [|split; [|split]]].
    + rewrite I1, HL, HN, app_length, nseq_app. reflexivity.
    + rewrite I2, HN, app_length. lia.
    + f_equal; auto.
    + intros l Hl. rewrite I4 by lia. apply HF; auto.
    + intros B. unfold bounded in B. apply Forall_app in B as [B1 B2]. f_equal.
      * rewrite <- HC by auto. apply map_ext_in. intros x Hx. apply I4.
        rewrite HL in Hx. apply in_nseq in Hx. lia.
      * rewrite I5.
        -- apply map_ext_in. intros kv' Hkv. apply map_ext_in. intros x Hx. apply HF.
           rewrite Forall_forall in B2. apply B2. apply in_concat. exists (snd kv'). split; auto.
           apply in_map; auto.
        -- unfold bounded. eapply Forall_impl; [|exact B2]. cbn beta. intros; lia.
Qed.

(* the part of clone_agent that runs on the freshly copied agent is agent-local *)
Definition clone_tail (idx : option N) (ext_src : list loc) : lstate -> lstate :=
  fun x0 => pure (fun c => match idx with Some i => with_index c i | None => c end)
              (realloc kExt (map CopyOf ext_src) (pure fix_refs (run_hooks x0))).

Lemma local_ok_clone_tail idx e : local_ok (clone_tail idx e).
Proof.
  unfold clone_tail.
  apply (local_ok_comp (fun x0 => realloc kExt (map CopyOf e) (pure fix_refs (run_hooks x0)))).
  - apply (local_ok_comp (fun x0 => pure fix_refs (run_hooks x0))).
    + apply (local_ok_comp run_hooks); [apply local_ok_run_hooks|apply local_ok_pure; intros; reflexivity].
    + apply local_ok_realloc.
  - apply local_ok_pure. intros a. destruct idx; reflexivity.
Qed.

Lemma clone_agent_unfold idx s a :
  clone_agent idx s a = clone_tail idx (blk a kExt) (fst (copy_blocks s (a_blocks a)), with_blocks a (snd (copy_blocks s (a_blocks a)))).
Proof. unfold clone_agent, clone_tail. destruct (copy_blocks s (a_blocks a)); reflexivity. Qed.

(* every cell of the copy is newly allocated; the copy is duplicate-free; nothing that existed before
   is written *)
Theorem clone_spec idx s a :
  let r := clone_agent idx s a in
  s_next s <= s_next (fst r) /\
  (forall l, In l (agent_locs (snd r)) -> s_next s <= l < s_next (fst r)) /\
  NoDup (agent_locs (snd r)) /\
  (forall l, l < s_next s -> rd (fst r) l = rd s l).
Proof.
  cbn zeta. rewrite clone_agent_unfold.
  destruct (copy_blocks_spec (a_blocks a) s) as (C1 & C2 & C3 & C4 & _).
  set (s1 := fst (copy_blocks s (a_blocks a))) in *.
  set (bs := snd (copy_blocks s (a_blocks a))) in *.
  destruct (local_ok_clone_tail idx (blk a kExt) (s1, with_blocks a bs)) as (L1 & L2 & L3 & L4).
  cbn [fst snd] in *. unfold agent_locs in L2, L3, L4. cbn [with_blocks a_blocks] in *.
  fold (locs_of bs) in *.
  assert (Hin : forall l, In l (locs_of bs) -> s_next s <= l < s_next s1).
  { intros l Hl. rewrite C1 in Hl. apply in_nseq in Hl. lia. }
  split; [lia|]. split; [|split].
  - intros l Hl. destruct (L2 l Hl) as [H|H]; [specialize (Hin l H)|]; lia.
  - apply L3.
    + rewrite C1. apply nseq_NoDup.
    + apply Forall_forall. intros l Hl. specialize (Hin l Hl). lia.
  - intros l Hl. rewrite L4; [apply C4; auto|lia|].
    intro H. specialize (Hin l H). lia.
Qed.

(* ---------------------------------------------------------------------------------------------- *)
(* 4. populations *)

Definition WF (w : world) : Prop := NoDup (all_locs w) /\ bounded (w_store w) (all_locs w).

Lemma sep_b_WF w : sep_b w = true <-> WF w.
Proof.
  unfold sep_b, WF, bounded. rewrite andb_true_iff, nodupb_NoDup, forallb_forall, Forall_forall.
  split; intros [H1 H2]; split; auto; intros x Hx; specialize (H2 x Hx); [apply N.ltb_lt in H2|apply N.ltb_lt]; auto.
Qed.

Lemma concat_update_incl {A} (L : list (list A)) : forall i new old x,
  nth_error L i = Some old -> In x (concat (update i new L)) ->
  In x new \/ In x (concat L).
Proof.
  induction L as [|h t IH]; intros [|i] new old x Hi Hx; cbn [nth_error update concat] in *; try discriminate.
  - apply in_app_or in Hx as [H|H]; auto. right. apply in_or_app; auto.
  - apply in_app_or in Hx as [H|H]; [right; apply in_or_app; auto|].
    destruct (IH i new old x Hi H); auto. right; apply in_or_app; auto.
Qed.

Lemma NoDup_concat_update {A} (L : list (list A)) : forall i new old,
  NoDup (concat L) -> nth_error L i = Some old -> NoDup new ->
  (forall x, In x new -> In x old \/ ~ In x (concat L)) ->
  NoDup (concat (update i new L)).
Proof.
  induction L as [|h t IH]; intros [|i] new old ND Hi NN D; cbn [nth_error update concat] in *; try discriminate; auto.
  - injection Hi as <-. destruct (NoDup_app_inv _ _ ND) as (N1 & N2 & D12).
    apply NoDup_app_intro; auto. intros x Hx Ht. destruct (D x Hx) as [H|H].
    + apply (D12 x H Ht).
    + apply H. apply in_or_app; auto.
  - destruct (NoDup_app_inv _ _ ND) as (N1 & N2 & D12).
    apply NoDup_app_intro; auto.
    + apply (IH i new old); auto. intros x Hx. destruct (D x Hx) as [H|H]; auto.
      right. intro H'. apply H. apply in_or_app; auto.
    + intros x Hx Hu. destruct (concat_update_incl t i new old x Hi Hu) as [H|H].
      * destruct (D x H) as [H'|H'].
        -- apply (D12 x Hx). apply in_concat. exists old. split; auto. eapply nth_error_In; eauto.
        -- apply H'. apply in_or_app; auto.
      * apply (D12 x Hx H).
Qed.

Lemma NoDup_concat_disjoint {A} (ls : list (list A)) : forall i j a b x,
  NoDup (concat ls) -> nth_error ls i = Some a -> nth_error ls j = Some b -> i <> j ->
  In x a -> ~ In x b.
Proof.
  induction ls as [|l ls IH]; intros i j a b x ND Hi Hj Hne Ha Hb.
  - destruct i; discriminate.
  - cbn [concat] in ND. destruct (NoDup_app_inv _ _ ND) as (N1 & N2 & D).
    destruct i as [|i], j as [|j]; cbn [nth_error] in *; try congruence.
    + injection Hi as <-. apply (D x Ha). apply in_concat. exists b. split; auto. eapply nth_error_In; eauto.
    + injection Hj as <-. apply (D x Hb). apply in_concat. exists a. split; auto. eapply nth_error_In; eauto.
    + eapply (IH i j a b x); eauto.
Qed.

Lemma map_update {A B} (f : A -> B) (l : list A) : forall i x, map f (update i x l) = update i (f x) (map f l).
Proof. induction l as [|h t IH]; intros [|i] x; cbn; auto. f_equal; auto. Qed.

Lemma nth_error_update_ne {A} (l : list A) : forall i j x, i <> j -> nth_error (update i x l) j = nth_error l j.
Proof. induction l as [|h t IH]; intros [|i] [|j] x H; cbn; auto; try congruence. Qed.

Lemma in_all_locs w j b l : nth_error (w_pop w) j = Some b -> In l (agent_locs b) -> In l (all_locs w).
Proof.
  intros Hj Hl. unfold all_locs. apply in_concat. exists (agent_locs b). split; auto.
  apply in_map. eapply nth_error_In; eauto.
Qed.

(* separation is preserved by any agent-local transformer applied to one member *)
Theorem apply_local_WF i f w : local_ok f -> WF w -> WF (apply_local i f w).
Proof.
  intros Hf [ND B]. unfold apply_local. destruct (nth_error (w_pop w) i) as [a|] eqn:Hi; [|split; auto].
  destruct (Hf (w_store w, a)) as (F1 & F2 & F3 & F4). cbn [fst snd] in *.
  set (x := f (w_store w, a)) in *.
  assert (Ba : bounded (w_store w) (agent_locs a)).
  { apply Forall_forall. intros l Hl. unfold bounded in B. rewrite Forall_forall in B. apply B. apply (in_all_locs w i a l Hi Hl). }
  assert (Hm : nth_error (map agent_locs (w_pop w)) i = Some (agent_locs a)).
  { rewrite nth_error_map, Hi. reflexivity. }
  assert (Na : NoDup (agent_locs a)).
  { clear - ND Hi. unfold all_locs in ND. revert i Hi ND. generalize (w_pop w) as p.
    induction p as [|h t IH]; intros [|i] Hi ND; cbn in *; try discriminate.
    - injection Hi as <-. apply (NoDup_app_inv _ _ ND).
    - apply (IH i Hi). apply (NoDup_app_inv _ _ ND). }
  unfold WF, all_locs. cbn [w_pop w_store]. rewrite map_update. split.
  - apply (NoDup_concat_update _ i _ (agent_locs a)); auto.
    intros l Hl. destruct (F2 l Hl) as [H|H]; auto.
    right. intro Hin. unfold bounded in B. rewrite Forall_forall in B. specialize (B l Hin). lia.
  - apply Forall_forall. intros l Hl.
    destruct (concat_update_incl _ i _ _ l Hm Hl) as [H|H].
    + destruct (F2 l H) as [H'|H']; [|lia].
      unfold bounded in Ba. rewrite Forall_forall in Ba. specialize (Ba l H'). lia.
    + unfold bounded in B. rewrite Forall_forall in B. specialize (B l H). lia.
Qed.

(* ... and leaves every other member, and every cell it owns, exactly as it was *)
Theorem apply_local_frame i f w j b : local_ok f -> WF w -> i <> j -> nth_error (w_pop w) j = Some b ->
  nth_error (w_pop (apply_local i f w)) j = Some b /\
  forall l, In l (agent_locs b) -> rd (w_store (apply_local i f w)) l = rd (w_store w) l.
Proof.
  intros Hf [ND B] Hne Hj. unfold apply_local. destruct (nth_error (w_pop w) i) as [a|] eqn:Hi; [|split; auto].
  destruct (Hf (w_store w, a)) as (F1 & F2 & F3 & F4). cbn [fst snd w_pop w_store] in *. split.
  - rewrite nth_error_update_ne; auto.
  - intros l Hl. apply F4.
    + unfold bounded in B. rewrite Forall_forall in B. apply B. apply (in_all_locs w j b l Hj Hl).
    + intro Ha. unfold all_locs in ND.
      eapply (NoDup_concat_disjoint (map agent_locs (w_pop w)) j i (agent_locs b) (agent_locs a) l); eauto.
      * rewrite nth_error_map, Hj; reflexivity.
      * rewrite nth_error_map, Hi; reflexivity.
Qed.

Theorem clone_into_WF i idx w : WF w -> WF (clone_into clone_agent i idx w).
Proof.
  intros [ND B]. unfold clone_into. destruct (nth_error (w_pop w) i) as [a|] eqn:Hi; [|split; auto].
  destruct (clone_spec idx (w_store w) a) as (C1 & C2 & C3 & C4).
  destruct (clone_agent idx (w_store w) a) as [s' c]. cbn [fst snd] in *.
  unfold WF, all_locs in *. cbn [w_pop w_store]. rewrite map_app, concat_app. cbn [map concat]. rewrite app_nil_r.
  unfold bounded in *. rewrite Forall_forall in B. split.
  - apply NoDup_app_intro; auto. intros x Hx Hc. specialize (B x Hx). specialize (C2 x Hc). lia.
  - apply Forall_app. split; apply Forall_forall; intros x Hx.
    + specialize (B x Hx). lia.
    + specialize (C2 x Hx). lia.
Qed.

(* cloning changes no existing member and no cell that existed *)
Theorem clone_into_frame i idx w j b : WF w -> nth_error (w_pop w) j = Some b ->
  nth_error (w_pop (clone_into clone_agent i idx w)) j = Some b /\
  forall l, l < s_next (w_store w) -> rd (w_store (clone_into clone_agent i idx w)) l = rd (w_store w) l.
Proof.
  intros _ Hj. unfold clone_into. destruct (nth_error (w_pop w) i) as [a|] eqn:Hi; [|split; auto].
  destruct (clone_spec idx (w_store w) a) as (C1 & C2 & C3 & C4).
  destruct (clone_agent idx (w_store w) a) as [s' c]. cbn [fst snd w_pop w_store] in *. split; auto.
  rewrite nth_error_app1; auto. apply nth_error_Some. congruence.
Qed.

Lemma clone_into_next i idx w : s_next (w_store w) <= s_next (w_store (clone_into clone_agent i idx w)).
Proof.
  unfold clone_into. destruct (nth_error (w_pop w) i) as [a|]; [|lia].
  destruct (clone_spec idx (w_store w) a) as (C1 & _).
  destruct (clone_agent idx (w_store w) a) as [s' c]. cbn [fst snd w_store] in *. auto.
Qed.

Lemma clone_into_old_cells i idx w l : l < s_next (w_store w) ->
  rd (w_store (clone_into clone_agent i idx w)) l = rd (w_store w) l.
Proof.
  intros Hl. unfold clone_into. destruct (nth_error (w_pop w) i) as [a|]; auto.
  destruct (clone_spec idx (w_store w) a) as (_ & _ & _ & C4).
  destruct (clone_agent idx (w_store w) a) as [s' c]. cbn [fst snd w_store] in *. auto.
Qed.

Lemma clone_winners_WF : forall ws id old w, WF w -> WF (clone_winners ws id old w).
Proof. induction ws as [|i r IH]; intros; cbn [clone_winners]; auto. apply IH. apply clone_into_WF; auto. Qed.

Lemma clone_winners_old_cells : forall ws id old w l, l < s_next (w_store w) ->
  rd (w_store (clone_winners ws id old w)) l = rd (w_store w) l.
Proof.
  induction ws as [|i r IH]; intros id old w l Hl; cbn [clone_winners]; auto.
  rewrite IH.
  - apply clone_into_old_cells; auto.
  - pose proof (clone_into_next i (Some (N.succ id)) w). lia.
Qed.

(* a sub-population (here: a generation replaced by its successors) of a separated population is separated *)
Lemma WF_sub (s : store) (p q : list agent) :
  WF (mkWorld s p) -> (exists a b, Permutation p (a ++ q ++ b)) -> WF (mkWorld s q).
Proof.
  intros [ND B] (a & b & P). unfold WF, all_locs, bounded in *. cbn [w_pop w_store] in *.
  assert (P' : Permutation (concat (map agent_locs p)) (concat (map agent_locs (a ++ q ++ b)))).
  { clear - P. induction P; cbn; auto.
    - apply Permutation_app_head; auto.
    - rewrite !app_assoc. apply Permutation_app_tail. apply Permutation_app_comm.
    - eapply Permutation_trans; eauto. }
  rewrite !map_app, !concat_app in P'.
  pose proof (Permutation_NoDup P' ND) as ND'.
  split.
  - apply NoDup_app_inv in ND' as (_ & ND2 & _). apply NoDup_app_inv in ND2 as (ND3 & _). auto.
  - apply Forall_forall. intros x Hx. rewrite Forall_forall in B. apply B.
    apply (Permutation_in x (Permutation_sym P')). apply in_or_app. right. apply in_or_app. left; auto.
Qed.

Lemma skipn_1_skipn {A} : forall n (l : list A), skipn 1 (skipn n l) = skipn (S n) l.
Proof.
  induction n as [|n IH]; intros l; [reflexivity|]. destruct l as [|h t]; [reflexivity|].
  change (skipn 1 (skipn n t) = skipn (S n) t). apply IH.
Qed.

Theorem select_WF e ws el w : WF w -> WF (select e ws el w).
Proof.
  intros H. unfold select.
  set (n := length (w_pop w)).
  set (w1 := clone_into clone_agent e None w).
  set (w2 := if el then clone_into clone_agent n None w1 else w1).
  set (w3 := clone_winners ws (max_index (w_pop w)) n w2).
  assert (H3 : WF w3).
  { apply clone_winners_WF. unfold w2. destruct el; [apply clone_into_WF|]; apply clone_into_WF; auto. }
  destruct w3 as [s3 p3]. cbn [w_store w_pop].
  apply (WF_sub s3 p3); auto.
  exists (firstn n p3), []. rewrite app_nil_r.
  rewrite <- (firstn_skipn n p3) at 1. apply Permutation_app_head.
  rewrite <- (firstn_skipn 1 (skipn n p3)) at 1. rewrite skipn_1_skipn.
  apply Permutation_app_comm.
Qed.

Lemma remove_nth_split {A} (l : list A) : forall i, exists a b, Permutation l (a ++ remove_nth i l ++ b).
Proof.
  induction l as [|h t IH]; intros [|i]; cbn [remove_nth].
  - exists [], []. constructor.
  - exists [], []. constructor.
  - exists [h], []. rewrite app_nil_r. apply Permutation_refl.
  - destruct (IH i) as (a & b & P). exists a, b.
    eapply Permutation_trans; [apply perm_skip; exact P|].
    cbn [app]. apply Permutation_middle.
Qed.

Theorem discard_WF i w : WF w -> WF (mkWorld (w_store w) (remove_nth i (w_pop w))).
Proof. intros H. destruct w as [s p]. cbn [w_store w_pop]. apply (WF_sub s p); auto. apply remove_nth_split. Qed.

Theorem step_WF w o : WF w -> WF (step w o).
Proof.
  intros H. destruct o; cbn [step].
  - apply apply_local_WF; auto. apply local_ok_learn.
  - apply apply_local_WF; auto. apply local_ok_score.
  - apply apply_local_WF; auto. apply local_ok_act.
  - apply clone_into_WF; auto.
  - apply apply_local_WF; auto. apply local_ok_mutate.
  - apply select_WF; auto.
  - apply discard_WF; auto.
Qed.

Theorem run_WF ops : forall w, WF w -> WF (run w ops).
Proof. unfold run. induction ops as [|o r IH]; intros w H; cbn [fold_left]; auto. apply IH. apply step_WF; auto. Qed.

(* the member an operation is aimed at (None: the operation only reads existing members) *)
Definition op_target (o : op) : option nat :=
  match o with
  | Learn i _ | Score i | Act i | Mutate i _ _ _ => Some i
  | Clone _ _ | Select _ _ _ | Discard _ => None
  end.

(* FRAME: an operation never changes the content of a cell owned by a member it is not aimed at *)
Theorem step_frame w o j b l : WF w -> nth_error (w_pop w) j = Some b -> op_target o <> Some j ->
  In l (agent_locs b) -> rd (w_store (step w o)) l = rd (w_store w) l.
Proof.
  intros H Hj Ht Hl.
  assert (Hb : l < s_next (w_store w)).
  { destruct H as [_ B]. unfold bounded in B. rewrite Forall_forall in B. apply B. apply (in_all_locs w j b l Hj Hl). }
  destruct o; cbn [step op_target] in *.
  - apply (apply_local_frame i _ w j b (local_ok_learn st)); auto; congruence.
  - apply (apply_local_frame i _ w j b local_ok_score); auto; congruence.
  - apply (apply_local_frame i _ w j b local_ok_act); auto; congruence.
  - apply clone_into_old_cells; auto.
  - apply (apply_local_frame i _ w j b (local_ok_mutate k sh label)); auto; congruence.
  - unfold select. cbn [w_store]. rewrite clone_winners_old_cells.
    + destruct elitism.
      * rewrite clone_into_old_cells; [apply clone_into_old_cells; auto|].
        pose proof (clone_into_next elite None w). lia.
      * apply clone_into_old_cells; auto.
    + destruct elitism.
      * pose proof (clone_into_next elite None w).
        pose proof (clone_into_next (length (w_pop w)) None (clone_into clone_agent elite None w)). lia.
      * pose proof (clone_into_next elite None w). lia.
  - reflexivity.
Qed.

(* ... and never changes the record (structure, optimizers, hyper-parameters, label) of such a member *)
Theorem step_frame_agent w o j b : WF w -> nth_error (w_pop w) j = Some b -> op_target o <> Some j ->
  match o with
  | Select _ _ _ | Discard _ => True
  | _ => nth_error (w_pop (step w o)) j = Some b
  end.
Proof.
  intros H Hj Ht. destruct o; cbn [step op_target] in *; auto.
  - apply (apply_local_frame i _ w j b (local_ok_learn st)); auto; congruence.
  - apply (apply_local_frame i _ w j b local_ok_score); auto; congruence.
  - apply (apply_local_frame i _ w j b local_ok_act); auto; congruence.
  - apply (clone_into_frame i idx w j b); auto.
  - apply (apply_local_frame i _ w j b (local_ok_mutate k sh label)); auto; congruence.
Qed.
