(* Evo/Evo.v — executable model of AgileRL's evolutionary object graph (definitions only, no proofs).
   Shared by C01 (clone), C02 (mutation coherence), C07 (checkpoints); lemmas are in Evo/EvoProofs.v.

   AGENT.  An agent owns *blocks* of cells.  A block is identified by a key (owner name, class):
       class 0 enc    exposed encoder tensors of a network attribute   (in state_dict / parameters())
       class 1 head   the other exposed tensors of the network
       class 2 henc   encoder tensors that are NOT exposed: the detached copies that
                      share_encoder_parameters() installs in critics (agilerl/utils/algo_utils.py)
       class 3 const  tensors rebuilt by the constructor (action bounds, Rainbow support)
       class 4 cfg    mutable size lists inside init_dict (hidden_size, channel_size, ...)
       class 5 ost    optimizer state tensors (exp_avg, exp_avg_sq, step per parameter)
       class 6 reg    RL-param objects of registry.hp_config        (owner 0)
       class 7 book   scores / fitness / steps lists                   (owner 0)
       class 8 ext    other tensor attributes (sigma_inv, theta_0 ...) (owner 0)
       class 9 buf    registered buffers of a network: in state_dict but not in parameters()
                      (noisy-layer epsilon tensors)
   [a_blocks] is an association list key -> cells in the canonical slot order that harness/evo.py
   uses as well; [agent_locs] = all owned locations.  Optimizers additionally hold *references*
   [o_refs] to parameter cells (not owned by the optimizer).  Names (network / optimizer /
   hyper-parameter attribute names) are numbers assigned by the harness.

   REGISTRY.  Per-algorithm data extracted from the real MutationRegistry at check time: network groups
   (eval, shared, policy flag), optimizer configs (name, networks, lr attribute), mutation hooks
   ([HSync e t] = DQN.init_hook: t.load_state_dict(e.state_dict()); [HShare p others] =
   share_encoder_parameters(p, *others); [HBandit] = NeuralUCB/TS.init_params), hp names.

   OPERATIONS mirror the code path by path (agilerl/algorithms/core/base.py clone/copy_attributes,
   agilerl/modules/base.py clone, agilerl/hpo/mutation.py, agilerl/hpo/tournament.py) out of the
   primitives of Evo/Heap.v.  PyTorch copy/alias behaviour is explicit:
     module.load_state_dict          writes contents into existing cells           ([wcopy])
     deepcopy / constructor          new cells                                      ([realloc])
     optimizer.load_state_dict(sd)   ALIASES the state tensors of sd (torch 2.5)  -> the current tree
                                     deep-copies sd first ([clone_agent]); the pinned behaviour is kept
                                     as [clone_agent_aliasing] for the refutation theorem.
   An opaque numerical result (gradient step, noise, re-initialisation) is a fresh content id.
   What an operation cannot decide by itself (how many state tensors Adam allocated, the shape of a
   mutated network, tournament draws) is an explicit argument of the operation. *)
From Coq Require Import List NArith QArith Bool.
From AgileV Require Import Evo.Heap.
Import ListNotations.
Open Scope N_scope.

Definition name := N.
Definition key := (N * N)%type.
Definition key_eqb (a b : key) : bool := N.eqb (fst a) (fst b) && N.eqb (snd a) (snd b).

Definition cEnc := 0. Definition cHead := 1. Definition cHenc := 2. Definition cConst := 3.
Definition cCfg := 4. Definition cOst := 5. Definition cReg := 6. Definition cBook := 7. Definition cExt := 8.
Definition cBuf := 9.
Definition kReg : key := (0, cReg). Definition kBook : key := (0, cBook). Definition kExt : key := (0, cExt).

Record group := mkGroup { g_eval : name; g_shared : list name; g_policy : bool }.
Record optcfg := mkOptCfg { oc_name : name; oc_nets : list name; oc_lr : name }.
Inductive hook := HSync (e t : name) | HShare (p : name) (others : list name) | HBandit.
Record registry := mkReg { r_groups : list group; r_opts : list optcfg; r_hooks : list hook;
                           r_hps : list name; r_act_skip : bool }.

Record opt := mkOpt { o_name : name; o_lr : Q; o_refs : list loc }.
Definition blocks := list (key * list loc).
Record agent := mkAgent { a_index : N; a_mut : N; a_arch : list (name * N); a_opts : list opt;
                          a_hps : list (name * Q); a_reg : registry; a_blocks : blocks }.

Fixpoint getb (k : key) (bs : blocks) : list loc :=
  match bs with [] => [] | kv :: r => if key_eqb k (fst kv) then snd kv else getb k r end.
(* replaces the first block with key k (keys are unique in well-formed agents) *)
Fixpoint setb (k : key) (v : list loc) (bs : blocks) : blocks :=
  match bs with
  | [] => []
  | kv :: r => if key_eqb k (fst kv) then (fst kv, v) :: r else kv :: setb k v r
  end.
Definition agent_locs (a : agent) : list loc := concat (map snd (a_blocks a)).

Definition with_blocks (a : agent) (bs : blocks) : agent :=
  mkAgent (a_index a) (a_mut a) (a_arch a) (a_opts a) (a_hps a) (a_reg a) bs.
Definition with_opts (a : agent) (os : list opt) : agent :=
  mkAgent (a_index a) (a_mut a) (a_arch a) os (a_hps a) (a_reg a) (a_blocks a).
Definition with_arch (a : agent) (ar : list (name * N)) : agent :=
  mkAgent (a_index a) (a_mut a) ar (a_opts a) (a_hps a) (a_reg a) (a_blocks a).
Definition with_hps (a : agent) (h : list (name * Q)) : agent :=
  mkAgent (a_index a) (a_mut a) (a_arch a) (a_opts a) h (a_reg a) (a_blocks a).
Definition with_index (a : agent) (i : N) : agent :=
  mkAgent i (a_mut a) (a_arch a) (a_opts a) (a_hps a) (a_reg a) (a_blocks a).
Definition with_mut (a : agent) (m : N) : agent :=
  mkAgent (a_index a) m (a_arch a) (a_opts a) (a_hps a) (a_reg a) (a_blocks a).

(* ---- agent-local state transformers -------------------------------------------------------- *)
Definition lstate := (store * agent)%type.

(* replace block k by newly allocated cells, one per source *)
Definition realloc (k : key) (srcs : list src) (x : lstate) : lstate :=
  let '(s', ls) := alloc (fst x) srcs in (s', with_blocks (snd x) (setb k ls (a_blocks (snd x)))).
(* opaque in-place write of block k *)
Definition wfresh (k : key) (x : lstate) : lstate :=
  (write_fresh (fst x) (getb k (a_blocks (snd x))), snd x).
(* block kd := contents of block ks (in place), when the sizes agree *)
Definition wcopy (kd ks : key) (x : lstate) : lstate :=
  let d := getb kd (a_blocks (snd x)) in
  let r := getb ks (a_blocks (snd x)) in
  if Nat.eqb (length d) (length r) then (write_copy (fst x) d r, snd x) else x.
(* change of non-cell fields only *)
Definition pure (f : agent -> agent) (x : lstate) : lstate := (fst x, f (snd x)).

Definition seqL (fs : list (lstate -> lstate)) (x : lstate) : lstate :=
  fold_left (fun st f => f st) fs x.

Definition blk (a : agent) (k : key) : list loc := getb k (a_blocks a).
Definition exposed (a : agent) (n : name) : list loc := blk a (n, cEnc) ++ blk a (n, cHead).
Definition net_names (a : agent) : list name := map fst (a_arch a).

Fixpoint lookupN {A} (d : A) (n : name) (l : list (name * A)) : A :=
  match l with [] => d | (k, v) :: r => if N.eqb n k then v else lookupN d n r end.
Definition setN {A} (n : name) (v : A) (l : list (name * A)) : list (name * A) :=
  map (fun kv => if N.eqb n (fst kv) then (fst kv, v) else kv) l.

Definition find_optcfg (r : registry) (n : name) : option optcfg :=
  find (fun c => N.eqb (oc_name c) n) (r_opts r).

(* parameters an optimizer built now on the agent's networks would reference *)
Definition want_refs (a : agent) (c : optcfg) : list loc := concat (map (exposed a) (oc_nets c)).

(* OptimizerWrapper(...) over the current networks: new (empty) state, references to the live
   parameters, lr read from the agent attribute (Mutations.reinit_opt) *)
Definition reinit_one (c : optcfg) : lstate -> lstate :=
  seqL [ realloc (oc_name c, cOst) [];
         pure (fun a => with_opts a (map (fun o => if N.eqb (o_name o) (oc_name c)
                                               then mkOpt (o_name o) (lookupN (o_lr o) (oc_lr c) (a_hps a)) (want_refs a c)
                                               else o) (a_opts a))) ].
Definition reinit_opts (which : optcfg -> bool) (x : lstate) : lstate :=
  seqL (map reinit_one (filter which (r_opts (a_reg (snd x))))) x.

(* ---- mutation hooks ------------------------------------------------------------------------ *)
Definition run_hook (h : hook) (x : lstate) : lstate :=
  match h with
  | HSync e t =>
      let a := snd x in
      if Nat.eqb (length (blk a (t, cEnc))) (length (blk a (e, cEnc))) &&
         Nat.eqb (length (blk a (t, cHead))) (length (blk a (e, cHead))) &&
         Nat.eqb (length (blk a (t, cBuf))) (length (blk a (e, cBuf)))
      then seqL [wcopy (t, cEnc) (e, cEnc); wcopy (t, cHead) (e, cHead); wcopy (t, cBuf) (e, cBuf)] x else x
  | HShare p others =>
      (* every other network gets a detached copy of the policy's encoder; its own encoder
         parameters disappear from parameters()/state_dict() *)
      seqL (flat_map (fun o => [ (fun y => realloc (o, cHenc) (map CopyOf (blk (snd y) (p, cEnc))) y);
                                 realloc (o, cEnc) [];
                                 wfresh (o, cBuf)   (* encoder buffers (batch-norm statistics) are overwritten too *)
                               ]) others) x
  | HBandit => realloc kExt (map (fun _ => FreshV) (blk (snd x) kExt)) x
  end.
Definition run_hooks (x : lstate) : lstate := seqL (map run_hook (r_hooks (a_reg (snd x)))) x.

(* ---- learn --------------------------------------------------------------------------------- *)
(* one learn(): may write every exposed cell of every registered network (gradient step, soft
   update) and the ext tensors; an optimizer whose state has [k] tensors afterwards either wrote
   its existing state in place (same count) or allocated it (Adam creates state lazily). *)
Definition learn_opt (ok : name * nat) (x : lstate) : lstate :=
  let k := (fst ok, cOst) in
  if Nat.eqb (length (blk (snd x) k)) (snd ok) then wfresh k x else realloc k (repeat FreshV (snd ok)) x.
Definition learn_agent (st : list (name * nat)) (x : lstate) : lstate :=
  seqL (flat_map (fun n => [wfresh (n, cEnc); wfresh (n, cHead); wfresh (n, cBuf)]) (net_names (snd x))
        ++ [wfresh kExt] ++ map learn_opt st) x.

(* the training loop appends a score / fitness and bumps steps[-1] *)
Definition score_agent : lstate -> lstate := wfresh kBook.

(* get_action(): exploration-noise state, bandit confidence matrix ... (ext tensors) and, in training
   mode, batch-norm statistics (buffers) may be written *)
Definition act_agent (x : lstate) : lstate :=
  seqL (map (fun n => wfresh (n, cBuf)) (net_names (snd x)) ++ [wfresh kExt]) x.

(* ---- mutations (agilerl/hpo/mutation.py) ----------------------------------------------------- *)
Record netshape := mkShape { ns_name : name; ns_arch : N; ns_enc : nat; ns_head : nat; ns_henc : nat;
                             ns_const : nat; ns_cfg : nat; ns_buf : nat }.
Inductive mkind := MNone | MArch | MParam | MAct | MHp (h : name) (v : Q).

(* an evaluation network replaced by its mutated offspring: all tensors are new objects *)
Definition rebuild_eval (sh : netshape) : lstate -> lstate :=
  let n := ns_name sh in
  seqL [ realloc (n, cEnc) (repeat FreshV (ns_enc sh)); realloc (n, cHead) (repeat FreshV (ns_head sh));
         realloc (n, cHenc) (repeat FreshV (ns_henc sh)); realloc (n, cConst) (repeat FreshV (ns_const sh));
         realloc (n, cCfg) (repeat FreshV (ns_cfg sh)); realloc (n, cBuf) (repeat FreshV (ns_buf sh));
         pure (fun a => with_arch a (setN n (ns_arch sh) (a_arch a))) ].

(* Mutations.reinit_from_mutated: shared network rebuilt from the eval network's init_dict, then
   load_state_dict(eval.state_dict(), strict=False).  An encoder that is hidden in the eval
   network is a fresh exposed encoder in the rebuilt one (until a hook shares it again). *)
Definition rebuild_shared_one (e s : name) (x : lstate) : lstate :=
  let a := snd x in
  seqL [ realloc (s, cEnc) (map CopyOf (blk a (e, cEnc)) ++ repeat FreshV (length (blk a (e, cHenc))));
         realloc (s, cHead) (map CopyOf (blk a (e, cHead)));
         realloc (s, cHenc) [];
         realloc (s, cConst) (map CopyOf (blk a (e, cConst)));
         realloc (s, cCfg) (map CopyOf (blk a (e, cCfg)));
         realloc (s, cBuf) (map CopyOf (blk a (e, cBuf)));
         pure (fun a' => with_arch a' (setN s (lookupN 0 e (a_arch a')) (a_arch a'))) ] x.
Definition rebuild_shared (x : lstate) : lstate :=
  seqL (flat_map (fun g => map (fun s y => rebuild_shared_one (g_eval g) s y) (g_shared g))
                 (r_groups (a_reg (snd x)))) x.

Definition policy_name (r : registry) : name :=
  match find g_policy (r_groups r) with Some g => g_eval g | None => 0 end.

Definition mutate_kind (k : mkind) (sh : list netshape) (x : lstate) : lstate :=
  match k with
  | MNone => x
  | MArch => seqL (map rebuild_eval sh ++ [run_hooks; reinit_opts (fun _ => true)]) x
  | MAct => if r_act_skip (a_reg (snd x)) then x
            else seqL (map rebuild_eval sh ++ [reinit_opts (fun _ => true)]) x
  | MParam => let p := policy_name (a_reg (snd x)) in
              seqL [wfresh (p, cEnc); wfresh (p, cHead); wfresh (p, cBuf); reinit_opts (fun _ => true)] x
  | MHp h v => seqL [ pure (fun a => with_hps a (setN h v (a_hps a))); wfresh kReg;
                      reinit_opts (fun c => N.eqb (oc_lr c) h) ] x
  end.

(* Mutations.mutation on one individual: the chosen kind, then every shared network is rebuilt
   from its eval network, then the hooks run *)
Definition mutate_agent (k : mkind) (sh : list netshape) (label : N) : lstate -> lstate :=
  seqL [mutate_kind k sh; rebuild_shared; run_hooks; pure (fun a => with_mut a label)].

(* ---- clone (EvolvableAlgorithm.clone) -------------------------------------------------------- *)
(* every block is copied into new cells: EvolvableModule.clone (constructor + load_state_dict),
   deep-copied optimizer state dict, copy_attributes (lists, registry, differing tensors) *)
Fixpoint copy_blocks (s : store) (bs : blocks) : store * blocks :=
  match bs with
  | [] => (s, [])
  | kv :: r => let '(s1, ls) := alloc s (map CopyOf (snd kv)) in
               let '(s2, out) := copy_blocks s1 r in (s2, (fst kv, ls) :: out)
  end.

Definition fix_refs (a : agent) : agent :=
  with_opts a (map (fun o => match find_optcfg (a_reg a) (o_name o) with
                             | Some c => mkOpt (o_name o) (o_lr o) (want_refs a c)
                             | None => o end) (a_opts a)).

Definition clone_agent (idx : option N) (s : store) (a : agent) : store * agent :=
  let '(s1, bs) := copy_blocks s (a_blocks a) in
  let x1 := run_hooks (s1, with_blocks a bs) in                       (* clone.mutation_hook() *)
  let x2 := pure fix_refs x1 in                                        (* new OptimizerWrapper per config *)
  let x3 := realloc kExt (map CopyOf (blk a kExt)) x2 in               (* copy_attributes: tensors that differ *)
  pure (fun c => match idx with Some i => with_index c i | None => c end) x3.

(* pinned behaviour (before fix 72877d1): optimizer.load_state_dict(orig.state_dict()) keeps the
   parent's state tensors *)
Definition alias_ost (parent : agent) (c : agent) : agent :=
  with_blocks c (fold_left (fun bs o => setb (o_name o, cOst) (blk parent (o_name o, cOst)) bs) (a_opts parent) (a_blocks c)).
Definition clone_agent_aliasing (idx : option N) (s : store) (a : agent) : store * agent :=
  let '(s', c) := clone_agent idx s a in (s', alias_ost a c).

(* ---- populations ----------------------------------------------------------------------------- *)
Record world := mkWorld { w_store : store; w_pop : list agent }.

Fixpoint update {A} (i : nat) (x : A) (l : list A) : list A :=
  match l, i with
  | [], _ => []
  | _ :: t, O => x :: t
  | h :: t, S j => h :: update j x t
  end.
Fixpoint remove_nth {A} (i : nat) (l : list A) : list A :=
  match l, i with
  | [], _ => []
  | _ :: t, O => t
  | h :: t, S j => h :: remove_nth j t
  end.

Definition apply_local (i : nat) (f : lstate -> lstate) (w : world) : world :=
  match nth_error (w_pop w) i with
  | None => w
  | Some a => let x := f (w_store w, a) in mkWorld (fst x) (update i (snd x) (w_pop w))
  end.

Definition clone_into (cl : option N -> store -> agent -> store * agent) (i : nat) (idx : option N) (w : world) : world :=
  match nth_error (w_pop w) i with
  | None => w
  | Some a => let '(s', c) := cl idx (w_store w) a in mkWorld s' (w_pop w ++ [c])
  end.

Definition max_index (p : list agent) : N := fold_left (fun m a => N.max m (a_index a)) p 0.

(* TournamentSelection.select: elite = best.clone(); new population = [elite.clone()] (if elitism)
   ++ clones of the tournament winners with indices max_id+1, ...; the model population afterwards
   is the new population followed by the returned elite object *)
Fixpoint clone_winners (ws : list nat) (id : N) (old : nat) (w : world) : world :=
  match ws with
  | [] => w
  | i :: r => clone_winners r (N.succ id) old (clone_into clone_agent i (Some (N.succ id)) w)
  end.
Definition select (elite : nat) (winners : list nat) (elitism : bool) (w : world) : world :=
  let n := length (w_pop w) in
  let mx := max_index (w_pop w) in
  let w1 := clone_into clone_agent elite None w in                    (* position n: the elite *)
  let w2 := if elitism then clone_into clone_agent n None w1 else w1 in
  let w3 := clone_winners winners mx n w2 in
  mkWorld (w_store w3) (skipn (S n) (w_pop w3) ++ firstn 1 (skipn n (w_pop w3))).

Inductive op :=
| Learn (i : nat) (st : list (name * nat))
| Score (i : nat)
| Act (i : nat)
| Clone (i : nat) (idx : option N)
| Mutate (i : nat) (k : mkind) (sh : list netshape) (label : N)
| Select (elite : nat) (winners : list nat) (elitism : bool)
| Discard (i : nat).

Definition step (w : world) (o : op) : world :=
  match o with
  | Learn i st => apply_local i (learn_agent st) w
  | Score i => apply_local i score_agent w
  | Act i => apply_local i act_agent w
  | Clone i idx => clone_into clone_agent i idx w
  | Mutate i k sh label => apply_local i (mutate_agent k sh label) w
  | Select e ws el => select e ws el w
  | Discard i => mkWorld (w_store w) (remove_nth i (w_pop w))
  end.
Definition run (w : world) (ops : list op) : world := fold_left step ops w.

(* ---- well-formedness (computable) ------------------------------------------------------------ *)
Definition all_locs (w : world) : list loc := concat (map agent_locs (w_pop w)).
Definition sep_b (w : world) : bool :=
  nodupb (all_locs w) && forallb (fun l => N.ltb l (s_next (w_store w))) (all_locs w).
