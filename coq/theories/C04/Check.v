(* C04 — boolean comparison of the model with observations of the implementation (used by K only).
   Scalars cross as Z: an integer-valued weight as itself, any other float32 as 10^10 + its bit pattern
   (injective, so equality of codes is equality of values; the code only ever copies scalars). *)
From Coq Require Import String.
From Coq Require Import List Arith Bool ZArith.
Import ListNotations.
From AgileV Require Import C04.Model.

Fixpoint tensor_eqb (a b : tensor Z) : bool :=
  match a, b with
  | Sc x, Sc y => Z.eqb x y
  | Dim la, Dim lb =>
      (fix go (la lb : list (tensor Z)) : bool :=
         match la, lb with
         | [], [] => true
         | x :: la', y :: lb' => tensor_eqb x y && go la' lb'
         | _, _ => false
         end) la lb
  | _, _ => false
  end.

Definition param_eqb (p q : param Z) : bool :=
  size_eqb (p_size p) (p_size q) && tensor_eqb (p_data p) (p_data q).

Fixpoint named_eqb (a b : named Z) : bool :=
  match a, b with
  | [], [] => true
  | (k, p) :: a', (k', q) :: b' => String.eqb k k' && param_eqb p q && named_eqb a' b'
  | _, _ => false
  end.

Definition wf_namedb (l : named Z) : bool :=
  forallb (fun kp => has_shape (p_data (snd kp)) (p_size (snd kp))) l.

Fixpoint nodupb (l : list string) : bool :=
  match l with [] => true | k :: r => negb (existsb (String.eqb k) r) && nodupb r end.

Fixpoint same_sigb (a b : named Z) : bool :=
  match a, b with
  | [], [] => true
  | (k, p) :: a', (k', q) :: b' => String.eqb k k' && size_eqb (p_size p) (p_size q) && same_sigb a' b'
  | _, _ => false
  end.

(* ---- exchange format: a parameter is sent as (name, size, flat row-major data) --------------- *)
Fixpoint chunks (n sz : nat) (l : list Z) : list (list Z) :=
  match n with 0 => [] | S n' => firstn sz l :: chunks n' sz (skipn sz l) end.
Fixpoint of_flat (s : list nat) (l : list Z) : tensor Z :=
  match s with
  | [] => Sc (hd 0%Z l)
  | d :: s' => Dim (map (of_flat s') (chunks d (fold_right Nat.mul 1 s') l))
  end.
Definition mk (k : string) (s : list Z) (l : list Z) : string * param Z :=
  let s' := map Z.to_nat s in (k, {| p_size := s'; p_data := of_flat s' l |}).
Definition flat_ok (s : list Z) (l : list Z) : bool :=
  Nat.eqb (length l) (fold_right Nat.mul 1 (map Z.to_nat s)).

Definition okb (l : named Z) : bool := wf_namedb l && nodupb (map fst l).

(* ---- unit level: real preserve_parameters / shrink_preserve_parameters on two real layer stacks *)
Definition check_preserve (old new res : named Z) : bool :=
  okb old && okb new && named_eqb (preserve old new) res.

Definition check_shrink (old new : named Z) (res : option (named Z)) : bool :=
  okb old && okb new &&
  match shrink_preserve old new, res with
  | Some r, Some r' => named_eqb r r' && named_eqb r (preserve old new)
  | None, None => true
  | _, _ => false
  end.

(* ---- unit level: real nn.Module.load_state_dict (as used by clone / reinit_from_mutated) between two
        real layer stacks; entries = state_dict (parameters and buffers); err = RuntimeError raised *)
Definition check_load (src dst res : named Z) (err : bool) : bool :=
  okb src && okb dst && named_eqb (load_params src dst) res && Bool.eqb (load_error src dst) err
  && named_eqb (clone src dst) res
  && match reinit_from_mutated src dst with Some r => negb err && named_eqb r res | None => err end.

(* ---- end to end: parameters of a real module before / after a real mutation ------------------ *)
(* the fresh values of the re-created network are not observable; whatever they were, the result is a
   fixed point of [preserve before] (Proofs.preserve_idem_lemma), and a fixed point keeps the common
   slices (Proofs.fixpoint_keeps_common_lemma) *)
(* whenever the shrinking function is applicable to the observed pair it gives the same answer
   (Proofs.shrink_eq_preserve_lemma, validated here on real re-creations) *)
Definition shrink_agrees (before after : named Z) : bool :=
  match shrink_preserve before after with Some r => named_eqb r after | None => true end.
Definition check_step (before after : named Z) : bool :=
  okb before && okb after && named_eqb (preserve before after) after && shrink_agrees before after.
(* architecture unchanged: the model predicts the old parameters exactly *)
Definition check_same (before after : named Z) : bool :=
  okb before && okb after && same_sigb before after && named_eqb (preserve before after) before
  && named_eqb after before.
(* clone / reinit_from_mutated: same signature, no load error, parameters equal *)
Definition check_clone (self cl : named Z) : bool :=
  okb self && okb cl && negb (load_error self cl) && named_eqb (clone self cl) self && named_eqb cl self
  && match reinit_from_mutated self cl with Some r => named_eqb r self | None => false end.

Inductive step := Mut (after : named Z) | Same (after : named Z) | Clone (cl : named Z) | Rand (after : named Z).

(* a chain: the module's parameters after each operation; Clone continues with the clone, Rand
   (weights re-randomised, i.e. training) only requires the signature to be unchanged *)
Fixpoint check_chain (cur : named Z) (steps : list step) : bool :=
  match steps with
  | [] => true
  | Mut a :: r => check_step cur a && check_chain a r
  | Same a :: r => check_same cur a && check_chain a r
  | Clone c :: r => check_clone cur c && check_chain c r
  | Rand a :: r => same_sigb cur a && check_chain a r
  end.

(* ---- train / eval flag: the module was put in evaluation mode before every operation; after a
        re-creation / clone the model (recreate_state / clone_state) predicts the flag of the old module
        for the module and, because train() / __setattr__ propagate, for every sub-module ------------- *)
Definition check_mode (old_training : bool) (observed_module observed_all_submodules_eval : bool) : bool :=
  let predicted := st_training (clone_state {| st_named := @nil (string * param Z); st_training := old_training |}
                                            {| st_named := []; st_training := true |}) in
  Bool.eqb observed_module predicted && Bool.eqb observed_all_submodules_eval (negb predicted).
