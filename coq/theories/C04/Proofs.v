(* C04 — proofs about the model of preserve_parameters / shrink_preserve_parameters / clone. *)
From Coq Require Import String.
From Coq Require Import List Arith Bool Lia.
Import ListNotations.
From AgileV Require Import C04.Model.

Section P.
Context {A : Type}.
Notation tensor := (tensor A).
Notation param := (param A).
Notation named := (named A).

(* nested induction principle for tensors *)
Fixpoint tensor_ind' (P : tensor -> Prop) (Hs : forall a, P (Sc a))
  (Hd : forall l, Forall P l -> P (Dim l)) (t : tensor) : P t :=
  match t with
  | Sc a => Hs a
  | Dim l => Hd l ((fix go (l : list tensor) : Forall P l :=
                      match l with [] => Forall_nil P | x :: xs => Forall_cons x (tensor_ind' P Hs Hd x) (go xs) end) l)
  end.

Lemma overlap_dim (lo ln : list tensor) : overlap (Dim lo) (Dim ln) = Dim (zipo lo ln).
Proof. reflexivity. Qed.

Lemma overlap_d_dim k (lo ln : list tensor) : overlap_d (S k) (Dim lo) (Dim ln) = Dim (zipd k lo ln).
Proof.
  cbn [overlap_d]. f_equal. revert ln. induction lo as [|a lo IH]; intros [|b ln]; cbn [zipd]; try reflexivity.
  rewrite IH. reflexivity.
Qed.

Lemma nth_error_nil_None {T} i : nth_error (@nil T) i = None.
Proof. destruct i; reflexivity. Qed.

Lemma zipo_nth (lo : list tensor) : forall ln i,
  nth_error (zipo lo ln) i =
    match nth_error lo i, nth_error ln i with
    | Some a, Some b => Some (overlap a b)
    | _, r => r
    end.
Proof.
  induction lo as [|a lo IH]; intros ln i.
  - cbn [zipo]. rewrite nth_error_nil_None. reflexivity.
  - destruct ln as [|b ln].
    + cbn [zipo]. rewrite nth_error_nil_None. destruct (nth_error (a :: lo) i); reflexivity.
    + cbn [zipo]. destruct i as [|i]; cbn [nth_error]; [reflexivity|]. apply IH.
Qed.

Lemma zipo_length (lo : list tensor) : forall ln, length (zipo lo ln) = length ln.
Proof. induction lo as [|a lo IH]; intros [|b ln]; cbn [zipo length]; auto. Qed.

(* ---- the complete pointwise characterisation of the slice copy --------------------------- *)
Theorem overlap_get : forall (o n : tensor) ix,
  get (overlap o n) ix =
    match get n ix with
    | None => None
    | Some b => match get o ix with Some a => Some a | None => Some b end
    end.
Proof.
  induction o as [a|lo IH] using tensor_ind'; intros n ix.
  - destruct n as [b|ln]; destruct ix as [|i ix]; cbn [overlap get]; try reflexivity.
    + destruct (nth_error ln i) as [t|]; [destruct (get t ix)|]; reflexivity.
  - destruct n as [b|ln].
    + destruct ix as [|i ix]; cbn [overlap get]; try reflexivity.
    + rewrite overlap_dim. destruct ix as [|i ix]; cbn [get]; [reflexivity|].
      rewrite zipo_nth.
      destruct (nth_error lo i) as [a|] eqn:Ha; destruct (nth_error ln i) as [b|] eqn:Hb; try reflexivity.
      * rewrite Forall_forall in IH. apply (IH a (nth_error_In _ _ Ha)).
      * destruct (get b ix); reflexivity.
Qed.

Corollary overlap_common (o n : tensor) ix a b :
  get o ix = Some a -> get n ix = Some b -> get (overlap o n) ix = Some a.
Proof. intros Ho Hn. rewrite overlap_get, Hn, Ho. reflexivity. Qed.

Corollary overlap_new_only (o n : tensor) ix :
  get o ix = None -> get (overlap o n) ix = get n ix.
Proof. intros Ho. rewrite overlap_get, Ho. destruct (get n ix); reflexivity. Qed.

Corollary overlap_domain (o n : tensor) ix :
  get (overlap o n) ix = None <-> get n ix = None.
Proof.
  rewrite overlap_get. destruct (get n ix); [|tauto].
  destruct (get o ix); split; intros H; discriminate H.
Qed.

(* the result is again a tensor of the new size, whatever the old tensor was *)
Lemma overlap_has_shape : forall (o n : tensor) s, has_shape n s = true -> has_shape (overlap o n) s = true.
Proof.
  induction o as [a|lo IH] using tensor_ind'; intros n s Hn.
  - destruct n; cbn [overlap]; auto.
  - destruct n as [b|ln]; [exact Hn|]. rewrite overlap_dim.
    destruct s as [|d s]; cbn [has_shape] in *; [discriminate|].
    apply andb_true_iff in Hn as [Hl Hf]. rewrite zipo_length, Hl. cbn [andb].
    clear Hl. revert ln Hf. induction IH as [|a lo Ha _ IHlo]; intros ln Hf.
    + destruct ln; exact Hf.
    + destruct ln as [|b ln]; [reflexivity|]. cbn [zipo forallb] in *.
      apply andb_true_iff in Hf as [Hb Hf]. rewrite (Ha b s Hb), (IHlo ln Hf). reflexivity.
Qed.

(* equal sizes: the slice copy takes the whole old tensor *)
Lemma overlap_same_shape : forall (o n : tensor) s,
  has_shape o s = true -> has_shape n s = true -> overlap o n = o.
Proof.
  induction o as [a|lo IH] using tensor_ind'; intros n s Ho Hn.
  - destruct s; [|discriminate]. destruct n; [reflexivity|discriminate].
  - destruct s as [|d s]; [discriminate|]. destruct n as [b|ln]; [discriminate|].
    rewrite overlap_dim. f_equal. cbn [has_shape] in *.
    apply andb_true_iff in Ho as [Hlo Hfo]. apply andb_true_iff in Hn as [Hln Hfn].
    apply Nat.eqb_eq in Hlo, Hln. assert (Hlen : length lo = length ln) by lia. clear Hlo Hln.
    revert ln Hlen Hfn. induction IH as [|a lo Ha _ IHlo]; intros ln Hlen Hfn.
    + destruct ln; [reflexivity|discriminate].
    + destruct ln as [|b ln]; [discriminate|]. cbn [zipo forallb length] in *.
      apply andb_true_iff in Hfo as [Hao Hfo]. apply andb_true_iff in Hfn as [Hbn Hfn].
      rewrite (Ha b s Hao Hbn), (IHlo Hfo ln); auto.
Qed.

Lemma overlap_idem : forall (o n : tensor), overlap o (overlap o n) = overlap o n.
Proof.
  induction o as [a|lo IH] using tensor_ind'; intros n.
  - destruct n; reflexivity.
  - destruct n as [b|ln]; [reflexivity|]. rewrite !overlap_dim. f_equal.
    revert ln. induction IH as [|a lo Ha _ IHlo]; intros ln.
    + destruct ln; reflexivity.
    + destruct ln as [|b ln]; [reflexivity|]. cbn [zipo]. rewrite Ha, IHlo. reflexivity.
Qed.

(* ---- index ranges: tie `get` to "the index range the two shapes have in common" ------------- *)
Fixpoint in_range (ix s : list nat) : bool :=
  match ix, s with
  | [], [] => true
  | i :: ix', d :: s' => (i <? d) && in_range ix' s'
  | _, _ => false
  end.

Lemma forallb_nth_error {T} (f : T -> bool) l i x :
  forallb f l = true -> nth_error l i = Some x -> f x = true.
Proof. intros H Hn. rewrite forallb_forall in H. apply H. eapply nth_error_In; eauto. Qed.

Lemma get_in_range : forall (t : tensor) s ix, has_shape t s = true ->
  (in_range ix s = true <-> exists a, get t ix = Some a).
Proof.
  induction t as [a|l IH] using tensor_ind'; intros s ix Hs.
  - destruct s; [|discriminate]. destruct ix; cbn; split; intros H; eauto; try discriminate.
    destruct H as [? H]; discriminate.
  - destruct s as [|d s]; [discriminate|]. cbn [has_shape] in Hs. apply andb_true_iff in Hs as [Hl Hf].
    apply Nat.eqb_eq in Hl. destruct ix as [|i ix]; cbn [in_range get].
    + split; [discriminate|intros [? H]; discriminate].
    + destruct (nth_error l i) as [t|] eqn:Hn.
      * assert (Hi : i < d) by (rewrite <- Hl; apply nth_error_Some; congruence).
        apply Nat.ltb_lt in Hi. rewrite Hi. cbn [andb].
        rewrite Forall_forall in IH. apply (IH t (nth_error_In _ _ Hn)).
        exact (forallb_nth_error (fun x => has_shape x s) l i t Hf Hn).
      * apply nth_error_None in Hn. assert (Hi : (i <? d) = false) by (apply Nat.ltb_ge; lia).
        rewrite Hi. cbn [andb]. split; [discriminate|intros [? H]; discriminate].
Qed.

(* ---- shrink_preserve_parameters coincides with the full slice copy inside its guard ---------- *)
Lemma zipd_eq_zipo k (so sn : list nat) :
  (forall a b : tensor, has_shape a so = true -> has_shape b sn = true -> overlap_d k a b = overlap a b) ->
  forall lo ln : list tensor, forallb (fun x => has_shape x so) lo = true -> forallb (fun x => has_shape x sn) ln = true ->
  zipd k lo ln = zipo lo ln.
Proof.
  intros H. induction lo as [|a lo IH]; intros ln Hlo Hln.
  - destruct ln; reflexivity.
  - destruct ln as [|b ln]; [reflexivity|]. cbn [zipd zipo forallb] in *.
    apply andb_true_iff in Hlo as [Ha Hlo]. apply andb_true_iff in Hln as [Hb Hln].
    rewrite (H a b Ha Hb), (IH ln Hlo Hln). reflexivity.
Qed.

Lemma overlap_d_eq : forall k (o n : tensor) so sn,
  has_shape o so = true -> has_shape n sn = true -> skipn k so = skipn k sn ->
  overlap_d k o n = overlap o n.
Proof.
  induction k as [|k IH]; intros o n so sn Ho Hn Hs.
  - cbn [skipn] in Hs. subst sn. cbn [overlap_d]. symmetry. eapply overlap_same_shape; eauto.
  - destruct o as [a|lo], n as [b|ln]; try reflexivity.
    rewrite overlap_d_dim, overlap_dim. f_equal.
    destruct so as [|d so]; [discriminate|]. destruct sn as [|d' sn]; [discriminate|].
    cbn [has_shape skipn] in *.
    apply andb_true_iff in Ho as [_ Ho]. apply andb_true_iff in Hn as [_ Hn].
    apply (zipd_eq_zipo k so sn); auto.
    intros a b Ha Hb. eapply IH; eauto.
Qed.

(* ---- association lists ------------------------------------------------------------------ *)
Lemma size_eqb_eq a b : size_eqb a b = true <-> a = b.
Proof.
  revert b; induction a as [|x a IH]; intros [|y b]; cbn; split; intros H; try discriminate; auto.
  - apply andb_true_iff in H as [H1 H2]. apply Nat.eqb_eq in H1. apply IH in H2. congruence.
  - injection H as -> ->. rewrite Nat.eqb_refl. apply IH. reflexivity.
Qed.

Lemma lookup_In k (l : named) p : lookup k l = Some p -> In (k, p) l.
Proof.
  induction l as [|[k' q] l IH]; cbn; [discriminate|].
  destruct (String.eqb_spec k k'); intros H.
  - injection H as ->. subst. auto.
  - auto.
Qed.

Lemma lookup_NoDup k (l : named) p : NoDup (map fst l) -> In (k, p) l -> lookup k l = Some p.
Proof.
  induction l as [|[k' q] l IH]; cbn; [tauto|]. intros Hnd [H|H].
  - injection H as -> ->. rewrite String.eqb_refl. reflexivity.
  - inversion Hnd as [|? ? Hni Hnd']; subst. destruct (String.eqb_spec k k') as [->|]; auto.
    exfalso. apply Hni. apply (in_map fst) in H. exact H.
Qed.

Lemma lookup_in_keys k (l : named) : In k (map fst l) -> exists p, lookup k l = Some p.
Proof.
  induction l as [|[k' q] l IH]; cbn; [tauto|]. intros [H|H].
  - subst. rewrite String.eqb_refl. eauto.
  - destruct (String.eqb k k'); eauto.
Qed.

Lemma lookup_map (f : string * param -> string * param) (l : named) k :
  (forall kp, fst (f kp) = fst kp) ->
  lookup k (map f l) = match lookup k l with Some p => Some (snd (f (k, p))) | None => None end.
Proof.
  intros Hf. induction l as [|[k' q] l IH]; cbn; [reflexivity|].
  specialize (Hf (k', q)) as Hk. destruct (f (k', q)) as [k'' q'] eqn:E. cbn in Hk. subst k''.
  destruct (String.eqb_spec k k') as [->|]; [rewrite E; reflexivity|exact IH].
Qed.

Lemma preserve_one_key (old : named) kp : fst (preserve_one old kp) = fst kp.
Proof.
  destruct kp as [k p]. unfold preserve_one. destruct (lookup k old); [|reflexivity].
  destruct (size_eqb _ _); reflexivity.
Qed.

Lemma load_one_key (src : named) kp : fst (load_one src kp) = fst kp.
Proof.
  destruct kp as [k p]. unfold load_one. destruct (lookup k src); [|reflexivity].
  destruct (size_eqb _ _); reflexivity.
Qed.

Definition wf_param (p : param) : Prop := has_shape (p_data p) (p_size p) = true.
Definition wf_named (l : named) : Prop := Forall (fun kp => wf_param (snd kp)) l.

Lemma wf_lookup (l : named) k p : wf_named l -> lookup k l = Some p -> wf_param p.
Proof.
  intros Hw Hl. apply lookup_In in Hl. unfold wf_named in Hw. rewrite Forall_forall in Hw.
  apply (Hw (k, p) Hl).
Qed.

(* ---- preserve_parameters ---------------------------------------------------------------- *)
Lemma preserve_names (old new : named) : map fst (preserve old new) = map fst new.
Proof.
  unfold preserve. rewrite map_map. apply map_ext. intros kp. apply preserve_one_key.
Qed.

Lemma preserve_sizes (old new : named) :
  map (fun kp => p_size (snd kp)) (preserve old new) = map (fun kp => p_size (snd kp)) new.
Proof.
  unfold preserve. rewrite map_map. apply map_ext. intros [k p]. unfold preserve_one.
  destruct (lookup k old) as [op|]; [|reflexivity].
  destruct (size_eqb _ _) eqn:E; [|reflexivity]. apply size_eqb_eq in E. exact E.
Qed.

Lemma preserve_lookup (old new : named) k :
  lookup k (preserve old new) =
    match lookup k new with Some p => Some (snd (preserve_one old (k, p))) | None => None end.
Proof. apply lookup_map. apply preserve_one_key. Qed.

(* every same-named parameter keeps its values on every index that exists before and after *)
Theorem preserve_keeps_common_lemma : forall (old new : named) k op p,
  lookup k old = Some op -> lookup k new = Some p ->
  exists rp, lookup k (preserve old new) = Some rp /\
    forall ix a b, get (p_data op) ix = Some a -> get (p_data p) ix = Some b -> get (p_data rp) ix = Some a.
Proof.
  intros old new k op p Ho Hn. rewrite preserve_lookup, Hn. eexists; split; [reflexivity|].
  intros ix a b Ha Hb. unfold preserve_one. rewrite Ho.
  destruct (size_eqb _ _); cbn [snd p_data]; [exact Ha|].
  eapply overlap_common; eauto.
Qed.

(* the same, worded with sizes: any multi-index inside both sizes *)
Theorem preserve_keeps_common_range_lemma : forall (old new : named) k op p ix,
  wf_named old -> wf_named new ->
  lookup k old = Some op -> lookup k new = Some p ->
  in_range ix (p_size op) = true -> in_range ix (p_size p) = true ->
  exists rp a, lookup k (preserve old new) = Some rp /\ p_size rp = p_size p /\
    get (p_data op) ix = Some a /\ get (p_data rp) ix = Some a.
Proof.
  intros old new k op p ix Wo Wn Ho Hn Ro Rn.
  pose proof (wf_lookup _ _ _ Wo Ho) as Wop. pose proof (wf_lookup _ _ _ Wn Hn) as Wp.
  apply (get_in_range _ _ ix Wop) in Ro as [a Ha]. apply (get_in_range _ _ ix Wp) in Rn as [b Hb].
  destruct (preserve_keeps_common_lemma old new k op p Ho Hn) as (rp & Hl & Hc).
  exists rp, a. repeat split; eauto.
  rewrite preserve_lookup, Hn in Hl. injection Hl as <-. unfold preserve_one. rewrite Ho.
  destruct (size_eqb _ _) eqn:E; [|reflexivity]. apply size_eqb_eq in E. exact E.
Qed.

(* units that exist only in the new architecture keep the value the constructor gave them *)
Theorem preserve_new_units_lemma : forall (old new : named) k op p ix,
  wf_named old -> wf_named new ->
  lookup k old = Some op -> lookup k new = Some p ->
  in_range ix (p_size op) = false ->
  exists rp, lookup k (preserve old new) = Some rp /\ get (p_data rp) ix = get (p_data p) ix.
Proof.
  intros old new k op p ix Wo Wn Ho Hn Ro.
  pose proof (wf_lookup _ _ _ Wo Ho) as Wop. pose proof (wf_lookup _ _ _ Wn Hn) as Wp.
  assert (Hg : get (p_data op) ix = None).
  { destruct (get (p_data op) ix) eqn:E; [|reflexivity].
    assert (in_range ix (p_size op) = true) by (apply (get_in_range _ _ ix Wop); eauto). congruence. }
  rewrite preserve_lookup, Hn. eexists; split; [reflexivity|]. unfold preserve_one. rewrite Ho.
  destruct (size_eqb _ _) eqn:E; cbn [snd p_data].
  - apply size_eqb_eq in E. rewrite Hg. symmetry.
    destruct (get (p_data p) ix) eqn:E2; [|reflexivity].
    assert (in_range ix (p_size p) = true) by (apply (get_in_range _ _ ix Wp); eauto). congruence.
  - apply overlap_new_only. exact Hg.
Qed.

(* parameters whose name is new are left as constructed *)
Theorem preserve_fresh_lemma : forall (old new : named) k,
  lookup k old = None -> lookup k (preserve old new) = lookup k new.
Proof.
  intros old new k Ho. rewrite preserve_lookup. destruct (lookup k new) as [p|]; [|reflexivity].
  unfold preserve_one. rewrite Ho. reflexivity.
Qed.

Theorem preserve_wf_lemma : forall (old new : named), wf_named old -> wf_named new -> wf_named (preserve old new).
Proof.
  intros old new Wo Wn. unfold wf_named, preserve in *. rewrite Forall_map.
  eapply Forall_impl; [|exact Wn]. intros [k p] Wp. unfold preserve_one.
  destruct (lookup k old) as [op|] eqn:Ho; [|exact Wp].
  destruct (size_eqb _ _); cbn [snd].
  - exact (wf_lookup old k op Wo Ho).
  - unfold wf_param. cbn [p_data p_size]. apply overlap_has_shape. exact Wp.
Qed.

(* same names, same sizes *)
Definition same_sig (a b : named) : Prop :=
  Forall2 (fun x y => fst x = fst y /\ p_size (snd x) = p_size (snd y)) a b.

Lemma map_Forall2_id {T U} (R : T -> U -> Prop) (f : U -> T) (a : list T) (b : list U) :
  Forall2 R a b -> (forall x y, In x a -> R x y -> f y = x) -> map f b = a.
Proof.
  induction 1 as [|x y a b Hxy _ IH]; intros H; cbn; [reflexivity|].
  rewrite (H x y); [|left; reflexivity|exact Hxy]. f_equal. apply IH. intros; apply H; auto. right; auto.
Qed.

Lemma Forall2_In_r {T U} (R : T -> U -> Prop) (a : list T) (b : list U) y :
  Forall2 R a b -> In y b -> exists x, In x a /\ R x y.
Proof.
  induction 1 as [|x y' a b Hxy _ IH]; cbn; [tauto|]. intros [->|H].
  - exists x. auto.
  - destruct (IH H) as (x' & Hi & Hr). exists x'. auto.
Qed.

(* unchanged architecture: the re-created network has exactly the old parameters *)
Theorem same_arch_same_params_lemma : forall (old new : named),
  NoDup (map fst old) -> same_sig old new -> preserve old new = old.
Proof.
  intros old new Hnd Hs. unfold preserve.
  apply (map_Forall2_id _ _ _ _ Hs). intros [k op] [k' p] Hin [Hk Hsz]. cbn in Hk, Hsz. subst k'.
  unfold preserve_one. rewrite (lookup_NoDup k old op Hnd Hin).
  assert (E : size_eqb (p_size op) (p_size p) = true) by (apply size_eqb_eq; exact Hsz).
  rewrite E. reflexivity.
Qed.

Corollary same_arch_same_function_lemma : forall (X Y : Type) (forward : named -> X -> Y) (old new : named),
  NoDup (map fst old) -> same_sig old new -> forall x, forward (preserve old new) x = forward old x.
Proof. intros. rewrite same_arch_same_params_lemma; auto. Qed.

(* ---- clone / reinit_from_mutated ---------------------------------------------------------- *)
Lemma same_sig_keys (a b : named) : same_sig a b -> map fst a = map fst b.
Proof. induction 1 as [|x y a b [H _] _ IH]; cbn; congruence. Qed.

Theorem clone_same_lemma : forall (self fresh : named),
  NoDup (map fst self) -> same_sig self fresh ->
  clone self fresh = self /\ load_error self fresh = false.
Proof.
  intros self fresh Hnd Hs. split.
  - unfold clone, load_params.
    apply (map_Forall2_id _ _ _ _ Hs). intros [k sp] [k' p] Hin [Hk Hsz]. cbn in Hk, Hsz. subst k'.
    unfold load_one. rewrite (lookup_NoDup k self sp Hnd Hin).
    assert (E : size_eqb (p_size sp) (p_size p) = true) by (apply size_eqb_eq; exact Hsz).
    rewrite E. reflexivity.
  - unfold load_error. apply negb_false_iff. apply andb_true_iff. split.
    + apply forallb_forall. intros [k p] Hin. cbn [fst snd].
      destruct (Forall2_In_r _ _ _ _ Hs Hin) as ([k' sp] & Hin' & Hk & Hsz).
      cbn in Hk, Hsz. subst k'. rewrite (lookup_NoDup k self sp Hnd Hin'). apply size_eqb_eq. exact Hsz.
    + apply forallb_forall. intros [k sp] Hin. cbn [fst].
      assert (Hk : In k (map fst fresh)).
      { rewrite <- (same_sig_keys _ _ Hs). apply (in_map fst) in Hin. exact Hin. }
      destruct (lookup_in_keys k fresh Hk) as [p ->]. reflexivity.
Qed.

Theorem reinit_same_lemma : forall (self fresh : named),
  NoDup (map fst self) -> same_sig self fresh -> reinit_from_mutated self fresh = Some self.
Proof.
  intros self fresh Hnd Hs. destruct (clone_same_lemma self fresh Hnd Hs) as [Hc He].
  unfold reinit_from_mutated. rewrite He. f_equal. exact Hc.
Qed.

(* ---- shrink_preserve_parameters ---------------------------------------------------------- *)
Lemma sequence_map_some {T U} (f : T -> option U) (g : T -> U) (l : list T) r :
  sequence (map f l) = Some r -> (forall x y, In x l -> f x = Some y -> y = g x) -> r = map g l.
Proof.
  revert r. induction l as [|x l IH]; cbn; intros r H Hf.
  - injection H as <-. reflexivity.
  - destruct (f x) as [y|] eqn:E; [|discriminate].
    destruct (sequence (map f l)) as [r'|] eqn:E2; [|discriminate]. injection H as <-.
    rewrite (Hf x y (or_introl eq_refl) E). f_equal. apply IH; auto.
Qed.

Theorem shrink_eq_preserve_lemma : forall (old new r : named),
  wf_named old -> wf_named new -> shrink_preserve old new = Some r -> r = preserve old new.
Proof.
  intros old new r Wo Wn H. unfold shrink_preserve in H. unfold preserve.
  eapply sequence_map_some; [exact H|]. intros [k p] y Hin Hy.
  unfold wf_named in Wn. rewrite Forall_forall in Wn. specialize (Wn (k, p) Hin). cbn [snd] in Wn.
  unfold shrink_one in Hy. unfold preserve_one.
  destruct (lookup k old) as [op|] eqn:Ho; [|injection Hy as <-; reflexivity].
  pose proof (wf_lookup _ _ _ Wo Ho) as Wop.
  destruct (size_eqb (p_size op) (p_size p)); [injection Hy as <-; reflexivity|].
  destruct (shrink_guard (p_size op) (p_size p)) eqn:G; cbn [negb] in Hy; [|discriminate].
  unfold shrink_guard in G. apply andb_true_iff in G as [Gl Gs]. apply Nat.eqb_eq in Gl. apply size_eqb_eq in Gs.
  assert (E2 : overlap_d 2 (p_data op) (p_data p) = overlap (p_data op) (p_data p))
    by (eapply overlap_d_eq; eauto).
  destruct (Nat.eqb (length (p_size p)) 1) eqn:R1.
  - apply Nat.eqb_eq in R1.
    assert (E1 : overlap_d 1 (p_data op) (p_data p) = overlap (p_data op) (p_data p)).
    { eapply overlap_d_eq; eauto.
      destruct (p_size op) as [|? [|? ?]], (p_size p) as [|? [|? ?]]; cbn in *; try lia; reflexivity. }
    rewrite E1 in Hy. injection Hy as <-. reflexivity.
  - rewrite E2 in Hy. injection Hy as <-. reflexivity.
Qed.

Corollary shrink_keeps_common_lemma : forall (old new r : named) k op p,
  wf_named old -> wf_named new -> shrink_preserve old new = Some r ->
  lookup k old = Some op -> lookup k new = Some p ->
  exists rp, lookup k r = Some rp /\
    forall ix a b, get (p_data op) ix = Some a -> get (p_data p) ix = Some b -> get (p_data rp) ix = Some a.
Proof.
  intros old new r k op p Wo Wn H Ho Hn. rewrite (shrink_eq_preserve_lemma old new r Wo Wn H).
  apply preserve_keeps_common_lemma; assumption.
Qed.

(* inside the guard shrink_preserve_parameters does not fail *)
Lemma sequence_all_some {T} (l : list (option T)) : (forall x, In x l -> x <> None) -> exists r, sequence l = Some r.
Proof.
  induction l as [|[x|] l IH]; cbn; intros H; eauto.
  - destruct IH as [r ->]; [intros; apply H; auto|]. eauto.
  - exfalso. apply (H None); auto.
Qed.

Theorem shrink_total_lemma : forall (old new : named),
  (forall k op p, lookup k old = Some op -> In (k, p) new ->
     p_size op = p_size p \/ shrink_guard (p_size op) (p_size p) = true) ->
  exists r, shrink_preserve old new = Some r.
Proof.
  intros old new H. unfold shrink_preserve. apply sequence_all_some.
  intros x Hx. apply in_map_iff in Hx as ([k p] & <- & Hin). unfold shrink_one.
  destruct (lookup k old) as [op|] eqn:Ho; [|discriminate].
  destruct (H k op p Ho Hin) as [E|G].
  - apply size_eqb_eq in E. rewrite E. discriminate.
  - destruct (size_eqb _ _); [discriminate|]. rewrite G. cbn [negb].
    destruct (Nat.eqb _ 1); discriminate.
Qed.

(* ---- the fixed-point form used by the end-to-end correspondence check ---------------------- *)
Theorem preserve_idem_lemma : forall (old new : named),
  preserve old (preserve old new) = preserve old new.
Proof.
  intros old new. unfold preserve. rewrite map_map. apply map_ext. intros [k p].
  unfold preserve_one. destruct (lookup k old) as [op|] eqn:Ho.
  - destruct (size_eqb (p_size op) (p_size p)) eqn:E; rewrite Ho; cbn [p_size p_data].
    + assert (E2 : size_eqb (p_size op) (p_size op) = true) by (apply size_eqb_eq; reflexivity).
      rewrite E2. reflexivity.
    + rewrite E. rewrite overlap_idem. reflexivity.
  - rewrite Ho. reflexivity.
Qed.

Theorem fixpoint_keeps_common_lemma : forall (old r : named),
  preserve old r = r ->
  forall k op rp, lookup k old = Some op -> lookup k r = Some rp ->
  forall ix a b, get (p_data op) ix = Some a -> get (p_data rp) ix = Some b -> b = a.
Proof.
  intros old r Hfix k op rp Ho Hr ix a b Ha Hb.
  destruct (preserve_keeps_common_lemma old r k op rp Ho Hr) as (rp' & Hl & Hc).
  rewrite Hfix, Hr in Hl. injection Hl as <-. specialize (Hc ix a b Ha Hb). congruence.
Qed.

(* ---- chains of re-creations (no training in between): a weight survives as long as its index
        exists in every intermediate architecture ------------------------------------------- *)
Definition run_chain (old : named) (fs : list named) : named := fold_left (fun acc f => preserve acc f) fs old.

Theorem chain_keeps_lemma : forall (fs : list named) (old : named) k op ix a,
  lookup k old = Some op -> get (p_data op) ix = Some a ->
  Forall (fun f => exists p b, lookup k f = Some p /\ get (p_data p) ix = Some b) fs ->
  exists rp, lookup k (run_chain old fs) = Some rp /\ get (p_data rp) ix = Some a.
Proof.
  induction fs as [|f fs IH]; intros old k op ix a Ho Ha Hf.
  - exists op. split; assumption.
  - inversion Hf as [|? ? (p & b & Hp & Hb) Hf']; subst. cbn [run_chain fold_left].
    destruct (preserve_keeps_common_lemma old f k op p Ho Hp) as (rp & Hl & Hc).
    apply (IH (preserve old f) k rp ix a Hl (Hc ix a b Ha Hb) Hf').
Qed.
(* ---- module-wise re-creation = re-creation of the whole network ---------------------------------
   EvolvableNetwork.recreate_network / EvolvableMultiInput.recreate_network call preserve_parameters
   separately on the encoder, the head, each feature extractor (with local names), while the property
   (and the end-to-end correspondence check) speaks about the named parameters of the whole network,
   whose names are the local ones behind a prefix. *)
Lemma lookup_app k (a b : named) :
  lookup k (a ++ b) = match lookup k a with Some p => Some p | None => lookup k b end.
Proof.
  induction a as [|[k' q] a IH]; cbn; [reflexivity|]. destruct (String.eqb k k'); [reflexivity|exact IH].
Qed.

Lemma lookup_notin k (l : named) : ~ In k (map fst l) -> lookup k l = None.
Proof.
  induction l as [|[k' q] l IH]; cbn; [reflexivity|]. intros H.
  destruct (String.eqb_spec k k') as [->|]; [exfalso; apply H; auto|]. apply IH. intros Hin. apply H. auto.
Qed.

Theorem preserve_app_lemma : forall (o1 o2 n1 n2 : named),
  (forall k, In k (map fst n1) -> ~ In k (map fst o2)) ->
  (forall k, In k (map fst n2) -> ~ In k (map fst o1)) ->
  preserve (o1 ++ o2) (n1 ++ n2) = preserve o1 n1 ++ preserve o2 n2.
Proof.
  intros o1 o2 n1 n2 H1 H2. unfold preserve. rewrite map_app. f_equal.
  - apply map_ext_in. intros [k p] Hin. unfold preserve_one. rewrite lookup_app.
    destruct (lookup k o1); [reflexivity|].
    rewrite (lookup_notin k o2); [reflexivity|]. apply H1. apply (in_map fst) in Hin. exact Hin.
  - apply map_ext_in. intros [k p] Hin. unfold preserve_one. rewrite lookup_app.
    rewrite (lookup_notin k o1); [reflexivity|]. apply H2. apply (in_map fst) in Hin. exact Hin.
Qed.

Definition rename (f : string -> string) (l : named) : named := map (fun kp => (f (fst kp), snd kp)) l.

Lemma lookup_rename f (l : named) k :
  (forall a b, f a = f b -> a = b) -> lookup (f k) (rename f l) = lookup k l.
Proof.
  intros Hinj. induction l as [|[k' q] l IH]; cbn; [reflexivity|].
  destruct (String.eqb_spec k k') as [->|Hne].
  - rewrite String.eqb_refl. reflexivity.
  - destruct (String.eqb_spec (f k) (f k')) as [E|_]; [exfalso; apply Hne, Hinj, E|exact IH].
Qed.

Theorem preserve_rename_lemma : forall (f : string -> string) (old new : named),
  (forall a b, f a = f b -> a = b) ->
  preserve (rename f old) (rename f new) = rename f (preserve old new).
Proof.
  intros f old new Hinj. unfold preserve, rename at 2 3. rewrite !map_map. apply map_ext. intros [k p].
  cbn [fst snd]. unfold preserve_one. rewrite (lookup_rename f old k Hinj).
  destruct (lookup k old) as [op|]; [|reflexivity]. destruct (size_eqb _ _); reflexivity.
Qed.

Lemma append_inj (pre a b : string) : String.append pre a = String.append pre b -> a = b.
Proof. induction pre as [|c pre IH]; cbn; intros H; [exact H|]. injection H as H. auto. Qed.
End P.

(* ---- the behaviour before the repair violates the property ---------------------------------- *)
Definition norm_old : named nat := [("mlp_layer_norm_1.weight"%string, {| p_size := [2]; p_data := Dim [Sc 7; Sc 8] |})].
Definition norm_new : named nat := [("mlp_layer_norm_1.weight"%string, {| p_size := [3]; p_data := Dim [Sc 1; Sc 1; Sc 1] |})].

Lemma preserve_norm_refuted_lemma :
  exists (old new : named nat) k op p rp ix a b,
    lookup k old = Some op /\ lookup k new = Some p /\ lookup k (preserve_pinned old new) = Some rp /\
    get (p_data op) ix = Some a /\ get (p_data p) ix = Some b /\ get (p_data rp) ix <> Some a.
Proof.
  exists norm_old, norm_new, "mlp_layer_norm_1.weight"%string,
    {| p_size := [2]; p_data := Dim [Sc 7; Sc 8] |}, {| p_size := [3]; p_data := Dim [Sc 1; Sc 1; Sc 1] |},
    {| p_size := [3]; p_data := Dim [Sc 1; Sc 1; Sc 1] |}, [0], 7, 1.
  vm_compute. repeat split; try reflexivity. intros H; discriminate H.
Qed.

(* ---- EvolvableBERT as it is on the tree: re-initialisation before the copy loses every learned matrix,
        even when the architecture is unchanged ------------------------------------------------------ *)
Definition bert_old : named nat := [("generator.weight"%string, {| p_size := [1;2]; p_data := Dim [Dim [Sc 7; Sc 8]] |})].
Definition bert_init (p : param nat) : param nat := {| p_size := p_size p; p_data := Dim [Dim [Sc 0; Sc 0]] |}.

Lemma bert_reset_refuted_lemma :
  exists (init : param nat -> param nat) (old fresh : named nat),
    NoDup (map fst old) /\ same_sig old fresh /\ recreate_bert_pinned init old fresh <> old.
Proof.
  exists bert_init, bert_old, bert_old. split; [repeat constructor; cbn; tauto|]. split; [repeat constructor|].
  vm_compute. intros H. discriminate H.
Qed.

(* ---- clone() swallows the RuntimeError of load_state_dict: when the rebuilt module does not have the
        signature of the original (init_dict out of step with the network — defect R2/R20 class) the clone
        silently keeps freshly initialised values; and conversely no load error + same keys => faithful ----- *)
Definition sw_self : named nat := [("l.weight"%string, {| p_size := [2]; p_data := Dim [Sc 7; Sc 8] |})].
Definition sw_fresh : named nat := [("l.weight"%string, {| p_size := [3]; p_data := Dim [Sc 0; Sc 0; Sc 0] |})].
Lemma clone_swallow_refuted_lemma :
  exists self fresh : named nat, NoDup (map fst self) /\ load_error self fresh = true /\
    clone self fresh = fresh /\ clone self fresh <> self /\ reinit_from_mutated self fresh = None.
Proof.
  exists sw_self, sw_fresh. split; [repeat constructor; cbn; tauto|]. vm_compute.
  repeat split; try reflexivity. intros H; discriminate H.
Qed.

Section LoadOk.
Context {A : Type}.
(* every entry of the destination that was loaded without complaint carries the source's value *)
Theorem load_no_error_faithful_lemma : forall (src dst : named A) k p,
  load_error src dst = false -> lookup k dst = Some p ->
  exists sp, lookup k src = Some sp /\ p_size sp = p_size p /\ lookup k (load_params src dst) = Some sp.
Proof.
  intros src dst k p He Hk. unfold load_error in He. apply negb_false_iff in He.
  apply andb_true_iff in He as [H1 _]. rewrite forallb_forall in H1.
  pose proof (lookup_In k dst p Hk) as Hin. specialize (H1 (k, p) Hin). cbn [fst snd] in H1.
  destruct (lookup k src) as [sp|] eqn:Hs; [|discriminate]. exists sp. split; [reflexivity|].
  split; [apply size_eqb_eq; exact H1|].
  unfold load_params. rewrite (lookup_map (load_one src) dst k (load_one_key src)), Hk.
  unfold load_one. rewrite Hs, H1. reflexivity.
Qed.
End LoadOk.

(* ================================ deepening round ============================================== *)
Section Deepen.
Context {A : Type}.
Notation tensor := (tensor A).
Notation param := (param A).
Notation named := (named A).
Notation mstate := (mstate A).

(* ---- the guard of shrink_preserve_parameters holds for every parameter kind the shrinking mutations
        (remove_layer, remove_channel, remove_block) can resize: rank <= 2 (biases, norm weights and
        statistics, linear layers) and convolution kernels whose kernel dimensions are unchanged ------ *)
Lemma size_eqb_refl (l : list nat) : size_eqb l l = true.
Proof. apply size_eqb_eq. reflexivity. Qed.

Theorem shrink_guard_rank_le2_lemma : forall so sn : list nat,
  length so = length sn -> length so <= 2 -> shrink_guard so sn = true.
Proof.
  intros so sn Hl H2. unfold shrink_guard. rewrite Hl, Nat.eqb_refl. cbn [andb].
  destruct so as [|a [|b [|c so]]], sn as [|a' [|b' [|c' sn]]]; cbn in *; try reflexivity; try lia.
Qed.

Theorem shrink_guard_same_kernel_lemma : forall (co ci co' ci' : nat) (kernel : list nat),
  shrink_guard (co :: ci :: kernel) (co' :: ci' :: kernel) = true.
Proof.
  intros. unfold shrink_guard. cbn [length skipn]. rewrite Nat.eqb_refl. cbn [andb]. apply size_eqb_refl.
Qed.

(* a network all of whose resized parameters are of these two kinds is re-created by the shrinking
   function without error and with the result of the general one *)
Definition shrinkable (so sn : list nat) : Prop :=
  so = sn \/ (length so = length sn /\ length so <= 2) \/
  (exists co ci co' ci' kernel, so = co :: ci :: kernel /\ sn = co' :: ci' :: kernel).

Theorem shrink_on_cnn_lemma : forall (old new : named),
  wf_named old -> wf_named new ->
  (forall k op p, lookup k old = Some op -> In (k, p) new -> shrinkable (p_size op) (p_size p)) ->
  shrink_preserve old new = Some (preserve old new).
Proof.
  intros old new Wo Wn H.
  destruct (shrink_total_lemma old new) as [r Hr].
  - intros k op p Ho Hin. destruct (H k op p Ho Hin) as [E|[[Hl H2]|(co & ci & co' & ci' & ker & -> & ->)]].
    + left; exact E.
    + right. apply shrink_guard_rank_le2_lemma; assumption.
    + right. apply shrink_guard_same_kernel_lemma.
  - rewrite Hr. f_equal. apply shrink_eq_preserve_lemma; assumption.
Qed.

(* ---- a growing mutation loses nothing: if every axis of the old size fits into the new size, every
        entry of the old tensor is found at the same index afterwards --------------------------------- *)
Lemma in_range_mono : forall ix so sn, size_le so sn = true -> in_range ix so = true -> in_range ix sn = true.
Proof.
  induction ix as [|i ix IH]; intros [|d so] [|d' sn] Hs Hr; cbn [in_range size_le] in *; try discriminate; auto.
  apply andb_true_iff in Hs as [H1 H2]. apply andb_true_iff in Hr as [H3 H4].
  apply Nat.leb_le in H1. apply Nat.ltb_lt in H3.
  assert (Hi : (i <? d') = true) by (apply Nat.ltb_lt; lia). rewrite Hi. cbn [andb]. eapply IH; eauto.
Qed.

Theorem grow_keeps_everything_lemma : forall (old new : named) k op p,
  wf_named old -> wf_named new ->
  lookup k old = Some op -> lookup k new = Some p -> size_le (p_size op) (p_size p) = true ->
  exists rp, lookup k (preserve old new) = Some rp /\
    forall ix a, get (p_data op) ix = Some a -> get (p_data rp) ix = Some a.
Proof.
  intros old new k op p Wo Wn Ho Hn Hle.
  destruct (preserve_keeps_common_lemma old new k op p Ho Hn) as (rp & Hl & Hc).
  exists rp. split; [exact Hl|]. intros ix a Ha.
  pose proof (wf_lookup _ _ _ Wo Ho) as Wop. pose proof (wf_lookup _ _ _ Wn Hn) as Wp.
  assert (Ro : in_range ix (p_size op) = true) by (apply (get_in_range _ _ ix Wop); eauto).
  pose proof (in_range_mono ix _ _ Hle Ro) as Rn.
  apply (get_in_range _ _ ix Wp) in Rn as [b Hb]. eapply Hc; eauto.
Qed.

(* ---- train / eval mode ------------------------------------------------------------------------------ *)
Theorem recreate_state_same_function_lemma :
  forall (X Y : Type) (forward : mstate -> X -> Y) (old fresh : mstate),
  NoDup (map fst (st_named old)) -> same_sig (st_named old) (st_named fresh) ->
  recreate_state false old fresh = Some old /\
  (forall x, forward (clone_state old fresh) x = forward old x).
Proof.
  intros X Y forward [on ot] [fn ft] Hnd Hs. cbn [st_named st_training] in *. split.
  - unfold recreate_state, recreate. cbn [st_named st_training].
    rewrite (same_arch_same_params_lemma on fn Hnd Hs). reflexivity.
  - intros x. unfold clone_state. cbn [st_named st_training].
    destruct (clone_same_lemma on fn Hnd Hs) as [-> _]. reflexivity.
Qed.
End Deepen.

(* before 1205c28 a network in eval mode came back from a no-op re-creation in training mode *)
Lemma mode_lost_refuted_lemma :
  exists old fresh : mstate nat, same_sig (st_named old) (st_named fresh) /\ NoDup (map fst (st_named old)) /\
    recreate_state_pinned old fresh <> old.
Proof.
  exists {| st_named := sw_self; st_training := false |}, {| st_named := sw_self; st_training := true |}.
  split; [repeat constructor|]. split; [repeat constructor; cbn; tauto|].
  vm_compute. intros H. discriminate H.
Qed.

(* ================================ deepening round 3 ============================================ *)
Section Deepen3.
Context {A : Type}.
Notation tensor := (tensor A).
Notation param := (param A).
Notation named := (named A).

(* ---- a purely shrinking mutation introduces no fresh value: every entry of the result comes from
        the old tensor at the same index (dual of grow_keeps_everything) ------------------------------- *)
Theorem shrink_all_from_old_lemma : forall (old new : named) k op p,
  wf_named old -> wf_named new ->
  lookup k old = Some op -> lookup k new = Some p -> size_le (p_size p) (p_size op) = true ->
  exists rp, lookup k (preserve old new) = Some rp /\
    forall ix b, get (p_data rp) ix = Some b -> get (p_data op) ix = Some b.
Proof.
  intros old new k op p Wo Wn Ho Hn Hle.
  pose proof (wf_lookup _ _ _ Wo Ho) as Wop. pose proof (wf_lookup _ _ _ Wn Hn) as Wp.
  rewrite preserve_lookup, Hn. eexists; split; [reflexivity|]. intros ix b. unfold preserve_one. rewrite Ho.
  destruct (size_eqb _ _); cbn [snd p_data]; [tauto|].
  rewrite overlap_get. destruct (get (p_data p) ix) as [c|] eqn:Hc; [|discriminate].
  assert (Rn : in_range ix (p_size p) = true) by (apply (get_in_range _ _ ix Wp); eauto).
  pose proof (in_range_mono ix _ _ Hle Rn) as Ro.
  apply (get_in_range _ _ ix Wop) in Ro as [a Ha]. rewrite Ha. intros H; exact H.
Qed.

(* ---- tied weights (two names bound to the same tensor, e.g. GPT wte / lm_head): if both names keep
        their size the re-created network binds both names to the same tensor again ------------------- *)
Theorem preserve_keeps_ties_lemma : forall (old new : named) k1 k2 op p1 p2,
  lookup k1 old = Some op -> lookup k2 old = Some op ->
  lookup k1 new = Some p1 -> lookup k2 new = Some p2 ->
  p_size p1 = p_size op -> p_size p2 = p_size op ->
  lookup k1 (preserve old new) = Some op /\ lookup k2 (preserve old new) = Some op.
Proof.
  intros old new k1 k2 op p1 p2 H1 H2 N1 N2 S1 S2.
  rewrite !preserve_lookup, N1, N2. unfold preserve_one. rewrite H1, H2.
  assert (E1 : size_eqb (p_size op) (p_size p1) = true) by (apply size_eqb_eq; congruence).
  assert (E2 : size_eqb (p_size op) (p_size p2) = true) by (apply size_eqb_eq; congruence).
  rewrite E1, E2. split; reflexivity.
Qed.

(* ---- signature along a chain of re-creations: names and sizes are those of the last architecture --- *)
Definition sig_of (l : named) : list (string * list nat) := map (fun kp => (fst kp, p_size (snd kp))) l.

Lemma preserve_sig (old new : named) : sig_of (preserve old new) = sig_of new.
Proof.
  unfold sig_of, preserve. rewrite map_map. apply map_ext. intros [k p]. unfold preserve_one.
  destruct (lookup k old) as [op|]; [|reflexivity].
  destruct (size_eqb _ _) eqn:E; [|reflexivity]. apply size_eqb_eq in E. cbn [fst snd]. congruence.
Qed.

Lemma last_default_irrelevant {T} (l : list T) (x d d' : T) : last (x :: l) d = last (x :: l) d'.
Proof. revert x. induction l as [|y l IH]; intros x; [reflexivity|]. cbn [last] in *. apply IH. Qed.

Theorem chain_signature_lemma : forall (fs : list named) (old : named),
  sig_of (run_chain old fs) = sig_of (last fs old).
Proof.
  induction fs as [|f fs IH]; intros old; [reflexivity|].
  cbn [run_chain fold_left]. change (fold_left (fun acc f0 => preserve acc f0) fs (preserve old f)) with (run_chain (preserve old f) fs).
  rewrite IH. destruct fs as [|g fs]; [apply preserve_sig|].
  rewrite (last_default_irrelevant fs g (preserve old f) old). reflexivity.
Qed.

(* ---- clones of clones: any chain of clone() calls (each rebuilt from the same init_dict) returns the
        parameters of the first ancestor ------------------------------------------------------------ *)
Lemma same_sig_keys_nodup (a b : named) : same_sig a b -> NoDup (map fst a) -> NoDup (map fst b).
Proof. intros H. rewrite (same_sig_keys a b H). tauto. Qed.

Theorem clone_chain_lemma : forall (freshes : list named) (self : named),
  NoDup (map fst self) -> Forall (same_sig self) freshes ->
  fold_left (fun cur fresh => clone cur fresh) freshes self = self.
Proof.
  induction freshes as [|f fs IH]; intros self Hnd Hall; [reflexivity|].
  inversion Hall as [|? ? Hf Hfs]; subst. cbn [fold_left].
  destruct (clone_same_lemma self f Hnd Hf) as [-> _]. apply IH; assumption.
Qed.
End Deepen3.
