(* C04 — executable model of the weight-carrying code of AgileRL:
     EvolvableModule.preserve_parameters        (agilerl/modules/base.py)
     EvolvableCNN.shrink_preserve_parameters    (agilerl/modules/cnn.py)
     nn.Module.load_state_dict as used by EvolvableModule.clone and Mutations.reinit_from_mutated
   Model only (no proofs) so that it still runs when a proof breaks.
   Tensors are rank-polymorphic nested lists over an arbitrary scalar type A (the code only copies
   scalars, it never computes with them); a parameter is a pair (size, data) as in torch. *)
From Coq Require Import String.
From Coq Require Import List Arith Bool.
Import ListNotations.

Section Tensors.
Context {A : Type}.

Inductive tensor := Sc (a : A) | Dim (l : list tensor).

(* multi-index lookup: t[i0, i1, ...] *)
Fixpoint get (t : tensor) (ix : list nat) : option A :=
  match t, ix with
  | Sc a, [] => Some a
  | Dim l, i :: ix' => match nth_error l i with Some t' => get t' ix' | None => None end
  | _, _ => None
  end.

(* "t is a tensor of torch.Size s" *)
Fixpoint has_shape (t : tensor) (s : list nat) : bool :=
  match t, s with
  | Sc _, [] => true
  | Dim l, d :: s' => Nat.eqb (length l) d && forallb (fun x => has_shape x s') l
  | _, _ => false
  end.

(* param.data[slice_index] = old_param.data[slice_index]
   with slice_index = tuple(slice(0, min(o, n)) for o, n in zip(old_size, new_size)):
   at every axis the entries below min(len old, len new) are taken from old (recursively), the
   remaining entries of new are kept. *)
Fixpoint overlap (o n : tensor) : tensor :=
  match o, n with
  | Sc a, Sc _ => Sc a
  | Dim lo, Dim ln =>
      Dim ((fix zip (lo ln : list tensor) : list tensor :=
              match lo, ln with
              | a :: lo', b :: ln' => overlap a b :: zip lo' ln'
              | _, ln => ln
              end) lo ln)
  | _, n => n
  end.

Fixpoint zipo (lo ln : list tensor) : list tensor :=
  match lo, ln with
  | a :: lo', b :: ln' => overlap a b :: zipo lo' ln'
  | _, ln => ln
  end.

(* shrink_preserve_parameters: param.data[:min_0, :min_1] = old.data[:min_0, :min_1]
   only the first k axes are sliced; below them the whole old sub-block is written
   (torch requires the remaining sizes to agree — guard [shrink_guard] below). *)
Fixpoint overlap_d (k : nat) (o n : tensor) : tensor :=
  match k with
  | 0 => o
  | S k' =>
      match o, n with
      | Sc a, Sc _ => Sc a
      | Dim lo, Dim ln =>
          Dim ((fix zip (lo ln : list tensor) : list tensor :=
                  match lo, ln with
                  | a :: lo', b :: ln' => overlap_d k' a b :: zip lo' ln'
                  | _, ln => ln
                  end) lo ln)
      | _, n => n
      end
  end.

Fixpoint zipd (k : nat) (lo ln : list tensor) : list tensor :=
  match lo, ln with
  | a :: lo', b :: ln' => overlap_d k a b :: zipd k lo' ln'
  | _, ln => ln
  end.

(* ---- named parameters ------------------------------------------------------------------ *)
Record param := { p_size : list nat; p_data : tensor }.
Definition named := list (string * param).

Fixpoint size_eqb (a b : list nat) : bool :=
  match a, b with
  | [], [] => true
  | x :: a', y :: b' => Nat.eqb x y && size_eqb a' b'
  | _, _ => false
  end.

Fixpoint lookup (k : string) (l : named) : option param :=
  match l with
  | [] => None
  | (k', p) :: r => if String.eqb k k' then Some p else lookup k r
  end.

(* EvolvableModule.preserve_parameters, one iteration of `for key, param in new_net.named_parameters()` *)
Definition preserve_one (old : named) (kp : string * param) : string * param :=
  let (k, p) := kp in
  match lookup k old with                                  (* if key in old_net_dict.keys() *)
  | Some op =>
      if size_eqb (p_size op) (p_size p)                   (* if old_size == new_size *)
      then (k, op)                                         (*     param.data = old_param.data *)
      else (k, {| p_size := p_size p;                      (* else param.data[slice] = old.data[slice] *)
                  p_data := overlap (p_data op) (p_data p) |})
  | None => (k, p)                                         (* key absent: freshly initialised *)
  end.
Definition preserve (old new : named) : named := map (preserve_one old) new.

(* the behaviour before the repair 99d19d3 / 6cedd7f: `elif "norm" not in key:` *)
Definition has_norm (k : string) : bool :=
  match String.index 0 "norm"%string k with Some _ => true | None => false end.
Definition preserve_one_pinned (old : named) (kp : string * param) : string * param :=
  let (k, p) := kp in
  match lookup k old with
  | Some op =>
      if size_eqb (p_size op) (p_size p) then (k, op)
      else if negb (has_norm k)
           then (k, {| p_size := p_size p; p_data := overlap (p_data op) (p_data p) |})
           else (k, p)
  | None => (k, p)
  end.
Definition preserve_pinned (old new : named) : named := map (preserve_one_pinned old) new.

(* EvolvableCNN.shrink_preserve_parameters *)
Definition shrink_guard (so sn : list nat) : bool :=
  Nat.eqb (length so) (length sn) && size_eqb (skipn 2 so) (skipn 2 sn).
Definition shrink_one (old : named) (kp : string * param) : option (string * param) :=
  let (k, p) := kp in
  match lookup k old with
  | Some op =>
      if size_eqb (p_size op) (p_size p) then Some (k, op)
      else if negb (shrink_guard (p_size op) (p_size p)) then None   (* torch raises (or broadcasts): outside the guard *)
      else if Nat.eqb (length (p_size p)) 1
           then Some (k, {| p_size := p_size p; p_data := overlap_d 1 (p_data op) (p_data p) |})
           else Some (k, {| p_size := p_size p; p_data := overlap_d 2 (p_data op) (p_data p) |})
  | None => Some (k, p)
  end.
Fixpoint sequence {T} (l : list (option T)) : option (list T) :=
  match l with
  | [] => Some []
  | None :: _ => None
  | Some x :: r => match sequence r with Some r' => Some (x :: r') | None => None end
  end.
Definition shrink_preserve (old new : named) : option named := sequence (map (shrink_one old) new).

(* nn.Module.load_state_dict(src.state_dict()) into a freshly constructed module [dst]:
   same-named entries of equal size are copied; a size mismatch, a missing or an unexpected key is an
   error (RuntimeError) — and the entries that did match have been copied all the same. *)
Definition load_one (src : named) (kp : string * param) : string * param :=
  let (k, p) := kp in
  match lookup k src with
  | Some sp => if size_eqb (p_size sp) (p_size p) then (k, sp) else (k, p)
  | None => (k, p)
  end.
Definition load_params (src dst : named) : named := map (load_one src) dst.
Definition load_error (src dst : named) : bool :=
  negb (forallb (fun kp => match lookup (fst kp) src with
                           | Some sp => size_eqb (p_size sp) (p_size (snd kp)) | None => false end) dst
        && forallb (fun kp => match lookup (fst kp) dst with Some _ => true | None => false end) src).

(* EvolvableModule.clone: clone = cls(init_dict); try: clone.load_state_dict(self.state_dict())
   except RuntimeError: pass      — the error is swallowed, the result is whatever was loaded. *)
Definition clone (self fresh : named) : named := load_params self fresh.
(* Mutations.reinit_from_mutated: cls(init_dict).load_state_dict(sd, strict=False): the error is NOT swallowed *)
Definition reinit_from_mutated (self fresh : named) : option named :=
  if load_error self fresh then None else Some (load_params self fresh).

(* recreate_network of every module / recreate_encoder: build the new module from the (mutated)
   configuration — its parameters [fresh] — then preserve. *)
Definition recreate (shrink : bool) (old fresh : named) : option named :=
  if shrink then shrink_preserve old fresh else Some (preserve old fresh).
(* EvolvableBERT.recreate_network as it is on the tree (before fixes/C04-bert-reset-parameters.patch):
   build_networks() first runs _reset_parameters() over the parameters that are attached at that moment
   — the OLD ones: every parameter of rank >= 2 is overwritten by its initialiser — and only then are
   the (wiped) old parameters carried over into the new layers. *)
Definition reset_params (init : param -> param) (l : named) : named :=
  map (fun kp => (fst kp, if Nat.leb 2 (length (p_size (snd kp))) then init (snd kp) else snd kp)) l.
Definition recreate_bert_pinned (init : param -> param) (old fresh : named) : named :=
  preserve (reset_params init old) fresh.
(* ---- train / eval mode (since repair 1205c28) ---------------------------------------------------
   The state of a module is its named entries (parameters and buffers) together with its training
   flag. EvolvableModule.__setattr__: a sub-module that REPLACES an existing one inherits the flag of
   the one it replaces (whatever flag the freshly constructed one had); clone(): clone.train(self.training). *)
Record mstate := { st_named : named; st_training : bool }.
Definition recreate_state (shrink : bool) (old fresh : mstate) : option mstate :=
  match recreate shrink (st_named old) (st_named fresh) with
  | Some r => Some {| st_named := r; st_training := st_training old |}
  | None => None
  end.
Definition clone_state (self fresh : mstate) : mstate :=
  {| st_named := clone (st_named self) (st_named fresh); st_training := st_training self |}.
(* the behaviour before 1205c28: the flag of the freshly constructed module (always training) survives *)
Definition recreate_state_pinned (old fresh : mstate) : mstate :=
  {| st_named := preserve (st_named old) (st_named fresh); st_training := st_training fresh |}.

(* every axis of the old size fits into the new size (a growing mutation) *)
Fixpoint size_le (a b : list nat) : bool :=
  match a, b with
  | [], [] => true
  | x :: a', y :: b' => Nat.leb x y && size_le a' b'
  | _, _ => false
  end.
End Tensors.

Arguments tensor : clear implicits.
Arguments param : clear implicits.
Arguments named : clear implicits.
Arguments mstate : clear implicits.
