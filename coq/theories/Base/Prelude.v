(* Shared list helpers for the AgileRL models. Proof-free definitions + small lemmas. *)
From Coq Require Import List Arith Lia Bool.
Import ListNotations.

Section Lists.
Context {A : Type}.

Definition lastn (n : nat) (l : list A) : list A := skipn (length l - n) l.

Lemma lastn_length n (l : list A) : length (lastn n l) = Nat.min n (length l).
Proof. unfold lastn. rewrite skipn_length. lia. Qed.

Lemma nth_firstn_lt (d : A) (l : list A) : forall n i, i < n -> nth i (firstn n l) d = nth i l d.
Proof. induction l as [|a l IH]; intros [|n] [|i] H; cbn; auto; try lia. apply IH; lia. Qed.

Lemma nth_skipn_add (d : A) (l : list A) : forall n i, nth i (skipn n l) d = nth (n + i) l d.
Proof. induction l as [|a l IH]; intros [|n] i; cbn; auto. destruct i; auto. Qed.

Lemma nth_error_skipn_add (l : list A) : forall n i, nth_error (skipn n l) i = nth_error l (n + i).
Proof. induction l as [|a l IH]; intros [|n] i; cbn; auto. destruct i; auto. Qed.

Lemma In_firstn (l : list A) : forall n x, In x (firstn n l) -> In x l.
Proof. induction l as [|a l IH]; intros [|n] x H; cbn in *; try contradiction. destruct H; [left|right]; eauto. Qed.

Lemma nth_lastn (d : A) n (l : list A) i :
  n <= length l -> nth i (lastn n l) d = nth (length l - n + i) l d.
Proof. intros _. unfold lastn. apply nth_skipn_add. Qed.

Fixpoint update (i : nat) (x : A) (l : list A) : list A :=
  match l, i with
  | [], _ => []
  | _ :: t, 0 => x :: t
  | h :: t, S j => h :: update j x t
  end.

Lemma update_length i x l : length (update i x l) = length l.
Proof. revert i; induction l as [|h t IH]; intros [|i]; cbn; auto. Qed.

Lemma nth_update d i j x l :
  nth j (update i x l) d = if (j =? i) && (i <? length l) then x else nth j l d.
Proof.
  revert i j; induction l as [|h t IH]; intros i j.
  - destruct i, j; cbn; rewrite ?andb_false_r; reflexivity.
  - destruct i, j; cbn [update nth length]; auto.
    rewrite IH. reflexivity.
Qed.
End Lists.
