(* C18 — each entry of the projection is the triangular-kernel sum  sum_j p_j * max(0, 1 - |b_j - i|). *)
From Coq Require Import List ZArith QArith Qround Qabs Bool Lia Lqa.
Import ListNotations.
From AgileV Require Import C18.Model C18.Proofs.
Local Open Scope Q_scope.

Definition tri (x : Q) : Q := Qmax2 0 (1 - Qabs x).

Lemma tri_pos x : 0 <= x <= 1 -> tri x == 1 - x.
Proof.
  intros [A B]. unfold tri. pose proof (Qabs_pos x A) as P.
  destruct (Qmax2_spec 0 (1 - Qabs x)) as [[C E]|[C E]]; rewrite E; lra.
Qed.

Lemma tri_neg x : -1 <= x <= 0 -> tri x == 1 + x.
Proof.
  intros [A B]. unfold tri. pose proof (Qabs_neg x B) as P.
  destruct (Qmax2_spec 0 (1 - Qabs x)) as [[C E]|[C E]]; rewrite E; lra.
Qed.

Lemma tri_far x : 1 <= x \/ x <= -1 -> tri x == 0.
Proof.
  intros H. unfold tri.
  assert (P : 1 <= Qabs x).
  { destruct H as [H|H]; [rewrite Qabs_pos by lra | rewrite Qabs_neg by lra]; lra. }
  destruct (Qmax2_spec 0 (1 - Qabs x)) as [[C E]|[C E]]; rewrite E; lra.
Qed.

Definition kernel_entry (c : cfg) (g : Q) (t : trans) (i : nat) : Q :=
  lsum (fun jp : nat * Q => snd jp * tri (atom_b c g t (fst jp) - inject_Z (Z.of_nat i))) (atoms c t).

Lemma atom_term_kernel c g t i jp : valid c ->
  atom_term c g t (fun m => if Nat.eqb m i then 1 else 0) jp ==
  snd jp * tri (atom_b c g t (fst jp) - inject_Z (Z.of_nat i)).
Proof.
  intro V. unfold atom_term.
  pose proof (atom_lu c g t (fst jp) V) as A. cbv zeta in A.
  set (b := atom_b c g t (fst jp)) in *. clearbody b.
  destruct (lu (nm1 c) b) as [l u]. cbn [fst snd]. destruct A as (H0 & H1 & H2 & H3 & H4).
  subst u. rewrite inject_Z_plus. change (inject_Z 1) with 1.
  destruct (Nat.eqb_spec (Z.to_nat l) i) as [E1|N1]; destruct (Nat.eqb_spec (Z.to_nat (l + 1)) i) as [E2|N2]; try lia.
  - assert (EI : inject_Z (Z.of_nat i) = inject_Z l) by (f_equal; lia). rewrite EI.
    rewrite tri_pos by lra. ring.
  - assert (EI : inject_Z (Z.of_nat i) == inject_Z l + 1).
    { replace (Z.of_nat i) with (l + 1)%Z by lia. rewrite inject_Z_plus. reflexivity. }
    rewrite tri_neg by lra. rewrite EI. ring.
  - assert (D : (Z.of_nat i <= l - 1)%Z \/ (l + 2 <= Z.of_nat i)%Z) by lia.
    rewrite tri_far; [ring|].
    destruct D as [D|D]; apply Q_of_Zle in D.
    + left. rewrite inj_minus in D. change (inject_Z 1) with 1 in D. lra.
    + right. rewrite inject_Z_plus in D. change (inject_Z 2) with 2 in D. lra.
Qed.

Lemma triangular_kernel_lemma c g ts flat k t i : valid c ->
  project_flat c g ts = Some flat -> nth_error ts k = Some t ->
  nth i (row_slice (natoms c) k flat) 0 == kernel_entry c g t i.
Proof.
  intros V H Hk. rewrite nth_dotf, (row_functional c g ts flat k t _ V H Hk).
  unfold rowsum, kernel_entry. apply lsum_ext. intros jp _. apply atom_term_kernel; auto.
Qed.
Lemma Qabs_cases z : (0 <= z /\ Qabs z == z) \/ (z <= 0 /\ Qabs z == - z).
Proof.
  destruct (Qlt_le_dec z 0) as [H|H].
  - right. split; [lra|]. apply Qabs_neg. lra.
  - left. split; auto. apply Qabs_pos. auto.
Qed.

Lemma tri_lipschitz x y : Qabs (tri x - tri y) <= Qabs (x - y).
Proof.
  unfold tri.
  destruct (Qmax2_spec 0 (1 - Qabs x)) as [[C1 E1]|[C1 E1]]; rewrite E1;
  destruct (Qmax2_spec 0 (1 - Qabs y)) as [[C2 E2]|[C2 E2]]; rewrite E2;
  destruct (Qabs_cases x) as [[A1 P1]|[A1 P1]]; destruct (Qabs_cases y) as [[A2 P2]|[A2 P2]];
  destruct (Qabs_cases (x - y)) as [[A3 P3]|[A3 P3]];
  match goal with |- Qabs ?e <= _ => destruct (Qabs_cases e) as [[A4 P4]|[A4 P4]] end; lra.
Qed.

(* entries of the kernel sum move by at most d * sum |p_j| when every b_j moves by at most d:
   this is the tolerance rule of the correspondence check (float32 b against exact b) *)
Definition ksum (i : Q) (l : list (Q * Q)) : Q := lsum (fun bp => snd bp * tri (fst bp - i)) l.

Lemma kernel_lipschitz_lemma i d : forall (l l' : list (Q * Q)),
  Forall2 (fun bp bp' => snd bp == snd bp' /\ Qabs (fst bp - fst bp') <= d) l l' ->
  Qabs (ksum i l - ksum i l') <= d * lsum (fun bp => Qabs (snd bp)) l.
Proof.
  induction 1 as [|[b p] [b' p'] l l' [Hp Hb] HF IH]; unfold ksum in *; cbn [lsum fst snd] in *.
  - setoid_replace (0 - 0) with 0 by ring. cbn. lra.
  - set (S := lsum (fun bp : Q * Q => snd bp * tri (fst bp - i)) l) in *.
    set (S' := lsum (fun bp : Q * Q => snd bp * tri (fst bp - i)) l') in *.
    set (M := lsum (fun bp : Q * Q => Qabs (snd bp)) l) in *.
    setoid_replace (p * tri (b - i) + S - (p' * tri (b' - i) + S')) with (p * (tri (b - i) - tri (b' - i)) + (S - S'))
      by (rewrite <- Hp; ring).
    eapply Qle_trans; [apply Qabs_triangle|].
    rewrite Qabs_Qmult.
    assert (T : Qabs (tri (b - i) - tri (b' - i)) <= d).
    { eapply Qle_trans; [apply tri_lipschitz|]. setoid_replace (b - i - (b' - i)) with (b - b') by ring. exact Hb. }
    assert (X : Qabs p * Qabs (tri (b - i) - tri (b' - i)) <= Qabs p * d).
    { rewrite (Qmult_comm (Qabs p)), (Qmult_comm (Qabs p) d). apply Qmult_le_compat_r; auto. apply Qabs_nonneg. }
    setoid_replace (d * (Qabs p + M)) with (Qabs p * d + d * M) by ring.
    apply Qplus_le_compat; auto.
Qed.

(* the support is the equally spaced grid from v_min to v_max *)
Lemma support_spec_lemma c : valid c ->
  length (support c) = natoms c /\ zat c 0 == vmin c /\ zat c (natoms c - 1) == vmax c /\
  forall j, zat c (S j) - zat c j == delta c.
Proof.
  intro V. split; [unfold support; rewrite map_length, seq_length; reflexivity|].
  pose proof (delta_mult c V) as M. unfold nm1 in M. unfold zat.
  split; [cbn; ring|]. split.
  - replace (Z.of_nat (natoms c - 1)) with (Z.of_nat (natoms c) - 1)%Z by (destruct V; lia). lra.
  - intro j. rewrite Nat2Z.inj_succ. unfold Z.succ. rewrite inject_Z_plus. change (inject_Z 1) with 1. ring.
Qed.
