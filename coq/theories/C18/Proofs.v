(* C18 — lemmas and proofs about the model of Rainbow's categorical projection. *)
From Coq Require Import List ZArith QArith Qround Qabs Bool Lia Lqa Setoid Morphisms.
Import ListNotations.
From AgileV Require Import C18.Model.
Local Open Scope Q_scope.

(* ------------------------------------------------------------------------------------------ *)
(* Q / Z plumbing                                                                               *)
(* ------------------------------------------------------------------------------------------ *)
Lemma inj_minus x y : inject_Z (x - y) = inject_Z x - inject_Z y.
Proof. unfold Z.sub. rewrite inject_Z_plus, inject_Z_opp. reflexivity. Qed.
Ltac zq := repeat first [rewrite inj_minus in * | rewrite inject_Z_plus in *];
           change (inject_Z 1) with 1 in *; change (inject_Z 0) with 0 in *; change (inject_Z 2) with 2 in *.
Ltac absq := repeat match goal with
  | |- context [inject_Z ?z] => let q := fresh "q" in set (q := inject_Z z) in *; clearbody q
  | H : context [inject_Z ?z] |- _ => let q := fresh "q" in set (q := inject_Z z) in *; clearbody q
  end.
Ltac qlra := absq; lra.
Lemma Zlt_of_Q x y : inject_Z x < inject_Z y -> (x < y)%Z.
Proof. rewrite <- Zlt_Qlt; auto. Qed.
Lemma Zle_of_Q x y : inject_Z x <= inject_Z y -> (x <= y)%Z.
Proof. rewrite <- Zle_Qle; auto. Qed.
Lemma Q_of_Zle x y : (x <= y)%Z -> inject_Z x <= inject_Z y.
Proof. rewrite <- Zle_Qle; auto. Qed.
Lemma Q_of_Zlt x y : (x < y)%Z -> inject_Z x < inject_Z y.
Proof. rewrite <- Zlt_Qlt; auto. Qed.

Lemma Qle_bool_true x y : Qle_bool x y = true -> x <= y.
Proof. apply Qle_bool_iff. Qed.
Lemma Qle_bool_false x y : Qle_bool x y = false -> y < x.
Proof.
  intro H. destruct (Qlt_le_dec y x) as [L|L]; auto.
  apply Qle_bool_iff in L. congruence.
Qed.

Lemma Qmax2_spec a b : (a <= b /\ Qmax2 a b = b) \/ (b < a /\ Qmax2 a b = a).
Proof. unfold Qmax2. destruct (Qle_bool a b) eqn:E; [left|right]; split; auto using Qle_bool_true, Qle_bool_false. Qed.
Lemma Qmin2_spec a b : (a <= b /\ Qmin2 a b = a) \/ (b < a /\ Qmin2 a b = b).
Proof. unfold Qmin2. destruct (Qle_bool a b) eqn:E; [left|right]; split; auto using Qle_bool_true, Qle_bool_false. Qed.

Lemma Qclamp_bounds lo hi x : lo <= hi -> lo <= Qclamp lo hi x <= hi.
Proof.
  intro H. unfold Qclamp.
  destruct (Qmax2_spec x lo) as [[A E1]|[A E1]]; rewrite E1;
  match goal with |- context [Qmin2 ?a ?b] => destruct (Qmin2_spec a b) as [[B E2]|[B E2]]; rewrite E2 end; lra.
Qed.

Lemma Qclamp_id lo hi x : lo <= x <= hi -> Qclamp lo hi x == x.
Proof.
  intros [A B]. unfold Qclamp.
  destruct (Qmax2_spec x lo) as [[C ->]|[C ->]].
  - assert (x == lo) by lra. destruct (Qmin2_spec lo hi) as [[D ->]|[D ->]]; lra.
  - destruct (Qmin2_spec x hi) as [[D ->]|[D ->]]; lra.
Qed.

(* ------------------------------------------------------------------------------------------ *)
(* floor / ceiling and the two fix-ups                                                          *)
(* ------------------------------------------------------------------------------------------ *)
Lemma floor_ceiling_cases b :
  (Qfloor b = Qceiling b /\ b == inject_Z (Qfloor b)) \/
  ((Qceiling b = Qfloor b + 1)%Z /\ inject_Z (Qfloor b) < b < inject_Z (Qfloor b) + 1).
Proof.
  pose proof (Qfloor_le b) as H1. pose proof (Qlt_floor b) as H2.
  pose proof (Qle_ceiling b) as H3. pose proof (Qceiling_lt b) as H4. zq.
  assert (A : (Qfloor b <= Qceiling b)%Z) by (apply Zle_of_Q; qlra).
  assert (B : (Qceiling b < Qfloor b + 2)%Z) by (apply Zlt_of_Q; zq; qlra).
  destruct (Z.eq_dec (Qfloor b) (Qceiling b)) as [E|NE].
  - left. split; auto. rewrite <- E in *. qlra.
  - right. assert (E : (Qceiling b = Qfloor b + 1)%Z) by lia. split; auto.
    rewrite E in *. zq. split; [|qlra].
    destruct (Qlt_le_dec (inject_Z (Qfloor b)) b); auto. qlra.
Qed.

(* for 0 <= b <= N-1 the two fix-ups always leave two adjacent in-range atoms around b *)
Lemma lu_spec n1 b : (1 <= n1)%Z -> 0 <= b <= inject_Z n1 ->
  let '(l, u) := lu n1 b in
  (0 <= l)%Z /\ (u <= n1)%Z /\ (u = l + 1)%Z /\ inject_Z l <= b <= inject_Z l + 1.
Proof.
  intros HN [Hb0 HbN]. unfold lu.
  pose proof (Qfloor_le b) as H1. pose proof (Qlt_floor b) as H2.
  pose proof (Qle_ceiling b) as H3. pose proof (Qceiling_lt b) as H4. zq.
  assert (F0 : (0 <= Qfloor b)%Z).
  { assert (-1 < Qfloor b)%Z by (apply Zlt_of_Q; change (inject_Z (-1)) with (-1); qlra). lia. }
  assert (CN : (Qceiling b <= n1)%Z).
  { assert (Qceiling b < n1 + 1)%Z by (apply Zlt_of_Q; zq; qlra). lia. }
  destruct (floor_ceiling_cases b) as [[E Eb]|[E [Lb Ub]]]; cbv zeta;
  repeat (match goal with
  | |- context [Z.eqb ?x ?y] => destruct (Z.eqb_spec x y)
  | |- context [Z.ltb ?x ?y] => destruct (Z.ltb_spec x y)
  end; cbn [andb] in *); try lia;
  repeat split; try lia; zq;
  try (replace (Qceiling b) with (Qfloor b) in * by lia);
  try (replace (Qceiling b) with (Qfloor b + 1)%Z in * by lia); zq; try qlra.
Qed.

Lemma lu_comp n1 b b' : b == b' -> lu n1 b = lu n1 b'.
Proof. intro E. unfold lu. rewrite (Qfloor_comp _ _ E), (Qceiling_comp _ _ E). reflexivity. Qed.

(* ------------------------------------------------------------------------------------------ *)
(* the support and the fractional index                                                         *)
(* ------------------------------------------------------------------------------------------ *)
Definition valid (c : cfg) : Prop := (2 <= natoms c)%nat /\ vmin c < vmax c.

Lemma nm1_pos c : valid c -> (1 <= nm1 c)%Z.
Proof. intros [H _]. unfold nm1. lia. Qed.
Lemma nm1_posQ c : valid c -> 1 <= inject_Z (nm1 c).
Proof. intro H. change 1 with (inject_Z 1). apply Q_of_Zle, nm1_pos, H. Qed.

Lemma delta_mult c : valid c -> inject_Z (nm1 c) * delta c == vmax c - vmin c.
Proof.
  intro H. pose proof (nm1_posQ c H). unfold delta.
  set (q := inject_Z (nm1 c)) in *. clearbody q. field. lra.
Qed.

Lemma delta_pos c : valid c -> 0 < delta c.
Proof.
  intro H. pose proof (nm1_posQ c H) as P. destruct H as [_ H]. unfold delta.
  apply Qlt_shift_div_l; lra.
Qed.

Lemma tz_bounds c r d g z : valid c -> vmin c <= tz c r d g z <= vmax c.
Proof. intros [_ H]. unfold tz. apply Qclamp_bounds. lra. Qed.

(* in exact arithmetic the unclamped b already lies in [0, N-1] *)
Lemma b_unclamped_in_range_lemma c t : valid c -> vmin c <= t <= vmax c ->
  0 <= (t - vmin c) / delta c <= inject_Z (nm1 c).
Proof.
  intros V [A B]. pose proof (delta_pos c V) as D. pose proof (delta_mult c V) as M. split.
  - apply Qle_shift_div_l; lra.
  - apply Qle_shift_div_r; auto. lra.
Qed.

Lemma bfrac_exact c t : valid c -> vmin c <= t <= vmax c ->
  bfrac c t == (t - vmin c) / delta c /\ vmin c + bfrac c t * delta c == t.
Proof.
  intros V H. pose proof (b_unclamped_in_range_lemma c t V H) as R.
  assert (E : bfrac c t == (t - vmin c) / delta c) by (apply Qclamp_id; auto).
  split; auto. rewrite E. pose proof (delta_pos c V). field. lra.
Qed.

Lemma bfrac_bounds c t : valid c -> 0 <= bfrac c t <= inject_Z (nm1 c).
Proof. intro V. unfold bfrac. apply Qclamp_bounds. pose proof (nm1_posQ c V). lra. Qed.

Lemma atom_b_bounds c g t j : valid c -> 0 <= atom_b c g t j <= inject_Z (nm1 c).
Proof. intro V. unfold atom_b. rewrite Qred_correct. apply bfrac_bounds; auto. Qed.

Lemma b_in_range_lemma c r d g z : valid c ->
  let b := bfrac c (tz c r d g z) in
  0 <= b <= inject_Z (nm1 c) /\
  let '(l, u) := lu (nm1 c) b in
  (0 <= l)%Z /\ (u <= nm1 c)%Z /\ (u = l + 1)%Z /\ inject_Z l <= b <= inject_Z l + 1.
Proof.
  intros V b. pose proof (bfrac_bounds c (tz c r d g z) V) as B. split; auto.
  apply lu_spec; auto using nm1_pos.
Qed.

(* ------------------------------------------------------------------------------------------ *)
(* generic finite sums                                                                          *)
(* ------------------------------------------------------------------------------------------ *)
Section Lsum.
Context {T : Type}.
Fixpoint lsum (F : T -> Q) (l : list T) : Q := match l with [] => 0 | x :: t => F x + lsum F t end.

Lemma lsum_app F l1 l2 : lsum F (l1 ++ l2) == lsum F l1 + lsum F l2.
Proof. induction l1; cbn [lsum app]; [lra|]. rewrite IHl1. lra. Qed.

Lemma lsum_ext F G l : (forall x, In x l -> F x == G x) -> lsum F l == lsum G l.
Proof.
  induction l; intro H; cbn [lsum]; [reflexivity|].
  rewrite (H a (or_introl eq_refl)), IHl; [reflexivity|]. intros; apply H; right; auto.
Qed.

Lemma lsum_plus F G l : lsum (fun x => F x + G x) l == lsum F l + lsum G l.
Proof. induction l; cbn [lsum]; [lra|]. rewrite IHl. lra. Qed.

Lemma lsum_zero F l : (forall x, In x l -> F x == 0) -> lsum F l == 0.
Proof.
  induction l; intro H; cbn [lsum]; [reflexivity|].
  rewrite (H a (or_introl eq_refl)), IHl; [lra|]. intros; apply H; right; auto.
Qed.

Lemma lsum_scale a F l : lsum (fun x => a * F x) l == a * lsum F l.
Proof. induction l; cbn [lsum]; [lra|]. rewrite IHl. lra. Qed.

Lemma lsum_nonneg F l : (forall x, In x l -> 0 <= F x) -> 0 <= lsum F l.
Proof.
  induction l; intro H; cbn [lsum]; [lra|].
  pose proof (H a (or_introl eq_refl)). assert (0 <= lsum F l) by (apply IHl; intros; apply H; right; auto). lra.
Qed.
End Lsum.

Lemma lsum_map {T U} (F : U -> Q) (f : T -> U) l : lsum F (map f l) = lsum (fun x => F (f x)) l.
Proof. induction l; cbn [lsum map]; congruence. Qed.

Lemma lsum_flat_map {T U} (F : U -> Q) (f : T -> list U) l :
  lsum F (flat_map f l) == lsum (fun x => lsum F (f x)) l.
Proof. induction l; cbn [lsum flat_map]; [reflexivity|]. rewrite lsum_app, IHl. reflexivity. Qed.

(* ------------------------------------------------------------------------------------------ *)
(* index-weighted sums of a list and index_add_                                                 *)
(* ------------------------------------------------------------------------------------------ *)
Fixpoint dotf (f : nat -> Q) (l : list Q) : Q :=
  match l with [] => 0 | x :: t => f O * x + dotf (fun i => f (S i)) t end.

Lemma dotf_ext f g l : (forall i, (i < length l)%nat -> f i == g i) -> dotf f l == dotf g l.
Proof.
  revert f g. induction l; intros f g H; cbn [dotf]; [reflexivity|].
  rewrite (H O) by (cbn; lia). rewrite (IHl (fun i => f (S i)) (fun i => g (S i))); [reflexivity|].
  intros i Hi. apply H. cbn. lia.
Qed.

Lemma dotf_add_at f i v l : (i < length l)%nat -> dotf f (add_at i v l) == dotf f l + f i * v.
Proof.
  revert f i. induction l; intros f i H; [cbn in H; lia|].
  destruct i; cbn [add_at dotf].
  - rewrite Qred_correct. lra.
  - rewrite IHl by (cbn in H; lia). lra.
Qed.

Lemma length_add_at i v l : length (add_at i v l) = length l.
Proof. revert i. induction l; intro i; [reflexivity|]. destruct i; cbn [add_at length]; auto. Qed.

Lemma length_add_atZ iv l : length (add_atZ iv l) = length l.
Proof. unfold add_atZ. destruct (_ && _); auto using length_add_at. Qed.

Lemma length_scatter ops : forall acc, length (scatter acc ops) = length acc.
Proof.
  induction ops; intro acc; [reflexivity|]. unfold scatter in *. cbn [fold_left].
  rewrite IHops. apply length_add_atZ.
Qed.

Definition opsum (f : nat -> Q) (ops : list (Z * Q)) : Q := lsum (fun iv => f (Z.to_nat (fst iv)) * snd iv) ops.

Lemma dotf_scatter f ops : forall acc, in_range (length acc) ops = true ->
  dotf f (scatter acc ops) == dotf f acc + opsum f ops.
Proof.
  induction ops as [|[i v] ops IH]; intros acc H.
  - unfold opsum. cbn. lra.
  - cbn [in_range forallb] in H. apply andb_true_iff in H. destruct H as [H1 H2].
    unfold scatter in *. cbn [fold_left]. rewrite IH by (rewrite length_add_atZ; exact H2).
    unfold add_atZ. cbn [fst snd] in *. rewrite H1.
    apply andb_true_iff in H1. destruct H1 as [A B]. apply Z.leb_le in A. apply Z.ltb_lt in B.
    rewrite dotf_add_at by lia. unfold opsum. cbn [lsum fst snd]. lra.
Qed.

Lemma dotf_repeat0 n : forall f, dotf f (repeat 0 n) == 0.
Proof. induction n; intro f; cbn [repeat dotf]; [reflexivity|]. rewrite IHn. lra. Qed.

Lemma Qsum_dotf l : Qsum l == dotf (fun _ => 1) l.
Proof. induction l; cbn [Qsum dotf]; [reflexivity|]. rewrite Qred_correct, IHl. lra. Qed.

Lemma Qsum_lsum l : Qsum l == lsum (fun x => x) l.
Proof. induction l; cbn [Qsum lsum]; [reflexivity|]. rewrite Qred_correct, IHl. reflexivity. Qed.

Lemma dotf_zero f l : (forall i, (i < length l)%nat -> f i == 0) -> dotf f l == 0.
Proof.
  revert f. induction l; intros f H; cbn [dotf]; [reflexivity|].
  rewrite (H O) by (cbn; lia). rewrite IHl; [lra|]. intros i Hi. apply H. cbn. lia.
Qed.

Lemma nth_dotf k : forall l, nth k l 0 == dotf (fun i => if Nat.eqb i k then 1 else 0) l.
Proof.
  induction k; intros [|x l]; cbn [nth dotf Nat.eqb]; try reflexivity.
  - rewrite dotf_zero by (intros; reflexivity). lra.
  - rewrite IHk. lra.
Qed.

(* dot with a tabulated function *)
Lemma dot_tabulate (h : nat -> Q) : forall l s, dot l (map h (seq s (length l))) == dotf (fun i => h (s + i)%nat) l.
Proof.
  induction l; intro s; cbn [length seq map dot dotf]; [reflexivity|].
  rewrite Qred_correct, IHl. rewrite Nat.add_0_r.
  rewrite (dotf_ext (fun i => h (S s + i)%nat) (fun i => h (s + S i)%nat)); [lra|].
  intros. replace (S s + i)%nat with (s + S i)%nat by lia. reflexivity.
Qed.

(* two lists that agree under every index weighting agree entry by entry *)
Lemma dot_dotf : forall a b, dot a b == dotf (fun i => nth i b 0) a.
Proof.
  induction a; intros b; cbn [dot dotf]; [reflexivity|].
  destruct b as [|y b]; cbn [nth].
  - rewrite dotf_zero; [lra|]. intros [|i] _; reflexivity.
  - rewrite Qred_correct, IHa. lra.
Qed.

(* slicing a row out of the flat array *)
Lemma dotf_app f l1 l2 : dotf f (l1 ++ l2) == dotf f l1 + dotf (fun i => f (length l1 + i)%nat) l2.
Proof.
  revert f. induction l1; intro f; cbn [app dotf length].
  - rewrite (dotf_ext (fun i => f (0 + i)%nat) f) by (intros; reflexivity). lra.
  - rewrite IHl1. cbn [plus]. lra.
Qed.

Definition in_row (n k m : nat) : bool := (k * n <=? m)%nat && (m <? k * n + n)%nat.

Lemma dotf_row_slice h n k flat : (k * n + n <= length flat)%nat ->
  dotf h (row_slice n k flat) == dotf (fun m => if in_row n k m then h (m - k * n)%nat else 0) flat.
Proof.
  intro L. unfold row_slice.
  set (A := firstn (k * n) flat). set (R := firstn n (skipn (k * n) flat)). set (C := skipn n (skipn (k * n) flat)).
  assert (E : flat = A ++ R ++ C) by (unfold A, R, C; rewrite !firstn_skipn; reflexivity).
  assert (L1 : length A = (k * n)%nat) by (unfold A; rewrite firstn_length; lia).
  assert (L2 : length R = n) by (unfold R; rewrite firstn_length, skipn_length; lia).
  clearbody A R C. subst flat.
  rewrite !dotf_app, L1, L2.
  rewrite (dotf_zero _ A).
  2:{ intros i Hi. rewrite L1 in Hi. unfold in_row.
      destruct (Nat.leb_spec (k * n) i); [lia|]. reflexivity. }
  rewrite (dotf_zero _ C).
  2:{ intros i Hi. unfold in_row.
      destruct (Nat.ltb_spec (k * n + (n + i)) (k * n + n)); [lia|]. rewrite andb_false_r. reflexivity. }
  match goal with |- context [dotf ?F R + 0] => assert (X : dotf F R == dotf h R) end; [|rewrite X; lra].
  apply dotf_ext. intros i Hi. rewrite L2 in Hi. unfold in_row.
  destruct (Nat.leb_spec (k * n) (k * n + i)); [|lia].
  destruct (Nat.ltb_spec (k * n + i) (k * n + n)); [|lia].
  cbn [andb]. replace (k * n + i - k * n)%nat with i by lia. reflexivity.
Qed.

(* ------------------------------------------------------------------------------------------ *)
(* the projection as a linear functional of each row                                            *)
(* ------------------------------------------------------------------------------------------ *)
Definition wf_trans (c : cfg) (t : trans) : Prop := length (pnext t) = natoms c.

(* contribution of one atom (j, p_j) of transition t to the index weighting h of its own row *)
Definition atom_term (c : cfg) (g : Q) (t : trans) (h : nat -> Q) (jp : nat * Q) : Q :=
  let b := atom_b c g t (fst jp) in
  let lu' := lu (nm1 c) b in
  h (Z.to_nat (fst lu')) * (snd jp * (inject_Z (snd lu') - b)) +
  h (Z.to_nat (snd lu')) * (snd jp * (b - inject_Z (fst lu'))).
Definition rowsum (c : cfg) (g : Q) (t : trans) (h : nat -> Q) : Q := lsum (atom_term c g t h) (atoms c t).

Lemma atom_lu c g t j : valid c ->
  let b := atom_b c g t j in
  let '(l, u) := lu (nm1 c) b in
  (0 <= l)%Z /\ (u <= nm1 c)%Z /\ (u = l + 1)%Z /\ inject_Z l <= b <= inject_Z l + 1.
Proof. intros V b. apply lu_spec; [apply nm1_pos; auto | apply atom_b_bounds; auto]. Qed.

Lemma op_index k n l : (0 <= l)%Z -> Z.to_nat (Z.of_nat k * Z.of_nat n + l) = (k * n + Z.to_nat l)%nat.
Proof. intro H. lia. Qed.

Lemma opsum_row c g k t f : valid c ->
  opsum f (lower_ops c g k t) + opsum f (upper_ops c g k t) == rowsum c g t (fun i => f (k * natoms c + i)%nat).
Proof.
  intro V. unfold opsum, lower_ops, upper_ops, rowsum. rewrite !lsum_map, <- lsum_plus.
  apply lsum_ext. intros jp _. unfold lower_op, upper_op, atom_term. cbn [fst snd].
  pose proof (atom_lu c g t (fst jp) V) as H. cbv zeta in H.
  destruct (lu (nm1 c) (atom_b c g t (fst jp))) as [l u]. cbn [fst snd]. destruct H as (H0 & H1 & H2 & _).
  rewrite !Qred_correct, !op_index by lia. reflexivity.
Qed.

Lemma In_indexed_from {T} (l : list T) : forall s k t, In (k, t) (combine (seq s (length l)) l) ->
  (s <= k < s + length l)%nat /\ nth_error l (k - s) = Some t.
Proof.
  induction l; intros s k t H; cbn [length seq combine] in H; [destruct H|].
  destruct H as [H|H].
  - inversion H; subst. cbn [length]. rewrite Nat.sub_diag. split; [lia|reflexivity].
  - apply IHl in H. destruct H as [H1 H2]. cbn [length]. split; [lia|].
    replace (k - s)%nat with (S (k - S s)) by lia. exact H2.
Qed.

Lemma In_indexed {T} (l : list T) k t : In (k, t) (indexed l) -> (k < length l)%nat /\ nth_error l k = Some t.
Proof. intro H. apply In_indexed_from in H. rewrite Nat.sub_0_r in H. destruct H; split; auto; lia. Qed.

Lemma op_in_range c g k t jp B : valid c -> (k < B)%nat ->
  let chk := fun i => ((0 <=? i) && (i <? Z.of_nat (B * natoms c)))%Z in
  chk (fst (lower_op c g k t jp)) = true /\ chk (fst (upper_op c g k t jp)) = true.
Proof.
  intros V Hk chk. unfold lower_op, upper_op. cbn [fst].
  pose proof (atom_lu c g t (fst jp) V) as H. cbv zeta in H.
  destruct (lu (nm1 c) (atom_b c g t (fst jp))) as [l u]. cbn [fst snd].
  destruct H as (H0 & H1 & H2 & _). unfold nm1 in H1.
  assert (A : (0 <= Z.of_nat k * Z.of_nat (natoms c))%Z) by lia.
  assert (X : (Z.of_nat k * Z.of_nat (natoms c) + Z.of_nat (natoms c) <= Z.of_nat B * Z.of_nat (natoms c))%Z) by nia.
  unfold chk. rewrite Nat2Z.inj_mul.
  split; apply andb_true_iff; split; try apply Z.leb_le; try apply Z.ltb_lt; lia.
Qed.

Lemma in_range_all c g ts : valid c -> in_range (length ts * natoms c) (all_ops c g ts) = true.
Proof.
  intro V. unfold in_range. apply forallb_forall. intros iv Hin.
  unfold all_ops in Hin. apply in_app_or in Hin.
  destruct Hin as [Hin|Hin]; apply in_flat_map in Hin; destruct Hin as [[k t] [Hk Hin]];
  apply In_indexed in Hk; destruct Hk as [Hk _]; cbn [fst snd] in Hin;
  [unfold lower_ops in Hin | unfold upper_ops in Hin];
  apply in_map_iff in Hin; destruct Hin as [jp [E _]]; rewrite <- E;
  apply (op_in_range c g k t jp (length ts) V Hk).
Qed.

Lemma project_flat_some c g ts : valid c ->
  project_flat c g ts = Some (scatter (repeat 0 (length ts * natoms c)) (all_ops c g ts)).
Proof. intro V. unfold project_flat. rewrite in_range_all; auto. Qed.

Lemma project_flat_length c g ts flat : project_flat c g ts = Some flat -> length flat = (length ts * natoms c)%nat.
Proof.
  unfold project_flat. destruct (in_range _ _); [|discriminate]. intro H. inversion H.
  rewrite length_scatter, repeat_length. reflexivity.
Qed.

(* every index weighting of the flat result is the sum, over the rows, of the row's own contribution *)
Lemma flat_dotf c g ts f flat : valid c -> project_flat c g ts = Some flat ->
  dotf f flat == lsum (fun kt => rowsum c g (snd kt) (fun i => f (fst kt * natoms c + i)%nat)) (indexed ts).
Proof.
  intros V H. rewrite project_flat_some in H by auto. inversion H; subst flat. clear H.
  rewrite dotf_scatter by (rewrite repeat_length; apply in_range_all; auto).
  rewrite dotf_repeat0. unfold all_ops, opsum. rewrite lsum_app, !lsum_flat_map, <- lsum_plus.
  rewrite Qplus_0_l. apply lsum_ext. intros [k t] _. cbn [fst snd].
  apply (opsum_row c g k t f V).
Qed.

Lemma lsum_indexed_single_from {T} (F : nat * T -> Q) (l : list T) : forall s k t,
  nth_error l k = Some t ->
  (forall k' t', In (k', t') (combine (seq s (length l)) l) -> k' <> (s + k)%nat -> F (k', t') == 0) ->
  lsum F (combine (seq s (length l)) l) == F ((s + k)%nat, t).
Proof.
  induction l; intros s k t Hn Hz; [destruct k; discriminate|].
  cbn [length seq combine lsum]. destruct k.
  - cbn in Hn. inversion Hn; subst. rewrite Nat.add_0_r. rewrite lsum_zero; [lra|].
    intros [k' t'] Hin. apply Hz; [right; exact Hin|].
    apply In_indexed_from in Hin. lia.
  - cbn in Hn. rewrite (Hz s a) by (try (left; reflexivity); lia).
    rewrite (IHl (S s) k t Hn).
    + replace (S s + k)%nat with (s + S k)%nat by lia. lra.
    + intros k' t' Hin Hne. apply Hz; [right; exact Hin|lia].
Qed.

Lemma lsum_indexed_single {T} (F : nat * T -> Q) (l : list T) k t :
  nth_error l k = Some t ->
  (forall k' t', In (k', t') (indexed l) -> k' <> k -> F (k', t') == 0) ->
  lsum F (indexed l) == F (k, t).
Proof. intros. apply (lsum_indexed_single_from F l O k t); auto. Qed.

Lemma rowsum_ext c g t h h' : valid c -> (forall i, (i < natoms c)%nat -> h i == h' i) -> rowsum c g t h == rowsum c g t h'.
Proof.
  intros V H. unfold rowsum. apply lsum_ext. intros jp _. unfold atom_term.
  pose proof (atom_lu c g t (fst jp) V) as A. cbv zeta in A.
  destruct (lu (nm1 c) (atom_b c g t (fst jp))) as [l u]. cbn [fst snd]. destruct A as (H0 & H1 & H2 & _).
  unfold nm1 in H1. rewrite (H (Z.to_nat l)), (H (Z.to_nat u)) by lia. reflexivity.
Qed.

Lemma rowsum_zero c g t : rowsum c g t (fun _ => 0) == 0.
Proof. unfold rowsum. apply lsum_zero. intros jp _. unfold atom_term. cbv zeta. ring. Qed.

(* the k-th row of the batch projection, under any index weighting, is the functional of transition k alone *)
Lemma row_functional c g ts flat k t h : valid c -> project_flat c g ts = Some flat -> nth_error ts k = Some t ->
  dotf h (row_slice (natoms c) k flat) == rowsum c g t h.
Proof.
  intros V H Hk. pose proof (project_flat_length c g ts flat H) as L.
  assert (Hlt : (k < length ts)%nat) by (apply nth_error_Some; congruence).
  rewrite dotf_row_slice by (rewrite L; nia).
  rewrite (flat_dotf c g ts _ flat V H).
  rewrite (lsum_indexed_single _ ts k t Hk).
  - cbn [fst snd]. apply rowsum_ext; auto. intros i Hi. unfold in_row.
    destruct (Nat.leb_spec (k * natoms c) (k * natoms c + i)); [|lia].
    destruct (Nat.ltb_spec (k * natoms c + i) (k * natoms c + natoms c)); [|lia].
    cbn [andb]. replace (k * natoms c + i - k * natoms c)%nat with i by lia. reflexivity.
  - intros k' t' _ Hne. cbn [fst snd]. rewrite <- (rowsum_zero c g t'). apply rowsum_ext; auto.
    intros i Hi. unfold in_row.
    destruct (Nat.leb_spec (k * natoms c) (k' * natoms c + i)); cbn [andb]; [|reflexivity].
    destruct (Nat.ltb_spec (k' * natoms c + i) (k * natoms c + natoms c)); [|reflexivity].
    exfalso. apply Hne. nia.
Qed.

Lemma row_slice_length c g ts flat k : project_flat c g ts = Some flat -> (k < length ts)%nat ->
  length (row_slice (natoms c) k flat) = natoms c.
Proof.
  intros H Hk. apply project_flat_length in H. unfold row_slice. rewrite firstn_length, skipn_length, H. nia.
Qed.

Lemma project_row_slice c g t : valid c ->
  project_flat c g [t] = Some (project_row c g t) /\ row_slice (natoms c) 0 (project_row c g t) = project_row c g t.
Proof.
  intro V. unfold project_row. rewrite (project_flat_some c g [t] V). split; [reflexivity|].
  unfold row_slice. cbn [Nat.mul skipn]. apply firstn_all2.
  rewrite length_scatter, repeat_length. cbn [length]. lia.
Qed.

Lemma project_row_length c g t : valid c -> length (project_row c g t) = natoms c.
Proof.
  intro V. destruct (project_row_slice c g t V) as [H _]. apply project_flat_length in H. cbn [length] in H. lia.
Qed.

Lemma row_functional_single c g t h : valid c -> dotf h (project_row c g t) == rowsum c g t h.
Proof.
  intro V. destruct (project_row_slice c g t V) as [H E]. rewrite <- E.
  apply (row_functional c g [t] _ O t h V H). reflexivity.
Qed.

(* rows_independent *)
Lemma rows_independent_lemma c g ts flat k t i : valid c -> project_flat c g ts = Some flat -> nth_error ts k = Some t ->
  nth i (row_slice (natoms c) k flat) 0 == nth i (project_row c g t) 0.
Proof.
  intros V H Hk. rewrite !nth_dotf. rewrite (row_functional c g ts flat k t _ V H Hk).
  rewrite row_functional_single; auto. reflexivity.
Qed.

(* ---------- mass ---------- *)
Lemma lsum_combine_snd (F : Q -> Q) : forall p s n, (length p <= n)%nat ->
  lsum (fun jp : nat * Q => F (snd jp)) (combine (seq s n) p) == lsum F p.
Proof.
  induction p; intros s n H; [destruct n; reflexivity|].
  destruct n; [cbn in H; lia|]. cbn [seq combine lsum snd]. rewrite IHp by (cbn in H; lia). reflexivity.
Qed.

Lemma rowsum_mass c g t : valid c -> wf_trans c t -> rowsum c g t (fun _ => 1) == Qsum (pnext t).
Proof.
  intros V W. unfold rowsum, atoms. rewrite Qsum_lsum.
  rewrite <- (lsum_combine_snd (fun x => x) (pnext t) O (natoms c)) by (rewrite W; lia).
  apply lsum_ext. intros jp _. unfold atom_term.
  pose proof (atom_lu c g t (fst jp) V) as A. cbv zeta in A.
  destruct (lu (nm1 c) (atom_b c g t (fst jp))) as [l u]. cbn [fst snd]. destruct A as (H0 & H1 & H2 & _).
  subst u. rewrite inject_Z_plus. change (inject_Z 1) with 1. ring.
Qed.

Lemma mass_conserved_lemma c g ts flat k t : valid c -> wf_trans c t ->
  project_flat c g ts = Some flat -> nth_error ts k = Some t ->
  Qsum (row_slice (natoms c) k flat) == Qsum (pnext t).
Proof.
  intros V W H Hk. rewrite Qsum_dotf. rewrite (row_functional c g ts flat k t _ V H Hk). apply rowsum_mass; auto.
Qed.

(* ---------- mean ---------- *)
Lemma lsum_combine_dot (G : nat -> Q) : forall p s n, (length p <= n)%nat ->
  lsum (fun jp : nat * Q => snd jp * G (fst jp)) (combine (seq s n) p) == dot p (map G (seq s n)).
Proof.
  induction p; intros s n H; [destruct n; reflexivity|].
  destruct n; [cbn in H; lia|]. cbn [seq combine lsum snd fst map dot]. rewrite Qred_correct.
  rewrite IHp by (cbn in H; lia). reflexivity.
Qed.

Definition tz_atom (c : cfg) (g : Q) (t : trans) (j : nat) : Q := tz c (rew t) (done t) g (zat c j).

Lemma zat_to_nat c l : (0 <= l)%Z -> zat c (Z.to_nat l) == vmin c + inject_Z l * delta c.
Proof. intro H. unfold zat. rewrite Z2Nat.id by lia. reflexivity. Qed.

Lemma rowsum_mean c g t : valid c -> wf_trans c t ->
  rowsum c g t (zat c) == dot (pnext t) (map (tz_atom c g t) (seq 0 (natoms c))).
Proof.
  intros V W. unfold rowsum, atoms.
  rewrite <- (lsum_combine_dot (tz_atom c g t) (pnext t) O (natoms c)) by (rewrite W; lia).
  apply lsum_ext. intros jp _. unfold atom_term.
  pose proof (atom_lu c g t (fst jp) V) as A. cbv zeta in A.
  assert (E : vmin c + atom_b c g t (fst jp) * delta c == tz_atom c g t (fst jp)).
  { unfold atom_b. rewrite Qred_correct. apply bfrac_exact; auto. apply tz_bounds; auto. }
  destruct (lu (nm1 c) (atom_b c g t (fst jp))) as [l u]. cbn [fst snd]. destruct A as (H0 & H1 & H2 & _).
  rewrite !zat_to_nat by lia. rewrite <- E. subst u. rewrite inject_Z_plus. change (inject_Z 1) with 1. ring.
Qed.

Lemma mean_conserved_lemma c g ts flat k t : valid c -> wf_trans c t ->
  project_flat c g ts = Some flat -> nth_error ts k = Some t ->
  dot (row_slice (natoms c) k flat) (support c) == dot (pnext t) (map (tz_atom c g t) (seq 0 (natoms c))).
Proof.
  intros V W H Hk.
  assert (Hlt : (k < length ts)%nat) by (apply nth_error_Some; congruence).
  pose proof (row_slice_length c g ts flat k H Hlt) as L.
  unfold support. rewrite <- L at 2. rewrite dot_tabulate. cbn [plus].
  rewrite (dotf_ext _ (zat c)) by (intros; reflexivity).
  rewrite (row_functional c g ts flat k t _ V H Hk). apply rowsum_mean; auto.
Qed.

(* ---------- non-negativity ---------- *)
Lemma nonneg_lemma c g ts flat k t i : valid c -> (forall x, In x (pnext t) -> 0 <= x) ->
  project_flat c g ts = Some flat -> nth_error ts k = Some t ->
  0 <= nth i (row_slice (natoms c) k flat) 0.
Proof.
  intros V P H Hk. rewrite nth_dotf, (row_functional c g ts flat k t _ V H Hk).
  unfold rowsum. apply lsum_nonneg. intros [j p] Hin. unfold atom_term. cbn [fst snd].
  apply in_combine_r in Hin. apply P in Hin.
  pose proof (atom_lu c g t j V) as A. cbv zeta in A.
  destruct (lu (nm1 c) (atom_b c g t j)) as [l u]. cbn [fst snd]. destruct A as (H0 & H1 & H2 & H3 & H4).
  subst u. rewrite inject_Z_plus. change (inject_Z 1) with 1.
  assert (HM : forall a x w, (a = 0 \/ a = 1) -> 0 <= x -> 0 <= w -> 0 <= a * (x * w)).
  { intros a x w [-> | ->] Hx Hw; [lra|]. pose proof (Qmult_le_0_compat x w Hx Hw). lra. }
  apply (Qplus_le_compat 0 _ 0); apply HM; try lra; match goal with |- context [Nat.eqb ?a ?b] => destruct (Nat.eqb a b); auto end.
Qed.

(* ------------------------------------------------------------------------------------------ *)
(* the element-wise loss and the priorities                                                     *)
(* ------------------------------------------------------------------------------------------ *)
Lemma dotf_ext_list f : forall a a', length a = length a' -> (forall i, nth i a 0 == nth i a' 0) ->
  dotf f a == dotf f a'.
Proof.
  intros a. revert f. induction a; intros f a' L H; destruct a'; try discriminate; [reflexivity|].
  cbn [dotf]. rewrite (IHa (fun i => f (S i)) a') by (try (cbn in L; lia); intro i; apply (H (S i))).
  pose proof (H O) as H0. cbn [nth] in H0. rewrite H0. reflexivity.
Qed.

Lemma dot_ext_l a a' b : length a = length a' -> (forall i, nth i a 0 == nth i a' 0) -> dot a b == dot a' b.
Proof. intros L H. rewrite !dot_dotf. apply dotf_ext_list; auto. Qed.

(* cross-entropy of the projection of one sampled row against the online log-distribution of the action taken *)
Definition ce_row (c : cfg) (g : Q) (s : sample) : Q := ce (project_row c g (to_trans c s)) (taken_logp s).

Lemma Forall2_indexed_from {T} (R : Q -> T -> Prop) (F : nat * T -> Q) : forall (l : list T) s,
  (forall k x, nth_error l k = Some x -> R (F ((s + k)%nat, x)) x) ->
  Forall2 R (map F (combine (seq s (length l)) l)) l.
Proof.
  induction l; intros s H; cbn [length seq combine map]; constructor.
  - specialize (H O a eq_refl). rewrite Nat.add_0_r in H. exact H.
  - apply IHl. intros k x Hk. replace (S s + k)%nat with (s + S k)%nat by lia. apply H. exact Hk.
Qed.

Lemma dqn_loss_spec c g ss : valid c ->
  exists L, dqn_loss c g ss = Some L /\ Forall2 (fun x s => x == ce_row c g s) L ss.
Proof.
  intro V. unfold dqn_loss.
  pose proof (project_flat_some c g (map (to_trans c) ss) V) as H. rewrite H.
  eexists. split; [reflexivity|]. unfold indexed.
  apply Forall2_indexed_from. intros k s Hk. cbn [fst snd plus]. unfold ce_row, ce.
  assert (Hk' : nth_error (map (to_trans c) ss) k = Some (to_trans c s)) by (apply map_nth_error; auto).
  assert (Hlt : (k < length (map (to_trans c) ss))%nat) by (apply nth_error_Some; congruence).
  apply Qopp_comp. apply dot_ext_l.
  - rewrite (row_slice_length c g _ _ k H Hlt), project_row_length; auto.
  - intro i. apply (rows_independent_lemma c g _ _ k (to_trans c s) i V H Hk').
Qed.

Lemma Forall2_map_eps (eps : Q) {T} (f : T -> Q) : forall L (l : list T),
  Forall2 (fun x s => x == f s) L l -> Forall2 (fun x s => x == f s + eps) (map (fun x => x + eps) L) l.
Proof. induction 1; cbn [map]; constructor; auto. rewrite H. reflexivity. Qed.

Lemma Forall2_zipadd {T U} (f : T -> Q) (h : U -> Q) : forall a l1, Forall2 (fun x s => x == f s) a l1 ->
  forall b l2, Forall2 (fun y s => y == h s) b l2 ->
  Forall2 (fun x p => x == f (fst p) + h (snd p)) (zipadd a b) (combine l1 l2).
Proof.
  induction 1; intros b l2 H2; [destruct b; constructor|].
  inversion H2; subst; cbn [zipadd combine]; constructor.
  - cbn [fst snd]. rewrite Qred_correct, H, H1. reflexivity.
  - apply IHForall2; auto.
Qed.

Lemma priority_is_ce_lemma c gamma n eps ss1 ssn : valid c ->
  let gn := Qpower gamma (Z.of_nat n) in
  (exists P, learn_priorities c gamma n eps OneStep ss1 ssn = Some P /\
             Forall2 (fun x s => x == ce_row c gamma s + eps) P ss1) /\
  (exists P, learn_priorities c gamma n eps NStep ss1 ssn = Some P /\
             Forall2 (fun x s => x == ce_row c gn s + eps) P ssn) /\
  (exists P, learn_priorities c gamma n eps Combined ss1 ssn = Some P /\
             Forall2 (fun x p => x == ce_row c gamma (fst p) + ce_row c gn (snd p) + eps) P (combine ss1 ssn)).
Proof.
  intros V gn. unfold learn_priorities. fold gn.
  destruct (dqn_loss_spec c gamma ss1 V) as (L1 & E1 & F1).
  destruct (dqn_loss_spec c gn ssn V) as (Ln & En & Fn).
  rewrite E1, En. cbn [option_map]. repeat split; eexists; (split; [reflexivity|]).
  - apply Forall2_map_eps; auto.
  - apply Forall2_map_eps; auto.
  - apply (Forall2_map_eps eps (fun p => ce_row c gamma (fst p) + ce_row c gn (snd p))).
    apply Forall2_zipadd; auto.
Qed.

(* ------------------------------------------------------------------------------------------ *)
(* the greedy next action                                                                       *)
(* ------------------------------------------------------------------------------------------ *)
Lemma argmax_from_inv : forall l pre best bi,
  (bi < length pre)%nat -> nth bi pre 0 = best ->
  (forall j, (j < length pre)%nat -> nth j pre 0 <= best) ->
  (forall j, (j < bi)%nat -> nth j pre 0 < best) ->
  let r := argmax_from best bi (length pre) l in
  (r < length (pre ++ l))%nat /\
  (forall j, (j < length (pre ++ l))%nat -> nth j (pre ++ l) 0 <= nth r (pre ++ l) 0) /\
  (forall j, (j < r)%nat -> nth j (pre ++ l) 0 < nth r (pre ++ l) 0).
Proof.
  induction l; intros pre best bi Hb Hn Hle Hlt; cbn [argmax_from].
  - rewrite app_nil_r. cbv zeta. rewrite Hn. repeat split; auto.
  - assert (LP : length (pre ++ [a]) = S (length pre)) by (rewrite app_length; cbn; lia).
    assert (EA : pre ++ a :: l = (pre ++ [a]) ++ l) by (rewrite <- app_assoc; reflexivity).
    assert (NA : nth (length pre) (pre ++ [a]) 0 = a) by (rewrite app_nth2, Nat.sub_diag by lia; reflexivity).
    destruct (Qle_bool a best) eqn:E.
    + apply Qle_bool_true in E. rewrite EA, <- LP. apply IHl.
      * lia.
      * rewrite app_nth1 by lia. exact Hn.
      * intros j Hj. rewrite LP in Hj. destruct (Nat.eq_dec j (length pre)) as [->|Hne].
        -- rewrite NA. exact E.
        -- rewrite app_nth1 by lia. apply Hle. lia.
      * intros j Hj. rewrite app_nth1 by lia. apply Hlt. exact Hj.
    + apply Qle_bool_false in E. rewrite EA, <- LP. apply IHl.
      * lia.
      * exact NA.
      * intros j Hj. rewrite LP in Hj. destruct (Nat.eq_dec j (length pre)) as [->|Hne].
        -- rewrite NA. lra.
        -- rewrite app_nth1 by lia. assert (nth j pre 0 <= best) by (apply Hle; lia). lra.
      * intros j Hj. rewrite app_nth1 by lia. assert (nth j pre 0 <= best) by (apply Hle; lia). lra.
Qed.

Lemma argmax_first_spec l : l <> [] ->
  let r := argmax_first l in
  (r < length l)%nat /\ (forall j, (j < length l)%nat -> nth j l 0 <= nth r l 0) /\
  (forall j, (j < r)%nat -> nth j l 0 < nth r l 0).
Proof.
  destruct l as [|x t]; [congruence|]. intros _. unfold argmax_first.
  change (x :: t) with ([x] ++ t). change 1%nat with (length [x]).
  apply argmax_from_inv; cbn [length nth]; try lia; auto.
  intros j Hj. replace j with O by lia. lra.
Qed.

Lemma greedy_is_argmax_lemma c s : s_online s <> [] ->
  let a := greedy c s in
  (a < length (s_online s))%nat /\
  (forall a', (a' < length (s_online s))%nat ->
     qvalue c (nth a' (s_online s) []) <= qvalue c (nth a (s_online s) [])) /\
  (forall a', (a' < a)%nat -> qvalue c (nth a' (s_online s) []) < qvalue c (nth a (s_online s) [])).
Proof.
  intro H. unfold greedy.
  assert (H' : map (qvalue c) (s_online s) <> []) by (destruct (s_online s); [congruence|discriminate]).
  pose proof (argmax_first_spec _ H') as A. cbv zeta in A. rewrite map_length in A.
  destruct A as (A1 & A2 & A3). cbv zeta.
  assert (Q0 : qvalue c [] = 0) by reflexivity.
  repeat split; auto.
  - intros a' Ha. specialize (A2 a' Ha). rewrite <- Q0 in A2. rewrite !map_nth in A2. exact A2.
  - intros a' Ha. specialize (A3 a' Ha). rewrite <- Q0 in A3. rewrite !map_nth in A3. exact A3.
Qed.

(* ------------------------------------------------------------------------------------------ *)
(* the behaviour before c92d5ae: b not clamped, its float32 value slightly above N-1            *)
(* (51 atoms on [0, 13.1]: float32 gives b(v_max) = 50 + 2^-18)                                 *)
(* ------------------------------------------------------------------------------------------ *)
Definition b_float_witness : Q := 13107201 # 262144.

Lemma unclamped_float_b_refuted_lemma :
  inject_Z 50 < b_float_witness /\
  project_flat_b 51 [[(b_float_witness, 1)]] = None /\
  exists flat, project_flat_b 51 [[(b_float_witness, 1)]; [(0, 1)]] = Some flat /\
               ~ Qsum (row_slice 51 0 flat) == 1 /\ ~ Qsum (row_slice 51 1 flat) == 1.
Proof.
  split; [reflexivity|]. split; [vm_compute; reflexivity|].
  eexists. split; [vm_compute; reflexivity|]. split; vm_compute; discriminate.
Qed.
