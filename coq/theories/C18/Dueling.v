(* C18 — round 3: the dueling combination of the distributional head. *)
From Coq Require Import List ZArith QArith Qround Qabs Bool Lia Lqa.
Import ListNotations.
From AgileV Require Import C18.Model C18.Proofs.
Local Open Scope Q_scope.

Lemma fold_is_lsum i adv : fold_right (fun row s => nth i row 0 + s) 0 adv = lsum (fun row : list Q => nth i row 0) adv.
Proof. induction adv; cbn [fold_right lsum]; congruence. Qed.

Lemma lsum_const {T} (k : Q) (l : list T) : lsum (fun _ => k) l == inject_Z (Z.of_nat (length l)) * k.
Proof.
  induction l; cbn [lsum length]; [cbn; ring|].
  rewrite IHl, Nat2Z.inj_succ. unfold Z.succ. rewrite inject_Z_plus. change (inject_Z 1) with 1. ring.
Qed.

Lemma nth_dueling_row v adv row i : (i < length v)%nat ->
  nth i (dueling_row v adv row) 0 == nth i v 0 + nth i row 0 - col_mean adv i.
Proof.
  intro H. unfold dueling_row.
  set (f := fun i0 : nat => Qred (nth i0 v 0 + nth i0 row 0 - col_mean adv i0)).
  rewrite (nth_indep _ 0 (f O)) by (rewrite map_length, seq_length; exact H).
  rewrite map_nth, seq_nth by exact H. unfold f. cbn [plus]. apply Qred_correct.
Qed.

(* the advantage stream is centred: averaged over the actions the logits are the value stream, atom by atom ... *)
Lemma dueling_mean_lemma v adv i : adv <> [] -> (i < length v)%nat -> col_mean (dueling v adv) i == nth i v 0.
Proof.
  intros Hne Hi. unfold col_mean at 1. rewrite fold_is_lsum. unfold dueling. rewrite map_length, lsum_map.
  rewrite (lsum_ext _ (fun row => (nth i v 0 - col_mean adv i) + nth i row 0)).
  2:{ intros row _. rewrite nth_dueling_row by exact Hi. ring. }
  rewrite lsum_plus, lsum_const.
  assert (P : 0 < inject_Z (Z.of_nat (length adv))).
  { change 0 with (inject_Z 0). apply Q_of_Zlt. destruct adv; [congruence|cbn [length]; lia]. }
  unfold col_mean. rewrite fold_is_lsum.
  set (n := inject_Z (Z.of_nat (length adv))) in *. set (S := lsum (fun row : list Q => nth i row 0) adv). field. lra.
Qed.

(* ... and each action's logits differ from the value stream by its advantage relative to the mean advantage *)
Lemma dueling_entry_lemma v adv a i : (a < length adv)%nat -> (i < length v)%nat ->
  nth i (nth a (dueling v adv) []) 0 == nth i v 0 + (nth i (nth a adv []) 0 - col_mean adv i).
Proof.
  intros Ha Hi. unfold dueling.
  rewrite (nth_indep _ [] (dueling_row v adv [])) by (rewrite map_length; exact Ha).
  rewrite map_nth, nth_dueling_row by exact Hi. ring.
Qed.
