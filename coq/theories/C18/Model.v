(* C18 — executable model (over Q) of agilerl.algorithms.dqn_rainbow.RainbowDQN._dqn_loss / learn and of the
   q / distribution read-out of DuelingDistributionalMLP.forward.  Model only (no proofs) so that it still runs
   when a proof breaks.  Transcribed guard by guard from /repo as it is now (including the clamp of b, c92d5ae). *)
From Coq Require Import List ZArith QArith Qround Qabs Bool.
Import ListNotations.
Local Open Scope Q_scope.

(* ---------- small numeric helpers ---------- *)
Definition Qmax2 (a b : Q) : Q := if Qle_bool a b then b else a.
Definition Qmin2 (a b : Q) : Q := if Qle_bool a b then a else b.
(* torch.clamp(x, min=lo, max=hi) = min(max(x, lo), hi) *)
Definition Qclamp (lo hi x : Q) : Q := Qmin2 (Qmax2 x lo) hi.

(* sums normalise at each step (Qred x == x): keeps vm_compute fast, theorems are stated up to == *)
Fixpoint Qsum (l : list Q) : Q := match l with [] => 0 | x :: t => Qred (x + Qsum t) end.
Fixpoint dot (a b : list Q) : Q :=
  match a, b with x :: a', y :: b' => Qred (x * y + dot a' b') | _, _ => 0 end.

(* ---------- configuration: num_atoms, v_min, v_max ---------- *)
Record cfg := { natoms : nat; vmin : Q; vmax : Q }.
Definition nm1 (c : cfg) : Z := Z.of_nat (natoms c) - 1.                          (* num_atoms - 1 *)
Definition delta (c : cfg) : Q := (vmax c - vmin c) / inject_Z (nm1 c).           (* self.delta_z  *)
Definition zat (c : cfg) (j : nat) : Q := vmin c + inject_Z (Z.of_nat j) * delta c.
Definition support (c : cfg) : list Q := map (zat c) (seq 0 (natoms c)).          (* torch.linspace(v_min, v_max, num_atoms) *)

(* t_z = (rewards + (1 - dones) * gamma * support).clamp(v_min, v_max) *)
Definition tz (c : cfg) (r d g z : Q) : Q := Qclamp (vmin c) (vmax c) (r + (1 - d) * g * z).
(* b = ((t_z - v_min) / delta_z).clamp(0, num_atoms - 1) *)
Definition bfrac (c : cfg) (t : Q) : Q := Qclamp 0 (inject_Z (nm1 c)) ((t - vmin c) / delta c).

(* L = floor b ; u = ceil b ; L[(u > 0) * (L == u)] -= 1 ; u[(L < N-1) * (L == u)] += 1   (in this order) *)
Definition lu (n1 : Z) (b : Q) : Z * Z :=
  let l := Qfloor b in let u := Qceiling b in
  let l1 := if ((0 <? u) && (l =? u))%Z then (l - 1)%Z else l in
  let u1 := if ((l1 <? n1) && (l1 =? u))%Z then (u + 1)%Z else u in
  (l1, u1).

(* ---------- index_add_ on the flat view ---------- *)
Fixpoint add_at (i : nat) (v : Q) (l : list Q) {struct l} : list Q :=
  match l with
  | [] => []
  | x :: t => match i with O => Qred (x + v) :: t | S i' => x :: add_at i' v t end
  end.
Definition add_atZ (iv : Z * Q) (l : list Q) : list Q :=
  if ((0 <=? fst iv) && (fst iv <? Z.of_nat (length l)))%Z then add_at (Z.to_nat (fst iv)) (snd iv) l else l.
Definition scatter (acc : list Q) (ops : list (Z * Q)) : list Q := fold_left (fun a iv => add_atZ iv a) ops acc.
Definition in_range (len : nat) (ops : list (Z * Q)) : bool :=
  forallb (fun iv : Z * Q => ((0 <=? fst iv) && (fst iv <? Z.of_nat len))%Z) ops.

(* ---------- one transition: reward, done flag, target distribution of the greedy next action ---------- *)
Record trans := { rew : Q; done : Q; pnext : list Q }.

Definition atom_b (c : cfg) (g : Q) (t : trans) (j : nat) : Q :=
  Qred (bfrac c (tz c (rew t) (done t) g (zat c j))).

(* (L + offset, target_q_dist * (u.float() - b)) for row k, offset = k * num_atoms *)
Definition lower_op (c : cfg) (g : Q) (k : nat) (t : trans) (jp : nat * Q) : Z * Q :=
  let b := atom_b c g t (fst jp) in
  let lu' := lu (nm1 c) b in
  ((Z.of_nat k * Z.of_nat (natoms c) + fst lu')%Z, Qred (snd jp * (inject_Z (snd lu') - b))).
(* (u + offset, target_q_dist * (b - L.float())) *)
Definition upper_op (c : cfg) (g : Q) (k : nat) (t : trans) (jp : nat * Q) : Z * Q :=
  let b := atom_b c g t (fst jp) in
  let lu' := lu (nm1 c) b in
  ((Z.of_nat k * Z.of_nat (natoms c) + snd lu')%Z, Qred (snd jp * (b - inject_Z (fst lu')))).
Definition atoms (c : cfg) (t : trans) : list (nat * Q) := combine (seq 0 (natoms c)) (pnext t).
Definition lower_ops c g k t := map (lower_op c g k t) (atoms c t).
Definition upper_ops c g k t := map (upper_op c g k t) (atoms c t).

Definition indexed {T} (l : list T) : list (nat * T) := combine (seq 0 (length l)) l.

(* the two index_add_ calls: all lower contributions of all rows, then all upper contributions *)
Definition all_ops (c : cfg) (g : Q) (ts : list trans) : list (Z * Q) :=
  flat_map (fun kt => lower_ops c g (fst kt) (snd kt)) (indexed ts) ++
  flat_map (fun kt => upper_ops c g (fst kt) (snd kt)) (indexed ts).

(* proj_dist.view(-1) after both index_add_ ; None = IndexError (index out of range in self) *)
Definition project_flat (c : cfg) (g : Q) (ts : list trans) : option (list Q) :=
  let len := (length ts * natoms c)%nat in
  let ops := all_ops c g ts in
  if in_range len ops then Some (scatter (repeat 0 len) ops) else None.

Definition row_slice (n k : nat) (flat : list Q) : list Q := firstn n (skipn (k * n) flat).

(* projection of a single transition (batch of one) *)
Definition project_row (c : cfg) (g : Q) (t : trans) : list Q :=
  match project_flat c g [t] with Some l => l | None => [] end.

(* ---------- the loss ---------- *)
(* one sampled row: reward, done, online distributions of next_obs (actions x atoms, clamped softmax),
   target distributions of next_obs, online log-distributions of obs, action taken *)
Record sample := { s_rew : Q; s_done : Q; s_online : list (list Q); s_target : list (list Q);
                   s_logp : list (list Q); s_act : nat }.

(* forward(q=True): sum(x * support, dim=2) *)
Definition qvalue (c : cfg) (p : list Q) : Q := dot p (support c).

(* torch.argmax: first index of the maximum *)
Fixpoint argmax_from (best : Q) (bi i : nat) (l : list Q) : nat :=
  match l with
  | [] => bi
  | x :: t => if Qle_bool x best then argmax_from best bi (S i) t else argmax_from x i (S i) t
  end.
Definition argmax_first (l : list Q) : nat := match l with [] => O | x :: t => argmax_from x O 1%nat t end.

Definition greedy (c : cfg) (s : sample) : nat := argmax_first (map (qvalue c) (s_online s)).
Definition to_trans (c : cfg) (s : sample) : trans :=
  {| rew := s_rew s; done := s_done s; pnext := nth (greedy c s) (s_target s) [] |}.

(* -(proj_dist * log_p).sum(1) *)
Definition ce (proj logp : list Q) : Q := - dot proj logp.
Definition taken_logp (s : sample) : list Q := nth (s_act s) (s_logp s) [].

Definition dqn_loss (c : cfg) (g : Q) (ss : list sample) : option (list Q) :=
  match project_flat c g (map (to_trans c) ss) with
  | None => None
  | Some flat => Some (map (fun ks => ce (row_slice (natoms c) (fst ks) flat) (taken_logp (snd ks))) (indexed ss))
  end.

(* learn(per=True): which element-wise loss becomes the new priority *)
Inductive mode := OneStep | NStep | Combined.

Fixpoint zipadd (a b : list Q) : list Q :=
  match a, b with x :: a', y :: b' => Qred (x + y) :: zipadd a' b' | _, _ => [] end.

Definition learn_priorities (c : cfg) (gamma : Q) (n : nat) (eps : Q) (m : mode) (ss1 ssn : list sample)
  : option (list Q) :=
  let one := dqn_loss c gamma ss1 in
  let nst := dqn_loss c (Qpower gamma (Z.of_nat n)) ssn in
  match m with
  | OneStep => option_map (map (fun x => x + eps)) one
  | NStep => option_map (map (fun x => x + eps)) nst
  | Combined => match one, nst with
                | Some a, Some b => Some (map (fun x => x + eps) (zipadd a b))
                | _, _ => None
                end
  end.

(* ---------- the behaviour before c92d5ae, for the refutation: b is not clamped; the float32 value of b is an input ---------- *)
Definition lower_op_b (n : nat) (k : nat) (bp : Q * Q) : Z * Q :=
  let lu' := lu (Z.of_nat n - 1) (fst bp) in
  ((Z.of_nat k * Z.of_nat n + fst lu')%Z, snd bp * (inject_Z (snd lu') - fst bp)).
Definition upper_op_b (n : nat) (k : nat) (bp : Q * Q) : Z * Q :=
  let lu' := lu (Z.of_nat n - 1) (fst bp) in
  ((Z.of_nat k * Z.of_nat n + snd lu')%Z, snd bp * (fst bp - inject_Z (fst lu'))).
(* rows : per row the list of (b_j, p_j) *)
Definition project_flat_b (n : nat) (rows : list (list (Q * Q))) : option (list Q) :=
  let len := (length rows * n)%nat in
  let ops := flat_map (fun kr => map (lower_op_b n (fst kr)) (snd kr)) (indexed rows) ++
             flat_map (fun kr => map (upper_op_b n (fst kr)) (snd kr)) (indexed rows) in
  if in_range len ops then Some (scatter (repeat 0 len) ops) else None.

(* ---------- round 3: the scalar loss of learn(per=True) and the clamp + renormalisation of the head ---------- *)
Fixpoint zipmul (a b : list Q) : list Q :=
  match a, b with x :: a', y :: b' => Qred (x * y) :: zipmul a' b' | _, _ => [] end.
Definition qmean (l : list Q) : Q := Qsum l / inject_Z (Z.of_nat (length l)).           (* torch.mean *)
(* elementwise_loss as learn() holds it before prior_eps is added *)
Definition learn_elementwise (c : cfg) (gamma : Q) (n : nat) (m : mode) (ss1 ssn : list sample) : option (list Q) :=
  learn_priorities c gamma n 0 m ss1 ssn.
(* loss = torch.mean(elementwise_loss * weights.reshape(-1))  (50db4ca): the importance weights enter here and only here *)
Definition learn_loss (c : cfg) (gamma : Q) (n : nat) (m : mode) (ss1 ssn : list sample) (ws : list Q) : option Q :=
  option_map (fun el => qmean (zipmul el ws)) (learn_elementwise c gamma n m ss1 ssn).

(* DuelingDistributionalMLP.forward, q=False: softmax(...).clamp(min=1e-3) then x / x.sum(-1)  (92c49c5); the softmax output is an input *)
Definition clamp_min (m : Q) (l : list Q) : list Q := map (fun x => Qmax2 x m) l.
Definition renorm (l : list Q) : list Q := let s := Qsum l in map (fun x => Qred (x / s)) l.
Definition head_dist (soft : list Q) : list Q := renorm (clamp_min (1 # 1000) soft).

(* DuelingDistributionalMLP.forward: x = value + advantage - advantage.mean(1, keepdim=True)  (value: atoms; advantage: actions x atoms) *)
Definition col_mean (adv : list (list Q)) (i : nat) : Q :=
  fold_right (fun row s => nth i row 0 + s) 0 adv / inject_Z (Z.of_nat (length adv)).
Definition dueling_row (v : list Q) (adv : list (list Q)) (row : list Q) : list Q :=
  map (fun i => Qred (nth i v 0 + nth i row 0 - col_mean adv i)) (seq 0 (length v)).
Definition dueling (v : list Q) (adv : list (list Q)) : list (list Q) := map (dueling_row v adv) adv.
