(* C18 — round 3: the weighted scalar loss of learn(per=True) and the clamped, renormalised head distribution. *)
From Coq Require Import List ZArith QArith Qround Qabs Bool Lia Lqa.
Import ListNotations.
From AgileV Require Import C18.Model C18.Proofs.
Local Open Scope Q_scope.

(* ---------- loss = mean(elementwise * weights) ---------- *)
Lemma Qsum_zipmul {T} (f : T -> Q) : forall P l, Forall2 (fun x s => x == f s) P l ->
  forall ws, Qsum (zipmul P ws) == lsum (fun sw => f (fst sw) * snd sw) (combine l ws).
Proof.
  induction 1; intros ws; [destruct ws; reflexivity|].
  destruct ws as [|w ws]; [reflexivity|]. cbn [zipmul Qsum combine lsum fst snd].
  rewrite !Qred_correct, H, IHForall2. reflexivity.
Qed.

Lemma zipmul_length : forall a b, length (zipmul a b) = Nat.min (length a) (length b).
Proof. induction a; intros [|y b]; cbn [zipmul length Nat.min]; auto. Qed.

Lemma Forall2_plus0 {T} (f : T -> Q) P (l : list T) :
  Forall2 (fun x s => x == f s + 0) P l -> Forall2 (fun x s => x == f s) P l.
Proof. induction 1; constructor; auto. rewrite H. ring. Qed.

Lemma Forall2_length_eq {A B} (R : A -> B -> Prop) l l' : Forall2 R l l' -> length l = length l'.
Proof. induction 1; cbn; auto. Qed.

(* the scalar loss is the mean over the batch of  weight_k * cross-entropy_k  (1-step, n-step, combined);
   the priorities (priority_is_ce) do not mention the weights at all *)
Definition loss_spec {T} (f : T -> Q) (l : list T) (ws : list Q) (el : list Q) (loss : option Q) : Prop :=
  (loss = Some (qmean (zipmul el ws))) /\
  (length (zipmul el ws) = Nat.min (length l) (length ws)) /\
  (Qsum (zipmul el ws) == lsum (fun sw => f (fst sw) * snd sw) (combine l ws)).

Lemma loss_spec_intro {T} (f : T -> Q) l ws el m c gamma n ss1 ssn :
  learn_priorities c gamma n 0 m ss1 ssn = Some el -> Forall2 (fun x s => x == f s + 0) el l ->
  loss_spec f l ws el (learn_loss c gamma n m ss1 ssn ws).
Proof.
  intros E F. apply Forall2_plus0 in F. unfold loss_spec, learn_loss, learn_elementwise. rewrite E. cbn [option_map].
  split; [reflexivity|]. split.
  - rewrite zipmul_length, (Forall2_length_eq _ _ _ F). reflexivity.
  - apply Qsum_zipmul. exact F.
Qed.

Lemma learn_loss_lemma c gamma n ss1 ssn ws : valid c ->
  let gn := Qpower gamma (Z.of_nat n) in
  (exists el, learn_elementwise c gamma n OneStep ss1 ssn = Some el /\
  loss_spec (ce_row c gamma) ss1 ws el (learn_loss c gamma n OneStep ss1 ssn ws)) /\
  (exists el, learn_elementwise c gamma n NStep ss1 ssn = Some el /\
  loss_spec (ce_row c gn) ssn ws el (learn_loss c gamma n NStep ss1 ssn ws)) /\
  (exists el, learn_elementwise c gamma n Combined ss1 ssn = Some el /\
  loss_spec (fun p => ce_row c gamma (fst p) + ce_row c gn (snd p)) (combine ss1 ssn) ws el
               (learn_loss c gamma n Combined ss1 ssn ws)).
Proof.
  intros V gn. destruct (priority_is_ce_lemma c gamma n 0 ss1 ssn V) as (H1 & H2 & H3). fold gn in H2, H3.
  destruct H1 as (P1 & E1 & F1). destruct H2 as (P2 & E2 & F2). destruct H3 as (P3 & E3 & F3).
  repeat split.
  - exists P1. split; [exact E1|]. eapply loss_spec_intro; eauto.
  - exists P2. split; [exact E2|]. eapply loss_spec_intro; eauto.
  - exists P3. split; [exact E3|]. eapply (loss_spec_intro (fun p => ce_row c gamma (fst p) + ce_row c gn (snd p))); eauto.
Qed.

(* ---------- the head: clamp at 1e-3 and renormalise ---------- *)
Lemma Qsum_map_div s : forall l, Qsum (map (fun x => Qred (x / s)) l) == Qsum l / s.
Proof.
  induction l; cbn [map Qsum]; [unfold Qdiv; ring|]. rewrite !Qred_correct, IHl. unfold Qdiv. ring.
Qed.

Lemma clamp_min_ge m : forall l x, In x (clamp_min m l) -> m <= x.
Proof.
  intros l x H. unfold clamp_min in H. apply in_map_iff in H. destruct H as [y [<- _]].
  destruct (Qmax2_spec y m) as [[A ->]|[A ->]]; lra.
Qed.

Lemma Qsum_ge m : forall l, (forall x, In x l -> m <= x) -> inject_Z (Z.of_nat (length l)) * m <= Qsum l.
Proof.
  induction l; intro H; [cbn [length Qsum]; change (inject_Z (Z.of_nat 0)) with 0; lra|].
  cbn [length Qsum]. rewrite Qred_correct, Nat2Z.inj_succ. unfold Z.succ. rewrite inject_Z_plus. change (inject_Z 1) with 1.
  pose proof (H a (or_introl eq_refl)). assert (inject_Z (Z.of_nat (length l)) * m <= Qsum l) by (apply IHl; intros; apply H; right; auto).
  lra.
Qed.

Lemma clamp_sum_pos soft : soft <> [] -> 0 < Qsum (clamp_min (1 # 1000) soft).
Proof.
  intro H. pose proof (Qsum_ge (1 # 1000) (clamp_min (1 # 1000) soft) (clamp_min_ge _ soft)) as G.
  unfold clamp_min in G at 1. rewrite map_length in G.
  assert (1 <= inject_Z (Z.of_nat (length soft))).
  { change 1 with (inject_Z 1). apply Q_of_Zle. destruct soft; [congruence|cbn [length]; lia]. }
  lra.
Qed.

(* every distribution the head returns has total mass one, and no entry is below 1e-3 / total *)
Lemma head_dist_lemma soft : soft <> [] ->
  length (head_dist soft) = length soft /\ Qsum (head_dist soft) == 1 /\
  forall x, In x (head_dist soft) -> (1 # 1000) / Qsum (clamp_min (1 # 1000) soft) <= x.
Proof.
  intro H. pose proof (clamp_sum_pos soft H) as P. unfold head_dist, renorm. cbv zeta.
  set (cl := clamp_min (1 # 1000) soft) in *. split; [unfold cl, clamp_min; rewrite !map_length; reflexivity|]. split.
  - rewrite Qsum_map_div. field. lra.
  - intros x Hx. apply in_map_iff in Hx. destruct Hx as [y [<- Hy]]. rewrite Qred_correct.
    apply clamp_min_ge in Hy. unfold Qdiv. apply Qmult_le_compat_r; auto.
    apply Qlt_le_weak, Qinv_lt_0_compat. exact P.
Qed.
