(* C18 — robustness to the rounding of b: the projection kernel applied to ANY fractional indices inside [0, N-1]
   (what the clamp of c92d5ae guarantees for the float32 values) conserves mass, keeps rows separate and has index-mean sum p*b. *)
From Coq Require Import List ZArith QArith Qround Qabs Bool Lia Lqa.
Import ListNotations.
From AgileV Require Import C18.Model C18.Proofs.
Local Open Scope Q_scope.

Definition brow_ok (n : nat) (row : list (Q * Q)) : Prop :=
  forall bp, In bp row -> 0 <= fst bp <= inject_Z (Z.of_nat n - 1).

Definition bterm (n : nat) (h : nat -> Q) (bp : Q * Q) : Q :=
  let lu' := lu (Z.of_nat n - 1) (fst bp) in
  h (Z.to_nat (fst lu')) * (snd bp * (inject_Z (snd lu') - fst bp)) +
  h (Z.to_nat (snd lu')) * (snd bp * (fst bp - inject_Z (fst lu'))).
Definition browsum (n : nat) (row : list (Q * Q)) (h : nat -> Q) : Q := lsum (bterm n h) row.

Definition b_ops (n : nat) (rows : list (list (Q * Q))) : list (Z * Q) :=
  flat_map (fun kr => map (lower_op_b n (fst kr)) (snd kr)) (indexed rows) ++
  flat_map (fun kr => map (upper_op_b n (fst kr)) (snd kr)) (indexed rows).

Lemma blu n b : (2 <= n)%nat -> 0 <= b <= inject_Z (Z.of_nat n - 1) ->
  let '(l, u) := lu (Z.of_nat n - 1) b in
  (0 <= l)%Z /\ (u <= Z.of_nat n - 1)%Z /\ (u = l + 1)%Z /\ inject_Z l <= b <= inject_Z l + 1.
Proof. intros Hn Hb. apply lu_spec; auto. lia. Qed.

Lemma b_op_in_range n k bp B : (2 <= n)%nat -> (k < B)%nat -> 0 <= fst bp <= inject_Z (Z.of_nat n - 1) ->
  let chk := fun i => ((0 <=? i) && (i <? Z.of_nat (B * n)))%Z in
  chk (fst (lower_op_b n k bp)) = true /\ chk (fst (upper_op_b n k bp)) = true.
Proof.
  intros Hn Hk Hb chk. unfold lower_op_b, upper_op_b. cbn [fst].
  pose proof (blu n (fst bp) Hn Hb) as H.
  destruct (lu (Z.of_nat n - 1) (fst bp)) as [l u]. cbn [fst snd]. destruct H as (H0 & H1 & H2 & _).
  assert (A : (0 <= Z.of_nat k * Z.of_nat n)%Z) by lia.
  assert (X : (Z.of_nat k * Z.of_nat n + Z.of_nat n <= Z.of_nat B * Z.of_nat n)%Z) by nia.
  unfold chk. rewrite Nat2Z.inj_mul.
  split; apply andb_true_iff; split; try apply Z.leb_le; try apply Z.ltb_lt; lia.
Qed.

Lemma b_in_range_all n rows : (2 <= n)%nat -> Forall (brow_ok n) rows ->
  in_range (length rows * n) (b_ops n rows) = true.
Proof.
  intros Hn HF. unfold in_range. apply forallb_forall. intros iv Hin.
  unfold b_ops in Hin. apply in_app_or in Hin.
  destruct Hin as [Hin|Hin]; apply in_flat_map in Hin; destruct Hin as [[k row] [Hk Hin]];
  apply In_indexed in Hk; destruct Hk as [Hk Hrow]; cbn [fst snd] in Hin;
  apply in_map_iff in Hin; destruct Hin as [bp [E Hbp]]; rewrite <- E;
  apply nth_error_In in Hrow; rewrite Forall_forall in HF; specialize (HF row Hrow bp Hbp);
  apply (b_op_in_range n k bp (length rows) Hn Hk HF).
Qed.

Lemma b_project_some n rows : (2 <= n)%nat -> Forall (brow_ok n) rows ->
  project_flat_b n rows = Some (scatter (repeat 0 (length rows * n)) (b_ops n rows)).
Proof. intros Hn HF. unfold project_flat_b. fold (b_ops n rows). rewrite b_in_range_all; auto. Qed.

Lemma b_opsum_row n k row f : (2 <= n)%nat -> brow_ok n row ->
  opsum f (map (lower_op_b n k) row) + opsum f (map (upper_op_b n k) row) == browsum n row (fun i => f (k * n + i)%nat).
Proof.
  intros Hn Hr. unfold opsum, browsum. rewrite !lsum_map, <- lsum_plus.
  apply lsum_ext. intros bp Hbp. unfold lower_op_b, upper_op_b, bterm. cbn [fst snd].
  pose proof (blu n (fst bp) Hn (Hr bp Hbp)) as H.
  destruct (lu (Z.of_nat n - 1) (fst bp)) as [l u]. cbn [fst snd]. destruct H as (H0 & H1 & H2 & _).
  rewrite !op_index by lia. reflexivity.
Qed.

Lemma b_flat_dotf n rows f : (2 <= n)%nat -> Forall (brow_ok n) rows ->
  dotf f (scatter (repeat 0 (length rows * n)) (b_ops n rows)) ==
  lsum (fun kr => browsum n (snd kr) (fun i => f (fst kr * n + i)%nat)) (indexed rows).
Proof.
  intros Hn HF.
  rewrite dotf_scatter by (rewrite repeat_length; apply b_in_range_all; auto).
  rewrite dotf_repeat0. unfold b_ops, opsum. rewrite lsum_app, !lsum_flat_map, <- lsum_plus.
  rewrite Qplus_0_l. apply lsum_ext. intros [k row] Hin. cbn [fst snd].
  apply In_indexed in Hin. destruct Hin as [_ Hrow]. apply nth_error_In in Hrow.
  rewrite Forall_forall in HF. apply (b_opsum_row n k row f Hn (HF row Hrow)).
Qed.

Lemma browsum_ext n row h h' : (2 <= n)%nat -> brow_ok n row -> (forall i, (i < n)%nat -> h i == h' i) ->
  browsum n row h == browsum n row h'.
Proof.
  intros Hn Hr H. unfold browsum. apply lsum_ext. intros bp Hbp. unfold bterm.
  pose proof (blu n (fst bp) Hn (Hr bp Hbp)) as A.
  destruct (lu (Z.of_nat n - 1) (fst bp)) as [l u]. cbn [fst snd]. destruct A as (H0 & H1 & H2 & _).
  rewrite (H (Z.to_nat l)), (H (Z.to_nat u)) by lia. reflexivity.
Qed.

Lemma browsum_zero n row : browsum n row (fun _ => 0) == 0.
Proof. unfold browsum. apply lsum_zero. intros bp _. unfold bterm. cbv zeta. ring. Qed.

(* every index weighting of row k of the flat result depends on row k's (b, p) pairs only *)
Lemma b_row_functional n rows flat k row h : (2 <= n)%nat -> Forall (brow_ok n) rows ->
  project_flat_b n rows = Some flat -> nth_error rows k = Some row ->
  dotf h (row_slice n k flat) == browsum n row h.
Proof.
  intros Hn HF H Hk. rewrite (b_project_some n rows Hn HF) in H. inversion H; subst flat. clear H.
  assert (Hlt : (k < length rows)%nat) by (apply nth_error_Some; congruence).
  assert (Hr : brow_ok n row) by (rewrite Forall_forall in HF; apply HF; eapply nth_error_In; eauto).
  rewrite dotf_row_slice by (rewrite length_scatter, repeat_length; nia).
  rewrite (b_flat_dotf n rows _ Hn HF).
  rewrite (lsum_indexed_single _ rows k row Hk).
  - cbn [fst snd]. apply browsum_ext; auto. intros i Hi. unfold in_row.
    destruct (Nat.leb_spec (k * n) (k * n + i)); [|lia].
    destruct (Nat.ltb_spec (k * n + i) (k * n + n)); [|lia].
    cbn [andb]. replace (k * n + i - k * n)%nat with i by lia. reflexivity.
  - intros k' row' Hin Hne. cbn [fst snd]. rewrite <- (browsum_zero n row').
    apply In_indexed in Hin. destruct Hin as [_ Hrow']. apply nth_error_In in Hrow'.
    apply browsum_ext; auto. { rewrite Forall_forall in HF. apply HF; auto. }
    intros i Hi. unfold in_row.
    destruct (Nat.leb_spec (k * n) (k' * n + i)); cbn [andb]; [|reflexivity].
    destruct (Nat.ltb_spec (k' * n + i) (k * n + n)); [|reflexivity].
    exfalso. apply Hne. nia.
Qed.

(* mass is conserved and the index-mean is sum p*b for ANY in-range fractional indices (e.g. the float32 ones after the clamp) *)
Lemma float_b_mass_lemma n rows flat k row : (2 <= n)%nat -> Forall (brow_ok n) rows ->
  project_flat_b n rows = Some flat -> nth_error rows k = Some row ->
  Qsum (row_slice n k flat) == lsum (fun bp => snd bp) row /\
  dotf (fun i => inject_Z (Z.of_nat i)) (row_slice n k flat) == lsum (fun bp => snd bp * fst bp) row.
Proof.
  intros Hn HF H Hk.
  assert (Hr : brow_ok n row) by (rewrite Forall_forall in HF; apply HF; eapply nth_error_In; eauto).
  split.
  - rewrite Qsum_dotf, (b_row_functional n rows flat k row _ Hn HF H Hk). unfold browsum.
    apply lsum_ext. intros bp Hbp. unfold bterm.
    pose proof (blu n (fst bp) Hn (Hr bp Hbp)) as A.
    destruct (lu (Z.of_nat n - 1) (fst bp)) as [l u]. cbn [fst snd]. destruct A as (H0 & H1 & H2 & _).
    subst u. rewrite inject_Z_plus. change (inject_Z 1) with 1. ring.
  - rewrite (b_row_functional n rows flat k row _ Hn HF H Hk). unfold browsum.
    apply lsum_ext. intros bp Hbp. unfold bterm.
    pose proof (blu n (fst bp) Hn (Hr bp Hbp)) as A.
    destruct (lu (Z.of_nat n - 1) (fst bp)) as [l u]. cbn [fst snd]. destruct A as (H0 & H1 & H2 & _).
    rewrite !Z2Nat.id by lia. subst u. rewrite inject_Z_plus. change (inject_Z 1) with 1. ring.
Qed.
