(* C18 — boolean comparison of the model with observations of the implementation (used by K only).
   The implementation computes in float32; the model is exact.  All tolerances are computed here, in Q,
   from the case parameters:  the fractional index b carries an absolute float error of at most
   delta_b = 2^-19 * (Mag / delta_z + num_atoms), Mag = |r| + (1+|gamma|) * max(|v_min|,|v_max|)
   (a handful of float32 roundings at magnitude Mag, divided by delta_z); the projection is continuous in b
   (moving b by e moves mass p*e between two neighbouring atoms), so entries are compared up to delta_b * mass. *)
From Coq Require Import List ZArith QArith Qround Qabs Bool.
Import ListNotations.
From AgileV Require Import C18.Model.
Local Open Scope Q_scope.

Definition eps19 : Q := 1 # 524288.
Definition eps16 : Q := 1 # 65536.
Definition eps30 : Q := 1 # 1073741824.

Definition close (tol a b : Q) : bool := Qle_bool (Qabs (a - b)) tol.

Fixpoint forall2b {A B} (f : A -> B -> bool) (a : list A) (b : list B) : bool :=
  match a, b with
  | [], [] => true
  | x :: a', y :: b' => f x y && forall2b f a' b'
  | _, _ => false
  end.

Definition absmax (c : cfg) : Q := Qmax2 (Qabs (vmin c)) (Qabs (vmax c)).
Definition mag (c : cfg) (r g : Q) : Q := Qabs r + (1 + Qabs g) * absmax c.
Definition delta_b (c : cfg) (r g : Q) : Q :=
  Qred (eps19 * (mag c r g / delta c + inject_Z (Z.of_nat (natoms c)))).

Definition Qsumabs (l : list Q) : Q := Qsum (map Qabs l).
Definition maxabs (l : list Q) : Q := fold_right (fun x m => Qmax2 (Qabs x) m) 0 l.

(* agent.support against the model's support *)
Definition support_ok (c : cfg) (sup : list Q) : bool :=
  forall2b (close (eps19 * absmax c + eps30)) (support c) sup.

(* actor(next_obs) (q=True) against sum(p * support) *)
Definition q_tol (c : cfg) (p : list Q) : Q := Qred (eps16 * dot (map Qabs p) (map Qabs (support c)) + eps30).
Definition q_ok (c : cfg) (ss : list sample) (qs : list (list Q)) : bool :=
  forall2b (fun s qrow => forall2b (fun p q => close (q_tol c p) (qvalue c p) q) (s_online s) qrow) ss qs.

(* actions whose q-value is within float tolerance of the maximum: float argmax may pick any of them *)
Definition near_best (c : cfg) (s : sample) : list nat :=
  let qs := map (qvalue c) (s_online s) in
  let best := nth (greedy c s) qs 0 in
  let tol := fold_right Qmax2 0 (map (q_tol c) (s_online s)) in
  filter (fun a => Qle_bool (best - (tol + tol)) (nth a qs 0)) (seq 0 (length qs)).
Definition near_tie (c : cfg) (s : sample) : bool := (1 <? length (near_best c s))%nat.

Definition proj_tol (c : cfg) (g : Q) (s : sample) (p : list Q) : Q :=
  Qred ((delta_b c (s_rew s) g + eps19) * Qsumabs p).

Definition row_proj_ok (c : cfg) (g : Q) (flat po : list Q) (ks : nat * sample) : bool :=
  let k := fst ks in let s := snd ks in
  let got := row_slice (natoms c) k po in
  forall2b (close (proj_tol c g s (pnext (to_trans c s)))) (row_slice (natoms c) k flat) got
  || (near_tie c s &&
      existsb (fun a => let p := nth a (s_target s) [] in
                 forall2b (close (proj_tol c g s p))
                          (project_row c g {| rew := s_rew s; done := s_done s; pnext := p |}) got)
              (near_best c s)).

(* the projection read off the implementation (flat, row-major) against project_flat;
   None on the implementation side = it raised *)
Definition proj_ok (c : cfg) (g : Q) (ss : list sample) (po : option (list Q)) : bool :=
  match project_flat c g (map (to_trans c) ss), po with
  | Some flat, Some po' =>
      Nat.eqb (length po') (length flat) && forallb (row_proj_ok c g flat po') (indexed ss)
  | None, None => true
  | _, _ => false
  end.

(* tolerance of one element-wise loss *)
Definition ce_tol (c : cfg) (g : Q) (s : sample) : Q :=
  let p := pnext (to_trans c s) in
  let lp := taken_logp s in
  Qred ((delta_b c (s_rew s) g + delta_b c (s_rew s) g + eps16) * Qsumabs p * maxabs lp + eps19).

Definition zero_tols (ss : list sample) : list Q := map (fun _ => 0) ss.

Definition prio_ok (c : cfg) (gamma : Q) (n : nat) (eps : Q) (m : mode) (ss1 ssn : list sample)
           (po : option (list Q)) : bool :=
  let gn := Qpower gamma (Z.of_nat n) in
  let t1 := map (fun s => (ce_tol c gamma s, near_tie c s)) ss1 in
  let tn := map (fun s => (ce_tol c gn s, near_tie c s)) ssn in
  let tols := match m with
              | OneStep => t1
              | NStep => tn
              | Combined => map (fun ab => (fst (fst ab) + fst (snd ab), snd (fst ab) || snd (snd ab))) (combine t1 tn)
              end in
  match learn_priorities c gamma n eps m ss1 ssn, po with
  | Some mp, Some op =>
      Nat.eqb (length mp) (length op) && Nat.eqb (length mp) (length tols) &&
      forall2b (fun tt xy => snd tt || close (fst tt) (fst xy) (snd xy)) tols (combine mp op)
  | None, None => true
  | _, _ => false
  end.

Definition check_case (c : cfg) (gamma : Q) (n : nat) (eps : Q) (m : mode) (ss1 ssn : list sample)
           (sup : list Q) (q1 qn : list (list Q)) (p1 pn : option (list Q)) (prio : option (list Q)) : bool :=
  support_ok c sup && q_ok c ss1 q1 && q_ok c ssn qn &&
  proj_ok c gamma ss1 p1 && proj_ok c (Qpower gamma (Z.of_nat n)) ssn pn &&
  prio_ok c gamma n eps m ss1 ssn prio.

(* diagnostic variant: which component fails (used when writing replays) *)
Definition check_parts (c : cfg) (gamma : Q) (n : nat) (eps : Q) (m : mode) (ss1 ssn : list sample)
           (sup : list Q) (q1 qn : list (list Q)) (p1 pn : option (list Q)) (prio : option (list Q)) :=
  (support_ok c sup, q_ok c ss1 q1, q_ok c ssn qn,
   proj_ok c gamma ss1 p1, proj_ok c (Qpower gamma (Z.of_nat n)) ssn pn,
   prio_ok c gamma n eps m ss1 ssn prio).

(* ---------- which arms of the model a case exercises (evidence histogram; computed here, in Coq) ----------
   flags: t_z clamped low / clamped high / unclamped ; b integral = 0 / integral interior / integral = N-1 / fractional *)
Definition atom_flags (c : cfg) (g : Q) (s : sample) (j : nat) : list bool :=
  let x := s_rew s + (1 - s_done s) * g * zat c j in
  let lo := negb (Qle_bool (vmin c) x) in
  let hi := negb (Qle_bool x (vmax c)) in
  let b := bfrac c (tz c (s_rew s) (s_done s) g (zat c j)) in
  let integral := Qeq_bool b (inject_Z (Qfloor b)) in
  let is0 := Qeq_bool b 0 in
  let isN := Qeq_bool b (inject_Z (nm1 c)) in
  [lo; hi; negb lo && negb hi; integral && is0; integral && negb is0 && negb isN; integral && negb is0 && isN; negb integral].

Fixpoint orl (a b : list bool) : list bool :=
  match a, b with x :: a', y :: b' => (x || y) :: orl a' b' | _, _ => [] end.
Definition no_flags : list bool := [false; false; false; false; false; false; false].

Definition branch_hits (c : cfg) (g : Q) (ss : list sample) : list bool :=
  fold_left (fun acc s => fold_left (fun acc' j => orl acc' (atom_flags c g s j)) (seq 0 (natoms c)) acc) ss no_flags.

Definition branches_ok (c : cfg) (gamma : Q) (n : nat) (ss1 ssn : list sample) (expected : list bool) : bool :=
  forall2b Bool.eqb (orl (branch_hits c gamma ss1) (branch_hits c (Qpower gamma (Z.of_nat n)) ssn)) expected.

(* ---------- round 3 ---------- *)
(* actor(x, q=False) against head_dist(exp(actor(x, q=False, log=True))) (the exponential is taken outside, in float64) *)
Definition head_ok (soft p : list (list Q)) : bool :=
  forall2b (fun s pa => forall2b (close (1 # 100000)) (head_dist s) pa) soft p.
(* the scalar loss returned by learn(per=True) against mean(elementwise * weights); tolerance = weighted mean of the row tolerances *)
Definition row_tols (c : cfg) (gamma : Q) (n : nat) (m : mode) (ss1 ssn : list sample) : list Q :=
  let gn := Qpower gamma (Z.of_nat n) in
  let t1 := map (ce_tol c gamma) ss1 in
  let tn := map (ce_tol c gn) ssn in
  match m with OneStep => t1 | NStep => tn | Combined => zipadd t1 tn end.
Definition loss_ok (c : cfg) (gamma : Q) (n : nat) (m : mode) (ss1 ssn : list sample) (ws : list Q) (loss : Q) : bool :=
  match learn_loss c gamma n m ss1 ssn ws with
  | Some l => existsb (near_tie c) ss1 || existsb (near_tie c) ssn ||
              close (qmean (zipmul (row_tols c gamma n m ss1 ssn) (map Qabs ws)) + eps19 * Qabs l) l loss
  | None => false
  end.

(* the dueling combination: log_softmax is shift-invariant, so differences of log-probabilities within one action equal
   differences of the logits value + advantage - mean advantage *)
Definition dueling_ok (v : list Q) (adv logp : list (list Q)) : bool :=
  forall2b (fun lrow prow =>
              let l0 := nth 0 lrow 0 in let p0 := nth 0 prow 0 in
              forall2b (fun l p => close (eps16 * (Qabs l + Qabs l0 + Qabs p + Qabs p0) + (1 # 100000)) (l - l0) (p - p0)) lrow prow)
           (dueling v adv) logp.
