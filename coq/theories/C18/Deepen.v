(* C18 — deepening round: masked bootstrap (done = 1 or gamma = 0, hence cut n-step windows), the code's
   linspace offsets, source mass one. *)
From Coq Require Import List ZArith QArith Qround Qabs Bool Lia Lqa.
Import ListNotations.
From AgileV Require Import C18.Model C18.Proofs.
Local Open Scope Q_scope.

Lemma Qclamp_comp lo hi x y : x == y -> Qclamp lo hi x == Qclamp lo hi y.
Proof.
  intro E. unfold Qclamp.
  destruct (Qmax2_spec x lo) as [[A1 E1]|[A1 E1]]; rewrite E1;
  destruct (Qmax2_spec y lo) as [[A2 E2]|[A2 E2]]; rewrite E2;
  repeat match goal with |- context [Qmin2 ?a ?b] =>
    let B := fresh "B" in let F := fresh "F" in destruct (Qmin2_spec a b) as [[B F]|[B F]]; rewrite F end; lra.
Qed.

(* when the bootstrap term is masked — terminal transition (done = 1; an n-step record whose window was cut by the end
   of the episode carries done = 1) or discount 0 — every atom is shifted onto clamp(reward), whatever the discount
   exponent and whatever the support position *)
Lemma tz_masked c r d g z : (1 - d) * g == 0 -> tz c r d g z == Qclamp (vmin c) (vmax c) r.
Proof.
  intro H. unfold tz. apply Qclamp_comp.
  rewrite H. ring.
Qed.

Lemma dot_const K : forall p l, (forall x, In x l -> x == K) -> (length p <= length l)%nat -> dot p l == Qsum p * K.
Proof.
  induction p; intros l H L; [cbn; ring|].
  destruct l as [|y l]; [cbn in L; lia|]. cbn [dot Qsum]. rewrite !Qred_correct.
  rewrite (H y (or_introl eq_refl)). rewrite IHp; [ring| |cbn in L; lia].
  intros x Hx. apply H. right. exact Hx.
Qed.

Lemma masked_mean_lemma c g ts flat k t : valid c -> wf_trans c t -> (1 - done t) * g == 0 ->
  project_flat c g ts = Some flat -> nth_error ts k = Some t ->
  dot (row_slice (natoms c) k flat) (support c) == Qsum (pnext t) * Qclamp (vmin c) (vmax c) (rew t).
Proof.
  intros V W M H Hk. rewrite (mean_conserved_lemma c g ts flat k t V W H Hk).
  apply dot_const.
  - intros x Hx. apply in_map_iff in Hx. destruct Hx as [j [<- _]]. unfold tz_atom. apply tz_masked. exact M.
  - rewrite map_length, seq_length. rewrite W. lia.
Qed.

(* ... and the projected row itself does not depend on the discount (gamma vs gamma^n): entry by entry *)
Lemma masked_rowsum c g g' t h : valid c -> (1 - done t) * g == 0 -> (1 - done t) * g' == 0 ->
  rowsum c g t h == rowsum c g' t h.
Proof.
  intros V M M'. unfold rowsum. apply lsum_ext. intros jp _. unfold atom_term.
  assert (E : atom_b c g t (fst jp) == atom_b c g' t (fst jp)).
  { unfold atom_b. rewrite !Qred_correct. unfold bfrac. apply Qclamp_comp.
    rewrite (tz_masked c _ _ g _ M), (tz_masked c _ _ g' _ M'). reflexivity. }
  rewrite (lu_comp _ _ _ E). rewrite E. reflexivity.
Qed.

Lemma masked_projection_lemma c g g' t i : valid c -> (1 - done t) * g == 0 -> (1 - done t) * g' == 0 ->
  nth i (project_row c g t) 0 == nth i (project_row c g' t) 0.
Proof.
  intros V M M'. rewrite !nth_dotf, !row_functional_single by auto. apply masked_rowsum; auto.
Qed.

(* ---------- the batch offsets as the code computes them ---------- *)
(* torch.linspace(start, end, steps)[k] *)
Definition linspace_at (s e : Q) (steps k : nat) : Q :=
  if Nat.eqb steps 1 then s else s + inject_Z (Z.of_nat k) * (e - s) / inject_Z (Z.of_nat steps - 1).
(* torch.linspace(0, (batch_size - 1) * num_atoms, batch_size).long()[k] *)
Definition offset_code (B N k : nat) : Z :=
  Qfloor (linspace_at 0 (inject_Z ((Z.of_nat B - 1) * Z.of_nat N)) B k).

Lemma offset_code_lemma B N k : (k < B)%nat -> offset_code B N k = (Z.of_nat k * Z.of_nat N)%Z.
Proof.
  intro H. unfold offset_code, linspace_at. destruct (Nat.eqb_spec B 1) as [E|NE].
  - assert (k = 0)%nat by lia. subst. reflexivity.
  - assert (P : 0 < inject_Z (Z.of_nat B - 1)).
    { change 0 with (inject_Z 0). apply Q_of_Zlt. lia. }
    assert (X : 0 + inject_Z (Z.of_nat k) * (inject_Z ((Z.of_nat B - 1) * Z.of_nat N) - 0) / inject_Z (Z.of_nat B - 1)
                == inject_Z (Z.of_nat k * Z.of_nat N)).
    { rewrite !inject_Z_mult. set (b := inject_Z (Z.of_nat B - 1)) in *. clearbody b. field. lra. }
    rewrite (Qfloor_comp _ _ X). apply Qfloor_Z.
Qed.

(* ---------- source mass one (92c49c5: the head renormalises the clamped softmax) ---------- *)
Lemma unit_mass_lemma c g ts flat k t : valid c -> wf_trans c t -> Qsum (pnext t) == 1 ->
  project_flat c g ts = Some flat -> nth_error ts k = Some t ->
  Qsum (row_slice (natoms c) k flat) == 1.
Proof. intros V W M H Hk. rewrite (mass_conserved_lemma c g ts flat k t V W H Hk). exact M. Qed.
