(* C12 — the loop of write_to_shared_memory as written equals the per-agent update used in the model. *)
From Coq Require Import List Arith Bool ZArith Lia.
Import ListNotations.
From AgileV Require Import Base.Prelude C12.Model C12.Proofs C12.ProofsShm C12.ProofsInfo.

Lemma keys_set_present {X} a (x : X) d : In a (keys d) -> keys (set a x d) = keys d.
Proof.
  induction d as [|[b y] d IH]; cbn; [tauto|].
  destruct (Nat.eqb_spec a b) as [->|Hne]; cbn; auto.
  intros [H|H]; [congruence|]. f_equal. auto.
Qed.

Lemma lookup_Some_keys {X} a (d : dict X) x : lookup a d = Some x -> In a (keys d).
Proof.
  induction d as [|[b y] d IH]; cbn; [discriminate|].
  destruct (Nat.eqb_spec a b) as [->|Hne]; auto.
Qed.

Theorem write_shm_loop_spec_lemma i k : forall (o : dict obs_t) (m : shm),
  NoDup (keys o) ->
  keys (write_shm_loop i k o m) = keys m /\
  forall a, lookup a (write_shm_loop i k o m) = lookup a (write_shm i k o m).
Proof.
  unfold write_shm_loop.
  induction o as [|[a0 ob0] o IH]; intros m Hnd.
  - cbn. split; auto. intros a. rewrite write_shm_lookup. cbn. destruct (lookup a m); reflexivity.
  - cbn [fold_left fst snd]. inversion Hnd as [|? ? Hnin Hnd']; subst.
    set (m' := match lookup a0 m with
               | Some bufs => set a0 (write_members i (mshapes k) ob0 bufs) m
               | None => m end).
    destruct (IH m' Hnd') as [K L].
    assert (Km : keys m' = keys m).
    { unfold m'. destruct (lookup a0 m) eqn:E; auto. apply keys_set_present. eapply lookup_Some_keys; eauto. }
    split; [congruence|].
    intros a. rewrite L, !write_shm_lookup. cbn [lookup].
    destruct (Nat.eqb_spec a a0) as [->|Hne].
    + rewrite (lookup_notin o a0 Hnin). unfold m'. destruct (lookup a0 m) eqn:E.
      * rewrite lookup_set_same. reflexivity.
      * rewrite E. reflexivity.
    + assert (lookup a m' = lookup a m) as ->; [|reflexivity].
      unfold m'. destruct (lookup a0 m); auto. apply lookup_set_other; auto.
Qed.
