(* C12 — the vectorised step/reset/run refine N environments stepped alone. *)
From Coq Require Import List Arith Bool ZArith Lia.
Import ListNotations.
From AgileV Require Import Base.Prelude C12.Model C12.Proofs C12.ProofsShm C12.ProofsInfo.

(* ------------------------------------------------------------------ PettingZooVecEnv.step: transposition *)
Definition n_actions {X} (actions : dict (list X)) : nat :=
  match actions with [] => 0 | (_, l) :: _ => length l end.

Lemma transpose_length {X} agents (actions : dict (list X)) d :
  length (transpose_actions agents actions d) = n_actions actions.
Proof. unfold transpose_actions, n_actions. rewrite map_length, seq_length. reflexivity. Qed.

Theorem transpose_spec_lemma {X} agents (actions : dict (list X)) d e j a :
  e < n_actions actions -> nth_error agents j = Some a ->
  nth_error (nth e (transpose_actions agents actions d) []) j = Some (nth e (get a actions []) d).
Proof.
  intros He Hj. unfold transpose_actions. fold (n_actions actions).
  rewrite (nth_indep _ [] (map (fun a0 => nth 0 (get a0 actions []) d) agents))
    by (rewrite map_length, seq_length; auto).
  rewrite (map_nth (fun e0 => map (fun a0 => nth e0 (get a0 actions []) d) agents) (seq 0 (n_actions actions)) 0 e).
  rewrite seq_nth by auto. cbn [plus].
  rewrite nth_error_map, Hj. reflexivity.
Qed.

(* ------------------------------------------------------------------ what a worker writes is well-formed *)
Lemma imap_lengths {A} (g : nat -> A -> list Z) (size : A -> nat) :
  (forall m x, length (g m x) = size x) -> forall l i, map (@length Z) (imap g i l) = map size l.
Proof. intros H. induction l as [|x l IH]; intros i; cbn [imap map]; [reflexivity|]. rewrite H, IH. reflexivity. Qed.

Lemma placeholder_ok k : obs_ok (mshapes k) (placeholder_obs k).
Proof. unfold obs_ok, placeholder_obs. apply imap_lengths. intros m sh. apply repeat_length. Qed.

Lemma fill_obs_wf k agents (o : dict obs_t) :
  (forall a ob, lookup a o = Some ob -> obs_ok (mshapes k) ob) ->
  wf_obs k agents (fill agents (placeholder_obs k) o).
Proof.
  intros H a Ha. rewrite (fill_lookup agents _ o a Ha). eexists; split; [reflexivity|].
  destruct (lookup a o) eqn:E; [eauto | apply placeholder_ok].
Qed.

Lemma fill_info_wf agents (inf : dict info_t) :
  NoDup agents -> (forall a d, lookup a inf = Some d -> NoDup (keys d)) -> info_wf (fill agents [] inf).
Proof.
  intros Hnd H. split.
  - rewrite fill_keys. exact Hnd.
  - intros a d Hl. destruct (in_dec Nat.eq_dec a agents) as [Ha|Ha].
    + rewrite (fill_lookup agents _ inf a Ha) in Hl. injection Hl as <-.
      destruct (lookup a inf) eqn:E; [eauto | constructor].
    + rewrite (fill_lookup_out agents _ inf a Ha) in Hl. discriminate.
Qed.

Definition row_spec (n : nat) (k : okind) (agents : list nat) (m mf : shm) (i0 len : nat)
           (written : nat -> option (dict obs_t)) : Prop :=
  forall a i, In a agents -> i < n ->
    row_of n k mf a i = if (i0 <=? i) && (i <? i0 + len)
                        then match written (i - i0) with Some o => get a o [] | None => [] end
                        else row_of n k m a i.

(* ------------------------------------------------------------------ one vectorised step *)
(* position i of the result of vec_env.step agrees with the transition w *)
Definition agrees_at (k : okind) (agents : list nat) (i : nat) (out : vout) (w : trans) : Prop :=
  forall a, In a agents ->
    obs_row i k (get a (vobs out) []) = get a (tobs w) [] /\
    nth_error (get a (vrew out) []) i = Some (get a (trew w) 0%Z) /\
    nth_error (get a (vterm out) []) i = Some (get a (tterm w) false) /\
    nth_error (get a (vtrunc out) []) i = Some (get a (ttrunc w) false) /\
    (forall key, info_at (vinfos out) a key i = info_in (tinfo w) a key) /\
    mask_at (vinfos out) a i = has_agent (tinfo w) a.

Definition actions_ok {X} (n : nat) (actions : dict (list X)) : Prop := n_actions actions = n.
Definition wf_vstate {state} (n : nat) (k : okind) (agents : list nat) (st : gvstate state) : Prop :=
  length (vstates st) = n /\ wf_mem n k agents (vmem st).
Definition seed_of (seed : option Z) (i : nat) : option Z := option_map (fun z => (z + Z.of_nat i)%Z) seed.
(* the code's assert len(seed) == num_envs (always true for None / an int) *)
Definition seed_ok (n : nat) (sd : seedspec) : Prop := length (expand_seed n sd) = n.
(* the arguments worker i receives *)
Definition rarg_at (n : nat) (sd : seedspec) (opt : option Z) (i : nat) : rarg := nth i (reset_args n sd opt) no_rarg.

Lemma seed_ok_none n : seed_ok n SNone.
Proof. apply repeat_length. Qed.
Lemma seed_ok_int n z : seed_ok n (SInt z).
Proof. unfold seed_ok, expand_seed. rewrite map_length. apply seq_length. Qed.
Lemma seed_ok_list l : seed_ok (length l) (SList l).
Proof. unfold seed_ok, expand_seed. apply map_length. Qed.

(* reset(seed=z): worker i gets seed z + i; reset(): every worker gets None; a list: its i-th entry *)
Lemma rarg_at_int n z opt i : i < n -> rarg_at n (SInt z) opt i = (Some (z + Z.of_nat i)%Z, opt).
Proof.
  intros Hi. unfold rarg_at, reset_args, expand_seed. rewrite map_map.
  apply nth_error_nth. rewrite nth_error_map.
  rewrite (nth_error_nth' (seq 0 n) 0) by (rewrite seq_length; exact Hi).
  rewrite seq_nth by exact Hi. reflexivity.
Qed.
Lemma rarg_at_none n opt i : i < n -> rarg_at n SNone opt i = (None, opt).
Proof.
  intros Hi. unfold rarg_at, reset_args, expand_seed.
  apply nth_error_nth. rewrite nth_error_map.
  rewrite (nth_error_nth' (repeat (@None Z) n) None) by (rewrite repeat_length; exact Hi).
  destruct (nth_in_or_default i (repeat (@None Z) n) None) as [H|H]; [apply repeat_spec in H|]; rewrite H; reflexivity.
Qed.
Lemma rarg_at_list l opt i z : nth_error l i = Some z -> rarg_at (length l) (SList l) opt i = (Some z, opt).
Proof.
  intros H. unfold rarg_at, reset_args, expand_seed. rewrite map_map.
  apply nth_error_nth. rewrite nth_error_map, H. reflexivity.
Qed.

Lemma gather_nth {X} agents (sel : trans -> dict X) d outs a i w :
  In a agents -> nth_error outs i = Some w ->
  nth_error (get a (gather agents sel d outs) []) i = Some (get a (sel w) d).
Proof.
  intros Ha Hw. unfold gather, get at 1.
  rewrite (lookup_map_In (fun a => map (fun o => get a (sel o) d) outs) agents a Ha).
  rewrite nth_error_map, Hw. reflexivity.
Qed.

(* what "process_transition k agents ref" holds: the reference's value for the agents it returned,
   the placeholder for agents that have left *)
Theorem fill_spec_lemma k agents ref a :
  In a agents ->
  get a (tobs (process_transition k agents ref)) [] = get a (tobs ref) (placeholder_obs k) /\
  get a (trew (process_transition k agents ref)) 0%Z = get a (trew ref) 0%Z /\
  get a (tterm (process_transition k agents ref)) false = get a (tterm ref) true /\
  get a (ttrunc (process_transition k agents ref)) false = get a (ttrunc ref) false /\
  (forall key, info_in (tinfo (process_transition k agents ref)) a key = info_in (tinfo ref) a key) /\
  has_agent (tinfo (process_transition k agents ref)) a = true.
Proof.
  intros Ha. unfold process_transition, get, info_in, has_agent. cbn [tobs trew tterm ttrunc tinfo].
  rewrite !(fill_lookup agents _ _ a Ha). repeat split; auto.
  intros key. destruct (lookup a (tinfo ref)); reflexivity.
Qed.


(* ================================================================== generic in the worker =========== *)
Section ParentProofs.
Context {env state : Type}.
Variable wstep : env -> list nat -> state -> list Z -> state * trans.
Variable wreset : env -> list nat -> state -> rarg -> state * (dict obs_t * dict info_t).
Variable ekind : env -> okind.
Variable s_init : state.
(* what the parent relies on: a worker writes an observation for every agent, of the declared sizes,
   and sends info dicts (Python dicts: no duplicate keys) *)
Hypothesis W_obs : forall E agents s a, wf_obs (ekind E) agents (tobs (snd (wstep E agents s a))).
Hypothesis W_info : forall E agents s a, NoDup agents -> info_wf (tinfo (snd (wstep E agents s a))).
Hypothesis R_obs : forall E agents s seed, wf_obs (ekind E) agents (fst (snd (wreset E agents s seed))).
Hypothesis R_info : forall E agents s seed, NoDup agents -> info_wf (snd (snd (wreset E agents s seed))).

Lemma g_workers_step_spec agents k n : forall Es i0 ss acts m rs ro mf,
  Forall (fun E => ekind E = k) Es -> length ss = length Es -> length acts = length Es ->
  i0 + length Es <= n -> wf_mem n k agents m ->
  g_workers_step wstep ekind agents i0 Es ss acts m = (rs, ro, mf) ->
  wf_mem n k agents mf /\ length rs = length Es /\ length ro = length Es /\
  (forall j E s a, nth_error Es j = Some E -> nth_error ss j = Some s -> nth_error acts j = Some a ->
     nth_error rs j = Some (fst (wstep E agents s a)) /\
     nth_error ro j = Some (snd (wstep E agents s a))) /\
  row_spec n k agents m mf i0 (length Es) (fun j => option_map tobs (nth_error ro j)).
Proof.
  induction Es as [|E Es IH]; intros i0 ss acts m rs ro mf HK Ls La Hn Hm Hw.
  - destruct ss; [|discriminate]. cbn in Hw. injection Hw as <- <- <-.
    split; [auto|]. split; [auto|]. split; [auto|]. split.
    + intros j E s a H. destruct j; discriminate.
    + intros a i Ha Hi. cbn [length]. replace (i0 + 0) with i0 by lia.
      destruct (Nat.leb_spec i0 i), (Nat.ltb_spec i i0); cbn; auto; lia.
  - destruct ss as [|s ss]; [discriminate|]. destruct acts as [|a0 acts]; [discriminate|].
    cbn [g_workers_step] in Hw.
    destruct (wstep E agents s a0) as [s' out] eqn:Ew.
    destruct (g_workers_step wstep ekind agents (S i0) Es ss acts (write_shm i0 (ekind E) (tobs out) m)) as [[rs' ro'] mf'] eqn:Er.
    injection Hw as <- <- <-.
    inversion HK as [|? ? HkE HK']; subst.
    assert (Hout : wf_obs (ekind E) agents (tobs out)).
    { pose proof (W_obs E agents s a0) as H. rewrite Ew in H. exact H. }
    assert (Hm' : wf_mem n (ekind E) agents (write_shm i0 (ekind E) (tobs out) m)).
    { apply write_shm_wf; auto. cbn in Hn. lia. }
    cbn [length] in *.
    destruct (IH (S i0) ss acts _ rs' ro' mf' HK' ltac:(lia) ltac:(lia) ltac:(lia) Hm' Er)
      as (Wf & L1 & L2 & Hnth & Hrows).
    split; [auto|]. split; [lia|]. split; [lia|]. split.
    + intros j E0 s0 a H H0 H1. destruct j as [|j]; cbn [nth_error] in *.
      * injection H as <-. injection H0 as <-. injection H1 as <-. rewrite Ew. auto.
      * apply (Hnth j E0 s0 a); auto.
    + intros a i Ha Hi.
      rewrite (Hrows a i Ha Hi).
      rewrite (shm_write_read_lemma i0 i n (ekind E) agents (tobs out) m a); auto; try lia.
      destruct (Nat.leb_spec (S i0) i); destruct (Nat.ltb_spec i (S i0 + length Es)); cbn [andb].
      * destruct (Nat.leb_spec i0 i); [|lia]. destruct (Nat.ltb_spec i (i0 + S (length Es))); [|lia]. cbn [andb].
        replace (i - i0) with (S (i - S i0)) by lia. reflexivity.
      * destruct (Nat.ltb_spec i (i0 + S (length Es))); [lia|]. rewrite andb_false_r.
        destruct (Nat.eqb_spec i i0); [lia|]. reflexivity.
      * destruct (Nat.eqb_spec i i0) as [->|Hne].
        -- destruct (Nat.leb_spec i0 i0); [|lia]. destruct (Nat.ltb_spec i0 (i0 + S (length Es))); [|lia].
           cbn [andb]. rewrite Nat.sub_diag. reflexivity.
        -- destruct (Nat.leb_spec i0 i); [lia|]. reflexivity.
      * lia.
Qed.

Lemma g_vec_step_refines k agents Es st actions i E s :
  NoDup agents -> Forall (fun E => ekind E = k) Es -> wf_vstate (length Es) k agents st -> actions_ok (length Es) actions ->
  nth_error Es i = Some E -> nth_error (vstates st) i = Some s ->
  let acts_i := nth i (transpose_actions agents actions 0%Z) [] in
  wf_vstate (length Es) k agents (fst (g_vec_step wstep ekind k agents Es st actions)) /\
  nth_error (vstates (fst (g_vec_step wstep ekind k agents Es st actions))) i = Some (fst (wstep E agents s acts_i)) /\
  agrees_at k agents i (snd (g_vec_step wstep ekind k agents Es st actions)) (snd (wstep E agents s acts_i)).
Proof.
  intros Hnd HK [Ls Hm] Ha HE Hs acts_i. unfold g_vec_step.
  destruct (g_workers_step wstep ekind agents 0 Es (vstates st) (transpose_actions agents actions 0%Z) (vmem st))
    as [[rs ro] mf] eqn:Ew.
  assert (Lt : length (transpose_actions agents actions 0%Z) = length Es) by (rewrite transpose_length; exact Ha).
  destruct (g_workers_step_spec agents k (length Es) Es 0 _ _ _ rs ro mf HK Ls Lt (le_n _) Hm Ew)
    as (Wf & L1 & L2 & Hnth & Hrows).
  assert (Hi : i < length Es) by (apply nth_error_Some; congruence).
  assert (Hacts : nth_error (transpose_actions agents actions 0%Z) i = Some acts_i).
  { apply nth_error_nth'. lia. }
  destruct (Hnth i E s acts_i HE Hs Hacts) as [H1 H2].
  cbn [fst snd vstates vmem]. split; [split; auto|]. split; [exact H1|].
  assert (Hwf : Forall info_wf (map tinfo ro)).
  { apply Forall_forall. intros x Hin. apply in_map_iff in Hin as (w & <- & Hw).
    apply In_nth_error in Hw as [j Hj].
    assert (Hjl : j < length Es) by (rewrite <- L2; apply nth_error_Some; congruence).
    destruct (nth_error Es j) as [Ej|] eqn:E1; [|apply nth_error_None in E1; lia].
    destruct (nth_error (vstates st) j) as [sj|] eqn:E2; [|apply nth_error_None in E2; lia].
    destruct (nth_error (transpose_actions agents actions 0%Z) j) as [aj|] eqn:E3; [|apply nth_error_None in E3; lia].
    destruct (Hnth j Ej sj aj E1 E2 E3) as [_ Hq]. rewrite Hj in Hq. injection Hq as ->.
    apply W_info; auto. }
  assert (Hinf : nth_error (map tinfo ro) i = Some (tinfo (snd (wstep E agents s acts_i)))).
  { rewrite nth_error_map, H2. reflexivity. }
  assert (Hlen : length (map tinfo ro) <= length Es) by (rewrite map_length; lia).
  intros a Hain. cbn [vobs vrew vterm vtrunc vinfos].
  split; [|split; [|split; [|split; [|split]]]].
  6:{ apply (gather_info_spec_lemma (length Es) (map tinfo ro) a 0 i _ Hlen Hwf Hinf). }
  5:{ intros key. apply (gather_info_spec_lemma (length Es) (map tinfo ro) a key i _ Hlen Hwf Hinf). }
  - pose proof (Hrows a i Hain Hi) as Hr. unfold row_of in Hr. rewrite Hr.
    destruct (Nat.leb_spec 0 i); [|lia]. destruct (Nat.ltb_spec i (0 + length Es)); [|lia]. cbn [andb].
    rewrite Nat.sub_0_r, H2. reflexivity.
  - apply gather_nth; auto.
  - apply gather_nth; auto.
  - apply gather_nth; auto.
Qed.

Lemma g_workers_reset_spec agents k n : forall Es i0 ss ras m rs ri mf,
  Forall (fun E => ekind E = k) Es -> length ss = length Es -> length ras = length Es ->
  i0 + length Es <= n -> wf_mem n k agents m ->
  g_workers_reset wreset ekind agents i0 Es ss ras m = (rs, ri, mf) ->
  wf_mem n k agents mf /\ length rs = length Es /\ length ri = length Es /\
  (forall j E s ra, nth_error Es j = Some E -> nth_error ss j = Some s -> nth_error ras j = Some ra ->
     nth_error rs j = Some (fst (wreset E agents s ra)) /\
     nth_error ri j = Some (snd (snd (wreset E agents s ra)))) /\
  row_spec n k agents m mf i0 (length Es)
    (fun j => match nth_error Es j, nth_error ss j, nth_error ras j with
              | Some E, Some s, Some ra => Some (fst (snd (wreset E agents s ra)))
              | _, _, _ => None end).
Proof.
  induction Es as [|E Es IH]; intros i0 ss ras m rs ri mf HK Ls La Hn Hm Hw.
  - destruct ss; [|discriminate]. cbn in Hw. injection Hw as <- <- <-.
    split; [auto|]. split; [auto|]. split; [auto|]. split.
    + intros j E s ra H. destruct j; discriminate.
    + intros a i Ha Hi. cbn [length]. replace (i0 + 0) with i0 by lia.
      destruct (Nat.leb_spec i0 i), (Nat.ltb_spec i i0); cbn; auto; lia.
  - destruct ss as [|s ss]; [discriminate|]. destruct ras as [|ra0 ras]; [discriminate|].
    cbn [g_workers_reset] in Hw.
    destruct (wreset E agents s ra0) as [s' [o inf]] eqn:Ew.
    destruct (g_workers_reset wreset ekind agents (S i0) Es ss ras (write_shm i0 (ekind E) o m)) as [[rs' ri'] mf'] eqn:Er.
    injection Hw as <- <- <-.
    inversion HK as [|? ? HkE HK']; subst.
    assert (Hout : wf_obs (ekind E) agents o).
    { pose proof (R_obs E agents s ra0) as H. rewrite Ew in H. exact H. }
    assert (Hm' : wf_mem n (ekind E) agents (write_shm i0 (ekind E) o m)).
    { apply write_shm_wf; auto. cbn in Hn. lia. }
    cbn [length] in *.
    destruct (IH (S i0) ss ras _ rs' ri' mf' HK' ltac:(lia) ltac:(lia) ltac:(lia) Hm' Er)
      as (Wf & L1 & L2 & Hnth & Hrows).
    split; [auto|]. split; [lia|]. split; [lia|]. split.
    + intros j E0 s0 ra H H0 H1. destruct j as [|j]; cbn [nth_error] in *.
      * injection H as <-. injection H0 as <-. injection H1 as <-. rewrite Ew. auto.
      * apply (Hnth j E0 s0 ra); auto.
    + intros a i Ha Hi.
      rewrite (Hrows a i Ha Hi).
      rewrite (shm_write_read_lemma i0 i n (ekind E) agents o m a); auto; try lia.
      destruct (Nat.leb_spec (S i0) i); destruct (Nat.ltb_spec i (S i0 + length Es)); cbn [andb].
      * destruct (Nat.leb_spec i0 i); [|lia]. destruct (Nat.ltb_spec i (i0 + S (length Es))); [|lia]. cbn [andb].
        replace (i - i0) with (S (i - S i0)) by lia. reflexivity.
      * destruct (Nat.ltb_spec i (i0 + S (length Es))); [lia|]. rewrite andb_false_r.
        destruct (Nat.eqb_spec i i0); [lia|]. reflexivity.
      * destruct (Nat.eqb_spec i i0) as [->|Hne].
        -- destruct (Nat.leb_spec i0 i0); [|lia]. destruct (Nat.ltb_spec i0 (i0 + S (length Es))); [|lia].
           cbn [andb]. rewrite Nat.sub_diag. cbn [nth_error]. rewrite Ew. reflexivity.
        -- destruct (Nat.leb_spec i0 i); [lia|]. reflexivity.
      * lia.
Qed.

Theorem g_vec_reset_refines k agents Es st sd opt i E s :
  NoDup agents -> Forall (fun E => ekind E = k) Es -> wf_vstate (length Es) k agents st ->
  seed_ok (length Es) sd ->
  nth_error Es i = Some E -> nth_error (vstates st) i = Some s ->
  let r := g_vec_reset wreset ekind k agents Es st sd opt in
  let w := wreset E agents s (rarg_at (length Es) sd opt i) in
  wf_vstate (length Es) k agents (fst r) /\
  nth_error (vstates (fst r)) i = Some (fst w) /\
  forall a, In a agents ->
    obs_row i k (get a (fst (snd r)) []) = get a (fst (snd w)) [] /\
    (forall key, info_at (snd (snd r)) a key i = info_in (snd (snd w)) a key) /\
    mask_at (snd (snd r)) a i = has_agent (snd (snd w)) a.
Proof.
  intros Hnd HK [Ls Hm] Hsd HE Hs. cbn zeta. unfold g_vec_reset.
  assert (Lr : length (reset_args (length Es) sd opt) = length Es).
  { unfold reset_args. rewrite map_length. exact Hsd. }
  destruct (g_workers_reset wreset ekind agents 0 Es (vstates st) (reset_args (length Es) sd opt) (vmem st))
    as [[rs ri] mf] eqn:Ew.
  destruct (g_workers_reset_spec agents k (length Es) Es 0 _ _ _ rs ri mf HK Ls Lr (le_n _) Hm Ew)
    as (Wf & L1 & L2 & Hnth & Hrows).
  assert (Hi : i < length Es) by (apply nth_error_Some; congruence).
  assert (Hra : nth_error (reset_args (length Es) sd opt) i = Some (rarg_at (length Es) sd opt i)).
  { unfold rarg_at. apply nth_error_nth'. lia. }
  destruct (Hnth i E s _ HE Hs Hra) as [H1 H2].
  cbn [fst snd vstates vmem]. split; [split; auto|]. split; [exact H1|].
  assert (Hwf : Forall info_wf ri).
  { apply Forall_forall. intros x Hin. apply In_nth_error in Hin as [j Hj].
    assert (Hjl : j < length Es) by (rewrite <- L2; apply nth_error_Some; congruence).
    destruct (nth_error Es j) as [Ej|] eqn:E1; [|apply nth_error_None in E1; lia].
    destruct (nth_error (vstates st) j) as [sj|] eqn:E2; [|apply nth_error_None in E2; lia].
    destruct (nth_error (reset_args (length Es) sd opt) j) as [rj|] eqn:E3; [|apply nth_error_None in E3; lia].
    destruct (Hnth j Ej sj rj E1 E2 E3) as [_ Hq]. rewrite Hj in Hq. injection Hq as ->.
    apply R_info; auto. }
  assert (Hlen : length ri <= length Es) by lia.
  intros a Ha. split; [|split].
  - pose proof (Hrows a i Ha Hi) as Hr. unfold row_of in Hr. rewrite Hr.
    destruct (Nat.leb_spec 0 i); [|lia]. destruct (Nat.ltb_spec i (0 + length Es)); [|lia]. cbn [andb].
    rewrite Nat.sub_0_r, HE, Hs, Hra. reflexivity.
  - intros key. apply (gather_info_spec_lemma (length Es) ri a key i _ Hlen Hwf H2).
  - apply (gather_info_spec_lemma (length Es) ri a 0 i _ Hlen Hwf H2).
Qed.

Lemma g_vec_init_wf k agents (Es : list env) : wf_vstate (length Es) k agents (g_vec_init s_init k agents Es).
Proof.
  unfold g_vec_init, wf_vstate. cbn. split; [apply map_length | apply create_shared_memory_wf].
Qed.
End ParentProofs.
