(* C12 — the vectorised info dictionary (_add_info): position i of every value array, read through
   its mask, is the info of environment i. *)
From Coq Require Import List Arith Bool ZArith Lia.
Import ListNotations.
From AgileV Require Import Base.Prelude C12.Model C12.Proofs.

Section SetLookup.
Context {X : Type}.
Lemma lookup_set_same a (x : X) d : lookup a (set a x d) = Some x.
Proof.
  induction d as [|[b y] d IH]; cbn.
  - rewrite Nat.eqb_refl. reflexivity.
  - destruct (Nat.eqb_spec a b) as [->|Hn]; cbn.
    + rewrite Nat.eqb_refl. reflexivity.
    + destruct (Nat.eqb_spec a b); [contradiction|]. exact IH.
Qed.
Lemma lookup_set_other a b (x : X) d : b <> a -> lookup b (set a x d) = lookup b d.
Proof.
  intros Hne. induction d as [|[c y] d IH]; cbn.
  - destruct (Nat.eqb_spec b a); [contradiction|]. reflexivity.
  - destruct (Nat.eqb_spec a c) as [->|Hn]; cbn.
    + destruct (Nat.eqb_spec b c); [contradiction|]. reflexivity.
    + destruct (Nat.eqb_spec b c); auto.
Qed.
Lemma lookup_set a b (x : X) d : lookup b (set a x d) = if Nat.eqb b a then Some x else lookup b d.
Proof.
  destruct (Nat.eqb_spec b a) as [->|Hne]; [apply lookup_set_same | apply lookup_set_other; auto].
Qed.
End SetLookup.

(* a (values, mask) pair read at position i *)
Notation cell := (list Z * list bool)%type.
Definition cell_at (c : cell) (i : nat) : option Z := if nth i (snd c) false then Some (nth i (fst c) 0%Z) else None.
Definition cell_ok (n : nat) (c : cell) : Prop := length (fst c) = n /\ length (snd c) = n.
Definition empty_cell (n : nat) : cell := (repeat 0%Z n, repeat false n).

Lemma empty_cell_ok n : cell_ok n (empty_cell n).
Proof. split; apply repeat_length. Qed.
Lemma empty_cell_at n i : cell_at (empty_cell n) i = None.
Proof.
  unfold cell_at, empty_cell. cbn [fst snd].
  destruct (nth i (repeat false n) false) eqn:E; auto.
  exfalso. destruct (Nat.lt_ge_cases i n) as [Hl|Hl].
  - pose proof (nth_In (repeat false n) false ltac:(rewrite repeat_length; exact Hl)) as Hin.
    rewrite E in Hin. apply repeat_spec in Hin. discriminate.
  - rewrite nth_overflow in E by (rewrite repeat_length; lia). discriminate.
Qed.

Lemma cell_update n env v (c : cell) i :
  env < n -> cell_ok n c ->
  cell_at (update env v (fst c), update env true (snd c)) i = if Nat.eqb i env then Some v else cell_at c i.
Proof.
  intros He [L1 L2]. unfold cell_at. cbn [fst snd]. rewrite !nth_update, L1, L2.
  destruct (Nat.ltb_spec env n); [|lia]. rewrite !andb_true_r.
  destruct (Nat.eqb i env); reflexivity.
Qed.
Lemma cell_update_ok n env v (c : cell) : cell_ok n c -> cell_ok n (update env v (fst c), update env true (snd c)).
Proof. intros [L1 L2]. split; cbn; rewrite update_length; auto. Qed.

(* ---- one agent's sub-dictionary ---- *)
Definition sub_ok (n : nat) (sub : dict cell) : Prop := forall key c, lookup key sub = Some c -> cell_ok n c.
Definition key_at (sub : dict cell) (key i : nat) : option Z :=
  match lookup key sub with Some c => cell_at c i | None => None end.

Lemma get_cell_ok n sub key : sub_ok n sub -> cell_ok n (get key sub (empty_cell n)).
Proof. intros H. unfold get. destruct (lookup key sub) eqn:E; [eauto | apply empty_cell_ok]. Qed.
Lemma get_cell_at n sub key i : cell_at (get key sub (empty_cell n)) i = key_at sub key i.
Proof. unfold get, key_at. destruct (lookup key sub); auto. apply empty_cell_at. Qed.

Lemma add_info_agent_spec n env : forall (d : info_t) sub,
  env < n -> sub_ok n sub -> NoDup (keys d) ->
  sub_ok n (add_info_agent n env sub d) /\
  forall key i, key_at (add_info_agent n env sub d) key i =
                if Nat.eqb i env then match lookup key d with Some v => Some v | None => key_at sub key i end
                else key_at sub key i.
Proof.
  unfold add_info_agent.
  induction d as [|[k v] d IH]; intros sub He Hs Hnd.
  - cbn. split; auto. intros key i. destruct (Nat.eqb i env); reflexivity.
  - cbn [fold_left fst snd]. fold (empty_cell n).
    pose proof (get_cell_ok n sub k Hs) as Hc.
    destruct (get k sub (empty_cell n)) as [arr mask] eqn:Eg. cbv beta iota.
    set (sub' := set k (update env v arr, update env true mask) sub).
    assert (Hs' : sub_ok n sub').
    { intros key c. unfold sub'. rewrite lookup_set. destruct (Nat.eqb key k).
      - intros [= <-]. apply (cell_update_ok n env v (arr, mask)); auto.
      - apply Hs. }
    inversion Hnd as [|? ? Hnin Hnd']; subst.
    destruct (IH sub' He Hs' Hnd') as [I1 I2]. split; [exact I1|].
    intros key i. rewrite I2. cbn [lookup].
    assert (Hk' : forall i, key_at sub' k i = if Nat.eqb i env then Some v else key_at sub k i).
    { intros i'. unfold key_at at 1, sub'. rewrite lookup_set_same.
      pose proof (cell_update n env v (arr, mask) i' He Hc) as Hcu. cbn [fst snd] in Hcu. rewrite Hcu.
      rewrite <- (get_cell_at n sub k i'), Eg. reflexivity. }
    destruct (Nat.eqb_spec key k) as [->|Hne].
    + assert (lookup k d = None) as ->.
      { destruct (lookup k d) eqn:El; auto. exfalso. apply Hnin.
        clear - El. induction d as [|[b y] d IHd]; cbn in *; [discriminate|].
        destruct (Nat.eqb_spec k b); [left; auto | right; auto]. }
      rewrite Hk'. destruct (Nat.eqb i env); reflexivity.
    + assert (Hsame : key_at sub' key i = key_at sub key i).
      { unfold key_at, sub'. rewrite lookup_set_other by auto. reflexivity. }
      rewrite Hsame. reflexivity.
Qed.

(* ---- the whole vectorised info ---- *)
Definition vi_ok (n : nat) (vi : vinfo) : Prop :=
  (forall a sub, lookup a (fst vi) = Some sub -> sub_ok n sub) /\
  (forall a mk, lookup a (snd vi) = Some mk -> length mk = n).
Definition info_at (vi : vinfo) (a key i : nat) : option Z :=
  match lookup a (fst vi) with Some sub => key_at sub key i | None => None end.
Definition mask_at (vi : vinfo) (a i : nat) : bool := nth i (get a (snd vi) []) false.
Definition info_in (info : dict info_t) (a key : nat) : option Z :=
  match lookup a info with Some d => lookup key d | None => None end.
Definition has_agent (info : dict info_t) (a : nat) : bool :=
  match lookup a info with Some _ => true | None => false end.
Definition info_wf (info : dict info_t) : Prop :=
  NoDup (keys info) /\ forall a d, lookup a info = Some d -> NoDup (keys d).

Lemma lookup_notin {X} (d : dict X) a : ~ In a (keys d) -> lookup a d = None.
Proof.
  intros H. destruct (lookup a d) eqn:E; auto. exfalso. apply H.
  clear - E. induction d as [|[b y] d IH]; cbn in *; [discriminate|].
  destruct (Nat.eqb_spec a b); [left; auto | right; auto].
Qed.

Lemma key_at_nil key i : key_at [] key i = None.
Proof. reflexivity. Qed.

Lemma nth_repeat_false n i : nth i (repeat false n) false = false.
Proof.
  destruct (Nat.lt_ge_cases i n) as [Hl|Hl].
  - pose proof (nth_In (repeat false n) false ltac:(rewrite repeat_length; exact Hl)) as Hin.
    apply repeat_spec in Hin. exact Hin.
  - apply nth_overflow. rewrite repeat_length. lia.
Qed.

Lemma add_info_spec n env : forall (info : dict info_t) vi,
  env < n -> vi_ok n vi -> NoDup (keys info) -> (forall a d, In (a, d) info -> NoDup (keys d)) ->
  vi_ok n (add_info n vi info env) /\
  (forall a key i, info_at (add_info n vi info env) a key i =
                   if Nat.eqb i env then match info_in info a key with Some v => Some v | None => info_at vi a key i end
                   else info_at vi a key i) /\
  (forall a i, mask_at (add_info n vi info env) a i =
               if Nat.eqb i env then has_agent info a || mask_at vi a i else mask_at vi a i).
Proof.
  unfold add_info.
  induction info as [|[b d] info IH]; intros vi He Hv Hnd Hds.
  - cbn. split; auto. split; intros; destruct (Nat.eqb i env); reflexivity.
  - cbn [fold_left].
    set (vi' := (set b (add_info_agent n env (get b (fst vi) []) d) (fst vi),
                 set b (update env true (get b (snd vi) (repeat false n))) (snd vi))).
    assert (Hsub : sub_ok n (get b (fst vi) [])).
    { unfold get. destruct (lookup b (fst vi)) eqn:E; [apply (proj1 Hv b); auto|]. intros key c H. discriminate. }
    assert (Hd : NoDup (keys d)) by (apply (Hds b d); left; auto).
    destruct (add_info_agent_spec n env d _ He Hsub Hd) as [A1 A2].
    assert (Hv' : vi_ok n vi').
    { split; unfold vi'; cbn [fst snd]; intros a x; rewrite lookup_set; destruct (Nat.eqb a b).
      - intros [= <-]. exact A1.
      - apply (proj1 Hv).
      - intros [= <-]. rewrite update_length. unfold get.
        destruct (lookup b (snd vi)) eqn:E; [apply (proj2 Hv b); auto | apply repeat_length].
      - apply (proj2 Hv). }
    inversion Hnd as [|? ? Hnin Hnd']; subst.
    destruct (IH vi' He Hv' Hnd' (fun a d0 H => Hds a d0 (or_intror H))) as (I1 & I2 & I3).
    split; [exact I1|]. split.
    + intros a key i. rewrite I2. unfold info_in. cbn [lookup].
      destruct (Nat.eqb_spec a b) as [->|Hne].
      * rewrite (lookup_notin info b Hnin).
        unfold info_at, vi'. cbn [fst]. rewrite lookup_set_same, A2.
        unfold get. destruct (lookup b (fst vi)); destruct (Nat.eqb i env); reflexivity.
      * unfold info_at, vi'. cbn [fst]. rewrite lookup_set_other by auto. reflexivity.
    + intros a i. rewrite I3. unfold has_agent. cbn [lookup].
      destruct (Nat.eqb_spec a b) as [->|Hne].
      * rewrite (lookup_notin info b Hnin). cbn [orb].
        unfold mask_at, vi'. cbn [snd]. unfold get at 1 3. rewrite lookup_set_same.
        rewrite nth_update.
        assert (Hl : length (get b (snd vi) (repeat false n)) = n).
        { unfold get. destruct (lookup b (snd vi)) eqn:E; [apply (proj2 Hv b); auto | apply repeat_length]. }
        rewrite Hl. destruct (Nat.ltb_spec env n); [|lia]. rewrite andb_true_r.
        destruct (Nat.eqb i env); [reflexivity|].
        unfold get. destruct (lookup b (snd vi)); [reflexivity|].
        rewrite nth_repeat_false. destruct i; reflexivity.
      * unfold mask_at, vi'. cbn [snd]. unfold get. rewrite lookup_set_other by auto. reflexivity.
Qed.

(* gather over the environments in index order *)
Definition gather_from (n : nat) (vi : vinfo) (e : nat) (infos : list (dict info_t)) : vinfo * nat :=
  fold_left (fun acc info => (add_info n (fst acc) info (snd acc), S (snd acc))) infos (vi, e).

Lemma gather_from_spec n : forall infos vi e,
  e + length infos <= n -> vi_ok n vi -> Forall info_wf infos ->
  (forall a key i, info_at (fst (gather_from n vi e infos)) a key i =
     if (e <=? i) && (i <? e + length infos)
     then match info_in (nth (i - e) infos []) a key with Some v => Some v | None => info_at vi a key i end
     else info_at vi a key i) /\
  (forall a i, mask_at (fst (gather_from n vi e infos)) a i =
     if (e <=? i) && (i <? e + length infos)
     then has_agent (nth (i - e) infos []) a || mask_at vi a i else mask_at vi a i).
Proof.
  unfold gather_from.
  induction infos as [|info infos IH]; intros vi e Hn Hv HF.
  - cbn [fold_left fst snd length]. split; intros; replace (e + 0) with e by lia;
      destruct (Nat.leb_spec e i), (Nat.ltb_spec i e); cbn [andb]; auto; lia.
  - cbn [fold_left fst snd length] in *.
    inversion HF as [|? ? [Hw1 Hw2] HF']; subst.
    assert (Hds : forall a d, In (a, d) info -> NoDup (keys d)).
    { intros a d Hin. apply (Hw2 a d).
      clear - Hin Hw1. induction info as [|[b y] info IHi]; cbn in *; [contradiction|].
      inversion Hw1; subst. destruct Hin as [[= -> ->]|Hin].
      - rewrite Nat.eqb_refl. reflexivity.
      - destruct (Nat.eqb_spec a b) as [->|Hne]; [|auto].
        exfalso. apply H1. unfold keys. apply in_map_iff. exists (b, d). auto. }
    destruct (add_info_spec n e info vi ltac:(lia) Hv Hw1 Hds) as (A1 & A2 & A3).
    destruct (IH (add_info n vi info e) (S e) ltac:(lia) A1 HF') as [I1 I2].
    split.
    + intros a key i. rewrite I1, A2.
      destruct (Nat.leb_spec (S e) i); destruct (Nat.ltb_spec i (S e + length infos)); cbn [andb].
      * destruct (Nat.leb_spec e i); [|lia]. destruct (Nat.ltb_spec i (e + S (length infos))); [|lia]. cbn [andb].
        replace (i - e) with (S (i - S e)) by lia. cbn [nth].
        destruct (Nat.eqb_spec i e); [lia|]. reflexivity.
      * destruct (Nat.ltb_spec i (e + S (length infos))); [lia|]. rewrite andb_false_r.
        destruct (Nat.eqb_spec i e); [lia|]. reflexivity.
      * destruct (Nat.eqb_spec i e) as [->|Hne].
        -- destruct (Nat.leb_spec e e); [|lia]. destruct (Nat.ltb_spec e (e + S (length infos))); [|lia].
           cbn [andb]. rewrite Nat.sub_diag. reflexivity.
        -- destruct (Nat.leb_spec e i); [lia|]. reflexivity.
      * lia.
    + intros a i. rewrite I2, A3.
      destruct (Nat.leb_spec (S e) i); destruct (Nat.ltb_spec i (S e + length infos)); cbn [andb].
      * destruct (Nat.leb_spec e i); [|lia]. destruct (Nat.ltb_spec i (e + S (length infos))); [|lia]. cbn [andb].
        replace (i - e) with (S (i - S e)) by lia. cbn [nth].
        destruct (Nat.eqb_spec i e); [lia|]. reflexivity.
      * destruct (Nat.ltb_spec i (e + S (length infos))); [lia|]. rewrite andb_false_r.
        destruct (Nat.eqb_spec i e); [lia|]. reflexivity.
      * destruct (Nat.eqb_spec i e) as [->|Hne].
        -- destruct (Nat.leb_spec e e); [|lia]. destruct (Nat.ltb_spec e (e + S (length infos))); [|lia].
           cbn [andb]. rewrite Nat.sub_diag. reflexivity.
        -- destruct (Nat.leb_spec e i); [lia|]. reflexivity.
      * lia.
Qed.

(* position i of the vectorised infos, read through the masks, is exactly environment i's info *)
Theorem gather_info_spec_lemma n infos a key i info :
  length infos <= n -> Forall info_wf infos -> nth_error infos i = Some info ->
  info_at (gather_info n infos) a key i = info_in info a key /\
  mask_at (gather_info n infos) a i = has_agent info a.
Proof.
  intros Hn HF Hi.
  assert (Hv : vi_ok n ([], [])) by (split; intros ? ? H; discriminate H).
  destruct (gather_from_spec n infos ([], []) 0 ltac:(lia) Hv HF) as [G1 G2].
  assert (Hlt : i < length infos) by (apply nth_error_Some; congruence).
  unfold gather_info. fold (gather_from n ([], []) 0 infos).
  rewrite G1, G2.
  destruct (Nat.leb_spec 0 i); [|lia]. destruct (Nat.ltb_spec i (0 + length infos)); [|lia]. cbn [andb].
  rewrite Nat.sub_0_r. rewrite (nth_error_nth infos i [] Hi).
  split.
  - destruct (info_in info a key); reflexivity.
  - assert (Hm : mask_at ([], []) a i = false) by (unfold mask_at; cbn; destruct i; reflexivity).
    rewrite Hm. apply orb_false_r.
Qed.
