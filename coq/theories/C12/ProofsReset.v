(* C12 — composition: for every environment that meets the interface contract, the vectorised
   session refines N environments run alone; then the scripted family as an instance. *)
From Coq Require Import List Arith Bool ZArith Lia.
Import ListNotations.
From AgileV Require Import Base.Prelude C12.Model C12.Proofs C12.ProofsShm C12.ProofsInfo C12.ProofsVec.

(* ================================================================== generic in the environment ====== *)
Section Generic.
Context {env state : Type}.
Variable e_step : env -> state -> list Z -> state * trans.
Variable e_reset : env -> state -> rarg -> state * (dict obs_t * dict info_t).
Variable e_kind : env -> okind.
Variable e_live : state -> list nat.
Variable s_init : state.
(* the contract of a (PettingZoo parallel) environment, as far as the vector environment relies on it *)
Hypothesis C_done : forall E s acts,
  all_done_keys (snd (e_step E s acts)) = g_no_agent_left e_live (fst (e_step E s acts)).
Hypothesis C_step_obs : forall E s acts a ob,
  lookup a (tobs (snd (e_step E s acts))) = Some ob -> obs_ok (mshapes (e_kind E)) ob.
Hypothesis C_reset_obs : forall E s seed a ob,
  lookup a (fst (snd (e_reset E s seed))) = Some ob -> obs_ok (mshapes (e_kind E)) ob.
Hypothesis C_step_info : forall E s acts a d,
  lookup a (tinfo (snd (e_step E s acts))) = Some d -> NoDup (keys d).
Hypothesis C_reset_info : forall E s seed a d,
  lookup a (snd (snd (e_reset E s seed))) = Some d -> NoDup (keys d).

Notation wstep := (g_worker_step e_step e_reset e_kind).
Notation wreset := (g_worker_reset e_reset e_kind).
Notation sstep := (g_single_step e_step e_reset e_live).

Lemma g_single_obs_ok E s acts a ob :
  lookup a (tobs (snd (sstep E s acts))) = Some ob -> obs_ok (mshapes (e_kind E)) ob.
Proof.
  unfold g_single_step. pose proof (C_step_obs E s acts a ob) as Hr.
  destruct (e_step E s acts) as [s1 tr]. cbn [snd] in Hr.
  destruct (g_no_agent_left e_live s1); auto.
  pose proof (C_reset_obs E s1 no_rarg a ob) as Hq.
  destruct (e_reset E s1 no_rarg) as [s2 [o i]]. cbn [fst snd tobs] in *. auto.
Qed.

Lemma g_single_info_nodup E s acts a d :
  lookup a (tinfo (snd (sstep E s acts))) = Some d -> NoDup (keys d).
Proof.
  unfold g_single_step. pose proof (C_step_info E s acts a d) as Hr.
  destruct (e_step E s acts) as [s1 tr]. cbn [snd] in Hr.
  destruct (g_no_agent_left e_live s1); auto.
  pose proof (C_reset_info E s1 no_rarg a d) as Hq.
  destruct (e_reset E s1 no_rarg) as [s2 [o i]]. cbn [fst snd tinfo] in *. auto.
Qed.

Lemma g_worker_obs_wf E agents s acts : wf_obs (e_kind E) agents (tobs (snd (wstep E agents s acts))).
Proof.
  rewrite (g_worker_refines_single e_step e_reset e_kind e_live C_done). cbn [snd process_transition tobs].
  apply fill_obs_wf. intros a ob. apply g_single_obs_ok.
Qed.

Lemma g_worker_info_wf E agents s acts : NoDup agents -> info_wf (tinfo (snd (wstep E agents s acts))).
Proof.
  intros Hnd. rewrite (g_worker_refines_single e_step e_reset e_kind e_live C_done).
  cbn [snd process_transition tinfo]. apply fill_info_wf; auto. intros a d. apply g_single_info_nodup.
Qed.

Lemma g_worker_reset_obs_wf E agents s seed : wf_obs (e_kind E) agents (fst (snd (wreset E agents s seed))).
Proof.
  unfold g_worker_reset. pose proof (fun a ob => C_reset_obs E s seed a ob) as Hq.
  destruct (e_reset E s seed) as [s' [o i]]. cbn [fst snd] in *. apply fill_obs_wf. auto.
Qed.

Lemma g_worker_reset_info_wf E agents s seed : NoDup agents -> info_wf (snd (snd (wreset E agents s seed))).
Proof.
  intros Hnd. unfold g_worker_reset. pose proof (fun a d => C_reset_info E s seed a d) as Hq.
  destruct (e_reset E s seed) as [s' [o i]]. cbn [fst snd] in *. apply fill_info_wf; auto.
Qed.

(* position i of a vectorised run = environment i run alone, for EVERY environment meeting the contract *)
Theorem g_vec_refines_singles k agents Es : forall actss (st : gvstate state) i E s,
  NoDup agents -> Forall (fun E => e_kind E = k) Es -> wf_vstate (length Es) k agents st ->
  Forall (actions_ok (length Es)) actss ->
  nth_error Es i = Some E -> nth_error (vstates st) i = Some s ->
  let acts_i := map (fun actions => nth i (transpose_actions agents actions 0%Z) []) actss in
  nth_error (vstates (fst (g_vec_run wstep e_kind k agents Es st actss))) i
    = Some (fst (g_run sstep E s acts_i)) /\
  Forall2 (fun out ref => agrees_at k agents i out (process_transition k agents ref))
          (snd (g_vec_run wstep e_kind k agents Es st actss)) (snd (g_run sstep E s acts_i)).
Proof.
  induction actss as [|actions rest IH]; intros st i E s Hnd HK Hst HF HE Hs; cbn zeta.
  - cbn. split; auto.
  - inversion HF as [|? ? Ha HF']; subst. cbn [g_vec_run g_run map].
    destruct (g_vec_step_refines wstep e_kind g_worker_obs_wf g_worker_info_wf
                k agents Es st actions i E s Hnd HK Hst Ha HE Hs) as (Wf & H1 & H2).
    cbn zeta in H1, H2.
    destruct (g_vec_step wstep e_kind k agents Es st actions) as [st' out]. cbn [fst snd] in *.
    rewrite (g_worker_refines_single e_step e_reset e_kind e_live C_done) in H1, H2. cbn [fst snd] in H1, H2.
    destruct (sstep E s (nth i (transpose_actions agents actions 0%Z) [])) as [s' ref] eqn:Es1.
    cbn [fst snd] in H1, H2.
    specialize (IH st' i E s' Hnd HK Wf HF' HE H1). cbn zeta in IH.
    destruct (g_vec_run wstep e_kind k agents Es st' rest) as [stf outs].
    destruct (g_run sstep E s' (map (fun actions0 => nth i (transpose_actions agents actions0 0%Z) []) rest))
      as [sf refs].
    cbn [fst snd] in *. destruct IH as [I1 I2]. split; auto.
    constructor; auto.
    assert (Hk : e_kind E = k).
    { rewrite Forall_forall in HK. apply HK. eapply nth_error_In; eauto. }
    rewrite <- Hk at 2. exact H2.
Qed.

(* vec_env.reset(seed, options): sub-environment i is reset alone with its own seed (seed + i for an int,
   the i-th entry for a list, None otherwise) and the caller's options *)
Theorem g_vec_reset_refines_env k agents Es (st : gvstate state) sd opt i E s :
  NoDup agents -> Forall (fun E => e_kind E = k) Es -> wf_vstate (length Es) k agents st ->
  seed_ok (length Es) sd ->
  nth_error Es i = Some E -> nth_error (vstates st) i = Some s ->
  let r := g_vec_reset wreset e_kind k agents Es st sd opt in
  let w := wreset E agents s (rarg_at (length Es) sd opt i) in
  wf_vstate (length Es) k agents (fst r) /\
  nth_error (vstates (fst r)) i = Some (fst w) /\
  forall a, In a agents ->
    obs_row i k (get a (fst (snd r)) []) = get a (fst (snd w)) [] /\
    (forall key, info_at (snd (snd r)) a key i = info_in (snd (snd w)) a key) /\
    mask_at (snd (snd r)) a i = has_agent (snd (snd w)) a.
Proof. apply (g_vec_reset_refines wreset e_kind g_worker_reset_obs_wf g_worker_reset_info_wf). Qed.

(* a whole session: construct, reset(seed, options), then any sequence of action batches *)
Theorem g_vec_session_refines k agents Es sd opt actss i E :
  NoDup agents -> Forall (fun E => e_kind E = k) Es -> Forall (actions_ok (length Es)) actss ->
  seed_ok (length Es) sd -> nth_error Es i = Some E ->
  let st0 := fst (g_vec_reset wreset e_kind k agents Es (g_vec_init s_init k agents Es) sd opt) in
  let s0 := fst (e_reset E s_init (rarg_at (length Es) sd opt i)) in
  let acts_i := map (fun actions => nth i (transpose_actions agents actions 0%Z) []) actss in
  nth_error (vstates (fst (g_vec_run wstep e_kind k agents Es st0 actss))) i
    = Some (fst (g_run sstep E s0 acts_i)) /\
  Forall2 (fun out ref => agrees_at k agents i out (process_transition k agents ref))
          (snd (g_vec_run wstep e_kind k agents Es st0 actss)) (snd (g_run sstep E s0 acts_i)).
Proof.
  intros Hnd HK HF Hsd HE. cbn zeta.
  assert (Hs : nth_error (vstates (g_vec_init s_init k agents Es)) i = Some s_init).
  { unfold g_vec_init. cbn [vstates]. rewrite nth_error_map, HE. reflexivity. }
  destruct (g_vec_reset_refines_env k agents Es (g_vec_init s_init k agents Es) sd opt i E s_init Hnd HK
              (g_vec_init_wf s_init k agents Es) Hsd HE Hs) as (Wf & H1 & _).
  cbn zeta in H1.
  assert (Hw : fst (wreset E agents s_init (rarg_at (length Es) sd opt i))
               = fst (e_reset E s_init (rarg_at (length Es) sd opt i))).
  { unfold g_worker_reset. destruct (e_reset E s_init (rarg_at (length Es) sd opt i)) as [s' [o inf]]. reflexivity. }
  rewrite Hw in H1.
  apply (g_vec_refines_singles k agents Es actss _ i E _ Hnd HK Wf HF HE H1).
Qed.
(* ---- any history of step / reset calls ---- *)
Definition event_at (n : nat) (agents : list nat) (i : nat) (ev : vevent) : sevent :=
  match ev with
  | EvStep actions => SeStep (nth i (transpose_actions agents actions 0%Z) [])
  | EvReset sd opt => SeReset (rarg_at n sd opt i)
  end.
Definition event_ok (n : nat) (ev : vevent) : Prop :=
  match ev with EvStep a => actions_ok n a | EvReset sd _ => seed_ok n sd end.
(* position i of what the vector environment returned agrees with what the environment alone returned *)
Definition outcome_agrees (k : okind) (agents : list nat) (i : nat) (vo : voutcome) (so : soutcome) : Prop :=
  match vo, so with
  | OStep out, SoStep ref => agrees_at k agents i out (process_transition k agents ref)
  | OReset r, SoReset w =>
      forall a, In a agents ->
        obs_row i k (get a (fst r) []) = get a (fst w) (placeholder_obs k) /\
        (forall key, info_at (snd r) a key i = info_in (snd w) a key)
  | _, _ => False
  end.

Theorem g_vec_events_refines k agents Es : forall evs (st : gvstate state) i E s,
  NoDup agents -> Forall (fun E => e_kind E = k) Es -> wf_vstate (length Es) k agents st ->
  Forall (event_ok (length Es)) evs ->
  nth_error Es i = Some E -> nth_error (vstates st) i = Some s ->
  let evs_i := map (event_at (length Es) agents i) evs in
  nth_error (vstates (fst (g_vec_events wstep wreset e_kind k agents Es st evs))) i
    = Some (fst (g_events e_step e_reset e_live E s evs_i)) /\
  Forall2 (outcome_agrees k agents i)
          (snd (g_vec_events wstep wreset e_kind k agents Es st evs))
          (snd (g_events e_step e_reset e_live E s evs_i)).
Proof.
  induction evs as [|ev rest IH]; intros st i E s Hnd HK Hst HF HE Hs; cbn zeta.
  - cbn. split; auto.
  - inversion HF as [|? ? Hev HF']; subst.
    assert (Hk : e_kind E = k).
    { rewrite Forall_forall in HK. apply HK. eapply nth_error_In; eauto. }
    destruct ev as [actions|sd opt]; cbn [g_vec_events g_events map event_at].
    + cbn [event_ok] in Hev.
      destruct (g_vec_step_refines wstep e_kind g_worker_obs_wf g_worker_info_wf
                  k agents Es st actions i E s Hnd HK Hst Hev HE Hs) as (Wf & H1 & H2).
      cbn zeta in H1, H2.
      destruct (g_vec_step wstep e_kind k agents Es st actions) as [st' out]. cbn [fst snd] in *.
      rewrite (g_worker_refines_single e_step e_reset e_kind e_live C_done) in H1, H2. cbn [fst snd] in H1, H2.
      destruct (sstep E s (nth i (transpose_actions agents actions 0%Z) [])) as [s' ref] eqn:Es1.
      cbn [fst snd] in H1, H2.
      specialize (IH st' i E s' Hnd HK Wf HF' HE H1). cbn zeta in IH.
      destruct (g_vec_events wstep wreset e_kind k agents Es st' rest) as [stf outs].
      destruct (g_events e_step e_reset e_live E s' (map (event_at (length Es) agents i) rest)) as [sf refs].
      cbn [fst snd] in *. destruct IH as [I1 I2]. split; auto.
      constructor; auto. cbn [outcome_agrees]. rewrite <- Hk at 2. exact H2.
    + cbn [event_ok] in Hev.
      destruct (g_vec_reset_refines_env k agents Es st sd opt i E s Hnd HK Hst Hev HE Hs) as (Wf & H1 & H2).
      cbn zeta in H1, H2.
      destruct (g_vec_reset wreset e_kind k agents Es st sd opt) as [st' r]. cbn [fst snd] in *.
      unfold g_worker_reset in H1, H2.
      destruct (e_reset E s (rarg_at (length Es) sd opt i)) as [s' [o inf]] eqn:Er. cbn [fst snd] in H1, H2.
      specialize (IH st' i E s' Hnd HK Wf HF' HE H1). cbn zeta in IH.
      destruct (g_vec_events wstep wreset e_kind k agents Es st' rest) as [stf outs].
      destruct (g_events e_step e_reset e_live E s' (map (event_at (length Es) agents i) rest)) as [sf refs].
      cbn [fst snd] in *. destruct IH as [I1 I2]. split; auto.
      constructor; auto. cbn [outcome_agrees fst snd]. intros a Ha.
      destruct (H2 a Ha) as (O1 & O2 & _). split.
      * rewrite O1. unfold get. rewrite (fill_lookup agents _ o a Ha), Hk. reflexivity.
      * intros key. rewrite O2. unfold info_in. rewrite (fill_lookup agents _ inf a Ha).
        destruct (lookup a inf); reflexivity.
Qed.
End Generic.

(* ================================================================== the scripted family meets the contract *)
Lemma enc_member_length u m sh f0 f1 f2 f3 : length (enc_member u m sh f0 f1 f2 f3) = msize sh.
Proof.
  unfold enc_member. destruct (Nat.eqb_spec (msize sh) 1) as [->|Hne]; destruct u; cbn [andb negb length];
    try reflexivity; rewrite map_length, seq_length; auto.
Qed.

Lemma encode_ok k f0 f1 f2 f3 : obs_ok (mshapes k) (encode k f0 f1 f2 f3).
Proof. unfold obs_ok, encode. apply imap_lengths. intros m sh. apply enc_member_length. Qed.

Lemma observed_ok E (g : nat -> sstate * Z) L a ob :
  lookup a (map (fun b => (b, observe E (fst (g b)) b (snd (g b)))) L) = Some ob -> obs_ok (mshapes (kind E)) ob.
Proof.
  rewrite (lookup_map_key (fun b => observe E (fst (g b)) b (snd (g b)))).
  destruct (existsb (Nat.eqb a) L); [|discriminate]. intros [= <-]. apply encode_ok.
Qed.

Lemma reset_obs_ok E s seed a ob :
  lookup a (fst (snd (env_reset E s seed))) = Some ob -> obs_ok (mshapes (kind E)) ob.
Proof.
  unfold env_reset. cbn [fst snd live].
  set (s' := {| base := _; ord := _; tm := _; live := _ |}).
  apply (observed_ok E (fun _ => (s', 0%Z))).
Qed.

Lemma raw_obs_ok E s acts a ob :
  lookup a (tobs (snd (raw_step E s acts))) = Some ob -> obs_ok (mshapes (kind E)) ob.
Proof.
  unfold raw_step. cbn [fst snd tobs].
  set (s1 := {| base := _; ord := _; tm := S (tm s); live := live s |}).
  apply (observed_ok E (fun b => (s1, nth b acts 0%Z))).
Qed.

Lemma info_of_nodup s a b : NoDup (keys (info_of s a b)).
Proof. destruct b; cbn; repeat constructor; cbn; intuition discriminate. Qed.

Lemma infos_nodup (g : nat -> sstate * bool) L a d :
  lookup a (map (fun b => (b, info_of (fst (g b)) b (snd (g b)))) L) = Some d -> NoDup (keys d).
Proof.
  rewrite (lookup_map_key (fun b => info_of (fst (g b)) b (snd (g b)))).
  destruct (existsb (Nat.eqb a) L); [|discriminate]. intros [= <-]. apply info_of_nodup.
Qed.

Lemma raw_info_nodup E s acts a d :
  lookup a (tinfo (snd (raw_step E s acts))) = Some d -> NoDup (keys d).
Proof.
  unfold raw_step. cbn [snd tinfo].
  set (s1 := {| base := base s; ord := ord s; tm := S (tm s); live := live s |}).
  apply (infos_nodup (fun _ => (s1, false))).
Qed.

Lemma reset_info_keys s a opt : NoDup (keys (reset_info s a opt)).
Proof. destruct opt; cbn; repeat constructor; cbn; intuition discriminate. Qed.

Lemma reset_info_nodup E s ra a d :
  lookup a (snd (snd (env_reset E s ra))) = Some d -> NoDup (keys d).
Proof.
  unfold env_reset. cbn [fst snd live].
  match goal with |- context[map (fun b => (b, reset_info ?st b ?o)) ?L] =>
    rewrite (lookup_map_key (fun b => reset_info st b o) L a) end.
  match goal with |- context[existsb ?f ?L] => destruct (existsb f L) end; [|discriminate].
  intros [= <-]. apply reset_info_keys.
Qed.

(* ------------------------------------------------------------------ the instance theorems *)
Theorem vec_refines_singles_lemma k agents Es : forall actss (st : vstate) i E s,
  NoDup agents -> Forall (fun E => kind E = k) Es -> wf_vstate (length Es) k agents st ->
  Forall (actions_ok (length Es)) actss ->
  nth_error Es i = Some E -> nth_error (vstates st) i = Some s ->
  let acts_i := map (fun actions => nth i (transpose_actions agents actions 0%Z) []) actss in
  nth_error (vstates (fst (vec_run k agents Es st actss))) i = Some (fst (single_run single_step E s acts_i)) /\
  Forall2 (fun out ref => agrees_at k agents i out (process_transition k agents ref))
          (snd (vec_run k agents Es st actss)) (snd (single_run single_step E s acts_i)).
Proof.
  exact (g_vec_refines_singles raw_step env_reset kind live all_done_keys_spec raw_obs_ok reset_obs_ok
           raw_info_nodup reset_info_nodup k agents Es).
Qed.

Theorem vec_reset_refines_lemma k agents Es (st : vstate) sd opt i E s :
  NoDup agents -> Forall (fun E => kind E = k) Es -> wf_vstate (length Es) k agents st ->
  seed_ok (length Es) sd ->
  nth_error Es i = Some E -> nth_error (vstates st) i = Some s ->
  let r := vec_reset k agents Es st sd opt in
  let w := worker_reset E agents s (rarg_at (length Es) sd opt i) in
  wf_vstate (length Es) k agents (fst r) /\
  nth_error (vstates (fst r)) i = Some (fst w) /\
  forall a, In a agents ->
    obs_row i k (get a (fst (snd r)) []) = get a (fst (snd w)) [] /\
    (forall key, info_at (snd (snd r)) a key i = info_in (snd (snd w)) a key) /\
    mask_at (snd (snd r)) a i = has_agent (snd (snd w)) a.
Proof.
  exact (g_vec_reset_refines_env env_reset kind reset_obs_ok reset_info_nodup k agents Es st sd opt i E s).
Qed.

Theorem vec_session_refines_lemma k agents Es sd opt actss i E :
  NoDup agents -> Forall (fun E => kind E = k) Es -> Forall (actions_ok (length Es)) actss ->
  seed_ok (length Es) sd -> nth_error Es i = Some E ->
  let st0 := fst (vec_reset k agents Es (vec_init k agents Es) sd opt) in
  let s0 := fst (env_reset E init_state (rarg_at (length Es) sd opt i)) in
  let acts_i := map (fun actions => nth i (transpose_actions agents actions 0%Z) []) actss in
  nth_error (vstates (fst (vec_run k agents Es st0 actss))) i = Some (fst (single_run single_step E s0 acts_i)) /\
  Forall2 (fun out ref => agrees_at k agents i out (process_transition k agents ref))
          (snd (vec_run k agents Es st0 actss)) (snd (single_run single_step E s0 acts_i)).
Proof.
  exact (g_vec_session_refines raw_step env_reset kind live init_state all_done_keys_spec raw_obs_ok reset_obs_ok
           raw_info_nodup reset_info_nodup k agents Es sd opt actss i E).
Qed.

(* reset(seed, options) plumbing made visible: after vec_env.reset(seed=z, options={"opt": o}) the
   observation of sub-environment i carries z + i (feature 1 = base + episode) and its info carries o *)
Theorem reset_plumbing_lemma E s seed opt a :
  a < nag E -> joins_late E a = false ->
  let r := env_reset E s (seed, opt) in
  base (fst r) = match seed with Some z => z | None => base s end /\
  info_in (snd (snd r)) a 2 = opt.
Proof.
  intros Ha Hj. unfold env_reset. cbn [fst snd base live]. split; [reflexivity|].
  unfold info_in.
  match goal with |- context[map (fun b => (b, reset_info ?st b ?o)) ?L] =>
    rewrite (lookup_map_In (fun b => reset_info st b o) L a)
      by (apply filter_In; split; [apply in_seq; lia | rewrite Hj; reflexivity]) end.
  destruct opt; reflexivity.
Qed.

Lemma vec_init_wf k agents Es : wf_vstate (length Es) k agents (vec_init k agents Es).
Proof. apply (g_vec_init_wf init_state). Qed.

(* an agent that joins late is not in the dicts returned by reset: the vector environment shows the
   placeholder observation for it until it appears *)
Theorem late_joiner_placeholder_lemma E agents s ra a :
  In a agents -> joins_late E a = true ->
  get a (fst (snd (worker_reset E agents s ra))) [] = placeholder_obs (kind E) /\
  has_agent (snd (snd (env_reset E s ra))) a = false.
Proof.
  intros Ha Hj. unfold worker_reset, g_worker_reset, env_reset, get, has_agent. cbn [fst snd live].
  rewrite (fill_lookup agents _ _ a Ha).
  assert (Hn : ~ In a (filter (fun a0 => negb (joins_late E a0)) (seq 0 (nag E)))).
  { intros H. apply filter_In in H as [_ H]. rewrite Hj in H. discriminate. }
  rewrite !(lookup_map_notIn _ _ a Hn). auto.
Qed.

(* any interleaving of reset(seed, options) and step(actions) calls, for the scripted family *)
Theorem vec_events_refines_lemma k agents Es : forall evs (st : vstate) i E s,
  NoDup agents -> Forall (fun E => kind E = k) Es -> wf_vstate (length Es) k agents st ->
  Forall (event_ok (length Es)) evs ->
  nth_error Es i = Some E -> nth_error (vstates st) i = Some s ->
  let evs_i := map (event_at (length Es) agents i) evs in
  nth_error (vstates (fst (vec_events k agents Es st evs))) i = Some (fst (single_events E s evs_i)) /\
  Forall2 (outcome_agrees k agents i) (snd (vec_events k agents Es st evs)) (snd (single_events E s evs_i)).
Proof.
  exact (g_vec_events_refines raw_step env_reset kind live all_done_keys_spec raw_obs_ok reset_obs_ok
           raw_info_nodup reset_info_nodup k agents Es).
Qed.
