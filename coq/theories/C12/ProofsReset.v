(* C12 — vec_env.reset(seed): sub-environment i is reset alone with seed + i; together with
   ProofsVec this gives the refinement for whole runs starting at construction. *)
From Coq Require Import List Arith Bool ZArith Lia.
Import ListNotations.
From AgileV Require Import Base.Prelude C12.Model C12.Proofs C12.ProofsShm C12.ProofsInfo C12.ProofsVec.

Definition seed_of (seed : option Z) (i : nat) : option Z := option_map (fun z => (z + Z.of_nat i)%Z) seed.

Lemma workers_reset_spec agents k n seed : forall Es i0 ss m rs ri mf,
  Forall (fun E => kind E = k) Es -> length ss = length Es ->
  i0 + length Es <= n -> wf_mem n k agents m ->
  workers_reset agents i0 Es ss seed m = (rs, ri, mf) ->
  wf_mem n k agents mf /\ length rs = length Es /\ length ri = length Es /\
  (forall j E s, nth_error Es j = Some E -> nth_error ss j = Some s ->
     nth_error rs j = Some (fst (worker_reset E agents s (seed_of seed (i0 + j)))) /\
     nth_error ri j = Some (snd (snd (worker_reset E agents s (seed_of seed (i0 + j)))))) /\
  row_spec n k agents m mf i0 (length Es)
    (fun j => match nth_error Es j, nth_error ss j with
              | Some E, Some s => Some (fst (snd (worker_reset E agents s (seed_of seed (i0 + j)))))
              | _, _ => None end).
Proof.
  induction Es as [|E Es IH]; intros i0 ss m rs ri mf HK Ls Hn Hm Hw.
  - destruct ss; [|discriminate]. cbn in Hw. injection Hw as <- <- <-.
    split; [auto|]. split; [auto|]. split; [auto|]. split.
    + intros j E s H. destruct j; discriminate.
    + intros a i Ha Hi. cbn [length]. replace (i0 + 0) with i0 by lia.
      destruct (Nat.leb_spec i0 i), (Nat.ltb_spec i i0); cbn; auto; lia.
  - destruct ss as [|s ss]; [discriminate|].
    cbn [workers_reset] in Hw. fold (seed_of seed i0) in Hw.
    destruct (worker_reset E agents s (seed_of seed i0)) as [s' [o inf]] eqn:Ew.
    destruct (workers_reset agents (S i0) Es ss seed (write_shm i0 (kind E) o m)) as [[rs' ri'] mf'] eqn:Er.
    injection Hw as <- <- <-.
    inversion HK as [|? ? HkE HK']; subst.
    assert (Hout : wf_obs (kind E) agents o).
    { pose proof (worker_reset_obs_wf E agents s (seed_of seed i0)) as H. rewrite Ew in H. exact H. }
    assert (Hm' : wf_mem n (kind E) agents (write_shm i0 (kind E) o m)).
    { apply write_shm_wf; auto. cbn in Hn. lia. }
    cbn [length] in *.
    destruct (IH (S i0) ss _ rs' ri' mf' HK' ltac:(lia) ltac:(lia) Hm' Er)
      as (Wf & L1 & L2 & Hnth & Hrows).
    split; [auto|]. split; [lia|]. split; [lia|]. split.
    + intros j E0 s0 H H0. destruct j as [|j]; cbn [nth_error] in *.
      * injection H as <-. injection H0 as <-. rewrite Nat.add_0_r, Ew. auto.
      * replace (i0 + S j) with (S i0 + j) by lia. apply (Hnth j E0 s0); auto.
    + intros a i Ha Hi.
      rewrite (Hrows a i Ha Hi).
      rewrite (shm_write_read_lemma i0 i n (kind E) agents o m a); auto; try lia.
      destruct (Nat.leb_spec (S i0) i); destruct (Nat.ltb_spec i (S i0 + length Es)); cbn [andb].
      * destruct (Nat.leb_spec i0 i); [|lia]. destruct (Nat.ltb_spec i (i0 + S (length Es))); [|lia]. cbn [andb].
        replace (i - i0) with (S (i - S i0)) by lia. cbn [nth_error].
        replace (i0 + S (i - S i0)) with (S i0 + (i - S i0)) by lia. reflexivity.
      * destruct (Nat.ltb_spec i (i0 + S (length Es))); [lia|]. rewrite andb_false_r.
        destruct (Nat.eqb_spec i i0); [lia|]. reflexivity.
      * destruct (Nat.eqb_spec i i0) as [->|Hne].
        -- destruct (Nat.leb_spec i0 i0); [|lia]. destruct (Nat.ltb_spec i0 (i0 + S (length Es))); [|lia].
           cbn [andb]. rewrite Nat.sub_diag. cbn [nth_error]. rewrite Nat.add_0_r, Ew. reflexivity.
        -- destruct (Nat.leb_spec i0 i); [lia|]. reflexivity.
      * lia.
Qed.

Lemma worker_reset_info_wf E agents s seed :
  NoDup agents -> info_wf (snd (snd (worker_reset E agents s seed))).
Proof.
  intros Hnd. unfold worker_reset, env_reset. cbn [fst snd live].
  apply fill_info_wf; auto. intros a d.
  match goal with |- context[info_of ?st _ true] => apply (infos_nodup (fun _ => (st, true))) end.
Qed.

(* vec_env.reset(seed): position i of the returned observations is the (placeholder-completed)
   first observation of environment i reset alone with seed + i; the state is that environment's *)
Theorem vec_reset_refines_lemma k agents Es st seed i E s :
  NoDup agents -> Forall (fun E => kind E = k) Es -> wf_vstate (length Es) k agents st ->
  nth_error Es i = Some E -> nth_error (vstates st) i = Some s ->
  let r := vec_reset k agents Es st seed in
  let w := worker_reset E agents s (seed_of seed i) in
  wf_vstate (length Es) k agents (fst r) /\
  nth_error (vstates (fst r)) i = Some (fst w) /\
  forall a, In a agents ->
    obs_row i k (get a (fst (snd r)) []) = get a (fst (snd w)) [] /\
    (forall key, info_at (snd (snd r)) a key i = info_in (snd (snd w)) a key) /\
    mask_at (snd (snd r)) a i = has_agent (snd (snd w)) a.
Proof.
  intros Hnd HK [Ls Hm] HE Hs. cbn zeta. unfold vec_reset.
  destruct (workers_reset agents 0 Es (vstates st) seed (vmem st)) as [[rs ri] mf] eqn:Ew.
  destruct (workers_reset_spec agents k (length Es) seed Es 0 _ _ rs ri mf HK Ls (le_n _) Hm Ew)
    as (Wf & L1 & L2 & Hnth & Hrows).
  assert (Hi : i < length Es) by (apply nth_error_Some; congruence).
  destruct (Hnth i E s HE Hs) as [H1 H2]. cbn [plus] in H1, H2.
  cbn [fst snd vstates vmem]. split; [split; auto|]. split; [exact H1|].
  assert (Hwf : Forall info_wf ri).
  { apply Forall_forall. intros x Hin. apply In_nth_error in Hin as [j Hj].
    assert (Hjl : j < length Es) by (rewrite <- L2; apply nth_error_Some; congruence).
    destruct (nth_error Es j) as [Ej|] eqn:E1; [|apply nth_error_None in E1; lia].
    destruct (nth_error (vstates st) j) as [sj|] eqn:E2; [|apply nth_error_None in E2; lia].
    destruct (Hnth j Ej sj E1 E2) as [_ Hq]. rewrite Hj in Hq. injection Hq as ->.
    apply worker_reset_info_wf; auto. }
  assert (Hlen : length ri <= length Es) by lia.
  intros a Ha. split; [|split].
  - pose proof (Hrows a i Ha Hi) as Hr. unfold row_of in Hr. rewrite Hr.
    destruct (Nat.leb_spec 0 i); [|lia]. destruct (Nat.ltb_spec i (0 + length Es)); [|lia]. cbn [andb].
    rewrite Nat.sub_0_r, HE, Hs. reflexivity.
  - intros key. apply (gather_info_spec_lemma (length Es) ri a key i _ Hlen Hwf H2).
  - apply (gather_info_spec_lemma (length Es) ri a 0 i _ Hlen Hwf H2).
Qed.

(* worker_reset = env.reset completed by process_transition: every possible agent is alive after
   a reset, so nothing is replaced when the agents are the environment's possible agents *)
Lemma worker_reset_spec E agents s seed a :
  In a agents ->
  fst (worker_reset E agents s seed) = fst (env_reset E s seed) /\
  get a (fst (snd (worker_reset E agents s seed))) [] = get a (fst (snd (env_reset E s seed))) (placeholder_obs (kind E)).
Proof.
  intros Ha. unfold worker_reset. destruct (env_reset E s seed) as [s' [o i]]. cbn [fst snd]. split; auto.
  unfold get. rewrite (fill_lookup agents _ o a Ha). reflexivity.
Qed.

(* a whole session: construct, reset(seed), then any sequence of action batches *)
Theorem vec_session_refines_lemma k agents Es seed actss i E :
  NoDup agents -> Forall (fun E => kind E = k) Es -> Forall (actions_ok (length Es)) actss -> nth_error Es i = Some E ->
  let st0 := fst (vec_reset k agents Es (vec_init k agents Es) seed) in
  let s0 := fst (env_reset E init_state (seed_of seed i)) in
  let acts_i := map (fun actions => nth i (transpose_actions agents actions 0%Z) []) actss in
  nth_error (vstates (fst (vec_run k agents Es st0 actss))) i = Some (fst (single_run single_step E s0 acts_i)) /\
  Forall2 (fun out ref => agrees_at k agents i out (process_transition k agents ref))
          (snd (vec_run k agents Es st0 actss)) (snd (single_run single_step E s0 acts_i)).
Proof.
  intros Hnd HK HF HE. cbn zeta.
  assert (Hs : nth_error (vstates (vec_init k agents Es)) i = Some init_state).
  { unfold vec_init. cbn [vstates]. rewrite nth_error_map, HE. reflexivity. }
  destruct (vec_reset_refines_lemma k agents Es (vec_init k agents Es) seed i E init_state Hnd HK
              (vec_init_wf k agents Es) HE Hs) as (Wf & H1 & _).
  cbn zeta in H1.
  assert (Hw : fst (worker_reset E agents init_state (seed_of seed i)) = fst (env_reset E init_state (seed_of seed i))).
  { unfold worker_reset. destruct (env_reset E init_state (seed_of seed i)) as [s' [o inf]]. reflexivity. }
  rewrite Hw in H1.
  apply (vec_refines_singles_lemma k agents Es actss _ i E _ Hnd HK Wf HF HE H1).
Qed.
