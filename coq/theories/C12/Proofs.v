(* C12 — lemmas and proofs about the model of the vectorised PettingZoo environment. *)
From Coq Require Import List Arith Bool ZArith Lia.
Import ListNotations.
From AgileV Require Import Base.Prelude C12.Model.

(* ------------------------------------------------------------------ dictionaries *)
Section DictLemmas.
Context {X Y : Type}.

Lemma lookup_map_key (f : nat -> X) (L : list nat) a :
  lookup a (map (fun b => (b, f b)) L) = if existsb (Nat.eqb a) L then Some (f a) else None.
Proof.
  induction L as [|b L IH]; cbn; auto.
  destruct (Nat.eqb_spec a b) as [->|Hn]; cbn; auto.
Qed.

Lemma existsb_eqb_In a (L : list nat) : existsb (Nat.eqb a) L = true <-> In a L.
Proof.
  rewrite existsb_exists. split.
  - intros (x & Hx & E). apply Nat.eqb_eq in E. subst; auto.
  - intros H. exists a. split; auto. apply Nat.eqb_refl.
Qed.

Lemma lookup_map_In (f : nat -> X) (L : list nat) a :
  In a L -> lookup a (map (fun b => (b, f b)) L) = Some (f a).
Proof. intros H. rewrite lookup_map_key. apply existsb_eqb_In in H. rewrite H. reflexivity. Qed.

Lemma lookup_map_notIn (f : nat -> X) (L : list nat) a :
  ~ In a L -> lookup a (map (fun b => (b, f b)) L) = None.
Proof.
  intros H. rewrite lookup_map_key. destruct (existsb (Nat.eqb a) L) eqn:E; auto.
  apply existsb_eqb_In in E. contradiction.
Qed.

(* a per-entry update keeps the keys and acts on the looked-up value *)
Lemma lookup_map_val (g : nat -> X -> Y) (m : dict X) a :
  lookup a (map (fun ab => (fst ab, g (fst ab) (snd ab))) m) = option_map (g a) (lookup a m).
Proof.
  induction m as [|[b x] m IH]; cbn; auto.
  destruct (Nat.eqb_spec a b) as [->|Hn]; cbn; auto.
Qed.

Lemma keys_map_val (g : nat * X -> Y) (m : dict X) :
  keys (map (fun ab => (fst ab, g ab)) m) = keys m.
Proof. unfold keys. rewrite map_map. reflexivity. Qed.

Lemma lookup_In_keys (m : dict X) a : In a (keys m) -> exists x, lookup a m = Some x.
Proof.
  induction m as [|[b x] m IH]; cbn; [tauto|].
  intros [->|H].
  - rewrite Nat.eqb_refl. eauto.
  - destruct (Nat.eqb a b); eauto.
Qed.
End DictLemmas.

(* ------------------------------------------------------------------ process_transition *)
Lemma fill_lookup {X} agents (ph : X) d a :
  In a agents -> lookup a (fill agents ph d) = Some (match lookup a d with Some x => x | None => ph end).
Proof. intros H. unfold fill. apply (lookup_map_In (fun a => match lookup a d with Some x => x | None => ph end)); auto. Qed.

Lemma fill_lookup_out {X} agents (ph : X) d a : ~ In a agents -> lookup a (fill agents ph d) = None.
Proof. intros H. unfold fill. apply (lookup_map_notIn (fun a => match lookup a d with Some x => x | None => ph end)); auto. Qed.

Lemma fill_keys {X} agents (ph : X) d : keys (fill agents ph d) = agents.
Proof. unfold fill, keys. rewrite map_map. cbn. apply map_id. Qed.

(* ------------------------------------------------------------------ the reset condition *)
Lemma forallb_zip_maps {A} (f g : A -> bool) (L : list A) :
  forallb (fun p => fst p || snd p) (combine (map f L) (map g L)) = forallb (fun a => f a || g a) L.
Proof. induction L; cbn; auto. rewrite IHL. reflexivity. Qed.

Lemma filter_nil_forallb {A} (p : A -> bool) (L : list A) :
  (match filter (fun a => negb (p a)) L with [] => true | _ => false end) = forallb p L.
Proof. induction L as [|a L IH]; cbn; auto. destruct (p a); cbn; auto. Qed.

Lemma forallb_ext_In {A} (f g : A -> bool) (L : list A) :
  (forall a, In a L -> f a = g a) -> forallb f L = forallb g L.
Proof.
  induction L as [|x L IH]; cbn; auto. intros H. rewrite (H x), IH; auto.
Qed.

(* ================================================================== generic in the environment ====== *)
Section EnvProofs.
Context {env state : Type}.
Variable e_step : env -> state -> list Z -> state * trans.
Variable e_reset : env -> state -> rarg -> state * (dict obs_t * dict info_t).
Variable e_kind : env -> okind.
Variable e_live : state -> list nat.
(* contract of the environment: its termination / truncation flags say that every listed agent has
   finished exactly when its agent list becomes empty *)
Hypothesis C_done : forall E s acts,
  all_done_keys (snd (e_step E s acts)) = g_no_agent_left e_live (fst (e_step E s acts)).

Theorem g_worker_refines_single E agents s acts :
  g_worker_step e_step e_reset e_kind E agents s acts =
  (fst (g_single_step e_step e_reset e_live E s acts),
   process_transition (e_kind E) agents (snd (g_single_step e_step e_reset e_live E s acts))).
Proof.
  unfold g_worker_step, g_worker_step_with, g_single_step.
  pose proof (C_done E s acts) as H.
  destruct (e_step E s acts) as [s1 tr]. cbn [fst snd] in H. rewrite H.
  destruct (g_no_agent_left e_live s1).
  - destruct (e_reset E s1 no_rarg) as [s2 [o i]]. reflexivity.
  - destruct tr; reflexivity.
Qed.

Theorem g_wrapper_same_condition E s acts :
  g_wrapper_step e_step e_reset E s acts = g_single_step e_step e_reset e_live E s acts.
Proof.
  unfold g_wrapper_step, g_single_step.
  pose proof (C_done E s acts) as H.
  destruct (e_step E s acts) as [s1 tr]. cbn [fst snd] in H. rewrite H. reflexivity.
Qed.

(* the positional test agrees with the per-key test whenever it agrees on this transition *)
Lemma g_worker_zip_when E agents s acts :
  all_done_zip (snd (e_step E s acts)) = all_done_keys (snd (e_step E s acts)) ->
  g_worker_step_zip e_step e_reset e_kind E agents s acts = g_worker_step e_step e_reset e_kind E agents s acts.
Proof.
  intros H. unfold g_worker_step_zip, g_worker_step, g_worker_step_with.
  destruct (e_step E s acts) as [s1 tr]. cbn [snd] in H. rewrite H. reflexivity.
Qed.
End EnvProofs.

(* ================================================================== the scripted family ============= *)
(* the per-key test (wrapper, and worker after the fix) holds exactly when no agent is left alive,
   whatever the order in which the truncation dict lists the agents *)
Lemma all_done_keys_spec E s acts :
  all_done_keys (snd (raw_step E s acts)) = no_agent_left (fst (raw_step E s acts)).
Proof.
  unfold all_done_keys, no_agent_left, g_no_agent_left, raw_step, keys, get. cbn [fst snd tterm ttrunc live].
  rewrite map_map. cbn [fst]. rewrite map_id.
  rewrite filter_nil_forallb. apply forallb_ext_In. intros a Ha.
  rewrite (lookup_map_In _ _ _ Ha).
  destruct (unaligned E).
  - rewrite <- map_rev. rewrite (lookup_map_In _ (rev (step_agents E s)) a) by (apply -> in_rev; exact Ha). reflexivity.
  - rewrite (lookup_map_In _ _ _ Ha). reflexivity.
Qed.

(* the positional test (zip of the two value lists; the tree without the fix) agrees when the
   environment lists the agents in the same order in both dicts *)
Lemma all_done_zip_spec E s acts :
  unaligned E = false ->
  all_done_zip (snd (raw_step E s acts)) = no_agent_left (fst (raw_step E s acts)).
Proof.
  intros Hu. unfold all_done_zip, no_agent_left, g_no_agent_left, raw_step, vals. cbn [fst snd tterm ttrunc live].
  rewrite Hu. rewrite !map_map. cbn [snd].
  rewrite forallb_zip_maps. symmetry. apply filter_nil_forallb.
Qed.

Theorem worker_refines_single_lemma E agents s acts :
  worker_step E agents s acts =
  (fst (single_step E s acts), process_transition (kind E) agents (snd (single_step E s acts))).
Proof. apply (g_worker_refines_single raw_step env_reset kind live all_done_keys_spec). Qed.

Theorem worker_zip_aligned_lemma E agents s acts :
  unaligned E = false -> worker_step_zip E agents s acts = worker_step E agents s acts.
Proof.
  intros Hu. apply (g_worker_zip_when raw_step env_reset kind).
  rewrite all_done_keys_spec. apply all_done_zip_spec; auto.
Qed.

Theorem wrapper_same_condition_lemma E s acts : wrapper_step E s acts = single_step E s acts.
Proof. apply (g_wrapper_same_condition raw_step env_reset live all_done_keys_spec). Qed.

(* ------------------------------------------------------------------ what is visible after an auto-reset *)
(* when the last live agent finishes, the worker resets its environment and the observation it
   returns for every agent is the FIRST observation of the new episode *)
Theorem autoreset_first_obs_lemma E agents s acts a :
  no_agent_left (fst (raw_step E s acts)) = true -> In a agents -> a < nag E -> joins_late E a = false ->
  let r := worker_step E agents s acts in
  fst r = fst (env_reset E (fst (raw_step E s acts)) no_rarg) /\
  ord (fst r) = S (ord s) /\ tm (fst r) = 0 /\
  get a (tobs (snd r)) [] = observe E (fst r) a 0%Z.
Proof.
  intros Hd Ha Hn Hj. cbn zeta. rewrite worker_refines_single_lemma. unfold single_step, g_single_step.
  fold no_agent_left.
  destruct (raw_step E s acts) as [s1 tr] eqn:Er. cbn [fst snd] in *. rewrite Hd.
  assert (Ho : ord s1 = ord s) by (unfold raw_step in Er; injection Er as <- _; reflexivity).
  unfold env_reset. cbn [fst snd process_transition tobs live ord tm].
  split; [reflexivity|]. split; [congruence|]. split; [reflexivity|].
  unfold get. rewrite (fill_lookup agents _ _ a Ha).
  match goal with |- context[map (fun b => (b, observe E ?st b 0%Z)) ?L] =>
    rewrite (lookup_map_In (fun b => observe E st b 0%Z) L a)
      by (apply filter_In; split; [apply in_seq; lia | rewrite Hj; reflexivity]) end.
  reflexivity.
Qed.

(* ... and while some agent is still alive nothing is reset *)
Theorem no_reset_while_alive_lemma E agents s acts :
  no_agent_left (fst (raw_step E s acts)) = false ->
  fst (worker_step E agents s acts) = fst (raw_step E s acts) /\
  snd (worker_step E agents s acts) = process_transition (kind E) agents (snd (raw_step E s acts)).
Proof.
  intros Hd. rewrite worker_refines_single_lemma. unfold single_step, g_single_step. fold no_agent_left.
  destruct (raw_step E s acts) as [s1 tr]. cbn [fst snd] in *. rewrite Hd. auto.
Qed.
