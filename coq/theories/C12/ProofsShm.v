(* C12 — index arithmetic of the shared observation buffers: write_to_shared_memory / Observations. *)
From Coq Require Import List Arith Bool ZArith Lia.
Import ListNotations.
From AgileV Require Import Base.Prelude C12.Model C12.Proofs.

Lemma blk_lt i' i size j : i' < i -> j < size -> i' * size + j < i * size.
Proof. intros. nia. Qed.
Lemma blk_le i n size : i < n -> (i + 1) * size <= n * size.
Proof. intros. nia. Qed.
Lemma blk_le' i n size : i < n -> i * size + size <= n * size.
Proof. intros. nia. Qed.

Lemma write_row_length i n size (row flat : list Z) :
  i < n -> length row = size -> length flat = n * size -> length (write_row i size row flat) = n * size.
Proof.
  intros Hi Hr Hf. unfold write_row. pose proof (blk_le i n size Hi).
  rewrite !app_length, skipn_length, firstn_length. nia.
Qed.

Lemma read_row_length i n size (flat : list Z) :
  i < n -> length flat = n * size -> length (read_row i size flat) = size.
Proof.
  intros Hi Hf. unfold read_row. pose proof (blk_le i n size Hi).
  rewrite firstn_length, skipn_length. nia.
Qed.

Lemma nth_read_row i n size (flat : list Z) j d :
  i < n -> length flat = n * size -> j < size -> nth j (read_row i size flat) d = nth (i * size + j) flat d.
Proof.
  intros Hi Hf Hj. unfold read_row. rewrite (nth_firstn_lt d) by lia. apply nth_skipn_add.
Qed.

Lemma nth_write_row i n size (row flat : list Z) p d :
  i < n -> length row = size -> length flat = n * size ->
  nth p (write_row i size row flat) d =
  if p <? i * size then nth p flat d else if p <? i * size + size then nth (p - i * size) row d else nth p flat d.
Proof.
  intros Hi Hr Hf. unfold write_row. pose proof (blk_le i n size Hi).
  assert (L1 : length (firstn (i * size) flat) = i * size) by (rewrite firstn_length; nia).
  destruct (Nat.ltb_spec p (i * size)).
  - rewrite app_nth1 by lia. apply nth_firstn_lt; lia.
  - rewrite app_nth2 by lia. rewrite L1.
    destruct (Nat.ltb_spec p (i * size + size)).
    + rewrite app_nth1 by lia. reflexivity.
    + rewrite app_nth2 by lia. rewrite (nth_skipn_add d). f_equal. nia.
Qed.

(* reading back the slice that was written *)
Theorem read_write_same i n size (row flat : list Z) :
  i < n -> length row = size -> length flat = n * size ->
  read_row i size (write_row i size row flat) = row.
Proof.
  intros Hi Hr Hf.
  apply (nth_ext _ _ 0%Z 0%Z).
  - rewrite (read_row_length i n); auto. apply write_row_length; auto.
  - intros j Hj. rewrite (read_row_length i n) in Hj by (auto; apply write_row_length; auto).
    rewrite (nth_read_row i n) by (auto; apply write_row_length; auto).
    rewrite (nth_write_row i n) by auto.
    destruct (Nat.ltb_spec (i * size + j) (i * size)); [lia|].
    destruct (Nat.ltb_spec (i * size + j) (i * size + size)); [|lia].
    f_equal. lia.
Qed.

(* every other environment's slice is untouched *)
Theorem read_write_other i j n size (row flat : list Z) :
  i < n -> j < n -> j <> i -> length row = size -> length flat = n * size ->
  read_row j size (write_row i size row flat) = read_row j size flat.
Proof.
  intros Hi Hj Hne Hr Hf.
  apply (nth_ext _ _ 0%Z 0%Z).
  - rewrite !(read_row_length j n); auto. apply write_row_length; auto.
  - intros q Hq. rewrite (read_row_length j n) in Hq by (auto; apply write_row_length; auto).
    rewrite !(nth_read_row j n) by (auto; apply write_row_length; auto).
    rewrite (nth_write_row i n) by auto.
    destruct (Nat.ltb_spec (j * size + q) (i * size)); auto.
    destruct (Nat.ltb_spec (j * size + q) (i * size + size)); auto.
    exfalso. assert (j < i \/ i < j) as [Hlt|Hlt] by lia.
    + pose proof (blk_lt j i size q Hlt Hq). lia.
    + pose proof (blk_le' i j size Hlt). lia.
Qed.

Lemma slice_write_read_lemma i j n size (row flat : list Z) :
  i < n -> j < n -> length row = size -> length flat = n * size ->
  read_row j size (write_row i size row flat) = if Nat.eqb j i then row else read_row j size flat.
Proof.
  intros Hi Hj Hr Hf. destruct (Nat.eqb_spec j i) as [->|Hne].
  - apply (read_write_same i n); auto.
  - apply (read_write_other i j n); auto.
Qed.

(* writes of two different workers commute: the order in which the processes run is irrelevant *)
Theorem write_commute_row i j n size (r1 r2 flat : list Z) :
  i < n -> j < n -> i <> j -> length r1 = size -> length r2 = size -> length flat = n * size ->
  write_row i size r1 (write_row j size r2 flat) = write_row j size r2 (write_row i size r1 flat).
Proof.
  intros Hi Hj Hne H1 H2 Hf.
  apply (nth_ext _ _ 0%Z 0%Z).
  - rewrite !(write_row_length _ n); auto; apply write_row_length; auto.
  - intros p _.
    rewrite (nth_write_row i n size r1 (write_row j size r2 flat)) by (auto; apply (write_row_length j n); auto).
    rewrite (nth_write_row j n size r2 (write_row i size r1 flat)) by (auto; apply (write_row_length i n); auto).
    rewrite (nth_write_row j n size r2 flat) by auto. rewrite (nth_write_row i n size r1 flat) by auto.
    assert (i < j \/ j < i) as [Hlt|Hlt] by lia.
    + pose proof (blk_le' i j size Hlt).
      repeat match goal with |- context[?a <? ?b] => destruct (Nat.ltb_spec a b) end; try lia; reflexivity.
    + pose proof (blk_le' j i size Hlt).
      repeat match goal with |- context[?a <? ?b] => destruct (Nat.ltb_spec a b) end; try lia; reflexivity.
Qed.

(* ---------------- members (Dict / Tuple spaces: one buffer per member) ---------------- *)
Fixpoint rows (i : nat) (shapes : list (list nat)) (bufs : list (list Z)) : obs_t :=
  match shapes, bufs with
  | sh :: shs, b :: bs => read_row i (msize sh) b :: rows i shs bs
  | _, _ => []
  end.

Lemma obs_row_read_agent_gen i n (g : list nat -> list nat) shapes bufs :
  map (fun sa : list nat * varr => read_row i (msize (fst sa)) (snd (snd sa)))
      (combine shapes (map (fun sb : list nat * list Z => (n :: g (fst sb), snd sb)) (combine shapes bufs)))
  = rows i shapes bufs.
Proof.
  revert bufs. induction shapes as [|sh shs IH]; intros [|b bs]; cbn; auto. rewrite IH. reflexivity.
Qed.

Lemma obs_row_read_agent i n k bufs : obs_row i k (read_agent n k bufs) = rows i (mshapes k) bufs.
Proof. unfold obs_row, read_agent. apply obs_row_read_agent_gen. Qed.

(* well-formed buffers / observations relative to a list of member shapes *)
Definition bufs_ok (n : nat) (shapes : list (list nat)) (bufs : list (list Z)) : Prop :=
  map (@length Z) bufs = map (fun sh => n * msize sh) shapes.
Definition obs_ok (shapes : list (list nat)) (o : obs_t) : Prop :=
  map (@length Z) o = map msize shapes.

Lemma write_members_ok i n shapes o bufs :
  i < n -> obs_ok shapes o -> bufs_ok n shapes bufs -> bufs_ok n shapes (write_members i shapes o bufs).
Proof.
  unfold obs_ok, bufs_ok. intros Hi. revert o bufs.
  induction shapes as [|sh shs IH]; intros [|r o] [|b bs] Ho Hb; cbn in *; try discriminate; auto.
  injection Ho as Hr Ho. injection Hb as Hb1 Hb.
  f_equal; [apply write_row_length; auto | apply IH; auto].
Qed.

Lemma rows_write_same i n shapes o bufs :
  i < n -> obs_ok shapes o -> bufs_ok n shapes bufs -> rows i shapes (write_members i shapes o bufs) = o.
Proof.
  unfold obs_ok, bufs_ok. intros Hi. revert o bufs.
  induction shapes as [|sh shs IH]; intros [|r o] [|b bs] Ho Hb; cbn in *; try discriminate; auto.
  injection Ho as Hr Ho. injection Hb as Hb1 Hb.
  f_equal; [apply (read_write_same i n); auto | apply IH; auto].
Qed.

Lemma rows_write_other i j n shapes o bufs :
  i < n -> j < n -> j <> i -> obs_ok shapes o -> bufs_ok n shapes bufs ->
  rows j shapes (write_members i shapes o bufs) = rows j shapes bufs.
Proof.
  unfold obs_ok, bufs_ok. intros Hi Hj Hne. revert o bufs.
  induction shapes as [|sh shs IH]; intros [|r o] [|b bs] Ho Hb; cbn in *; try discriminate; auto.
  injection Ho as Hr Ho. injection Hb as Hb1 Hb.
  f_equal; [apply (read_write_other i j n); auto | apply IH; auto].
Qed.

Lemma write_members_commute i j n shapes o1 o2 bufs :
  i < n -> j < n -> i <> j -> obs_ok shapes o1 -> obs_ok shapes o2 -> bufs_ok n shapes bufs ->
  write_members i shapes o1 (write_members j shapes o2 bufs)
  = write_members j shapes o2 (write_members i shapes o1 bufs).
Proof.
  unfold obs_ok, bufs_ok. intros Hi Hj Hne. revert o1 o2 bufs.
  induction shapes as [|sh shs IH]; intros [|r1 o1] [|r2 o2] [|b bs] H1 H2 Hb; cbn in *; try discriminate; auto.
  injection H1 as Hr1 H1. injection H2 as Hr2 H2. injection Hb as Hb1 Hb.
  f_equal; [apply (write_commute_row i j n); auto | apply IH; auto].
Qed.

(* ---------------- whole shared memory ---------------- *)
Definition wf_mem (n : nat) (k : okind) (agents : list nat) (m : shm) : Prop :=
  keys m = agents /\ Forall (fun ab => bufs_ok n (mshapes k) (snd ab)) m.
(* an observation dict as the worker writes it: every agent present (process_transition), right sizes *)
Definition wf_obs (k : okind) (agents : list nat) (o : dict obs_t) : Prop :=
  forall a, In a agents -> exists ob, lookup a o = Some ob /\ obs_ok (mshapes k) ob.

(* row i of what the parent returns for agent a *)
Definition row_of (n : nat) (k : okind) (m : shm) (a i : nat) : obs_t :=
  obs_row i k (get a (read_obs n k m) []).

Lemma create_shared_memory_wf n k agents : wf_mem n k agents (create_shared_memory n k agents).
Proof.
  unfold wf_mem, create_shared_memory, keys. split.
  - rewrite map_map. cbn. apply map_id.
  - apply Forall_forall. intros ab H. apply in_map_iff in H as (a & <- & _). cbn.
    unfold bufs_ok. rewrite map_map. apply map_ext. intros sh. apply repeat_length.
Qed.

Lemma wf_mem_lookup n k agents m a :
  wf_mem n k agents m -> In a agents -> exists bufs, lookup a m = Some bufs /\ bufs_ok n (mshapes k) bufs.
Proof.
  intros [Hk Hf] Ha. rewrite <- Hk in Ha. destruct (lookup_In_keys m a Ha) as [bufs Hb].
  exists bufs. split; auto.
  clear Hk Ha. induction m as [|[b x] m IH]; cbn in *; [discriminate|].
  inversion Hf; subst. destruct (Nat.eqb a b).
  - injection Hb as <-. auto.
  - auto.
Qed.

Lemma row_of_lookup n k m a i bufs : lookup a m = Some bufs -> row_of n k m a i = rows i (mshapes k) bufs.
Proof.
  intros H. unfold row_of, read_obs, get.
  rewrite (lookup_map_val (fun _ b => read_agent n k b)). rewrite H. cbn.
  apply obs_row_read_agent.
Qed.

Lemma write_shm_lookup i k o m a :
  lookup a (write_shm i k o m)
  = option_map (fun bufs => match lookup a o with Some ob => write_members i (mshapes k) ob bufs | None => bufs end)
               (lookup a m).
Proof.
  unfold write_shm.
  apply (lookup_map_val (fun a bufs => match lookup a o with Some ob => write_members i (mshapes k) ob bufs | None => bufs end)).
Qed.

Lemma write_shm_wf i n k agents o m :
  i < n -> wf_mem n k agents m -> wf_obs k agents o -> wf_mem n k agents (write_shm i k o m).
Proof.
  intros Hi [Hk Hf] Ho. split.
  - unfold write_shm. rewrite (keys_map_val (fun ab => match lookup (fst ab) o with
        | Some ob => write_members i (mshapes k) ob (snd ab) | None => snd ab end)). auto.
  - unfold write_shm. apply Forall_map. rewrite Forall_forall in *. intros [a bufs] Hin. cbn.
    assert (Ha : In a agents) by (rewrite <- Hk; unfold keys; apply in_map_iff; exists (a, bufs); auto).
    destruct (Ho a Ha) as (ob & -> & Hob). apply write_members_ok; auto. apply (Hf _ Hin).
Qed.

(* shm_write_read on the whole memory: after worker i wrote its observation, the parent reads it at
   position i for every agent, and every other position of every agent is unchanged *)
Theorem shm_write_read_lemma i j n k agents o m a :
  i < n -> j < n -> wf_mem n k agents m -> wf_obs k agents o -> In a agents ->
  row_of n k (write_shm i k o m) a j = if Nat.eqb j i then get a o [] else row_of n k m a j.
Proof.
  intros Hi Hj Hm Ho Ha.
  destruct (wf_mem_lookup n k agents m a Hm Ha) as (bufs & Hb & Hok).
  destruct (Ho a Ha) as (ob & Hob & Hobok).
  rewrite (row_of_lookup n k _ a j (write_members i (mshapes k) ob bufs)).
  2:{ rewrite write_shm_lookup, Hb, Hob. reflexivity. }
  rewrite (row_of_lookup n k m a j bufs Hb).
  unfold get. rewrite Hob.
  destruct (Nat.eqb_spec j i) as [->|Hne].
  - apply (rows_write_same i n); auto.
  - apply (rows_write_other i j n); auto.
Qed.

(* schedule independence: two different workers' writes commute on the whole memory *)
Theorem write_commute_lemma i j n k agents o1 o2 m :
  i < n -> j < n -> i <> j -> wf_mem n k agents m -> wf_obs k agents o1 -> wf_obs k agents o2 ->
  write_shm i k o1 (write_shm j k o2 m) = write_shm j k o2 (write_shm i k o1 m).
Proof.
  intros Hi Hj Hne [Hk Hf] H1 H2. unfold write_shm. rewrite !map_map. cbn [fst snd].
  apply map_ext_in. intros [a bufs] Hin. cbn. f_equal.
  assert (Ha : In a agents) by (rewrite <- Hk; unfold keys; apply in_map_iff; exists (a, bufs); auto).
  destruct (H1 a Ha) as (ob1 & -> & Hob1). destruct (H2 a Ha) as (ob2 & -> & Hob2).
  rewrite Forall_forall in Hf. apply (write_members_commute i j n); auto. apply (Hf _ Hin).
Qed.

(* declared shapes: what the parent returns for an agent has one array per member of the space, of
   shape (num_envs, *member shape) — with () turned into (1,) except inside Tuple spaces, as coded *)
Theorem shapes_decl_lemma n k agents m a :
  wf_mem n k agents m -> In a agents ->
  exists arrs, lookup a (read_obs n k m) = Some arrs /\
    map fst arrs = map (fun sh => n :: ret_shape k sh) (mshapes k) /\
    Forall (fun sa => length (snd sa) = n * msize (fst sa)) (combine (mshapes k) (map snd arrs)).
Proof.
  intros Hm Ha. destruct (wf_mem_lookup n k agents m a Hm Ha) as (bufs & Hb & Hok).
  exists (read_agent n k bufs). split.
  - unfold read_obs. rewrite (lookup_map_val (fun _ b => read_agent n k b)), Hb. reflexivity.
  - clear Hb. unfold read_agent, bufs_ok in *. revert bufs Hok. generalize (mshapes k) as shapes.
    induction shapes as [|sh shs IH]; intros [|b bs] Hok; cbn in *; try discriminate; auto.
    injection Hok as H1 H2. destruct (IH bs H2) as [I1 I2]. split; [f_equal; auto|].
    constructor; auto.
Qed.
