(* C12 — boolean comparison of the model with observations of the implementation (used by K only). *)
From Coq Require Import List Arith Bool ZArith.
Import ListNotations.
From AgileV Require Import Base.Prelude C12.Model.

Fixpoint list_eqb {T} (eqb : T -> T -> bool) (a b : list T) : bool :=
  match a, b with
  | [], [] => true
  | x :: a', y :: b' => eqb x y && list_eqb eqb a' b'
  | _, _ => false
  end.
Definition opt_eqb {T} (eqb : T -> T -> bool) (a b : option T) : bool :=
  match a, b with Some x, Some y => eqb x y | None, None => true | _, _ => false end.
Definition pair_eqb {S T} (e1 : S -> S -> bool) (e2 : T -> T -> bool) (a b : S * T) : bool :=
  e1 (fst a) (fst b) && e2 (snd a) (snd b).

(* dictionaries compared entry by entry in order (observations keep the dict order of the code) *)
Definition dict_eqb {T} (eqb : T -> T -> bool) : dict T -> dict T -> bool := list_eqb (pair_eqb Nat.eqb eqb).
(* dictionaries compared as maps over a given key set *)
Definition dict_eqm {T} (eqb : T -> T -> bool) (ks : list nat) (a b : dict T) : bool :=
  forallb (fun k => opt_eqb eqb (lookup k a) (lookup k b)) ks.

Definition zs_eqb := list_eqb Z.eqb.
Definition bs_eqb := list_eqb Bool.eqb.
Definition varr_eqb : varr -> varr -> bool := pair_eqb (list_eqb Nat.eqb) zs_eqb.
Definition obs_eqb : obs_t -> obs_t -> bool := list_eqb zs_eqb.
Definition info_eqb : info_t -> info_t -> bool := list_eqb (pair_eqb Nat.eqb Z.eqb).

Definition info_keys : list nat := [0; 1; 2].
Definition vinfo_eqb (agents : list nat) (a b : vinfo) : bool :=
  dict_eqm (dict_eqm (pair_eqb zs_eqb bs_eqb) info_keys) agents (fst a) (fst b)
  && dict_eqm bs_eqb agents (snd a) (snd b)
  && Nat.eqb (length (fst a)) (length (fst b)) && Nat.eqb (length (snd a)) (length (snd b)).

Definition vobs_eqb (agents : list nat) (a b : dict (list varr)) : bool :=
  dict_eqm (list_eqb varr_eqb) agents a b && Nat.eqb (length a) (length b).

(* observed result of vec_env.step *)
Definition ostep := (dict (list varr) * dict (list Z) * dict (list bool) * dict (list bool) * vinfo)%type.

Definition vout_eqb (agents : list nat) (o : vout) (ob : ostep) : bool :=
  let '(oo, orw, ote, otr, oi) := ob in
  vobs_eqb agents (vobs o) oo
  && dict_eqm zs_eqb agents (vrew o) orw && Nat.eqb (length (vrew o)) (length orw)
  && dict_eqm bs_eqb agents (vterm o) ote && Nat.eqb (length (vterm o)) (length ote)
  && dict_eqm bs_eqb agents (vtrunc o) otr && Nat.eqb (length (vtrunc o)) (length otr)
  && vinfo_eqb agents (vinfos o) oi.

Fixpoint check_steps (k : okind) (agents : list nat) (Es : list senv) (st : vstate)
         (steps : list (dict (list Z) * ostep)) (counters : list (nat * nat)) : bool :=
  match steps with
  | [] => list_eqb (pair_eqb Nat.eqb Nat.eqb) (map (fun s => (ord s, tm s)) (vstates st)) counters
  | (acts, ob) :: rest =>
      let '(st', o) := vec_step k agents Es st acts in
      vout_eqb agents o ob && check_steps k agents Es st' rest counters
  end.

(* a whole run: reset(seed) then the steps; [counters] = (episode number, t) of every sub-environment
   at the end, read from the worker processes *)
Definition check_vec (k : okind) (agents : list nat) (Es : list senv) (seed : seedspec) (opt : option Z)
           (oreset : dict (list varr) * vinfo) (steps : list (dict (list Z) * ostep))
           (counters : list (nat * nat)) : bool :=
  let '(st, (o, vi)) := vec_reset k agents Es (vec_init k agents Es) seed opt in
  vobs_eqb agents o (fst oreset) && vinfo_eqb agents vi (snd oreset)
  && check_steps k agents Es st steps counters.

(* a whole history: reset(seed, options) and step(actions) calls in any order, from construction *)
Inductive oevent :=
| OEStep (acts : dict (list Z)) (ob : ostep)
| OEReset (sd : seedspec) (opt : option Z) (ob : dict (list varr) * vinfo).
Fixpoint check_events (k : okind) (agents : list nat) (Es : list senv) (st : vstate)
         (evs : list oevent) (counters : list (nat * nat)) : bool :=
  match evs with
  | [] => list_eqb (pair_eqb Nat.eqb Nat.eqb) (map (fun s => (ord s, tm s)) (vstates st)) counters
  | OEStep acts ob :: rest =>
      let '(st', o) := vec_step k agents Es st acts in
      vout_eqb agents o ob && check_events k agents Es st' rest counters
  | OEReset sd opt ob :: rest =>
      let '(st', (o, vi)) := vec_reset k agents Es st sd opt in
      vobs_eqb agents o (fst ob) && vinfo_eqb agents vi (snd ob) && check_events k agents Es st' rest counters
  end.
Definition check_vec_events (k : okind) (agents : list nat) (Es : list senv) (evs : list oevent)
           (counters : list (nat * nat)) : bool :=
  check_events k agents Es (vec_init k agents Es) evs counters.

(* ---- the single-environment auto-reset wrapper ---- *)
Definition trans_eqb (a b : trans) : bool :=
  dict_eqb obs_eqb (tobs a) (tobs b) && dict_eqb Z.eqb (trew a) (trew b)
  && dict_eqb Bool.eqb (tterm a) (tterm b) && dict_eqb Bool.eqb (ttrunc a) (ttrunc b)
  && dict_eqb info_eqb (tinfo a) (tinfo b).

Fixpoint check_wsteps (E : senv) (s : sstate) (steps : list (list Z * trans)) (counter : nat * nat) : bool :=
  match steps with
  | [] => pair_eqb Nat.eqb Nat.eqb (ord s, tm s) counter
  | (acts, ob) :: rest =>
      let '(s', o) := wrapper_step E s acts in trans_eqb o ob && check_wsteps E s' rest counter
  end.

Inductive owevent := OWStep (acts : list Z) (ob : trans) | OWReset (ra : rarg) (ob : dict obs_t * dict info_t).
Fixpoint check_wevents (E : senv) (s : sstate) (evs : list owevent) (counter : nat * nat) : bool :=
  match evs with
  | [] => pair_eqb Nat.eqb Nat.eqb (ord s, tm s) counter
  | OWStep acts ob :: rest => let '(s', o) := wrapper_step E s acts in trans_eqb o ob && check_wevents E s' rest counter
  | OWReset ra ob :: rest =>
      let '(s', (o, i)) := env_reset E s ra in
      dict_eqb obs_eqb o (fst ob) && dict_eqb info_eqb i (snd ob) && check_wevents E s' rest counter
  end.
Definition check_wrapper_events (E : senv) (evs : list owevent) (counter : nat * nat) : bool :=
  check_wevents E init_state evs counter.

Definition check_wrapper (E : senv) (seed : rarg) (oreset : dict obs_t * dict info_t)
           (steps : list (list Z * trans)) (counter : nat * nat) : bool :=
  let '(s, (o, i)) := env_reset E init_state seed in
  dict_eqb obs_eqb o (fst oreset) && dict_eqb info_eqb i (snd oreset) && check_wsteps E s steps counter.
