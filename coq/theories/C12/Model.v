(* C12 — executable model of the vectorised PettingZoo environment
   (agilerl/vector/pz_async_vec_env.py, agilerl/vector/pz_vec_env.py) and of
   PettingZooAutoResetParallelWrapper (agilerl/wrappers/pettingzoo_wrappers.py), over a scripted
   environment family whose Python twin is harness/c12_env.py.
   Model only (no proofs) so that it still runs when a proof breaks. *)
From Coq Require Import List Arith Bool ZArith.
Import ListNotations.
From AgileV Require Import Base.Prelude.

(* ------------------------------------------------------------------ Python dicts keyed by agent index *)
Definition dict (X : Type) := list (nat * X).

Section Dict.
Context {X : Type}.
Fixpoint lookup (a : nat) (d : dict X) : option X :=
  match d with
  | [] => None
  | (b, x) :: r => if Nat.eqb a b then Some x else lookup a r
  end.
Definition keys (d : dict X) : list nat := map fst d.
Definition vals (d : dict X) : list X := map snd d.
Definition get (a : nat) (d : dict X) (dflt : X) : X :=
  match lookup a d with Some x => x | None => dflt end.
(* d[a] = x  (insertion order kept, new keys appended) *)
Fixpoint set (a : nat) (x : X) (d : dict X) : dict X :=
  match d with
  | [] => [(a, x)]
  | (b, y) :: r => if Nat.eqb a b then (b, x) :: r else (b, y) :: set a x r
  end.
End Dict.

(* ------------------------------------------------------------------ observation spaces and transitions *)
(* observation space: a plain space, or a Dict / Tuple of member spaces; every member is described by
   its shape ([] = Discrete or a rank-0 Box) and by whether its dtype is unsigned (uint8) *)
Inductive ostruct := SPlain | SDict | STuple.
Record okind := { ostr : ostruct; mshapes : list (list nat); munsigned : list bool }.
Definition KVector : okind := {| ostr := SPlain; mshapes := [[4]]; munsigned := [false] |}.
Definition KImage : okind := {| ostr := SPlain; mshapes := [[2; 2; 2]]; munsigned := [true] |}.
Definition KDiscrete : okind := {| ostr := SPlain; mshapes := [[]]; munsigned := [false] |}.
Definition KDict : okind := {| ostr := SDict; mshapes := [[2]; []]; munsigned := [false; false] |}.
Definition KTuple : okind := {| ostr := STuple; mshapes := [[2]; [1; 2]; []]; munsigned := [false; false; false] |}.
Definition obs_t := list (list Z).     (* members of the observation, each flattened row-major *)
Definition info_t := list (nat * Z).   (* key id (0 = "tag", 1 = "first") -> value *)

Definition msize (sh : list nat) : nat := fold_right Nat.mul 1 sh.      (* int(np.prod(shape)) *)

Fixpoint imap {A B} (f : nat -> A -> B) (i : nat) (l : list A) : list B :=
  match l with [] => [] | x :: r => f i x :: imap f (S i) r end.

(* member m (shape sh): a member of size 1 that is not unsigned carries all four features packed
   into one integer; otherwise element j is feature (j + m) mod 4 plus j / 4 *)
Definition enc_member (u : bool) (m : nat) (sh : list nat) (f0 f1 f2 f3 : Z) : list Z :=
  if Nat.eqb (msize sh) 1 && negb u
  then [(((f0 * 40 + f1) * 256 + f2) * 8 + f3)%Z]
  else map (fun j => (nth ((j + m) mod 4) [f0; f1; f2; f3] 0 + Z.of_nat (j / 4))%Z) (seq 0 (msize sh)).
Definition encode (k : okind) (f0 f1 f2 f3 : Z) : obs_t :=
  imap (fun m sh => enc_member (nth m (munsigned k) false) m sh f0 f1 f2 f3) 0 (mshapes k).

(* one transition as returned by env.step: five dicts over the agents alive at the start of the step *)
Record trans := mkTrans { tobs : dict obs_t; trew : dict Z; tterm : dict bool; ttrunc : dict bool;
                          tinfo : dict info_t }.

(* ------------------------------------------------------------------ placeholders, done-tests *)
(* get_placeholder_value: -np.ones(shape) written through np.asarray(.., dtype): uint8 wraps to 255 *)
Definition ph_value (u : bool) : Z := if u then 255%Z else (-1)%Z.
Definition placeholder_obs (k : okind) : obs_t :=
  imap (fun m sh => repeat (ph_value (nth m (munsigned k) false)) (msize sh)) 0 (mshapes k).

(* process_transition: {agent: d[agent] if agent in d else placeholder for agent in agents} *)
Definition fill {X} (agents : list nat) (ph : X) (d : dict X) : dict X :=
  map (fun a => (a, match lookup a d with Some x => x | None => ph end)) agents.
Definition process_transition (k : okind) (agents : list nat) (tr : trans) : trans :=
  {| tobs := fill agents (placeholder_obs k) (tobs tr);
     trew := fill agents 0%Z (trew tr);
     tterm := fill agents true (tterm tr);
     ttrunc := fill agents false (ttrunc tr);
     tinfo := fill agents [] (tinfo tr) |}.

(* all([terminated[agent] | truncated[agent] for agent in terminated.keys()])  — the test after
   fixes/C12-worker-done-test-by-key.patch; the same test as the wrapper's *)
Definition all_done_keys (tr : trans) : bool :=
  forallb (fun a => get a (tterm tr) false || get a (ttrunc tr) false) (keys (tterm tr)).
(* all([term | trunc for term, trunc in zip(terminated.values(), truncated.values())])  — the test
   of the tree without that patch: pairs the two dicts by POSITION *)
Definition all_done_zip (tr : trans) : bool :=
  forallb (fun p => fst p || snd p) (combine (vals (tterm tr)) (vals (ttrunc tr))).


(* ================================================================== generic in the environment ======
   An environment is given by its step / reset functions, its observation-space description and the
   list of agents alive in a state (PettingZoo's env.agents). Everything the vector environment and
   the wrapper do is defined over this interface; the scripted family below is one instance. *)
(* arguments of env.reset: (seed, options["opt"]); None = not given. The auto-reset calls env.reset() *)
Definition rarg := (option Z * option Z)%type.
Definition no_rarg : rarg := (None, None).

Section Env.
Context {env state : Type}.
Variable e_step : env -> state -> list Z -> state * trans.          (* env.step; actions positional *)
Variable e_reset : env -> state -> rarg -> state * (dict obs_t * dict info_t).   (* env.reset(seed, options) *)
Variable e_kind : env -> okind.
Variable e_live : state -> list nat.                               (* env.agents *)

(* the reference: the environment stepped alone under auto-reset. When no agent is left alive the
   environment is reset and the observation (and info) returned is the first one of the new episode *)
Definition g_no_agent_left (s : state) : bool := match e_live s with [] => true | _ => false end.
Definition g_single_step (E : env) (s : state) (acts : list Z) : state * trans :=
  let '(s1, tr) := e_step E s acts in
  if g_no_agent_left s1 then
    let '(s2, (o, i)) := e_reset E s1 no_rarg in
    (s2, {| tobs := o; trew := trew tr; tterm := tterm tr; ttrunc := ttrunc tr; tinfo := i |})
  else (s1, tr).

Fixpoint g_run (step : env -> state -> list Z -> state * trans)
         (E : env) (s : state) (actss : list (list Z)) : state * list trans :=
  match actss with
  | [] => (s, [])
  | a :: rest => let '(s', o) := step E s a in
                 let '(sf, os) := g_run step E s' rest in (sf, o :: os)
  end.

(* _async_worker, command == "step": step, reset if every agent is done, THEN build the transition,
   fill in the agents that left, (write the observation,) send the rest *)
Definition g_worker_step_with (test : trans -> bool) (E : env) (agents : list nat) (s : state) (acts : list Z)
  : state * trans :=
  let '(s1, tr) := e_step E s acts in
  let '(s2, o, i) := if test tr
                     then let '(s2, (o, i)) := e_reset E s1 no_rarg in (s2, o, i)
                     else (s1, tobs tr, tinfo tr) in
  (s2, process_transition (e_kind E) agents
         {| tobs := o; trew := trew tr; tterm := tterm tr; ttrunc := ttrunc tr; tinfo := i |}).
Definition g_worker_step := g_worker_step_with all_done_keys.
Definition g_worker_step_zip := g_worker_step_with all_done_zip.

(* command == "reset" *)
Definition g_worker_reset (E : env) (agents : list nat) (s : state) (ra : rarg)
  : state * (dict obs_t * dict info_t) :=
  let '(s', (o, i)) := e_reset E s ra in
  (s', (fill agents (placeholder_obs (e_kind E)) o, fill agents [] i)).

(* the worker of the tree before commit 8e2ceb2: transition captured BEFORE the reset, and
   process_transition assigned to its loop variable (no effect); the parent then indexes every
   possible agent, which raises KeyError (None) when an agent has left *)
Definition g_worker_step_pinned (E : env) (agents : list nat) (s : state) (acts : list Z)
  : state * option trans :=
  let '(s1, tr) := e_step E s acts in
  let s2 := if all_done_zip tr then fst (e_reset E s1 no_rarg) else s1 in
  (s2, if forallb (fun a => match lookup a (trew tr) with Some _ => true | None => false end) agents
       then Some tr else None).

(* PettingZooAutoResetParallelWrapper.step:
   all(terminations[agent] or truncations[agent] for agent in terminations.keys()) = all_done_keys *)
Definition g_wrapper_step (E : env) (s : state) (acts : list Z) : state * trans :=
  let '(s1, tr) := e_step E s acts in
  if all_done_keys tr then
    let '(s2, (o, i)) := e_reset E s1 no_rarg in
    (s2, {| tobs := o; trew := trew tr; tterm := tterm tr; ttrunc := ttrunc tr; tinfo := i |})
  else (s1, tr).
(* before commit 8e2ceb2: np.all(list(terminations.values()) or list(truncations.values())) —
   a non-empty list is truthy, so the truncations are never looked at *)
Definition g_wrapper_step_pinned (E : env) (s : state) (acts : list Z) : state * trans :=
  let '(s1, tr) := e_step E s acts in
  let l := match vals (tterm tr) with [] => vals (ttrunc tr) | l => l end in
  if forallb (fun b => b) l then
    let '(s2, (o, i)) := e_reset E s1 no_rarg in
    (s2, {| tobs := o; trew := trew tr; tterm := tterm tr; ttrunc := ttrunc tr; tinfo := i |})
  else (s1, tr).

(* any history of calls on one environment under auto-reset: steps and explicit resets, in any order *)
Inductive sevent := SeStep (acts : list Z) | SeReset (ra : rarg).
Inductive soutcome := SoStep (t : trans) | SoReset (o : dict obs_t * dict info_t).
Fixpoint g_events (E : env) (s : state) (evs : list sevent) : state * list soutcome :=
  match evs with
  | [] => (s, [])
  | SeStep acts :: rest => let '(s', t) := g_single_step E s acts in
                           let '(sf, os) := g_events E s' rest in (sf, SoStep t :: os)
  | SeReset ra :: rest => let '(s', o) := e_reset E s ra in
                          let '(sf, os) := g_events E s' rest in (sf, SoReset o :: os)
  end.
End Env.

(* ------------------------------------------------------------------ shared memory *)
(* per agent: one flat buffer of num_envs * size per member of the observation space *)
Definition shm := dict (list (list Z)).

Definition create_shared_memory (n : nat) (k : okind) (agents : list nat) : shm :=
  map (fun a => (a, map (fun sh => repeat 0%Z (n * msize sh)) (mshapes k))) agents.

(* np.copyto(dest[index*size : (index+1)*size], row) *)
Definition write_row (i size : nat) (row flat : list Z) : list Z :=
  firstn (i * size) flat ++ row ++ skipn ((i + 1) * size) flat.
(* what reshape((num_envs, *shape))[i] reads back *)
Definition read_row (i size : nat) (flat : list Z) : list Z := firstn size (skipn (i * size) flat).

Fixpoint write_members (i : nat) (shapes : list (list nat)) (o : obs_t) (bufs : list (list Z)) : list (list Z) :=
  match shapes, o, bufs with
  | sh :: shs, row :: o', buf :: bufs' => write_row i (msize sh) row buf :: write_members i shs o' bufs'
  | _, _, _ => []
  end.

(* write_to_shared_memory(index, observation, shared_memory, obs_space): the buffers of different
   agents are different objects, so the loop over observation.items() is a per-agent update *)
Definition write_shm (i : nat) (k : okind) (o : dict obs_t) (m : shm) : shm :=
  map (fun ab => (fst ab, match lookup (fst ab) o with
                          | Some ob => write_members i (mshapes k) ob (snd ab)
                          | None => snd ab
                          end)) m.

(* the loop exactly as written: for agent, obs in observation.items(): ... shared_memory[agent] ...
   (equal to write_shm, see write_shm_loop_spec) *)
Definition write_shm_loop (i : nat) (k : okind) (o : dict obs_t) (m : shm) : shm :=
  fold_left (fun m ao => match lookup (fst ao) m with
                         | Some bufs => set (fst ao) (write_members i (mshapes k) (snd ao) bufs) m
                         | None => m            (* KeyError: not reachable, the keys are the agents *)
                         end) o m.

(* Observations.__getitem__: reshape to (num_envs, *shape); () becomes (1,) except inside a Tuple *)
Definition ret_shape (k : okind) (sh : list nat) : list nat :=
  match sh with [] => match ostr k with STuple => [] | _ => [1] end | _ => sh end.
Definition varr := (list nat * list Z)%type.        (* returned array: shape, row-major data *)
Definition read_agent (n : nat) (k : okind) (bufs : list (list Z)) : list varr :=
  map (fun sb => (n :: ret_shape k (fst sb), snd sb)) (combine (mshapes k) bufs).
Definition read_obs (n : nat) (k : okind) (m : shm) : dict (list varr) :=
  map (fun ab => (fst ab, read_agent n k (snd ab))) m.
(* row i of a returned observation, member by member *)
Definition obs_row (i : nat) (k : okind) (arrs : list varr) : obs_t :=
  map (fun sa => read_row i (msize (fst sa)) (snd (snd sa))) (combine (mshapes k) arrs).

(* ------------------------------------------------------------------ the parent *)
(* PettingZooVecEnv.step: {agent: [per env]} -> [per env [per agent]] *)
Definition transpose_actions {X} (agents : list nat) (actions : dict (list X)) (d : X) : list (list X) :=
  let n := match actions with [] => 0 | (_, l) :: _ => length l end in
  map (fun e => map (fun a => nth e (get a actions []) d) agents) (seq 0 n).

(* vectorised infos (_add_info): agent -> key -> (values, mask), and the per-agent masks "_agent" *)
Definition vinfo := (dict (dict (list Z * list bool)) * dict (list bool))%type.
Definition add_info_agent (n env : nat) (sub : dict (list Z * list bool)) (d : info_t) : dict (list Z * list bool) :=
  fold_left (fun sub kv =>
               let '(arr, mask) := get (fst kv) sub (repeat 0%Z n, repeat false n) in
               set (fst kv) (update env (snd kv) arr, update env true mask) sub) d sub.
Definition add_info (n : nat) (vi : vinfo) (info : dict info_t) (env : nat) : vinfo :=
  fold_left (fun vi ad =>
               let '(a, d) := ad in
               (set a (add_info_agent n env (get a (fst vi) []) d) (fst vi),
                set a (update env true (get a (snd vi) (repeat false n))) (snd vi))) info vi.
Definition gather_info (n : nat) (infos : list (dict info_t)) : vinfo :=
  fst (fold_left (fun acc info => (add_info n (fst acc) info (snd acc), S (snd acc))) infos (([], []), 0)).

Definition gather {X} (agents : list nat) (sel : trans -> dict X) (d : X) (outs : list trans) : dict (list X) :=
  map (fun a => (a, map (fun o => get a (sel o) d) outs)) agents.

Record gvstate (state : Type) := { vstates : list state; vmem : shm }.
Arguments vstates {state} _.
Arguments vmem {state} _.
Record vout := { vobs : dict (list varr); vrew : dict (list Z); vterm : dict (list bool);
                 vtrunc : dict (list bool); vinfos : vinfo }.

(* ================================================================== generic in the worker ===========
   The parent side (reset_wait / step_wait / PettingZooVecEnv.step) only sees what the workers send
   and write; it is defined over arbitrary worker functions. *)
(* reset_async(seed, options): seed None -> [None]*n; an int -> [seed + i]; a list is taken as it is
   (the code asserts len(seed) == num_envs); the same options object goes to every worker *)
Inductive seedspec := SNone | SInt (z : Z) | SList (l : list Z).
Definition expand_seed (n : nat) (sd : seedspec) : list (option Z) :=
  match sd with
  | SNone => repeat None n
  | SInt z => map (fun i => Some (z + Z.of_nat i)%Z) (seq 0 n)
  | SList l => map Some l
  end.
Definition reset_args (n : nat) (sd : seedspec) (opt : option Z) : list rarg :=
  map (fun s => (s, opt)) (expand_seed n sd).

Inductive vevent := EvStep (actions : dict (list Z)) | EvReset (sd : seedspec) (opt : option Z).
Inductive voutcome := OStep (o : vout) | OReset (o : dict (list varr) * vinfo).

Section Parent.
Context {env state : Type}.
Variable wstep : env -> list nat -> state -> list Z -> state * trans.
Variable wreset : env -> list nat -> state -> rarg -> state * (dict obs_t * dict info_t).
Variable ekind : env -> okind.
Variable s_init : state.

(* the workers, in index order (they write disjoint slices: see write_commute) *)
Fixpoint g_workers_step (agents : list nat) (i : nat) (Es : list env) (ss : list state)
         (acts : list (list Z)) (m : shm) : list state * list trans * shm :=
  match Es, ss, acts with
  | E :: Es', s :: ss', a :: acts' =>
      let '(s', out) := wstep E agents s a in
      let m' := write_shm i (ekind E) (tobs out) m in
      let '(rs, ro, mf) := g_workers_step agents (S i) Es' ss' acts' m' in
      (s' :: rs, out :: ro, mf)
  | _, _, _ => ([], [], m)
  end.

Definition g_vec_step (k : okind) (agents : list nat) (Es : list env) (st : gvstate state)
           (actions : dict (list Z)) : gvstate state * vout :=
  let n := length Es in
  let per_env := transpose_actions agents actions 0%Z in
  let '(ss', outs, m') := g_workers_step agents 0 Es (vstates st) per_env (vmem st) in
  ({| vstates := ss'; vmem := m' |},
   {| vobs := read_obs n k m';
      vrew := gather agents trew 0%Z outs;
      vterm := gather agents tterm false outs;
      vtrunc := gather agents ttrunc false outs;
      vinfos := gather_info n (map tinfo outs) |}).

(* reset_async: the workers get ("reset", {"seed": seed_i, "options": options}) *)
Fixpoint g_workers_reset (agents : list nat) (i : nat) (Es : list env) (ss : list state)
         (ras : list rarg) (m : shm) : list state * list (dict info_t) * shm :=
  match Es, ss, ras with
  | E :: Es', s :: ss', ra :: ras' =>
      let '(s', (o, inf)) := wreset E agents s ra in
      let m' := write_shm i (ekind E) o m in
      let '(rs, ri, mf) := g_workers_reset agents (S i) Es' ss' ras' m' in
      (s' :: rs, inf :: ri, mf)
  | _, _, _ => ([], [], m)
  end.

Definition g_vec_reset (k : okind) (agents : list nat) (Es : list env) (st : gvstate state)
           (sd : seedspec) (opt : option Z) : gvstate state * (dict (list varr) * vinfo) :=
  let n := length Es in
  let '(ss', infos, m') := g_workers_reset agents 0 Es (vstates st) (reset_args n sd opt) (vmem st) in
  ({| vstates := ss'; vmem := m' |}, (read_obs n k m', gather_info n infos)).

Definition g_vec_init (k : okind) (agents : list nat) (Es : list env) : gvstate state :=
  {| vstates := map (fun _ => s_init) Es; vmem := create_shared_memory (length Es) k agents |}.

Fixpoint g_vec_run (k : okind) (agents : list nat) (Es : list env) (st : gvstate state)
         (actss : list (dict (list Z))) : gvstate state * list vout :=
  match actss with
  | [] => (st, [])
  | a :: rest => let '(st', o) := g_vec_step k agents Es st a in
                 let '(stf, os) := g_vec_run k agents Es st' rest in (stf, o :: os)
  end.

(* any history of calls on the vector environment: step(actions) and reset(seed, options) in any order *)
Fixpoint g_vec_events (k : okind) (agents : list nat) (Es : list env) (st : gvstate state)
         (evs : list vevent) : gvstate state * list voutcome :=
  match evs with
  | [] => (st, [])
  | EvStep a :: rest => let '(st', o) := g_vec_step k agents Es st a in
                        let '(stf, os) := g_vec_events k agents Es st' rest in (stf, OStep o :: os)
  | EvReset sd opt :: rest => let '(st', o) := g_vec_reset k agents Es st sd opt in
                              let '(stf, os) := g_vec_events k agents Es st' rest in (stf, OReset o :: os)
  end.
End Parent.

(* ================================================================== the scripted environment family *)
Inductive emode := MTerm | MTrunc | MMixed.

Record senv := { eid : Z; nag : nat; lens : list nat; mode : emode; leave : list (option nat); kind : okind;
                 unaligned : bool (* the truncation dict lists the agents in reverse order *);
                 join : list (option nat) (* agent a with join a = Some k is absent until step k of every episode *) }.
Record sstate := { base : Z; ord : nat; tm : nat; live : list nat }.
Definition init_state : sstate := {| base := 0; ord := 0; tm := 0; live := [] |}.

Definition observe (E : senv) (s : sstate) (a : nat) (echo : Z) : obs_t :=
  encode (kind E) (eid E) (base s + Z.of_nat (ord s)) (16 * Z.of_nat (tm s) + Z.of_nat a) echo.
Definition info_of (s : sstate) (a : nat) (first : bool) : info_t :=
  (0, (1000 * Z.of_nat (ord s) + 16 * Z.of_nat (tm s) + Z.of_nat a)%Z) :: (if first then [(1, 1%Z)] else []).

(* the info returned by reset echoes options["opt"] (key 2) when options were given *)
Definition reset_info (s : sstate) (a : nat) (opt : option Z) : info_t :=
  info_of s a true ++ match opt with Some z => [(2, z)] | None => [] end.

(* agents that join late are not alive after a reset; agent a joins at step k of the episode *)
Definition joins_late (E : senv) (a : nat) : bool := match nth a (join E) None with Some _ => true | None => false end.
Definition joins_at (E : senv) (a t : nat) : bool :=
  match nth a (join E) None with Some k => Nat.eqb k t | None => false end.

(* env.reset(seed, options) *)
Definition env_reset (E : senv) (s : sstate) (ra : rarg) : sstate * (dict obs_t * dict info_t) :=
  let s' := {| base := match fst ra with Some z => z | None => base s end;
               ord := S (ord s); tm := 0; live := filter (fun a => negb (joins_late E a)) (seq 0 (nag E)) |} in
  (s', (map (fun a => (a, observe E s' a 0%Z)) (live s'),
        map (fun a => (a, reset_info s' a (snd ra))) (live s'))).

Definition cur_len (E : senv) (s : sstate) : nat := nth (ord s mod length (lens E)) (lens E) 1.
Definition leaves (E : senv) (a t : nat) : bool :=
  match nth a (leave E) None with Some k => Nat.eqb k t | None => false end.
Definition term_of (E : senv) (s : sstate) (endT : bool) (a : nat) : bool :=
  (endT && match mode E with MTerm => true | MTrunc => false | MMixed => Nat.even (a + ord s) end)
  || leaves E a (tm s).
Definition trunc_of (E : senv) (s : sstate) (endT : bool) (a : nat) : bool :=
  endT && match mode E with MTerm => false | MTrunc => true | MMixed => negb (Nat.even (a + ord s)) end.

(* the agents of a step: those alive, then those that join now (they get an observation at once) *)
Definition step_agents (E : senv) (s : sstate) : list nat :=
  live s ++ filter (fun a => joins_at E a (S (tm s)) && negb (existsb (Nat.eqb a) (live s))) (seq 0 (nag E)).

(* env.step(actions); [acts] is positional over the possible agents *)
Definition raw_step (E : senv) (s : sstate) (acts : list Z) : sstate * trans :=
  let s1 := {| base := base s; ord := ord s; tm := S (tm s); live := live s |} in
  let endT := cur_len E s <=? tm s1 in
  let L := step_agents E s in
  let done := fun a => term_of E s1 endT a || trunc_of E s1 endT a in
  ({| base := base s; ord := ord s; tm := S (tm s); live := filter (fun a => negb (done a)) L |},
   {| tobs := map (fun a => (a, observe E s1 a (nth a acts 0%Z))) L;
      trew := map (fun a => (a, (100 * Z.of_nat (tm s1) + 10 * Z.of_nat a + nth a acts 0)%Z)) L;
      tterm := map (fun a => (a, term_of E s1 endT a)) L;
      ttrunc := (if unaligned E then @rev _ else fun l => l) (map (fun a => (a, trunc_of E s1 endT a)) L);
      tinfo := map (fun a => (a, info_of s1 a false)) L |}).


(* ------------------------------------------------------------------ the instance used by the check *)
Definition no_agent_left : sstate -> bool := g_no_agent_left live.
Definition single_step := g_single_step raw_step env_reset live.
Definition single_run := @g_run senv sstate.
Definition worker_step_with (test : trans -> bool) := g_worker_step_with raw_step env_reset kind test.
Definition worker_step := g_worker_step raw_step env_reset kind.
Definition worker_step_zip := g_worker_step_zip raw_step env_reset kind.
Definition worker_reset := g_worker_reset env_reset kind.
Definition worker_step_pinned := g_worker_step_pinned raw_step env_reset.
Definition wrapper_step := g_wrapper_step raw_step env_reset.
Definition wrapper_step_pinned := g_wrapper_step_pinned raw_step env_reset.
Definition vstate := gvstate sstate.
Definition workers_step := g_workers_step worker_step kind.
Definition vec_step := g_vec_step worker_step kind.
Definition workers_reset := g_workers_reset worker_reset kind.
Definition vec_reset := g_vec_reset worker_reset kind.
Definition vec_init := @g_vec_init senv sstate init_state.
Definition vec_run := g_vec_run worker_step kind.
Definition vec_events := g_vec_events worker_step worker_reset kind.
Definition single_events := g_events raw_step env_reset live.
