(* C12 — the behaviour of the tree before commit 8e2ceb2 violates the property (witnesses by computation). *)
From Coq Require Import List Arith Bool ZArith.
Import ListNotations.
From AgileV Require Import Base.Prelude C12.Model.

Definition E_short : senv :=
  {| eid := 0; nag := 1; lens := [1]; mode := MTerm; leave := [None]; kind := KVector; unaligned := false; join := [] |}.
Definition E_leaver : senv :=
  {| eid := 0; nag := 2; lens := [3]; mode := MTerm; leave := [Some 1; None]; kind := KVector; unaligned := false; join := [] |}.
Definition E_trunc : senv :=
  {| eid := 0; nag := 2; lens := [1]; mode := MTrunc; leave := [None; None]; kind := KVector; unaligned := false; join := [] |}.
Definition started (E : senv) : sstate := fst (env_reset E init_state no_rarg).

(* the pinned worker returned the terminal observation, not the first one of the new episode *)
Lemma autoreset_obs_refuted_lemma :
  exists E agents s acts,
    option_map tobs (snd (worker_step_pinned E agents s acts))
    <> Some (tobs (process_transition (kind E) agents (snd (single_step E s acts)))).
Proof. exists E_short, [0], (started E_short), [0%Z]. vm_compute. intros H. discriminate H. Qed.

(* ... and had nothing to return for an agent that left the episode (KeyError in the parent) *)
Lemma leave_early_refuted_lemma :
  exists E agents s acts,
    snd (worker_step_pinned E agents s acts) = None /\
    keys (tobs (process_transition (kind E) agents (snd (single_step E s acts)))) = agents.
Proof.
  exists E_leaver, [0; 1], (fst (single_step E_leaver (started E_leaver) [0%Z; 0%Z])), [0%Z; 0%Z].
  vm_compute. auto.
Qed.

(* the pinned wrapper ignored truncation *)
Lemma wrapper_trunc_refuted_lemma :
  exists E s acts, fst (wrapper_step_pinned E s acts) <> fst (single_step E s acts).
Proof. exists E_trunc, (started E_trunc), [0%Z; 0%Z]. vm_compute. intros H. discriminate H. Qed.

(* remark on the current code: the worker pairs terminated.values() with truncated.values() by
   POSITION; this equals the per-key test only when both dicts list the agents in the same order
   (true for the scripted family, see all_done_zip_spec). With differently ordered dicts it differs: *)
Lemma zip_condition_needs_aligned_dicts_lemma :
  exists tr, keys (tterm tr) = [0; 1] /\ keys (ttrunc tr) = [1; 0] /\
             all_done_keys tr = true /\ all_done_zip tr = false.
Proof.
  exists {| tobs := []; trew := []; tterm := [(0, true); (1, false)]; ttrunc := [(1, true); (0, false)]; tinfo := [] |}.
  vm_compute. auto.
Qed.

(* the tree without fixes/C12-worker-done-test-by-key.patch: an environment whose truncation dict lists
   the agents in another order is not reset although every agent has finished *)
Definition E_unaligned : senv :=
  {| eid := 0; nag := 2; lens := [1]; mode := MMixed; leave := [None; None]; kind := KVector; unaligned := true; join := [] |}.
Lemma zip_autoreset_refuted_lemma :
  exists E agents s acts,
    no_agent_left (fst (raw_step E s acts)) = true /\
    ord (fst (worker_step_zip E agents s acts)) = ord s /\
    ord (fst (single_step E s acts)) = S (ord s).
Proof. exists E_unaligned, [0; 1], (started E_unaligned), [0%Z; 0%Z]. vm_compute. auto. Qed.
