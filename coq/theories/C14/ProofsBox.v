(* C14 — proofs about the continuous part of the model: clip, rescale, scale, DDPG/TD3, MADDPG/MATD3,
   PPO inference mode; and about the support of masked categorical heads. *)
From Coq Require Import List Bool Arith Lia QArith Lqa.
Import ListNotations.
From AgileV Require Import C14.Model C14.Proofs.
Local Open Scope Q_scope.

(* ------------------------------------------------------------------ bounds *)
Definition in_bounds (b : bounds) (x : Q) : Prop :=
  match fst b with Some lo => lo <= x | None => True end /\
  match snd b with Some hi => x <= hi | None => True end.
Definition wf_bounds (b : bounds) : Prop :=
  match b with (Some lo, Some hi) => lo <= hi | _ => True end.
Definition in_box (box : list bounds) (xs : list Q) : Prop := Forall2 in_bounds box xs.

Lemma qmax_spec x y : (x <= y /\ qmax x y = y) \/ (y < x /\ qmax x y = x).
Proof.
  unfold qmax. destruct (Qle_bool x y) eqn:E.
  - left. apply Qle_bool_iff in E. auto.
  - right. apply Qle_bool_false in E. auto.
Qed.
Lemma qmin_spec x y : (x <= y /\ qmin x y = x) \/ (y < x /\ qmin x y = y).
Proof.
  unfold qmin. destruct (Qle_bool x y) eqn:E.
  - left. apply Qle_bool_iff in E. auto.
  - right. apply Qle_bool_false in E. auto.
Qed.

Lemma clip1_in_bounds b x : wf_bounds b -> in_bounds b (clip1 b x).
Proof.
  destruct b as [[lo|] [hi|]]; unfold wf_bounds, in_bounds, clip1; cbn [fst snd]; intro W.
  - destruct (qmax_spec x lo) as [[H1 ->]|[H1 ->]];
      [destruct (qmin_spec lo hi) as [[H2 ->]|[H2 ->]] | destruct (qmin_spec x hi) as [[H2 ->]|[H2 ->]]];
      split; lra.
  - destruct (qmax_spec x lo) as [[H1 ->]|[H1 ->]]; split; auto; lra.
  - destruct (qmin_spec x hi) as [[H2 ->]|[H2 ->]]; split; auto; lra.
  - auto.
Qed.

(* a value already inside the bounds is not moved *)
Lemma clip1_id b x : in_bounds b x -> clip1 b x == x.
Proof.
  destruct b as [[lo|] [hi|]]; unfold in_bounds, clip1; cbn [fst snd]; intros [L H].
  - destruct (qmax_spec x lo) as [[H1 E1]|[H1 E1]]; rewrite E1.
    + destruct (qmin_spec lo hi) as [[H2 ->]|[H2 ->]]; lra.
    + destruct (qmin_spec x hi) as [[H2 ->]|[H2 ->]]; lra.
  - destruct (qmax_spec x lo) as [[H1 ->]|[H1 ->]]; lra.
  - destruct (qmin_spec x hi) as [[H2 ->]|[H2 ->]]; lra.
  - reflexivity.
Qed.

Lemma clip_vec_in_box box : forall xs,
  Forall wf_bounds box -> length xs = length box -> in_box box (clip_vec box xs).
Proof.
  unfold in_box, clip_vec. induction box as [|b box IH]; intros [|x xs] W L; cbn in *; try discriminate; constructor.
  - apply clip1_in_bounds. inversion W; auto.
  - apply IH; [inversion W; auto | lia].
Qed.

Lemma clip_vec_length box xs : length (clip_vec box xs) = Nat.min (length box) (length xs).
Proof. unfold clip_vec. rewrite map_length, combine_length. reflexivity. Qed.
Lemma add_vec_length xs ns : length (add_vec xs ns) = Nat.min (length xs) (length ns).
Proof. unfold add_vec. rewrite map_length, combine_length. reflexivity. Qed.

(* ------------------------------------------------------------------ rescale_action *)
Lemma rescale1_in_bounds pmin pmax b x :
  pmin < pmax -> pmin <= x <= pmax -> wf_bounds b ->
  match b with (Some _, Some _) => in_bounds b (rescale1 pmin pmax b x) | _ => True end.
Proof.
  intros Hp Hx W. destruct b as [[lo|] [hi|]]; auto. unfold wf_bounds in W.
  unfold in_bounds, rescale1; cbn [fst snd].
  set (w := pmax - pmin). set (s := x - pmin). set (d := hi - lo).
  assert (Hw : 0 < w) by (unfold w; lra).
  assert (Hs : 0 <= s <= w) by (unfold s, w; lra).
  assert (Hd : 0 <= d) by (unfold d; lra).
  assert (Ht : 0 <= d * s / w <= d).
  { split.
    - apply Qle_shift_div_l; auto. rewrite Qmult_0_l. apply Qmult_le_0_compat; lra.
    - apply Qle_shift_div_r; auto. nra. }
  set (t := d * s / w) in *. clearbody t. unfold d in *. split; lra.
Qed.

Definition squashing (a : act) : bool := match a with ActOther => false | _ => true end.
Definition in_act_range (a : act) (x : Q) : Prop := fst (act_range a) <= x <= snd (act_range a).

Lemma rescale_vec_length a box xs : length xs = length box -> length (rescale_vec a box xs) = length box.
Proof.
  intro L. unfold rescale_vec. destruct a; auto; destruct (finite_box box); auto; cbn;
    rewrite map_length, combine_length; lia.
Qed.

Lemma finite_box_cons b box : finite_box (b :: box) = true ->
  (exists lo hi, b = (Some lo, Some hi)) /\ finite_box box = true.
Proof.
  cbn. intro H. apply andb_true_iff in H. destruct H as [H1 H2]. split; auto.
  destruct b as [[lo|] [hi|]]; try discriminate. eauto.
Qed.

Lemma rescale_map_in_box pmin pmax box : forall xs,
  pmin < pmax -> finite_box box = true -> Forall wf_bounds box -> length xs = length box ->
  (forall x, In x xs -> pmin <= x <= pmax) ->
  in_box box (map (fun '(b, x) => rescale1 pmin pmax b x) (combine box xs)).
Proof.
  unfold in_box. induction box as [|b box IH]; intros [|x xs] Hp F W L R; cbn in *; try discriminate; constructor.
  - apply finite_box_cons in F. destruct F as [(lo & hi & ->) _].
    apply (rescale1_in_bounds pmin pmax (Some lo, Some hi) x); auto. inversion W; auto.
  - apply finite_box_cons in F. destruct F as [_ F]. apply IH; auto. inversion W; auto.
Qed.

(* squashed network output, finite box with lo <= hi  ==>  the rescaled action is inside the box *)
Lemma rescale_vec_in_box a box xs :
  squashing a = true -> finite_box box = true -> Forall wf_bounds box -> length xs = length box ->
  (forall x, In x xs -> in_act_range a x) ->
  in_box box (rescale_vec a box xs).
Proof.
  intros S F W L R. unfold rescale_vec. destruct a; try discriminate; rewrite F; cbn [act_range];
    apply rescale_map_in_box; auto; try lra; intros x Hx; apply (R x Hx).
Qed.

(* guards as coded: unbounded activation or an infinite bound anywhere => identity *)
Lemma rescale_vec_other box xs : rescale_vec ActOther box xs = xs.
Proof. reflexivity. Qed.
Lemma rescale_vec_infinite a box xs : finite_box box = false -> rescale_vec a box xs = xs.
Proof. intro F. unfold rescale_vec. destruct a; auto; rewrite F; auto. Qed.

(* ------------------------------------------------------------------ scale_action *)
Lemma scale1_in_bounds lo hi t : lo <= hi -> -1 <= t <= 1 -> in_bounds (Some lo, Some hi) (scale1 (Some lo, Some hi) t).
Proof.
  intros W T. unfold in_bounds, scale1; cbn [fst snd].
  set (d := hi - lo). assert (0 <= d) by (unfold d; lra).
  assert (0 <= (t + 1) * d) by (apply Qmult_le_0_compat; lra).
  assert ((t + 1) * d <= 2 * d) by nra.
  unfold d in *. clear d. split; nra.
Qed.

Lemma scale_vec_in_box box : forall ts,
  finite_box box = true -> Forall wf_bounds box -> length ts = length box ->
  (forall t, In t ts -> -1 <= t <= 1) -> in_box box (scale_vec box ts).
Proof.
  unfold in_box, scale_vec. induction box as [|b box IH]; intros [|t ts] F W L R; cbn in *; try discriminate; constructor.
  - apply finite_box_cons in F. destruct F as [(lo & hi & ->) _]. apply scale1_in_bounds; auto.
    inversion W; auto.
  - apply finite_box_cons in F. destruct F as [_ F]. apply IH; auto. inversion W; auto.
Qed.

(* ------------------------------------------------------------------ DDPG / TD3 *)
Lemma ddpg_row_in_box training a box y noise :
  Forall wf_bounds box -> length y = length box -> length noise = length box ->
  in_box box (ddpg_row training a box y noise).
Proof.
  intros W Ly Ln. unfold ddpg_row. apply clip_vec_in_box; auto.
  destruct training.
  - rewrite add_vec_length, rescale_vec_length; auto. lia.
  - apply rescale_vec_length; auto.
Qed.

Lemma clip_vec_id box : forall xs, in_box box xs -> Forall2 Qeq (clip_vec box xs) xs.
Proof.
  unfold in_box, clip_vec. induction 1; cbn; constructor; auto. apply clip1_id; auto.
Qed.

(* without noise the final clip does not move the policy's (rescaled) action *)
Lemma ddpg_eval_is_policy a box y noise :
  squashing a = true -> finite_box box = true -> Forall wf_bounds box -> length y = length box ->
  (forall x, In x y -> in_act_range a x) ->
  Forall2 Qeq (ddpg_row false a box y noise) (rescale_vec a box y).
Proof.
  intros. unfold ddpg_row. apply clip_vec_id. apply rescale_vec_in_box; auto.
Qed.

Lemma ddpg_batch_shape training a box rows : length (ddpg_get_action training a box rows) = length rows.
Proof. apply map_length. Qed.

(* ------------------------------------------------------------------ MADDPG / MATD3 *)
Lemma maddpg_cont_train_in_box a box y noise :
  Forall wf_bounds box -> length y = length box -> length noise = length box ->
  in_box box (maddpg_cont_row true a box y noise).
Proof.
  intros W Ly Ln. unfold maddpg_cont_row. apply clip_vec_in_box; auto.
  rewrite add_vec_length, rescale_vec_length; auto. lia.
Qed.

Lemma maddpg_cont_eval_in_box a box y noise :
  squashing a = true -> finite_box box = true -> Forall wf_bounds box -> length y = length box ->
  (forall x, In x y -> in_act_range a x) ->
  in_box box (maddpg_cont_row false a box y noise).
Proof. intros. unfold maddpg_cont_row. apply rescale_vec_in_box; auto. Qed.

(* pinned: every dimension clamped with the bounds of dimension 0 *)
Lemma maddpg_clamp_pinned_refuted :
  exists box y noise, Forall wf_bounds box /\ length y = length box /\ length noise = length box /\
    ~ in_box box (maddpg_cont_row_pinned ActOther box y noise).
Proof.
  exists [(Some (-5), Some 5); (Some 0, Some 1)], [0; 0], [0; 3].
  split; [repeat constructor; cbn; lra|]. split; auto. split; auto.
  intro H. inversion H as [|? ? ? ? _ H2]; subst. inversion H2 as [|? ? ? ? H3 _]; subst.
  destruct H3 as [_ H3]. vm_compute in H3. apply H3. reflexivity.
Qed.

Lemma unit_box_wf n : Forall wf_bounds (unit_box n).
Proof. unfold unit_box. induction n; cbn; constructor; auto. cbn. lra. Qed.
Lemma unit_box_length n : length (unit_box n) = n.
Proof. apply repeat_length. Qed.

(* discrete multi-agent choice: legal with respect to the agent's own mask *)
Lemma maddpg_disc_legal training p noise mask :
  p <> [] -> length noise = length p -> mask_ok (length p) mask ->
  is_legal mask (length p) (maddpg_disc_row training p noise mask None).
Proof.
  intros Hne Ln Hm. unfold maddpg_disc_row.
  set (v := if training then clip_vec (unit_box (length p)) (add_vec p noise) else p).
  assert (Lv : length v = length p).
  { unfold v. destruct training; auto.
    rewrite clip_vec_length, unit_box_length, add_vec_length. lia. }
  assert (Hv : v <> []) by (intro E; rewrite E in Lv; destruct p; cbn in *; congruence).
  rewrite <- Lv in Hm |- *. apply (greedy_row_best_lemma v mask Hv Hm).
Qed.

(* evaluation mode: the best legal action according to the policy output *)
Lemma maddpg_disc_eval_best p noise mask :
  p <> [] -> mask_ok (length p) mask ->
  greedy_best p mask (maddpg_disc_row false p noise mask None).
Proof. intros. unfold maddpg_disc_row. apply greedy_row_best_lemma; auto. Qed.

Lemma maddpg_env_defined training p noise mask e :
  maddpg_disc_row training p noise mask (Some e) = e.
Proof. reflexivity. Qed.

(* ------------------------------------------------------------------ PPO / IPPO inference mode *)
Lemma ppo_eval_in_box squash box s :
  Forall wf_bounds box -> length s = length box ->
  (squash = true -> finite_box box = true /\ forall t, In t s -> -1 <= t <= 1) ->
  in_box box (ppo_eval_row squash box s).
Proof.
  intros W L Hs. unfold ppo_eval_row. destruct squash.
  - destruct (Hs eq_refl). apply scale_vec_in_box; auto.
  - apply clip_vec_in_box; auto.
Qed.

Lemma rescale_identity_guards_lemma a box xs :
  rescale_vec ActOther box xs = xs /\ (finite_box box = false -> rescale_vec a box xs = xs).
Proof. split; [apply rescale_vec_other | apply rescale_vec_infinite]. Qed.

(* whole batches *)
Lemma ddpg_batch_in_box training a box rows :
  Forall wf_bounds box ->
  Forall (fun '(y, n) => length y = length box /\ length n = length box) rows ->
  Forall (in_box box) (ddpg_get_action training a box rows).
Proof.
  intros W H. unfold ddpg_get_action. induction H as [|[y n] rows [Hy Hn] _ IH]; cbn; constructor; auto.
  apply ddpg_row_in_box; auto.
Qed.

Lemma greedy_batch_legal_lemma rows :
  Forall (fun '(v, m) => v <> [] /\ mask_ok (length v) m) rows ->
  Forall2 (fun '(v, m) a => greedy_best v m a) rows (greedy_rows rows).
Proof.
  unfold greedy_rows. induction 1 as [|[v m] rows [Hv Hm] _ IH]; cbn; constructor; auto.
  apply greedy_row_best_lemma; auto.
Qed.

(* environment-defined actions: defined entries are returned, the others are the agent's *)
Lemma overwrite_spec : forall xs es i x e,
  nth_error xs i = Some x -> nth_error es i = Some e ->
  nth_error (overwrite xs es) i = Some (match e with Some v => v | None => x end).
Proof.
  unfold overwrite. induction xs as [|x0 xs IH]; intros [|e0 es] [|i] x e Hx He; cbn in *; try discriminate.
  - injection Hx as <-. injection He as <-. reflexivity.
  - apply IH; auto.
Qed.

(* MADDPG/MATD3 as repaired also clamp in evaluation mode (the float rescale can overshoot a bound by a rounding
   error); over the rationals that clamp does not move the policy's action *)
Lemma maddpg_eval_clamp_identity a box y noise :
  squashing a = true -> finite_box box = true -> Forall wf_bounds box -> length y = length box ->
  (forall x, In x y -> in_act_range a x) ->
  Forall2 Qeq (clip_vec box (maddpg_cont_row false a box y noise)) (maddpg_cont_row false a box y noise).
Proof. intros. apply clip_vec_id. apply maddpg_cont_eval_in_box; auto. Qed.

(* a masked entry filled with ANY finite constant c wins as soon as every allowed value is below c:
   -infinity is the only safe fill for the greedy branch *)
Lemma finite_fill_refuted (c : Q) :
  exists v legal, In true legal /\ nth_error legal (argmax_first (fill_const c v legal)) = Some false.
Proof.
  exists [c - 1; c - 2], [true; false]. split; [left; auto|].
  unfold fill_const, argmax_first. cbn [combine map argmax_go].
  assert (ext_lt (Some (c - 1)) (Some c) = true) as -> by (cbn; apply Qltb_true; lra).
  reflexivity.
Qed.
