(* C14 — boolean comparison of the model with observations of the implementation (used by K only). *)
From Coq Require Import List Bool Arith QArith Qabs.
Import ListNotations.
From AgileV Require Import C14.Model.
Local Open Scope Q_scope.

Fixpoint list_eqb {T} (eqb : T -> T -> bool) (a b : list T) : bool :=
  match a, b with
  | [], [] => true
  | x :: a', y :: b' => eqb x y && list_eqb eqb a' b'
  | _, _ => false
  end.
Definition nats_eqb := list_eqb Nat.eqb.

(* |x - y| <= tol * (1 + |y|) ; tol = 0 demands exact equality *)
Definition close (tol x y : Q) : bool := Qle_bool (Qabs (x - y)) (tol * (1 + Qabs y)).
Definition vec_close (tol : Q) := list_eqb (close tol).
Definition rows_close (tol : Q) := list_eqb (vec_close tol).

Definition mk_dqn (q u : list Q) (coin : Q) (legal : list bool) : dqn_in :=
  {| dq_q := q; dq_u := u; dq_coin := coin; dq_legal := legal |}.
Definition check_dqn (eps : Q) (rows : list dqn_in) (obs : list nat) : bool :=
  nats_eqb (dqn_get_action eps rows) obs.

Definition check_greedy (rows : list (list Q * option (list bool))) (obs : list nat) : bool :=
  nats_eqb (greedy_rows rows) obs.

Definition mk_cqn (q u : list Q) (r : nat) (mask : option (list bool)) : cqn_in :=
  {| cq_q := q; cq_u := u; cq_r := r; cq_mask := mask |}.
Definition check_cqn (coin eps : Q) (rows : list cqn_in) (obs : list nat) : bool :=
  nats_eqb (cqn_get_action coin eps rows) obs.

Definition check_ddpg (tol : Q) (training : bool) (a : act) (box : list bounds)
           (rows : list (list Q * list Q)) (obs : list (list Q)) : bool :=
  rows_close tol (ddpg_get_action training a box rows) obs.

Definition check_maddpg_cont (tol : Q) (training : bool) (a : act) (box : list bounds)
           (rows : list (list Q * list Q * list (option Q))) (obs : list (list Q)) : bool :=
  rows_close tol (map (fun '(y, n, e) => overwrite (maddpg_cont_row training a box y n) e) rows) obs.

Definition check_maddpg_disc (training : bool)
           (rows : list (list Q * list Q * option (list bool) * option nat)) (obs : list nat) : bool :=
  nats_eqb (map (fun '(p, n, m, e) => maddpg_disc_row training p n m e) rows) obs.

Definition check_ppo_eval (tol : Q) (squash : bool) (box : list bounds) (rows : list (list Q))
           (obs : list (list Q)) : bool :=
  rows_close tol (map (ppo_eval_row squash box) rows) obs.

(* observed support = indices whose float32 probability is > 0 *)
Definition check_support (l : list Q) (legal : list bool) (obs : list nat) : bool :=
  nats_eqb (masked_support l legal) obs.
Definition check_multi_support (nvec : list nat) (l : list Q) (legal : list bool) (obs : list (list nat)) : bool :=
  list_eqb nats_eqb (multi_support nvec l legal) obs.
Definition check_binary_support (l : list Q) (legal : list bool) (obs : list bool) : bool :=
  list_eqb Bool.eqb (binary_support l legal) obs.

(* IPPO: supports of all rows of the shared actor's batch (agent-major) *)
Definition check_ippo_supports (l : list Q) (per_agent_masks : list (list (list bool))) (obs : list (list nat)) : bool :=
  list_eqb nats_eqb (ippo_supports l per_agent_masks) obs.
