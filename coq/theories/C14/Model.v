(* C14 — every selected action is a legal member of the action space.
   Executable model of the action-selection code of AgileRL (no proofs in this file).

   One row (= one observation of a batch) is a [list Q] of network outputs; batches are [map]s.
   "-infinity" (torch masked_fill(-inf), fill value of a NumPy masked array in argmax) is [None]
   of [ext = option Q].  Every random draw the code makes is an explicit argument.

   Code modelled (agilerl/...):
     algorithms/dqn.py            DQN._get_action                      -> dqn_row / dqn_get_action
     algorithms/dqn_rainbow.py    RainbowDQN.get_action                -> greedy_row
     algorithms/cqn.py            CQN.get_action                       -> cqn_row / cqn_get_action
     algorithms/neural_ucb_bandit.py, neural_ts_bandit.py get_action   -> greedy_row (on the scores)
     networks/actors.py           DeterministicActor.rescale_action    -> rescale_vec
                                  StochasticActor.scale_action         -> scale_vec
     algorithms/ddpg.py, td3.py   get_action (noise + clip)            -> ddpg_row
     algorithms/maddpg.py, matd3.py get_action                         -> maddpg_cont_row / maddpg_disc_row
     algorithms/ppo.py, ippo.py   get_action, inference-mode clipping  -> ppo_eval_row
     networks/distributions.py    apply_action_mask_discrete / apply_mask -> masked_logits, support *)
From Coq Require Import List Bool Arith QArith.
Import ListNotations.
Local Open Scope Q_scope.

(* ------------------------------------------------------------------ extended values, argmax *)
Definition ext := option Q.                       (* None = -infinity *)
Definition Qltb (x y : Q) : bool := negb (Qle_bool y x).
Definition ext_lt (a b : ext) : bool :=
  match a, b with
  | None, Some _ => true
  | Some x, Some y => Qltb x y
  | _, None => false
  end.

(* torch.argmax / np.argmax: index of the FIRST maximal entry *)
Fixpoint argmax_go (l : list ext) (i bi : nat) (bv : ext) : nat :=
  match l with
  | [] => bi
  | x :: l' => if ext_lt bv x then argmax_go l' (S i) i x else argmax_go l' (S i) bi bv
  end.
Definition argmax_first (l : list ext) : nat :=
  match l with [] => 0%nat | x :: l' => argmax_go l' 1 0 x end.

(* masked entries become -infinity: q.masked_fill((1 - mask).bool(), -inf)  /
   np.ma.array(q, mask = 1 - mask) whose argmax fills masked entries with the minimum value *)
Definition fill (q : list Q) (legal : list bool) : list ext :=
  map (fun '(v, m) => if (m : bool) then Some v else None) (combine q legal).
(* masked entries become a finite constant c: rand.masked_fill((1 - mask).bool(), c) / np.where(mask, u, c) *)
Definition fill_const (c : Q) (u : list Q) (legal : list bool) : list ext :=
  map (fun '(x, m) => Some (if (m : bool) then x else c)) (combine u legal).

(* ------------------------------------------------------------------ DQN._get_action *)
Definition dqn_policy (q : list Q) (legal : list bool) : nat := argmax_first (fill q legal).
(* exploration branch as coded now: argmax(rand.masked_fill(~mask, -1.0)) *)
Definition dqn_random (u : list Q) (legal : list bool) : nat := argmax_first (fill_const (-1) u legal).
(* use_policy = uniform_().ge(epsilon)   (repaired guard; see dqn_use_policy_pinned) *)
Definition dqn_use_policy (coin eps : Q) : bool := Qle_bool eps coin.
Definition dqn_row (q u : list Q) (coin eps : Q) (legal : list bool) : nat :=
  if dqn_use_policy coin eps then dqn_policy q legal else dqn_random u legal.

Record dqn_in := { dq_q : list Q; dq_u : list Q; dq_coin : Q; dq_legal : list bool }.
Definition dqn_get_action (eps : Q) (rows : list dqn_in) : list nat :=
  map (fun r => dqn_row (dq_q r) (dq_u r) (dq_coin r) eps (dq_legal r)) rows.

(* pinned (pre-repair) behaviours, kept for the _refuted theorems *)
Definition dqn_random_pinned (u : list Q) (legal : list bool) : nat :=        (* argmax(rand * mask) *)
  argmax_first (map (fun '(x, m) => Some (if (m : bool) then x else 0)) (combine u legal)).
Definition dqn_use_policy_pinned (coin eps : Q) : bool := Qltb eps coin.       (* uniform_().gt(epsilon) *)
Definition dqn_row_pinned (q u : list Q) (coin eps : Q) (legal : list bool) : nat :=
  if dqn_use_policy_pinned coin eps then dqn_policy q legal else dqn_random u legal.

(* ------------------------------------------------------------------ Rainbow / bandits / CQN greedy *)
(* action_mask None -> plain argmax; otherwise NumPy masked argmax *)
Definition ma_argmax (v : list Q) (legal : list bool) : nat := argmax_first (fill v legal).
Definition greedy_row (v : list Q) (mask : option (list bool)) : nat :=
  match mask with
  | None => argmax_first (map Some v)
  | Some legal => ma_argmax v legal
  end.
Definition greedy_rows (rows : list (list Q * option (list bool))) : list nat :=
  map (fun '(v, m) => greedy_row v m) rows.

(* CQN.get_action: ONE coin per call (random.random() < epsilon);
   r = the np.random.randint draw of the row, u = the np.random.uniform draws of the row *)
Definition cqn_row (explore : bool) (q u : list Q) (r : nat) (mask : option (list bool)) : nat :=
  if explore then
    match mask with
    | None => r
    | Some legal => argmax_first (fill_const (-1) u legal)
    end
  else greedy_row q mask.
Record cqn_in := { cq_q : list Q; cq_u : list Q; cq_r : nat; cq_mask : option (list bool) }.
Definition cqn_get_action (coin eps : Q) (rows : list cqn_in) : list nat :=
  map (fun x => cqn_row (Qltb coin eps) (cq_q x) (cq_u x) (cq_r x) (cq_mask x)) rows.

(* ------------------------------------------------------------------ boxes, clip, rescale *)
Definition qmax (x y : Q) : Q := if Qle_bool x y then y else x.
Definition qmin (x y : Q) : Q := if Qle_bool x y then x else y.
(* a bound is [Some b] or infinite ([None]: -inf for a lower, +inf for an upper bound) *)
Definition bounds := (option Q * option Q)%type.
(* np.clip(x, lo, hi) = minimum(maximum(x, lo), hi); torch.clamp(x, lo, hi) likewise *)
Definition clip1 (b : bounds) (x : Q) : Q :=
  let x1 := match fst b with Some lo => qmax x lo | None => x end in
  match snd b with Some hi => qmin x1 hi | None => x1 end.
Definition clip_vec (box : list bounds) (xs : list Q) : list Q :=
  map (fun '(b, x) => clip1 b x) (combine box xs).
Definition add_vec (xs ns : list Q) : list Q := map (fun '(x, n) => x + n) (combine xs ns).

Definition finite_box (box : list bounds) : bool :=
  forallb (fun b => match b with (Some _, Some _) => true | _ => false end) box.

(* output activation classes of DeterministicActor.rescale_action *)
Inductive act := ActPM1   (* Tanh, Softsign : network output in [-1, 1] *)
               | Act01    (* Sigmoid, Softmax, GumbelSoftmax : [0, 1] *)
               | ActOther (* anything else: returned as is *).
Definition act_range (a : act) : Q * Q := match a with ActPM1 => (-1, 1) | _ => (0, 1) end.
Definition rescale1 (pmin pmax : Q) (b : bounds) (x : Q) : Q :=
  match b with
  | (Some lo, Some hi) => lo + (hi - lo) * (x - pmin) / (pmax - pmin)
  | _ => x
  end.
(* if low.isinf().any() or high.isinf().any(): the whole vector is returned unchanged *)
Definition rescale_vec (a : act) (box : list bounds) (xs : list Q) : list Q :=
  match a with
  | ActOther => xs
  | _ => if finite_box box
         then let '(pmin, pmax) := act_range a in map (fun '(b, x) => rescale1 pmin pmax b x) (combine box xs)
         else xs
  end.

(* StochasticActor.scale_action: low + 0.5 * (a + 1) * (high - low) *)
Definition scale1 (b : bounds) (t : Q) : Q :=
  match b with
  | (Some lo, Some hi) => lo + (1 # 2) * (t + 1) * (hi - lo)
  | _ => t                                           (* not reached: squashing needs a finite box *)
  end.
Definition scale_vec (box : list bounds) (ts : list Q) : list Q :=
  map (fun '(b, t) => scale1 b t) (combine box ts).

(* ------------------------------------------------------------------ DDPG / TD3 get_action *)
(* y = output of the squashing activation (one row); the actor rescales (clip_actions=True);
   training adds the exploration noise; the result is clipped to the space *)
Definition ddpg_row (training : bool) (a : act) (box : list bounds) (y noise : list Q) : list Q :=
  let mu := rescale_vec a box y in
  clip_vec box (if training then add_vec mu noise else mu).
Definition ddpg_get_action (training : bool) (a : act) (box : list bounds) (rows : list (list Q * list Q)) :=
  map (fun '(y, n) => ddpg_row training a box y n) rows.

(* ------------------------------------------------------------------ MADDPG / MATD3 get_action *)
(* continuous: clamp only when training (with per-dimension bounds, as repaired) *)
Definition maddpg_cont_row (training : bool) (a : act) (box : list bounds) (y noise : list Q) : list Q :=
  let mu := rescale_vec a box y in
  if training then clip_vec box (add_vec mu noise) else mu.
(* pinned: torch.clamp(actions + noise, min_action[idx][0], max_action[idx][0]) *)
Definition maddpg_cont_row_pinned (a : act) (box : list bounds) (y noise : list Q) : list Q :=
  let mu := rescale_vec a box y in
  let b0 := match box with b :: _ => b | [] => (None, None) end in
  map (clip1 b0) (add_vec mu noise).
(* discrete: (GumbelSoftmax output p) + noise clamped to [0,1] when training, NumPy masked argmax,
   then the environment-defined action (if any; NaN = None) replaces the choice *)
Definition unit_box (n : nat) : list bounds := repeat (Some 0, Some 1) n.
Definition maddpg_disc_row (training : bool) (p noise : list Q) (mask : option (list bool))
           (env_defined : option nat) : nat :=
  let v := if training then clip_vec (unit_box (length p)) (add_vec p noise) else p in
  match env_defined with
  | Some e => e
  | None => greedy_row v mask
  end.
(* continuous env-defined actions: entries that are not NaN overwrite the agent's *)
Definition overwrite (xs : list Q) (env_defined : list (option Q)) : list Q :=
  map (fun '(x, e) => match e with Some v => v | None => x end) (combine xs env_defined).

(* ------------------------------------------------------------------ PPO / IPPO inference-mode *)
(* s = the sample of the Normal (one row); squash: t = tanh(s) is supplied (|t| <= 1) *)
Definition ppo_eval_row (squash : bool) (box : list bounds) (s_or_t : list Q) : list Q :=
  if squash then scale_vec box s_or_t else clip_vec box s_or_t.

(* ------------------------------------------------------------------ masked categorical heads *)
(* apply_action_mask_discrete: torch.where(mask, logits, -1e8) *)
Definition NEG : Q := - (100000000 # 1).
Definition masked_logits (l : list Q) (legal : list bool) : list Q :=
  map (fun '(x, m) => if (m : bool) then x else NEG) (combine l legal).
(* float32 softmax: exp(x - max) is exactly 0 as soon as max - x >= 104 (e^-104 < 2^-150) and
   certainly positive while max - x <= 87 (e^-87 > 2^-126).  [support] is the set of indices that
   CAN have non-zero probability: those that are not certainly zero. *)
Definition UNDERFLOW : Q := 104 # 1.
Fixpoint qmax_list (d : Q) (l : list Q) : Q :=
  match l with [] => d | x :: l' => qmax_list (qmax d x) l' end.
Definition list_max (l : list Q) : Q := match l with [] => 0 | x :: l' => qmax_list x l' end.
Fixpoint support_go (mx : Q) (l : list Q) (i : nat) : list nat :=
  match l with
  | [] => []
  | x :: l' => if Qltb (mx - x) UNDERFLOW then i :: support_go mx l' (S i) else support_go mx l' (S i)
  end.
Definition support (ml : list Q) : list nat := support_go (list_max ml) ml 0.
Definition masked_support (l : list Q) (legal : list bool) : list nat := support (masked_logits l legal).

(* MultiDiscrete: logits and mask are split with nvec, one categorical per component *)
Fixpoint split_by {A} (nvec : list nat) (l : list A) : list (list A) :=
  match nvec with
  | [] => []
  | n :: nv => firstn n l :: split_by nv (skipn n l)
  end.
Definition multi_support (nvec : list nat) (l : list Q) (legal : list bool) : list (list nat) :=
  map (fun '(lc, mc) => masked_support lc mc) (combine (split_by nvec l) (split_by nvec legal)).
(* MultiBinary: Bernoulli(logits); a masked bit has logit -1e8, sigmoid = 0: the bit can only be 0.
   [bit_can_be_one x] : the float32 sigmoid of x is not certainly 0 *)
Definition bit_can_be_one (x : Q) : bool := Qltb (- x) UNDERFLOW.
Definition binary_support (l : list Q) (legal : list bool) : list bool :=
  map bit_can_be_one (masked_logits l legal).

(* ------------------------------------------------------------------ IPPO: homogeneous agents share one actor *)
(* extract_action_masks stacks the masks of the agents of a group (np.array of per-agent arrays, each with one row
   per environment); apply_mask views the stack with the shape of the logits, whose rows are the agents'
   observation batches concatenated: agent-major order *)
Definition ippo_stack {A} (per_agent : list (list A)) : list A := concat per_agent.
Definition ippo_supports (l : list Q) (per_agent_masks : list (list (list bool))) : list (list nat) :=
  map (masked_support l) (ippo_stack per_agent_masks).

(* ------------------------------------------------------------------ the sampler itself *)
(* Categorical.sample = torch.multinomial(probs, 1): one exponential race per row,
   q_i ~ Exp(1) (every q_i > 0), result = argmax_i (p_i / q_i).  The draws q are an argument. *)
Definition multinomial_exp (p q : list Q) : nat :=
  argmax_first (map (fun '(pi, qi) => Some (pi / qi)) (combine p q)).
(* probabilities of the masked head as far as the property is concerned: 0 outside the support *)
Definition sample_masked (l : list Q) (legal : list bool) (weights q : list Q) : nat :=
  multinomial_exp (map (fun '(w, i) => if existsb (Nat.eqb i) (masked_support l legal) then w else 0)
                       (combine weights (seq 0 (length weights)))) q.

(* ------------------------------------------------------------------ numeric masks *)
(* the learners invert a numeric mask m as 1 - m (torch: (1 - m).bool(), numpy: np.ma mask = 1 - m): an entry is
   treated as ILLEGAL iff 1 - m <> 0.  legal_of_num is what the code computes, for any rational mask value *)
Definition legal_of_num (m : Q) : bool := Qeq_bool (1 - m) 0.
Definition legal_of_nums (ms : list Q) : list bool := map legal_of_num ms.

(* all agents of a multi-agent learner at once: (box, network output, noise) per agent *)
Definition maddpg_cont_all (training : bool) (a : act) (agents : list (list bounds * list Q * list Q)) : list (list Q) :=
  map (fun '(box, y, n) => maddpg_cont_row training a box y n) agents.
