(* C14 — proofs about the model of action selection (argmax with masks). *)
From Coq Require Import List Bool Arith Lia QArith Lqa.
Import ListNotations.
From AgileV Require Import C14.Model.
Local Open Scope Q_scope.

(* ------------------------------------------------------------------ booleans over Q *)
Lemma Qltb_true x y : Qltb x y = true <-> x < y.
Proof.
  unfold Qltb. rewrite negb_true_iff. split; intro H.
  - apply Qnot_le_lt. intro L. apply Qle_bool_iff in L. congruence.
  - destruct (Qle_bool y x) eqn:E; auto. apply Qle_bool_iff in E. lra.
Qed.
Lemma Qltb_false x y : Qltb x y = false <-> y <= x.
Proof.
  unfold Qltb. rewrite negb_false_iff. apply Qle_bool_iff.
Qed.
Lemma Qle_bool_false x y : Qle_bool x y = false <-> y < x.
Proof.
  split; intro H.
  - apply Qnot_le_lt. intro L. apply Qle_bool_iff in L. congruence.
  - destruct (Qle_bool x y) eqn:E; auto. apply Qle_bool_iff in E. lra.
Qed.

(* order on extended values *)
Definition ext_le (a b : ext) : Prop := ext_lt b a = false.

Lemma ext_lt_irrefl a : ext_lt a a = false.
Proof. destruct a; cbn; auto. apply Qltb_false. lra. Qed.

Lemma ext_lt_le_trans a b c : ext_lt a b = false -> ext_lt a c = true -> ext_lt b c = true.
Proof.
  destruct a as [a|], b as [b|], c as [c|]; cbn; intros H1 H2; try congruence; auto.
  apply Qltb_false in H1. apply Qltb_true in H2. apply Qltb_true. lra.
Qed.

Lemma ext_le_lt_false a b c : ext_lt a b = false -> ext_lt a c = true -> ext_lt c b = false.
Proof.
  destruct a as [a|], b as [b|], c as [c|]; cbn; intros H1 H2; try congruence; auto.
  apply Qltb_false in H1. apply Qltb_true in H2. apply Qltb_false. lra.
Qed.

(* ------------------------------------------------------------------ argmax_first *)
(* r is the index of the first maximum of l *)
Definition is_first_max (l : list ext) (r : nat) : Prop :=
  exists rv, nth_error l r = Some rv /\
             (forall j x, nth_error l j = Some x -> ext_lt rv x = false) /\
             (forall j x, (j < r)%nat -> nth_error l j = Some x -> ext_lt x rv = true).

Lemma nth_error_snoc {A} (full : list A) x j y :
  nth_error (full ++ [x]) j = Some y ->
  ((j < length full)%nat /\ nth_error full j = Some y) \/ (j = length full /\ y = x).
Proof.
  intro H. destruct (Nat.lt_ge_cases j (length full)) as [L|G].
  - left. rewrite nth_error_app1 in H by lia. auto.
  - right. rewrite nth_error_app2 in H by lia.
    destruct (j - length full)%nat as [|k] eqn:E; cbn in H.
    + injection H as <-. split; auto; lia.
    + destruct k; discriminate.
Qed.

Lemma argmax_go_spec : forall l i bi bv full,
  (bi < i)%nat -> length full = i -> nth_error full bi = Some bv ->
  (forall j x, nth_error full j = Some x -> ext_lt bv x = false) ->
  (forall j x, (j < bi)%nat -> nth_error full j = Some x -> ext_lt x bv = true) ->
  is_first_max (full ++ l) (argmax_go l i bi bv).
Proof.
  induction l as [|x l IH]; intros i bi bv full Hbi Hlen Hb Hmax Hfirst; cbn [argmax_go].
  - rewrite app_nil_r. exists bv. auto.
  - replace (full ++ x :: l) with ((full ++ [x]) ++ l) by (rewrite <- app_assoc; reflexivity).
    destruct (ext_lt bv x) eqn:Hx.
    + apply IH.
      * lia.
      * rewrite app_length; cbn; lia.
      * rewrite nth_error_app2 by lia. rewrite Hlen, Nat.sub_diag. reflexivity.
      * intros j y Hj. apply nth_error_snoc in Hj. destruct Hj as [[L Hj]|[-> ->]].
        -- eapply ext_le_lt_false; [apply (Hmax j y Hj)|exact Hx].
        -- apply ext_lt_irrefl.
      * intros j y Hji Hj. rewrite nth_error_app1 in Hj by lia.
        eapply ext_lt_le_trans; [apply (Hmax j y Hj)|exact Hx].
    + apply IH.
      * lia.
      * rewrite app_length; cbn; lia.
      * rewrite nth_error_app1 by lia. exact Hb.
      * intros j y Hj. apply nth_error_snoc in Hj. destruct Hj as [[L Hj]|[-> ->]]; eauto.
      * intros j y Hji Hj. rewrite nth_error_app1 in Hj by lia. eauto.
Qed.

Lemma argmax_first_spec l : l <> [] -> is_first_max l (argmax_first l).
Proof.
  destruct l as [|x l]; [congruence|]. intros _. unfold argmax_first.
  apply (argmax_go_spec l 1 0 x [x]); auto.
  - intros [|j] y Hj; cbn in Hj; [injection Hj as <-; apply ext_lt_irrefl|destruct j; discriminate].
  - intros j y Hj; lia.
Qed.

Lemma argmax_first_lt_length l : l <> [] -> (argmax_first l < length l)%nat.
Proof.
  intro H. destruct (argmax_first_spec l H) as (rv & Hr & _).
  apply nth_error_Some. congruence.
Qed.

(* ------------------------------------------------------------------ fill / fill_const pointwise *)
Lemma nth_error_fill q legal j :
  nth_error (fill q legal) j =
  match nth_error q j, nth_error legal j with
  | Some v, Some m => Some (if m then Some v else None)
  | _, _ => None
  end.
Proof.
  unfold fill. revert legal j; induction q as [|v q IH]; intros [|m legal] [|j]; cbn; auto.
  destruct (nth_error q j); auto.
Qed.

Lemma nth_error_fill_const c u legal j :
  nth_error (fill_const c u legal) j =
  match nth_error u j, nth_error legal j with
  | Some v, Some m => Some (Some (if m then v else c))
  | _, _ => None
  end.
Proof.
  unfold fill_const. revert legal j; induction u as [|v u IH]; intros [|m legal] [|j]; cbn; auto.
  destruct (nth_error u j); auto.
Qed.

Lemma same_length_nth {A B} (l1 : list A) (l2 : list B) k y :
  length l1 = length l2 -> nth_error l2 k = Some y -> exists x, nth_error l1 k = Some x.
Proof.
  intros Hl Hk. destruct (nth_error l1 k) eqn:E; eauto.
  apply nth_error_None in E. assert (k < length l2)%nat by (apply nth_error_Some; congruence). lia.
Qed.

(* ------------------------------------------------------------------ greedy branch (DQN policy, masked array) *)
(* legal, best among the legal ones, and the first of the best *)
Definition legal_best_first (q : list Q) (legal : list bool) (a : nat) : Prop :=
  nth_error legal a = Some true /\
  exists va, nth_error q a = Some va /\
    (forall j v, nth_error legal j = Some true -> nth_error q j = Some v -> v <= va) /\
    (forall j v, (j < a)%nat -> nth_error legal j = Some true -> nth_error q j = Some v -> v < va).

Lemma masked_argmax_legal_best q legal k :
  length q = length legal -> nth_error legal k = Some true ->
  legal_best_first q legal (argmax_first (fill q legal)).
Proof.
  intros Hlen Hk. set (a := argmax_first (fill q legal)).
  destruct (same_length_nth q legal k true Hlen Hk) as [vk Hvk].
  assert (Hne : fill q legal <> []).
  { intro E. pose proof (nth_error_fill q legal k) as H. rewrite E, Hvk, Hk in H. destruct k; discriminate. }
  destruct (argmax_first_spec _ Hne) as (rv & Hr & Hmax & Hfirst). fold a in Hr, Hfirst.
  rewrite nth_error_fill in Hr.
  destruct (nth_error q a) as [va|] eqn:Hqa; [|discriminate].
  destruct (nth_error legal a) as [ma|] eqn:Hma; [|discriminate]. injection Hr as <-.
  assert (ma = true).
  { destruct ma; auto. specialize (Hmax k (Some vk)). rewrite nth_error_fill, Hvk, Hk in Hmax.
    specialize (Hmax eq_refl). discriminate. }
  subst ma. split; auto. exists va. split; auto. split.
  - intros j v Hj Hv. specialize (Hmax j (Some v)). rewrite nth_error_fill, Hv, Hj in Hmax.
    specialize (Hmax eq_refl). cbn in Hmax. apply Qltb_false in Hmax. exact Hmax.
  - intros j v Hja Hj Hv. specialize (Hfirst j (Some v) Hja). rewrite nth_error_fill, Hv, Hj in Hfirst.
    specialize (Hfirst eq_refl). cbn in Hfirst. apply Qltb_true in Hfirst. exact Hfirst.
Qed.

(* unmasked argmax: in range, maximal, first *)
Lemma plain_argmax_best (q : list Q) : q <> [] ->
  let a := argmax_first (map Some q) in
  exists va, nth_error q a = Some va /\
    (forall j v, nth_error q j = Some v -> v <= va) /\
    (forall j v, (j < a)%nat -> nth_error q j = Some v -> v < va).
Proof.
  intros Hne a.
  assert (Hne' : map Some q <> []) by (destruct q; cbn; congruence).
  destruct (argmax_first_spec _ Hne') as (rv & Hr & Hmax & Hfirst). fold a in Hr, Hfirst.
  rewrite nth_error_map in Hr. destruct (nth_error q a) as [va|] eqn:Hqa; [|discriminate].
  injection Hr as <-. exists va. split; auto. split.
  - intros j v Hv. specialize (Hmax j (Some v)). rewrite nth_error_map, Hv in Hmax.
    specialize (Hmax eq_refl). cbn in Hmax. apply Qltb_false in Hmax. exact Hmax.
  - intros j v Hja Hv. specialize (Hfirst j (Some v) Hja). rewrite nth_error_map, Hv in Hfirst.
    specialize (Hfirst eq_refl). cbn in Hfirst. apply Qltb_true in Hfirst. exact Hfirst.
Qed.

(* ------------------------------------------------------------------ exploration branch *)
(* masked entries hold c, every draw at a legal entry is > c: the chosen index is legal *)
Lemma fill_const_argmax_legal c u legal k :
  length u = length legal -> nth_error legal k = Some true ->
  (forall j x, nth_error legal j = Some true -> nth_error u j = Some x -> c < x) ->
  nth_error legal (argmax_first (fill_const c u legal)) = Some true.
Proof.
  intros Hlen Hk Hpos. set (a := argmax_first (fill_const c u legal)).
  destruct (same_length_nth u legal k true Hlen Hk) as [uk Huk].
  assert (Hne : fill_const c u legal <> []).
  { intro E. pose proof (nth_error_fill_const c u legal k) as H. rewrite E, Huk, Hk in H. destruct k; discriminate. }
  destruct (argmax_first_spec _ Hne) as (rv & Hr & Hmax & _). fold a in Hr.
  rewrite nth_error_fill_const in Hr.
  destruct (nth_error u a) as [ua|] eqn:Hua; [|discriminate].
  destruct (nth_error legal a) as [ma|] eqn:Hma; [|discriminate]. injection Hr as <-.
  destruct ma; auto.
  specialize (Hmax k (Some uk)). rewrite nth_error_fill_const, Huk, Hk in Hmax. specialize (Hmax eq_refl).
  cbn in Hmax. apply Qltb_false in Hmax. specialize (Hpos k uk Hk Huk). lra.
Qed.

Lemma dqn_random_legal_lemma u legal k :
  length u = length legal -> nth_error legal k = Some true ->
  (forall j x, nth_error u j = Some x -> 0 <= x) ->
  nth_error legal (dqn_random u legal) = Some true.
Proof.
  intros Hlen Hk Hpos. unfold dqn_random. eapply fill_const_argmax_legal; eauto.
  intros j x _ Hx. specialize (Hpos j x Hx). lra.
Qed.

(* the pinned product form picks a masked action when the legal draws are exactly 0 *)
Lemma dqn_random_pinned_refuted_lemma :
  exists u legal, In true legal /\ (forall x, In x u -> 0 <= x < 1) /\
                  nth_error legal (dqn_random_pinned u legal) = Some false.
Proof.
  exists [1#2; 0], [false; true]. split; [right; left; auto|]. split.
  - intros x [<-|[<-|[]]]; lra.
  - reflexivity.
Qed.

(* ------------------------------------------------------------------ DQN row / batch *)
Lemma dqn_row_legal_lemma q u coin eps legal k :
  length q = length legal -> length u = length legal -> nth_error legal k = Some true ->
  (forall j x, nth_error u j = Some x -> 0 <= x) ->
  nth_error legal (dqn_row q u coin eps legal) = Some true.
Proof.
  intros Hq Hu Hk Hpos. unfold dqn_row. destruct (dqn_use_policy coin eps).
  - apply (masked_argmax_legal_best q legal k Hq Hk).
  - eapply dqn_random_legal_lemma; eauto.
Qed.

(* exploration switched off (epsilon <= 0): every draw of the coin in [0,1) gives the greedy action *)
Lemma dqn_greedy_when_eps0_lemma q u coin eps legal k :
  eps <= 0 -> 0 <= coin ->
  length q = length legal -> nth_error legal k = Some true ->
  legal_best_first q legal (dqn_row q u coin eps legal).
Proof.
  intros He Hc Hq Hk. unfold dqn_row, dqn_use_policy.
  assert (Qle_bool eps coin = true) as -> by (apply Qle_bool_iff; lra).
  apply (masked_argmax_legal_best q legal k Hq Hk).
Qed.

(* epsilon >= 1: the coin (in [0,1)) never selects the policy branch *)
Lemma dqn_random_when_eps1_lemma q u coin eps legal :
  1 <= eps -> coin < 1 -> dqn_row q u coin eps legal = dqn_random u legal.
Proof.
  intros He Hc. unfold dqn_row, dqn_use_policy.
  assert (Qle_bool eps coin = false) as -> by (apply Qle_bool_false; lra). reflexivity.
Qed.

(* pinned guard (gt): with epsilon = 0 a coin of exactly 0 takes the exploration branch *)
Lemma dqn_eps0_pinned_refuted_lemma :
  exists q u legal, let a := dqn_row_pinned q u 0 0 legal in
    nth_error legal a = Some true /\ exists j, nth_error legal j = Some true /\
    exists va vj, nth_error q a = Some va /\ nth_error q j = Some vj /\ va < vj.
Proof.
  exists [1; 5; 2], [9#10; 1#10; 1#2], [true; true; true]. cbn.
  split; auto. exists 1%nat. split; auto. exists 1, 5. repeat split; auto.
Qed.

Lemma dqn_batch_shape_lemma eps rows : length (dqn_get_action eps rows) = length rows.
Proof. unfold dqn_get_action. apply map_length. Qed.

Definition dqn_row_ok (r : dqn_in) : Prop :=
  length (dq_q r) = length (dq_legal r) /\ length (dq_u r) = length (dq_legal r) /\
  In true (dq_legal r) /\ (forall x, In x (dq_u r) -> 0 <= x).

Lemma In_nth_true (l : list bool) : In true l -> exists k, nth_error l k = Some true.
Proof. intro H. apply In_nth_error in H. exact H. Qed.

Lemma dqn_batch_legal_lemma eps rows :
  Forall dqn_row_ok rows ->
  Forall2 (fun r a => nth_error (dq_legal r) a = Some true) rows (dqn_get_action eps rows).
Proof.
  induction 1 as [|r rows (Hq & Hu & Hin & Hpos) _ IH]; cbn; constructor; auto.
  destruct (In_nth_true _ Hin) as [k Hk].
  eapply dqn_row_legal_lemma; eauto.
  intros j x Hx. apply Hpos. eapply nth_error_In; eauto.
Qed.

(* ------------------------------------------------------------------ Rainbow / bandits / CQN *)
Definition mask_ok (n : nat) (mask : option (list bool)) : Prop :=
  match mask with None => True | Some legal => length legal = n /\ In true legal end.
Definition is_legal (mask : option (list bool)) (n : nat) (a : nat) : Prop :=
  match mask with None => (a < n)%nat | Some legal => nth_error legal a = Some true end.

(* greedy choice: legal; its value is >= every legal value; earlier legal entries are strictly smaller *)
Definition greedy_best (v : list Q) (mask : option (list bool)) (a : nat) : Prop :=
  is_legal mask (length v) a /\
  exists va, nth_error v a = Some va /\
    (forall j x, is_legal mask (length v) j -> nth_error v j = Some x -> x <= va) /\
    (forall j x, (j < a)%nat -> is_legal mask (length v) j -> nth_error v j = Some x -> x < va).

Lemma greedy_row_best_lemma v mask :
  v <> [] -> mask_ok (length v) mask -> greedy_best v mask (greedy_row v mask).
Proof.
  intros Hne Hm. destruct mask as [legal|]; cbn [greedy_row].
  - destruct Hm as [Hl Hin]. destruct (In_nth_true _ Hin) as [k Hk].
    destruct (masked_argmax_legal_best v legal k (eq_sym Hl) Hk) as (Hleg & va & Hva & Hbest & Hfirst).
    split; [exact Hleg|]. exists va. split; auto.
  - destruct (plain_argmax_best v Hne) as (va & Hva & Hbest & Hfirst).
    split. { cbn. apply nth_error_Some. congruence. }
    exists va. split; auto. split.
    + intros j x _ Hx. eauto.
    + intros j x Hj _ Hx. eauto.
Qed.

Lemma cqn_row_legal_lemma explore q u r mask :
  q <> [] -> length u = length q -> mask_ok (length q) mask -> (r < length q)%nat ->
  (forall x, In x u -> 0 <= x) ->
  is_legal mask (length q) (cqn_row explore q u r mask).
Proof.
  intros Hne Hu Hm Hr Hpos. unfold cqn_row. destruct explore.
  - destruct mask as [legal|]; cbn; auto.
    destruct Hm as [Hl Hin]. destruct (In_nth_true _ Hin) as [k Hk].
    eapply fill_const_argmax_legal; eauto; try lia.
    intros j x _ Hx. apply nth_error_In in Hx. specialize (Hpos x Hx). lra.
  - apply (greedy_row_best_lemma q mask Hne Hm).
Qed.

Lemma cqn_greedy_when_eps0_lemma coin eps rows :
  eps <= 0 -> 0 <= coin ->
  cqn_get_action coin eps rows = map (fun x => greedy_row (cq_q x) (cq_mask x)) rows.
Proof.
  intros He Hc. unfold cqn_get_action.
  assert (Qltb coin eps = false) as -> by (apply Qltb_false; lra). reflexivity.
Qed.

Lemma cqn_batch_shape_lemma coin eps rows : length (cqn_get_action coin eps rows) = length rows.
Proof. apply map_length. Qed.
Lemma greedy_batch_shape_lemma rows : length (greedy_rows rows) = length rows.
Proof. apply map_length. Qed.

(* packaged statements used by props/C14.v *)
Lemma greedy_legal_and_best_lemma (q : list Q) (legal : list bool) (k : nat) :
  length q = length legal -> nth_error legal k = Some true ->
  legal_best_first q legal (dqn_policy q legal) /\ legal_best_first q legal (ma_argmax q legal).
Proof. intros H1 H2. split; exact (masked_argmax_legal_best q legal k H1 H2). Qed.

Lemma batch_shape_lemma coin eps crow grows :
  length (cqn_get_action coin eps crow) = length crow /\ length (greedy_rows grows) = length grows.
Proof. split; [apply cqn_batch_shape_lemma | apply greedy_batch_shape_lemma]. Qed.
