(* C14 — row alignment of stacked per-agent masks (IPPO) and the mask-free DQN call. *)
From Coq Require Import List Bool Arith Lia QArith Lqa.
Import ListNotations.
From AgileV Require Import C14.Model C14.Proofs C14.ProofsBox C14.ProofsSupport.
Local Open Scope Q_scope.

Lemma ippo_stack_row {A} : forall (per_agent : list (list A)) (B i r : nat),
  Forall (fun m => length m = B) per_agent -> (r < B)%nat ->
  nth_error (ippo_stack per_agent) (i * B + r) =
  match nth_error per_agent i with Some m => nth_error m r | None => None end.
Proof.
  unfold ippo_stack. induction per_agent as [|m ms IH]; intros B i r HF Hr.
  - cbn [concat]. destruct (i * B + r)%nat; destruct i; reflexivity.
  - inversion HF as [|? ? Hm HF']; subst. cbn [concat]. destruct i as [|i].
    + cbn [Nat.mul Nat.add nth_error]. rewrite nth_error_app1 by lia. reflexivity.
    + cbn [nth_error]. rewrite nth_error_app2 by (cbn; lia).
      replace (S i * length m + r - length m)%nat with (i * length m + r)%nat by (cbn; lia).
      apply IH; auto.
Qed.

(* every action the shared actor can sample for agent i in environment r is legal under THAT agent's mask of THAT environment *)
Lemma ippo_rows_legal_lemma l (masks : list (list (list bool))) B i r m S k xk :
  Forall (fun ms => length ms = B) masks -> (r < B)%nat ->
  nth_error masks i = Some m ->
  nth_error (ippo_supports l masks) (i * B + r) = Some S ->
  forall legal, nth_error m r = Some legal ->
  nth_error legal k = Some true -> nth_error l k = Some xk -> NEG + UNDERFLOW <= xk ->
  forall a, In a S -> nth_error legal a = Some true.
Proof.
  intros HF Hr Hm HS legal Hl Hk Hxk Hlow a Ha.
  unfold ippo_supports in HS. rewrite nth_error_map in HS.
  rewrite (ippo_stack_row masks B i r HF Hr), Hm, Hl in HS. cbn in HS. injection HS as <-.
  eapply masked_support_legal_lemma; eauto.
Qed.

(* a call without a mask: DQN builds an all-ones mask; the policy branch is then the plain argmax *)
Lemma fill_all_true q : fill q (repeat true (length q)) = map Some q.
Proof. unfold fill. induction q as [|v q IH]; cbn; auto. f_equal. exact IH. Qed.

Lemma dqn_policy_no_mask_lemma q : dqn_policy q (repeat true (length q)) = argmax_first (map Some q).
Proof. unfold dqn_policy. rewrite fill_all_true. reflexivity. Qed.

(* the pinned product form argmax(rand * mask) is legal as soon as ONE legal entry draws a positive number
   (and all draws are >= 0) — exactly the hypothesis a draw of 0.0 breaks *)
Lemma nth_error_pinned u legal j :
  nth_error (map (fun '(x, m) => Some (if (m : bool) then x else 0)) (combine u legal)) j =
  match nth_error u j, nth_error legal j with
  | Some v, Some m => Some (Some (if m then v else 0))
  | _, _ => None
  end.
Proof.
  revert legal j; induction u as [|v u IH]; intros [|m legal] [|j]; cbn; auto.
  destruct (nth_error u j); auto.
Qed.

Lemma dqn_random_pinned_legal_if_positive u legal k uk :
  length u = length legal -> nth_error legal k = Some true -> nth_error u k = Some uk -> 0 < uk ->
  nth_error legal (dqn_random_pinned u legal) = Some true.
Proof.
  intros Hlen Hk Huk Hpos. unfold dqn_random_pinned.
  set (l := map _ _). set (a := argmax_first l).
  assert (Hne : l <> []).
  { intro E. pose proof (nth_error_pinned u legal k) as H. fold l in H. rewrite E, Huk, Hk in H. destruct k; discriminate. }
  destruct (argmax_first_spec _ Hne) as (rv & Hr & Hmax & _). fold a in Hr.
  unfold l in Hr. rewrite nth_error_pinned in Hr.
  destruct (nth_error u a) as [ua|] eqn:Hua; [|discriminate].
  destruct (nth_error legal a) as [ma|] eqn:Hma; [|discriminate]. injection Hr as <-.
  destruct ma; auto.
  specialize (Hmax k (Some uk)). unfold l in Hmax. rewrite nth_error_pinned, Huk, Hk in Hmax.
  specialize (Hmax eq_refl). cbn in Hmax. apply Qltb_false in Hmax. lra.
Qed.

(* ------------------------------------------------------------------ the sampler (exponential race) *)
Lemma nth_error_race p q j :
  nth_error (map (fun '(pi, qi) => Some (pi / qi)) (combine p q)) j =
  match nth_error p j, nth_error q j with
  | Some a, Some b => Some (Some (a / b))
  | _, _ => None
  end.
Proof.
  revert q j; induction p as [|a p IH]; intros [|b q] [|j]; cbn; auto.
  destruct (nth_error p j); auto.
Qed.

(* whatever the positive draws, the sampled index has positive probability *)
Lemma multinomial_positive_lemma p q k pk :
  length p = length q -> (forall x, In x q -> 0 < x) ->
  nth_error p k = Some pk -> 0 < pk ->
  exists pr, nth_error p (multinomial_exp p q) = Some pr /\ 0 < pr.
Proof.
  intros Hlen Hq Hk Hpk. unfold multinomial_exp.
  set (l := map _ _). set (a := argmax_first l).
  destruct (same_length_nth q p k pk (eq_sym Hlen) Hk) as [qk Hqk].
  assert (Hne : l <> []).
  { intro E. pose proof (nth_error_race p q k) as H. fold l in H. rewrite E, Hk, Hqk in H. destruct k; discriminate. }
  destruct (argmax_first_spec _ Hne) as (rv & Hr & Hmax & _). fold a in Hr.
  unfold l in Hr. rewrite nth_error_race in Hr.
  destruct (nth_error p a) as [pa|] eqn:Hpa; [|discriminate].
  destruct (nth_error q a) as [qa|] eqn:Hqa; [|discriminate]. injection Hr as <-.
  exists pa. split; auto.
  specialize (Hmax k (Some (pk / qk))). unfold l in Hmax. rewrite nth_error_race, Hk, Hqk in Hmax.
  specialize (Hmax eq_refl). cbn in Hmax. apply Qltb_false in Hmax.
  assert (Hqk0 : 0 < qk) by (apply Hq; eapply nth_error_In; eauto).
  assert (Hqa0 : 0 < qa) by (apply Hq; eapply nth_error_In; eauto).
  assert (Hpos : 0 < pk / qk) by (apply Qlt_shift_div_l; auto; lra).
  destruct (Qlt_le_dec 0 pa) as [|Hle]; auto. exfalso.
  assert (pa / qa <= 0) by (apply Qle_shift_div_r; auto; lra). lra.
Qed.

Lemma nth_error_weights (sup : list nat) : forall (w : list Q) s j,
  nth_error (map (fun '(x, i) => if existsb (Nat.eqb i) sup then x else 0) (combine w (seq s (length w)))) j =
  match nth_error w j with
  | Some x => Some (if existsb (Nat.eqb (s + j)%nat) sup then x else 0)
  | None => None
  end.
Proof.
  induction w as [|x w IH]; intros s j; cbn [length seq combine map].
  - destruct j; reflexivity.
  - destruct j as [|j]; cbn [nth_error].
    + rewrite Nat.add_0_r. reflexivity.
    + rewrite IH. replace (Datatypes.S s + j)%nat with (s + Datatypes.S j)%nat by lia. reflexivity.
Qed.

Lemma existsb_eqb_In i (sup : list nat) : existsb (Nat.eqb i) sup = true <-> In i sup.
Proof.
  rewrite existsb_exists. split.
  - intros (x & Hx & E). apply Nat.eqb_eq in E. subst. exact Hx.
  - intro H. exists i. split; auto. apply Nat.eqb_refl.
Qed.

(* the masked head samples a legal action whatever the exponential draws are, as soon as one index of the
   support (which is legal) carries positive weight *)
Lemma sample_masked_legal_lemma l legal weights q k xk wk :
  length weights = length q -> (forall x, In x q -> 0 < x) ->
  nth_error legal k = Some true -> nth_error l k = Some xk -> NEG + UNDERFLOW <= xk ->
  In k (masked_support l legal) -> nth_error weights k = Some wk -> 0 < wk ->
  nth_error legal (sample_masked l legal weights q) = Some true.
Proof.
  intros Hlen Hq Hk Hxk Hlow Hin Hwk Hpos. unfold sample_masked.
  set (sup := masked_support l legal) in *.
  set (p := map _ _).
  assert (Hp : forall j, nth_error p j = match nth_error weights j with
            | Some x => Some (if existsb (Nat.eqb j) sup then x else 0) | None => None end).
  { intro j. unfold p. rewrite nth_error_weights. reflexivity. }
  assert (Hlp : length p = length q).
  { unfold p. rewrite map_length, combine_length, seq_length. lia. }
  assert (Hpk : nth_error p k = Some wk).
  { rewrite Hp, Hwk. assert (existsb (Nat.eqb k) sup = true) as -> by (apply existsb_eqb_In; auto). reflexivity. }
  destruct (multinomial_positive_lemma p q k wk Hlp Hq Hpk Hpos) as (pr & Hr & Hr0).
  set (r := multinomial_exp p q) in *.
  rewrite Hp in Hr. destruct (nth_error weights r) as [wr|]; [|discriminate].
  destruct (existsb (Nat.eqb r) sup) eqn:E.
  - apply existsb_eqb_In in E. exact (masked_support_legal_lemma l legal k xk Hk Hxk Hlow r E).
  - injection Hr as <-. lra.
Qed.
