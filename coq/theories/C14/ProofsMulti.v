(* C14 — row alignment of stacked per-agent masks (IPPO) and the mask-free DQN call. *)
From Coq Require Import List Bool Arith Lia QArith Lqa.
Import ListNotations.
From AgileV Require Import C14.Model C14.Proofs C14.ProofsBox C14.ProofsSupport.
Local Open Scope Q_scope.

Lemma ippo_stack_row {A} : forall (per_agent : list (list A)) (B i r : nat),
  Forall (fun m => length m = B) per_agent -> (r < B)%nat ->
  nth_error (ippo_stack per_agent) (i * B + r) =
  match nth_error per_agent i with Some m => nth_error m r | None => None end.
Proof.
  unfold ippo_stack. induction per_agent as [|m ms IH]; intros B i r HF Hr.
  - cbn [concat]. destruct (i * B + r)%nat; destruct i; reflexivity.
  - inversion HF as [|? ? Hm HF']; subst. cbn [concat]. destruct i as [|i].
    + cbn [Nat.mul Nat.add nth_error]. rewrite nth_error_app1 by lia. reflexivity.
    + cbn [nth_error]. rewrite nth_error_app2 by (cbn; lia).
      replace (S i * length m + r - length m)%nat with (i * length m + r)%nat by (cbn; lia).
      apply IH; auto.
Qed.

(* every action the shared actor can sample for agent i in environment r is legal under THAT agent's mask of THAT environment *)
Lemma ippo_rows_legal_lemma l (masks : list (list (list bool))) B i r m S k xk :
  Forall (fun ms => length ms = B) masks -> (r < B)%nat ->
  nth_error masks i = Some m ->
  nth_error (ippo_supports l masks) (i * B + r) = Some S ->
  forall legal, nth_error m r = Some legal ->
  nth_error legal k = Some true -> nth_error l k = Some xk -> NEG + UNDERFLOW <= xk ->
  forall a, In a S -> nth_error legal a = Some true.
Proof.
  intros HF Hr Hm HS legal Hl Hk Hxk Hlow a Ha.
  unfold ippo_supports in HS. rewrite nth_error_map in HS.
  rewrite (ippo_stack_row masks B i r HF Hr), Hm, Hl in HS. cbn in HS. injection HS as <-.
  eapply masked_support_legal_lemma; eauto.
Qed.

(* a call without a mask: DQN builds an all-ones mask; the policy branch is then the plain argmax *)
Lemma fill_all_true q : fill q (repeat true (length q)) = map Some q.
Proof. unfold fill. induction q as [|v q IH]; cbn; auto. f_equal. exact IH. Qed.

Lemma dqn_policy_no_mask_lemma q : dqn_policy q (repeat true (length q)) = argmax_first (map Some q).
Proof. unfold dqn_policy. rewrite fill_all_true. reflexivity. Qed.

(* the pinned product form argmax(rand * mask) is legal as soon as ONE legal entry draws a positive number
   (and all draws are >= 0) — exactly the hypothesis a draw of 0.0 breaks *)
Lemma nth_error_pinned u legal j :
  nth_error (map (fun '(x, m) => Some (if (m : bool) then x else 0)) (combine u legal)) j =
  match nth_error u j, nth_error legal j with
  | Some v, Some m => Some (Some (if m then v else 0))
  | _, _ => None
  end.
Proof.
  revert legal j; induction u as [|v u IH]; intros [|m legal] [|j]; cbn; auto.
  destruct (nth_error u j); auto.
Qed.

Lemma dqn_random_pinned_legal_if_positive u legal k uk :
  length u = length legal -> nth_error legal k = Some true -> nth_error u k = Some uk -> 0 < uk ->
  nth_error legal (dqn_random_pinned u legal) = Some true.
Proof.
  intros Hlen Hk Huk Hpos. unfold dqn_random_pinned.
  set (l := map _ _). set (a := argmax_first l).
  assert (Hne : l <> []).
  { intro E. pose proof (nth_error_pinned u legal k) as H. fold l in H. rewrite E, Huk, Hk in H. destruct k; discriminate. }
  destruct (argmax_first_spec _ Hne) as (rv & Hr & Hmax & _). fold a in Hr.
  unfold l in Hr. rewrite nth_error_pinned in Hr.
  destruct (nth_error u a) as [ua|] eqn:Hua; [|discriminate].
  destruct (nth_error legal a) as [ma|] eqn:Hma; [|discriminate]. injection Hr as <-.
  destruct ma; auto.
  specialize (Hmax k (Some uk)). unfold l in Hmax. rewrite nth_error_pinned, Huk, Hk in Hmax.
  specialize (Hmax eq_refl). cbn in Hmax. apply Qltb_false in Hmax. lra.
Qed.

(* ------------------------------------------------------------------ the sampler (exponential race) *)
Lemma nth_error_race p q j :
  nth_error (map (fun '(pi, qi) => Some (pi / qi)) (combine p q)) j =
  match nth_error p j, nth_error q j with
  | Some a, Some b => Some (Some (a / b))
  | _, _ => None
  end.
Proof.
  revert q j; induction p as [|a p IH]; intros [|b q] [|j]; cbn; auto.
  destruct (nth_error p j); auto.
Qed.

(* whatever the positive draws, the sampled index has positive probability *)
Lemma multinomial_positive_lemma p q k pk :
  length p = length q -> (forall x, In x q -> 0 < x) ->
  nth_error p k = Some pk -> 0 < pk ->
  exists pr, nth_error p (multinomial_exp p q) = Some pr /\ 0 < pr.
Proof.
  intros Hlen Hq Hk Hpk. unfold multinomial_exp.
  set (l := map _ _). set (a := argmax_first l).
  destruct (same_length_nth q p k pk (eq_sym Hlen) Hk) as [qk Hqk].
  assert (Hne : l <> []).
  { intro E. pose proof (nth_error_race p q k) as H. fold l in H. rewrite E, Hk, Hqk in H. destruct k; discriminate. }
  destruct (argmax_first_spec _ Hne) as (rv & Hr & Hmax & _). fold a in Hr.
  unfold l in Hr. rewrite nth_error_race in Hr.
  destruct (nth_error p a) as [pa|] eqn:Hpa; [|discriminate].
  destruct (nth_error q a) as [qa|] eqn:Hqa; [|discriminate]. injection Hr as <-.
  exists pa. split; auto.
  specialize (Hmax k (Some (pk / qk))). unfold l in Hmax. rewrite nth_error_race, Hk, Hqk in Hmax.
  specialize (Hmax eq_refl). cbn in Hmax. apply Qltb_false in Hmax.
  assert (Hqk0 : 0 < qk) by (apply Hq; eapply nth_error_In; eauto).
  assert (Hqa0 : 0 < qa) by (apply Hq; eapply nth_error_In; eauto).
  assert (Hpos : 0 < pk / qk) by (apply Qlt_shift_div_l; auto; lra).
  destruct (Qlt_le_dec 0 pa) as [|Hle]; auto. exfalso.
  assert (pa / qa <= 0) by (apply Qle_shift_div_r; auto; lra). lra.
Qed.

Lemma nth_error_weights (sup : list nat) : forall (w : list Q) s j,
  nth_error (map (fun '(x, i) => if existsb (Nat.eqb i) sup then x else 0) (combine w (seq s (length w)))) j =
  match nth_error w j with
  | Some x => Some (if existsb (Nat.eqb (s + j)%nat) sup then x else 0)
  | None => None
  end.
Proof.
  induction w as [|x w IH]; intros s j; cbn [length seq combine map].
  - destruct j; reflexivity.
  - destruct j as [|j]; cbn [nth_error].
    + rewrite Nat.add_0_r. reflexivity.
    + rewrite IH. replace (Datatypes.S s + j)%nat with (s + Datatypes.S j)%nat by lia. reflexivity.
Qed.

Lemma existsb_eqb_In i (sup : list nat) : existsb (Nat.eqb i) sup = true <-> In i sup.
Proof.
  rewrite existsb_exists. split.
  - intros (x & Hx & E). apply Nat.eqb_eq in E. subst. exact Hx.
  - intro H. exists i. split; auto. apply Nat.eqb_refl.
Qed.

(* the masked head samples a legal action whatever the exponential draws are, as soon as one index of the
   support (which is legal) carries positive weight *)
Lemma sample_masked_legal_lemma l legal weights q k xk wk :
  length weights = length q -> (forall x, In x q -> 0 < x) ->
  nth_error legal k = Some true -> nth_error l k = Some xk -> NEG + UNDERFLOW <= xk ->
  In k (masked_support l legal) -> nth_error weights k = Some wk -> 0 < wk ->
  nth_error legal (sample_masked l legal weights q) = Some true.
Proof.
  intros Hlen Hq Hk Hxk Hlow Hin Hwk Hpos. unfold sample_masked.
  set (sup := masked_support l legal) in *.
  set (p := map _ _).
  assert (Hp : forall j, nth_error p j = match nth_error weights j with
            | Some x => Some (if existsb (Nat.eqb j) sup then x else 0) | None => None end).
  { intro j. unfold p. rewrite nth_error_weights. reflexivity. }
  assert (Hlp : length p = length q).
  { unfold p. rewrite map_length, combine_length, seq_length. lia. }
  assert (Hpk : nth_error p k = Some wk).
  { rewrite Hp, Hwk. assert (existsb (Nat.eqb k) sup = true) as -> by (apply existsb_eqb_In; auto). reflexivity. }
  destruct (multinomial_positive_lemma p q k wk Hlp Hq Hpk Hpos) as (pr & Hr & Hr0).
  set (r := multinomial_exp p q) in *.
  rewrite Hp in Hr. destruct (nth_error weights r) as [wr|]; [|discriminate].
  destruct (existsb (Nat.eqb r) sup) eqn:E.
  - apply existsb_eqb_In in E. exact (masked_support_legal_lemma l legal k xk Hk Hxk Hlow r E).
  - injection Hr as <-. lra.
Qed.

(* ------------------------------------------------------------------ numeric masks, batches, all agents *)
Lemma legal_of_num_spec m : legal_of_num m = true <-> m == 1.
Proof.
  unfold legal_of_num. rewrite Qeq_bool_iff. split; intro H; lra.
Qed.

(* on 0/1 masks (of any numeric type) the inverted mask is exactly "m is non-zero" *)
Lemma legal_of_nums_01 ms :
  Forall (fun m => m == 0 \/ m == 1) ms ->
  legal_of_nums ms = map (fun m => negb (Qeq_bool m 0)) ms.
Proof.
  induction 1 as [|m ms [H0|H1] _ IH]; cbn; auto; f_equal; auto.
  - assert (legal_of_num m = false) as ->.
    { destruct (legal_of_num m) eqn:E; auto. apply legal_of_num_spec in E. lra. }
    assert (Qeq_bool m 0 = true) as -> by (apply Qeq_bool_iff; auto). reflexivity.
  - assert (legal_of_num m = true) as -> by (apply legal_of_num_spec; auto).
    assert (Qeq_bool m 0 = false) as ->.
    { destruct (Qeq_bool m 0) eqn:E; auto. apply Qeq_bool_iff in E. lra. }
    reflexivity.
Qed.

(* ... but a "truthy" entry other than 1 (e.g. 2) is treated as illegal by the 1 - m inversion *)
Lemma legal_of_num_truthy_refuted : exists m, ~ m == 0 /\ legal_of_num m = false.
Proof. exists 2. split; [lra | reflexivity]. Qed.

(* a batch is processed row by row: the action of a row does not depend on the other rows of the batch *)
Lemma dqn_batch_rowwise eps rows1 rows2 :
  dqn_get_action eps (rows1 ++ rows2) = dqn_get_action eps rows1 ++ dqn_get_action eps rows2.
Proof. unfold dqn_get_action. apply map_app. Qed.
Lemma dqn_batch_nth eps rows i r :
  nth_error rows i = Some r ->
  nth_error (dqn_get_action eps rows) i = Some (dqn_row (dq_q r) (dq_u r) (dq_coin r) eps (dq_legal r)).
Proof. intro H. unfold dqn_get_action. rewrite nth_error_map, H. reflexivity. Qed.
Lemma greedy_batch_nth rows i v m :
  nth_error rows i = Some (v, m) -> nth_error (greedy_rows rows) i = Some (greedy_row v m).
Proof. intro H. unfold greedy_rows. rewrite nth_error_map, H. reflexivity. Qed.
Lemma ddpg_batch_nth training a box rows i y n :
  nth_error rows i = Some (y, n) ->
  nth_error (ddpg_get_action training a box rows) i = Some (ddpg_row training a box y n).
Proof. intro H. unfold ddpg_get_action. rewrite nth_error_map, H. reflexivity. Qed.

(* every agent of a multi-agent learner stays inside ITS OWN box (training: clamp; evaluation: rescale) *)
Lemma maddpg_all_agents_in_box training a agents :
  Forall (fun '(box, y, n) => Forall wf_bounds box /\ length y = length box /\ length n = length box /\
            (training = false -> squashing a = true /\ finite_box box = true /\ forall x, In x y -> in_act_range a x)) agents ->
  Forall2 (fun '(box, _, _) out => in_box box out) agents (maddpg_cont_all training a agents).
Proof.
  unfold maddpg_cont_all. induction 1 as [|[[box y] n] rest (W & Ly & Ln & He) _ IH]; cbn; constructor; auto.
  destruct training.
  - apply maddpg_cont_train_in_box; auto.
  - destruct (He eq_refl) as (S & F & R). apply maddpg_cont_eval_in_box; auto.
Qed.
