(* C14 — support of the masked categorical / Bernoulli heads (apply_action_mask_discrete). *)
From Coq Require Import List Bool Arith Lia QArith Lqa.
Import ListNotations.
From AgileV Require Import C14.Model C14.Proofs C14.ProofsBox.
Local Open Scope Q_scope.

Lemma qmax_ge_l x y : x <= qmax x y.
Proof. destruct (qmax_spec x y) as [[H ->]|[H ->]]; lra. Qed.
Lemma qmax_ge_r x y : y <= qmax x y.
Proof. destruct (qmax_spec x y) as [[H ->]|[H ->]]; lra. Qed.
Lemma qmax_either x y : qmax x y = x \/ qmax x y = y.
Proof. unfold qmax. destruct (Qle_bool x y); auto. Qed.

Lemma qmax_list_ge : forall l d, d <= qmax_list d l /\ forall x, In x l -> x <= qmax_list d l.
Proof.
  induction l as [|y l IH]; intro d; cbn.
  - split; [lra|tauto].
  - destruct (IH (qmax d y)) as [H1 H2]. pose proof (qmax_ge_l d y). pose proof (qmax_ge_r d y).
    split; [lra|]. intros x [<-|Hx]; [lra|auto].
Qed.
Lemma qmax_list_in : forall l d, qmax_list d l = d \/ In (qmax_list d l) l.
Proof.
  induction l as [|y l IH]; intro d; cbn; auto.
  destruct (IH (qmax d y)) as [E|E]; auto. rewrite E. destruct (qmax_either d y) as [->| ->]; auto.
Qed.
Lemma list_max_ge l x : In x l -> x <= list_max l.
Proof.
  destruct l as [|y l]; cbn; [tauto|]. destruct (qmax_list_ge l y) as [H1 H2].
  intros [<-|Hx]; auto.
Qed.
Lemma list_max_in l : l <> [] -> In (list_max l) l.
Proof.
  destruct l as [|y l]; [congruence|]. intros _. cbn [list_max].
  destruct (qmax_list_in l y) as [->|H]; [left; auto|right; auto].
Qed.

Lemma support_go_In mx : forall l s i,
  In i (support_go mx l s) <-> (s <= i)%nat /\ exists x, nth_error l (i - s) = Some x /\ mx - x < UNDERFLOW.
Proof.
  induction l as [|y l IH]; intros s i; cbn [support_go].
  - split; [intros []|]. intros [_ (x & H & _)]. destruct (i - s)%nat; discriminate.
  - destruct (Qltb (mx - y) UNDERFLOW) eqn:E.
    + cbn [In]. rewrite IH. split.
      * intros [<-|[Hs (x & Hx & Hlt)]].
        -- split; [lia|]. exists y. rewrite Nat.sub_diag. split; auto. apply Qltb_true; auto.
        -- split; [lia|]. exists x. replace (i - s)%nat with (S (i - S s)) by lia. auto.
      * intros [Hs (x & Hx & Hlt)]. destruct (Nat.eq_dec s i) as [->|Hne]; [left; auto|right].
        split; [lia|]. exists x. replace (i - s)%nat with (S (i - S s)) in Hx by lia. auto.
    + rewrite IH. apply Qltb_false in E. split.
      * intros [Hs (x & Hx & Hlt)]. split; [lia|]. exists x. replace (i - s)%nat with (S (i - S s)) by lia. auto.
      * intros [Hs (x & Hx & Hlt)]. destruct (Nat.eq_dec s i) as [->|Hne].
        -- rewrite Nat.sub_diag in Hx. cbn in Hx. injection Hx as <-. lra.
        -- split; [lia|]. exists x. replace (i - s)%nat with (S (i - S s)) in Hx by lia. auto.
Qed.

Lemma support_In ml i :
  In i (support ml) <-> exists x, nth_error ml i = Some x /\ list_max ml - x < UNDERFLOW.
Proof.
  unfold support. rewrite support_go_In, Nat.sub_0_r. split; [intros [_ H]; auto|intro H; split; [lia|auto]].
Qed.

Lemma nth_error_masked_logits l legal j :
  nth_error (masked_logits l legal) j =
  match nth_error l j, nth_error legal j with
  | Some x, Some m => Some (if m then x else NEG)
  | _, _ => None
  end.
Proof.
  unfold masked_logits. revert legal j; induction l as [|v l IH]; intros [|m legal] [|j]; cbn; auto.
  destruct (nth_error l j); auto.
Qed.

(* every index that can have non-zero probability after masking is legal, provided one legal
   logit is not absurdly low (>= -1e8 + 104) *)
Lemma masked_support_legal_lemma l legal k xk :
  nth_error legal k = Some true -> nth_error l k = Some xk -> NEG + UNDERFLOW <= xk ->
  forall i, In i (masked_support l legal) -> nth_error legal i = Some true.
Proof.
  intros Hk Hxk Hlow i Hi. unfold masked_support in Hi. apply support_In in Hi.
  destruct Hi as (x & Hx & Hlt). rewrite nth_error_masked_logits in Hx.
  destruct (nth_error l i) as [xi|] eqn:Hli; [|discriminate].
  destruct (nth_error legal i) as [mi|] eqn:Hmi; [|discriminate].
  destruct mi; auto. injection Hx as <-. exfalso.
  assert (Hge : xk <= list_max (masked_logits l legal)).
  { apply list_max_ge. apply (nth_error_In _ k). rewrite nth_error_masked_logits, Hxk, Hk. reflexivity. }
  lra.
Qed.

(* the distribution is not empty: the largest masked logit always keeps positive probability *)
Lemma masked_support_nonempty_lemma l legal :
  l <> [] -> length l = length legal -> masked_support l legal <> [].
Proof.
  intros Hne Hl. unfold masked_support.
  assert (Hml : masked_logits l legal <> []).
  { destruct l, legal; cbn in *; try congruence; discriminate. }
  pose proof (list_max_in _ Hml) as Hin. apply In_nth_error in Hin. destruct Hin as [i Hi].
  intro E. assert (In i (support (masked_logits l legal))).
  { apply support_In. eexists; split; [exact Hi|]. unfold UNDERFLOW. lra. }
  rewrite E in H. destruct H.
Qed.

(* MultiDiscrete: component-wise *)
Definition comp_ok (lc : list Q) (mc : list bool) : Prop :=
  exists k xk, nth_error mc k = Some true /\ nth_error lc k = Some xk /\ NEG + UNDERFLOW <= xk.

Lemma multi_support_legal_lemma nvec l legal :
  Forall (fun '(lc, mc) => comp_ok lc mc) (combine (split_by nvec l) (split_by nvec legal)) ->
  Forall2 (fun '(lc, mc) S => forall i, In i S -> nth_error mc i = Some true)
          (combine (split_by nvec l) (split_by nvec legal)) (multi_support nvec l legal).
Proof.
  unfold multi_support. generalize (combine (split_by nvec l) (split_by nvec legal)).
  induction 1 as [|[lc mc] rest (k & xk & H1 & H2 & H3) _ IH]; cbn; constructor; auto.
  intros i Hi. eapply masked_support_legal_lemma; eauto.
Qed.

Lemma split_by_length {A} : forall nvec (l : list A), length (split_by nvec l) = length nvec.
Proof. induction nvec; intros; cbn; auto. Qed.

(* MultiBinary: a masked bit can only be 0 *)
Lemma binary_masked_zero_lemma l legal i b :
  nth_error legal i = Some false -> nth_error (binary_support l legal) i = Some b -> b = false.
Proof.
  intros Hm Hb. unfold binary_support in Hb. rewrite nth_error_map, nth_error_masked_logits, Hm in Hb.
  destruct (nth_error l i); [|discriminate]. cbn in Hb. injection Hb as <-. reflexivity.
Qed.
