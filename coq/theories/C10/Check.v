(* C10 — boolean comparison of the model with observations of the implementation (used by K only). *)
From Coq Require Import List Arith Bool QArith Qabs.
Import ListNotations.
From AgileV Require Import Base.Prelude C09.Model C10.Model.
Local Open Scope Q_scope.

Definition qclose (tol a b : Q) : bool := Qle_bool (Qabs (a - b)) tol.

Definition cell_eqb (tol : Q) (a b : cell) : bool :=
  Nat.eqb (ob a) (ob b) && Nat.eqb (ac a) (ac b) && qclose tol (rw a) (rw b) &&
  Nat.eqb (nx a) (nx b) && Bool.eqb (dn a) (dn b).

Fixpoint list_eqb {T} (eqb : T -> T -> bool) (a b : list T) : bool :=
  match a, b with
  | [], [] => true
  | x :: a', y :: b' => eqb x y && list_eqb eqb a' b'
  | _, _ => false
  end.
Definition opt_eqb {T} (eqb : T -> T -> bool) (a b : option T) : bool :=
  match a, b with Some x, Some y => eqb x y | None, None => true | _, _ => false end.

(* observation after one add: the value returned by n_step_memory.add (when observed), len of both
   buffers, (when recorded) the decoded rows of both storages, and (when the learner sampled) the
   indices drawn from the 1-step buffer with the rows both samplers returned for them *)
Record obs1 := O { o_ret : option (option (list cell)); o_nlen : nat; o_mlen : nat;
                   o_nrows : option (list (option cell)); o_mrows : option (list (option cell));
                   o_smp : option (list nat * list (option cell) * list (option cell)) }.

Definition rows_ok (tol : Q) (o : option (list (option cell))) (st : list (option cell)) : bool :=
  match o with None => true | Some rows => list_eqb (opt_eqb (cell_eqb tol)) rows st end.

Definition check_one (tol : Q) (s : pstate) (o : obs1) : bool :=
  match o_ret o with None => true | Some r => opt_eqb (list_eqb (cell_eqb tol)) r (ret s) end &&
  Nat.eqb (o_nlen o) (size (nbuf s)) && Nat.eqb (o_mlen o) (size (mem s)) &&
  rows_ok tol (o_nrows o) (store (nbuf s)) && rows_ok tol (o_mrows o) (store (mem s)) &&
  match o_smp o with
  | None => true
  | Some (idx, nr, mr) =>
      forallb (fun i => i <? size (mem s)) idx &&
      list_eqb (opt_eqb (cell_eqb tol)) nr (gather (store (nbuf s)) idx) &&
      list_eqb (opt_eqb (cell_eqb tol)) mr (gather (store (mem s)) idx)
  end.

Fixpoint check_trace (info : list vtr -> vtr) (n : nat) (tol : Q) (s : pstate) (xs : list vtr) (obs : list obs1) : bool :=
  match xs, obs with
  | [], [] => true
  | t :: xs', o :: obs' => let s' := pair_step info n s t in
                           check_one tol s' o && check_trace info n tol s' xs' obs'
  | _, _ => false
  end.

(* the whole run of the current tree's buffer pair against the observations *)
Definition check_run (n c : nat) (g tol : Q) (xs : list vtr) (obs : list obs1) : bool :=
  check_trace (n_step_info g) n tol (pinit c) xs obs.

(* several rollouts: the observations belong to the Step events *)
Fixpoint check_trace_ev (info : list vtr -> vtr) (n : nat) (tol : Q) (s : pstate) (evs : list ev) (obs : list obs1) : bool :=
  match evs with
  | [] => match obs with [] => true | _ => false end
  | Step t :: evs' =>
      match obs with
      | o :: obs' => let s' := pair_step info n s t in check_one tol s' o && check_trace_ev info n tol s' evs' obs'
      | [] => false
      end
  | Reset b :: evs' => check_trace_ev info n tol (ev_step info n s (Reset b)) evs' obs
  end.

Definition check_run_ev (n c : nat) (g tol : Q) (evs : list ev) (obs : list obs1) : bool :=
  check_trace_ev (n_step_info g) n tol (pinit c) evs obs.

(* Sampler(n-step buffer).sample(idxs) after the run, with a flat and with a column index tensor:
   leading shapes (model: reshape(-1)) and rows *)
Definition shape_ok (idx_shape got : list nat) : bool :=
  list_eqb Nat.eqb got (from_indices_shape_repaired idx_shape).

Definition check_from_indices (n c : nat) (g tol : Q) (xs : list vtr) (idx : list nat)
    (flat_shape : list nat) (flat_rows : list (option cell))
    (col_shape : list nat) (col_rows : list (option cell)) : bool :=
  let s := pair_run (n_step_info g) n c xs in
  shape_ok [length idx] flat_shape && shape_ok [length idx; 1%nat] col_shape &&
  list_eqb (opt_eqb (cell_eqb tol)) flat_rows (gather (store (nbuf s)) idx) &&
  list_eqb (opt_eqb (cell_eqb tol)) col_rows (gather_col (store (nbuf s)) (map (fun i => [i]) idx)).

(* streams with resets and clear(): the observations belong to the OStep operations *)
Fixpoint check_trace_op (info : list vtr -> vtr) (n : nat) (tol : Q) (s : pstate) (ops : list op) (obs : list obs1) : bool :=
  match ops with
  | [] => match obs with [] => true | _ => false end
  | OStep t :: ops' =>
      match obs with
      | o :: obs' => let s' := pair_step info n s t in check_one tol s' o && check_trace_op info n tol s' ops' obs'
      | [] => false
      end
  | o :: ops' => check_trace_op info n tol (op_step info n s o) ops' obs
  end.

Definition check_run_op (n c : nat) (g tol : Q) (ops : list op) (obs : list obs1) : bool :=
  check_trace_op (n_step_info g) n tol (pinit c) ops obs.
