(* C10 — clear() of both buffers in the middle of a stream: the deque survives, so the windows
   completed afterwards may start before the clear; the two buffers hold exactly those windows,
   each one described by the whole stream, and stay aligned. *)
From Coq Require Import List Arith Lia Bool QArith.
Import ListNotations.
From AgileV Require Import Base.Prelude C09.Model C09.Proofs C10.Model C10.Proofs.
Local Open Scope nat_scope.

(* run invariant with the first d batches forgotten *)
Record RunInvD (g : Q) (n c d : nat) (xs : list vtr) (s : pstate) : Prop := {
  rd_win : win s = lastn n xs;
  rd_d : d <= count n xs;
  rd_n : Inv c (concat (skipn d (hist_n g n xs))) (nbuf s);
  rd_1 : Inv c (concat (skipn d (hist_1 n xs))) (mem s)
}.

Lemma skipn_snoc {T} d (l : list T) x : d <= length l -> skipn d (l ++ [x]) = skipn d l ++ [x].
Proof. intros H. rewrite skipn_app. replace (d - length l) with 0 by lia. reflexivity. Qed.

Lemma rd_step g n c E d xs s t :
  0 < E -> E <= c -> 1 <= n -> width E (xs ++ [t]) ->
  RunInvD g n c d xs s -> RunInvD g n c d (xs ++ [t]) (pair_step (n_step_info g) n s t).
Proof.
  intros HE HEc Hn Hw [Hwin Hd HIn HI1].
  assert (Hc : 0 < c) by lia.
  unfold pair_step, ns_add. rewrite Hwin. unfold dq_append. rewrite lastn_app_lastn.
  rewrite lastn_length, app_length. cbn [length].
  assert (Hmono : count n xs <= count n (xs ++ [t])) by (unfold count; rewrite app_length; cbn; lia).
  destruct (Nat.ltb_spec (Nat.min n (length xs + 1)) n) as [Hlt|Hge].
  - assert (Hs : length (xs ++ [t]) < n) by (rewrite app_length; cbn; lia).
    destruct (hist_small g n (xs ++ [t]) Hs) as [E1 E2].
    assert (Hs' : length xs < n) by lia.
    destruct (hist_small g n xs Hs') as [E3 E4].
    constructor; cbn [win nbuf mem ret].
    + reflexivity.
    + lia.
    + rewrite E1. rewrite E3 in HIn. exact HIn.
    + rewrite E2. rewrite E4 in HI1. exact HI1.
  - assert (Hl : n <= length xs + 1) by lia.
    constructor; cbn [win nbuf mem ret].
    + reflexivity.
    + lia.
    + rewrite hist_n_snoc by auto. rewrite skipn_snoc by (rewrite hist_n_length; exact Hd).
      rewrite concat_app. cbn [concat]. rewrite app_nil_r.
      apply inv_add; auto.
      assert (Hne : lastn n (xs ++ [t]) <> []).
      { intros E0. apply (f_equal (@length _)) in E0. rewrite lastn_length, app_length in E0. cbn in E0. lia. }
      destruct (info_spec g E 0 _ Hne (lastn_width E n _ Hw) HE) as (H0 & _). lia.
    + rewrite hist_1_snoc by auto. rewrite skipn_snoc by (rewrite hist_1_length by auto; exact Hd).
      rewrite concat_app. cbn [concat]. rewrite app_nil_r.
      apply inv_add; auto.
      unfold lastn. rewrite hd_skipn.
      destruct (le_lt_dec (length (xs ++ [t])) (length (xs ++ [t]) - n)) as [Hover|Hin].
      * rewrite app_length in Hover. cbn in Hover. lia.
      * unfold width in Hw. rewrite Forall_forall in Hw. rewrite (Hw _ (nth_In _ _ Hin)). exact HEc.
Qed.

(* state right after clear() of both buffers, following any stream xs0 *)
Definition cleared (s : pstate) : pstate :=
  {| win := win s; nbuf := rb_clear (nbuf s); mem := rb_clear (mem s); ret := ret s |}.

Lemma rd_after_clear g n c E xs0 :
  0 < E -> E <= c -> 1 <= n -> width E xs0 ->
  RunInvD g n c (count n xs0) xs0 (cleared (pair_run (n_step_info g) n c xs0)).
Proof.
  intros HE HEc Hn Hw. destruct (run_inv g n c E xs0 HE HEc Hn Hw) as [Hwin HIn HI1 _].
  constructor; cbn [cleared win nbuf mem].
  - exact Hwin.
  - lia.
  - rewrite skipn_all2 by (rewrite hist_n_length; lia). cbn [concat].
    unfold rb_clear. rewrite (inv_cap _ _ _ HIn). apply inv_init. lia.
  - rewrite skipn_all2 by (rewrite hist_1_length by auto; lia). cbn [concat].
    unfold rb_clear. rewrite (inv_cap _ _ _ HI1). apply inv_init. lia.
Qed.

(* clear() after xs0, then any continuation ys: both buffers hold exactly the windows of the whole
   stream xs0 ++ ys that were completed after the clear (batches count n xs0, count n xs0 + 1, ...),
   tied to the ring buffers by the C09 invariant; the deque is the last n of the whole stream *)
Theorem clear_then_continue_lemma g n c E xs0 ys :
  0 < E -> E <= c -> 1 <= n -> width E (xs0 ++ ys) ->
  RunInvD g n c (count n xs0) (xs0 ++ ys)
    (fold_left (pair_step (n_step_info g) n) ys (cleared (pair_run (n_step_info g) n c xs0))).
Proof.
  intros HE HEc Hn. induction ys as [|t ys IH] using rev_ind; intros Hw.
  - rewrite app_nil_r in *. cbn [fold_left]. apply (rd_after_clear g n c E); auto.
  - rewrite fold_left_snoc. rewrite app_assoc. apply (rd_step g n c E); auto.
    + rewrite <- app_assoc. exact Hw.
    + apply IH. rewrite app_assoc in Hw. eapply width_app_l; eauto.
Qed.

(* consequence: batch j stored after the clear is window (count n xs0 + j) of the WHOLE stream — it
   may start up to n-1 transitions before the clear — and the 1-step buffer holds the raw transition
   that window starts from: the buffers are aligned after clear() although the deque was kept *)
Lemma skipn_nth_batches {T} (d : T) m l j : nth j (skipn m l) d = nth (m + j) l d.
Proof. apply nth_skipn_add. Qed.

Theorem clear_keeps_alignment_lemma g n xs0 ys j :
  1 <= n -> count n xs0 + j < count n (xs0 ++ ys) ->
  nth j (skipn (count n xs0) (hist_n g n (xs0 ++ ys))) [] = n_step_info g (window n (xs0 ++ ys) (count n xs0 + j)) /\
  nth j (skipn (count n xs0) (hist_1 n (xs0 ++ ys))) [] = nth (count n xs0 + j) (xs0 ++ ys) [].
Proof.
  intros Hn Hj. rewrite !skipn_nth_batches. split.
  - apply hist_n_nth. exact Hj.
  - apply hist_1_nth. exact Hj.
Qed.

(* op_run unfolds to the above for a stream with one clear *)
Lemma op_run_steps info n xs : forall s,
  fold_left (op_step info n) (map OStep xs) s = fold_left (pair_step info n) xs s.
Proof. induction xs as [|t xs IH]; intros s; cbn; auto. Qed.

Lemma op_run_one_clear g n c xs0 ys :
  op_run (n_step_info g) n c (map OStep xs0 ++ OClear :: map OStep ys) =
  fold_left (pair_step (n_step_info g) n) ys (cleared (pair_run (n_step_info g) n c xs0)).
Proof.
  unfold op_run. rewrite fold_left_app. cbn [fold_left op_step]. rewrite !op_run_steps. reflexivity.
Qed.

Theorem clear_then_continue_op g n c E xs0 ys :
  0 < E -> E <= c -> 1 <= n -> width E (xs0 ++ ys) ->
  RunInvD g n c (count n xs0) (xs0 ++ ys)
    (op_run (n_step_info g) n c (map OStep xs0 ++ OClear :: map OStep ys)).
Proof. intros. rewrite op_run_one_clear. apply (clear_then_continue_lemma g n c E); assumption. Qed.

(* ---------- a clear that also empties the deque: afterwards the pair behaves as a new one ---------- *)
Lemma pair_step_caps info n s t :
  cap (nbuf (pair_step info n s t)) = cap (nbuf s) /\ cap (mem (pair_step info n s t)) = cap (mem s).
Proof.
  unfold pair_step, ns_add. destruct (length (dq_append n (win s) t) <? n); cbn; auto.
Qed.

Lemma op_step_caps info n s o :
  cap (nbuf (op_step info n s o)) = cap (nbuf s) /\ cap (mem (op_step info n s o)) = cap (mem s).
Proof.
  destruct o as [t|[|]| |]; cbn [op_step ev_step]; try apply pair_step_caps; cbn; auto.
Qed.

Lemma op_run_caps info n c ops :
  cap (nbuf (op_run info n c ops)) = c /\ cap (mem (op_run info n c ops)) = c.
Proof.
  unfold op_run. induction ops as [|o ops IH] using rev_ind; [cbn; auto|].
  rewrite fold_left_app. cbn [fold_left]. destruct (op_step_caps info n (fold_left (op_step info n) ops (pinit c)) o) as [H1 H2].
  rewrite H1, H2. exact IH.
Qed.

Theorem clear_all_fresh info n c ops ys :
  let s := op_run info n c (ops ++ OClearAll :: map OStep ys) in
  let f := pair_run info n c ys in
  win s = win f /\ nbuf s = nbuf f /\ mem s = mem f.
Proof.
  cbv zeta.
  assert (E : op_run info n c (ops ++ OClearAll :: map OStep ys) =
              fold_left (pair_step info n) ys
                {| win := []; nbuf := rb_init c; mem := rb_init c; ret := ret (op_run info n c ops) |}).
  { unfold op_run. rewrite fold_left_app. cbn [fold_left op_step]. rewrite op_run_steps.
    fold (op_run info n c ops). destruct (op_run_caps info n c ops) as [C1 C2].
    unfold rb_clear. rewrite C1, C2. reflexivity. }
  rewrite E. unfold pair_run.
  assert (G : forall xs a b, win a = win b -> nbuf a = nbuf b -> mem a = mem b ->
            let a' := fold_left (pair_step info n) xs a in let b' := fold_left (pair_step info n) xs b in
            win a' = win b' /\ nbuf a' = nbuf b' /\ mem a' = mem b').
  { induction xs as [|t xs IH]; intros a b Hw Hn Hm; cbn [fold_left]; auto.
    apply IH; unfold pair_step, ns_add; rewrite Hw, Hn, Hm;
      destruct (length (dq_append n (win b) t) <? n); reflexivity. }
  apply G; reflexivity.
Qed.
