(* C10 — executable model of agilerl.components.replay_buffer.MultiStepReplayBuffer
   (add, _get_n_step_info) and of its paired use with a 1-step ReplayBuffer in
   agilerl.training.train_off_policy.  Model only (no proofs) so that it still runs when a proof
   breaks.  The ring buffer underneath is the C09 model (rb, rb_add, dq_append). *)
From Coq Require Import List Arith Bool QArith.
Import ListNotations.
From AgileV Require Import Base.Prelude C09.Model.
Local Open Scope Q_scope.

(* what one environment contributes to one raw transition.  ob / ac / nx are tags identifying the
   observation, the action and the next observation; rw the reward; dn the done flag. *)
Record cell := C { ob : nat; ac : nat; rw : Q; nx : nat; dn : bool }.
Definition dcell : cell := C 0 0 0 0 false.

(* a raw (vectorised) transition: one cell per environment, batch_size = [num_envs] *)
Definition vtr := list cell.

(* done.bool().any() *)
Definition any_done (v : vtr) : bool := existsb dn v.

(* self.gamma ** k *)
Fixpoint qpow (g : Q) (k : nat) : Q := match k with O => 1 | S j => g * qpow g j end.

(* one pass through the loop body, for all environments at once:
     n_step_reward += reward * gamma ** (i + 1)
     first_transition[next_obs] = next_obs ; first_transition[done] = done            *)
Definition fuse1 (w : Q) (a c : cell) : cell :=
  {| ob := ob a; ac := ac a; rw := rw a + rw c * w; nx := nx c; dn := dn c |}.
Definition fuse_step (w : Q) (acc t : vtr) : vtr :=
  map (fun p => fuse1 w (fst p) (snd p)) (combine acc t).

(* for i, transition in enumerate(following): ... ; if done.any(): break *)
Fixpoint accum (g : Q) (i : nat) (acc : vtr) (following : list vtr) : vtr :=
  match following with
  | [] => acc
  | t :: rest =>
      let acc' := fuse_step (qpow g (S i)) acc t in
      if any_done t then acc' else accum g (S i) acc' rest
  end.

(* _get_n_step_info on the current tree (after fix 6825082):
     following = [] if first_done.any() else list(n_step_buffer)[1:]                  *)
Definition n_step_info (g : Q) (w : list vtr) : vtr :=
  match w with
  | [] => []
  | first :: rest => accum g 0 first (if any_done first then [] else rest)
  end.

(* the pinned behaviour (before 6825082): the first transition's done flag is never inspected *)
Definition n_step_info_pinned (g : Q) (w : list vtr) : vtr :=
  match w with
  | [] => []
  | first :: rest => accum g 0 first rest
  end.

(* MultiStepReplayBuffer.add, parametric in the fusion so that the pinned loop can be run too:
   append to deque(maxlen = n); nothing stored while len < n; otherwise the fused batch goes into
   the ring buffer (ReplayBuffer.add = C09 rb_add) and n_step_buffer[0] is returned. *)
Section Add.
Context (info : list vtr -> vtr) (n : nat).

Definition ns_add (w : list vtr) (b : rb cell) (t : vtr) : list vtr * rb cell * option vtr :=
  let w' := dq_append n w t in
  if length w' <? n then (w', b, None)
  else (w', rb_add b (info w'), Some (hd [] w')).

(* the pairing in train_off_policy:
     one_step_transition = n_step_memory.add(transition)
     if one_step_transition is not None: memory.add(one_step_transition)               *)
Record pstate := { win : list vtr; nbuf : rb cell; mem : rb cell; ret : option vtr }.

Definition pinit (c : nat) : pstate := {| win := []; nbuf := rb_init c; mem := rb_init c; ret := None |}.

Definition pair_step (s : pstate) (t : vtr) : pstate :=
  let '(w', b', r) := ns_add (win s) (nbuf s) t in
  {| win := w'; nbuf := b';
     mem := match r with Some o => rb_add (mem s) o | None => mem s end;
     ret := r |}.

Definition pair_run (c : nat) (xs : list vtr) : pstate := fold_left pair_step xs (pinit c).
End Add.

(* ---------- several rollouts: env.reset() between the turns of the agents of a population ----------
   train_off_policy calls env.reset() at the start of every agent's turn (every agent, every
   generation) and keeps feeding the same n_step_memory.  [Reset false] = the tree as it is: the
   deque of raw transitions survives the reset.  [Reset true] = the deque is emptied at the reset
   (repair fixes/C10-nstep-deque-survives-reset.patch). *)
Inductive ev := Step (t : vtr) | Reset (clears : bool).

Definition ev_step (info : list vtr -> vtr) (n : nat) (s : pstate) (e : ev) : pstate :=
  match e with
  | Step t => pair_step info n s t
  | Reset true => {| win := []; nbuf := nbuf s; mem := mem s; ret := ret s |}
  | Reset false => s
  end.

Definition ev_run (info : list vtr -> vtr) (n c : nat) (evs : list ev) : pstate :=
  fold_left (ev_step info n) evs (pinit c).

(* the event list of a sequence of rollouts, each started by a reset *)
Definition evs_of (clears : bool) (segs : list (list vtr)) : list ev :=
  flat_map (fun seg => Reset clears :: map Step seg) segs.

(* ---------- clear() of both buffers in the middle of a stream ----------
   MultiStepReplayBuffer inherits ReplayBuffer.clear(): storage, cursor and size are reset, the
   deque of raw transitions is NOT touched.  [op] extends [ev] with that operation. *)
Inductive op := OStep (t : vtr) | OReset (clears : bool) | OClear | OClearAll.

Definition op_step (info : list vtr -> vtr) (n : nat) (s : pstate) (o : op) : pstate :=
  match o with
  | OStep t => pair_step info n s t
  | OReset b => ev_step info n s (Reset b)
  | OClear => {| win := win s; nbuf := rb_clear (nbuf s); mem := rb_clear (mem s); ret := ret s |}
  (* a clear() that would also empty the deque (not the tree's; kept so that such a change of the code is followed) *)
  | OClearAll => {| win := []; nbuf := rb_clear (nbuf s); mem := rb_clear (mem s); ret := ret s |}
  end.

Definition op_run (info : list vtr -> vtr) (n c : nat) (ops : list op) : pstate :=
  fold_left (op_step info n) ops (pinit c).

(* sample_from_indices(idxs) = storage[idxs], and memory.sample(..., return_idx=True) rows: a gather *)
Definition gather (st : list (option cell)) (idx : list nat) : list (option cell) :=
  map (fun i => nth i st None) idx.

(* the index tensor may be a column of shape (B,1) (what PrioritizedReplayBuffer.sample reports as idxs):
   sample_from_indices flattens it (fix 04eaa1c) *)
Definition gather_col (st : list (option cell)) (col : list (list nat)) : list (option cell) :=
  gather st (concat col).

(* ---------- batch layout of the two samples handed to the learner (shapes only) ----------
   storage[idx] with an index tensor of shape s has batch shape s.
   PrioritizedReplayBuffer.sample(B): rows = storage[indices] with indices of shape [B], and it
   reports idxs = indices.unsqueeze(1), shape [B; 1].  The training loop passes those idxs on. *)
Definition per_rows_shape (B : nat) : list nat := [B]%nat.
Definition per_idxs_shape (B : nat) : list nat := [B; 1%nat].
(* sample_from_indices as it is in the tree: storage[idxs] *)
Definition from_indices_shape_pinned (idx_shape : list nat) : list nat := idx_shape.
(* with fixes/C10-nstep-sample-column-indices.patch: storage[idxs.reshape(-1)] *)
Definition from_indices_shape_repaired (idx_shape : list nat) : list nat := [fold_right Nat.mul 1%nat idx_shape].

(* ---------- specification side (independent of the loop) ---------- *)
(* number of transitions of a window that are summed: up to and including the first one in which
   some environment is done, or all of them *)
Fixpoint cut (w : list vtr) : nat :=
  match w with
  | [] => 0
  | t :: r => if any_done t then 1 else S (cut r)
  end.

Definition cellat (xs : list vtr) (k e : nat) : cell := nth e (nth k xs []) dcell.

(* window k of a stream *)
Definition window (n : nat) (xs : list vtr) (k : nat) : list vtr := firstn n (skipn k xs).

(* sum_{i<m} g^i * r_{k+i, e} *)
Definition disc_sum (g : Q) (xs : list vtr) (k e m : nat) : Q :=
  fold_right Qplus 0 (map (fun i => qpow g i * rw (cellat xs (k + i) e)) (seq 0 m)).
