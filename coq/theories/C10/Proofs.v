(* C10 — proofs about the n-step fusion loop and the paired buffers. *)
From Coq Require Import List Arith Lia Bool QArith Lqa.
Import ListNotations.
From AgileV Require Import Base.Prelude C09.Model C09.Proofs C10.Model.
Local Open Scope nat_scope.

(* ---------- small list facts ---------- *)
Lemma any_done_false_nth v e : any_done v = false -> dn (nth e v dcell) = false.
Proof.
  unfold any_done. revert e. induction v as [|a v IH]; intros e H.
  - destruct e; reflexivity.
  - cbn in H. apply orb_false_iff in H. destruct H as [Ha Hv]. destruct e; cbn; auto.
Qed.

Lemma any_done_true_ex v : any_done v = true -> exists e, e < length v /\ dn (nth e v dcell) = true.
Proof.
  unfold any_done. induction v as [|a v IH]; cbn; intros H; [discriminate|].
  apply orb_true_iff in H. destruct H as [H|H].
  - exists 0. split; [lia|exact H].
  - destruct (IH H) as (e & He & Hd). exists (S e). split; [lia|exact Hd].
Qed.

Lemma nth_map_lt {T U} (f : T -> U) l n d d' : n < length l -> nth n (map f l) d' = f (nth n l d).
Proof. revert n; induction l as [|a l IH]; intros [|n] H; cbn in *; try lia; auto. apply IH; lia. Qed.

Lemma nth_fuse_step w acc t e :
  length acc = length t -> e < length acc ->
  nth e (fuse_step w acc t) dcell = fuse1 w (nth e acc dcell) (nth e t dcell).
Proof.
  intros Hl He. unfold fuse_step.
  rewrite nth_map_lt with (d := (dcell, dcell)) by (rewrite combine_length; lia).
  rewrite combine_nth by exact Hl. reflexivity.
Qed.

Lemma fuse_step_length w acc t : length acc = length t -> length (fuse_step w acc t) = length acc.
Proof. intros H. unfold fuse_step. rewrite map_length, combine_length. lia. Qed.

Definition width (E : nat) (w : list vtr) : Prop := Forall (fun v => length v = E) w.

(* ---------- the loop: what [accum] computes, environment by environment ---------- *)
(* sum_{j<m} g^(i+j) * r_{j,e} over the first m elements of w *)
Fixpoint dsum (g : Q) (i e : nat) (w : list vtr) (m : nat) : Q :=
  match m, w with
  | S m', t :: r => (qpow g i * rw (nth e t dcell) + dsum g (S i) e r m')%Q
  | _, _ => 0%Q
  end.

(* the cell whose next_obs / done end up in the record: element m-1 of w, or the accumulator *)
Definition lastc (e : nat) (a : cell) (w : list vtr) (m : nat) : cell :=
  match m with O => a | S m' => nth e (nth m' w []) dcell end.

Lemma accum_spec g E e : forall rest i acc,
  length acc = E -> width E rest -> (e < E) ->
  let r := nth e (accum g i acc rest) dcell in
  let a := nth e acc dcell in
  length (accum g i acc rest) = E /\
  ob r = ob a /\ ac r = ac a /\
  (rw r == rw a + dsum g (S i) e rest (cut rest))%Q /\
  nx r = nx (lastc e a rest (cut rest)) /\ dn r = dn (lastc e a rest (cut rest)).
Proof.
  induction rest as [|t rest IH]; intros i acc Hacc Hw He; cbn [accum cut].
  - cbn. repeat split; auto. (try ring; lra).
  - inversion Hw as [|? ? Ht Hw']; subst.
    assert (Hl : length acc = length t) by lia.
    assert (He' : (e < length acc)) by lia.
    destruct (any_done t) eqn:Hd.
    + cbv zeta. rewrite nth_fuse_step by auto. rewrite fuse_step_length by auto.
      cbn. repeat split; auto. (try ring; lra).
    + specialize (IH (S i) (fuse_step (qpow g (S i)) acc t)).
      rewrite fuse_step_length in IH by auto.
      specialize (IH eq_refl Hw' He). cbv zeta in IH. rewrite nth_fuse_step in IH by auto.
      destruct IH as (H0 & H1 & H2 & H3 & H4 & H5).
      cbv zeta. repeat split; auto.
      * rewrite H3. cbn [dsum fuse1 rw]. (try ring; lra).
      * rewrite H4. destruct (cut rest); reflexivity.
      * rewrite H5. destruct (cut rest); reflexivity.
Qed.

(* ---------- [cut]: how many transitions of a window are summed ---------- *)
Lemma cut_le w : (cut w <= length w).
Proof. induction w as [|t r IH]; cbn; auto. destruct (any_done t); cbn; lia. Qed.

Lemma cut_pos w : w <> [] -> (1 <= cut w).
Proof. destruct w as [|t r]; [congruence|]. intros _. cbn. destruct (any_done t); lia. Qed.

Lemma cut_before w : forall j, (j + 1 < cut w) -> any_done (nth j w []) = false.
Proof.
  induction w as [|t r IH]; cbn; intros j H; [lia|].
  destruct (any_done t) eqn:Hd; [lia|]. destruct j; auto. apply IH. lia.
Qed.

Lemma cut_stop w : cut w = length w \/ any_done (nth (cut w - 1) w []) = true.
Proof.
  induction w as [|t r IH]; cbn; auto.
  destruct (any_done t) eqn:Hd; [right; exact Hd|].
  destruct IH as [IH|IH]; [left; lia|]. right.
  destruct (cut r) eqn:Ec; cbn in *.
  - destruct r; cbn in *; [discriminate|]. destruct (any_done l); discriminate.
  - rewrite Nat.sub_0_r in IH. exact IH.
Qed.

(* ---------- _get_n_step_info = specification, for every window ---------- *)
(* [dsum] in closed form *)
Lemma dsum_seq g e : forall m w i, (m <= length w) ->
  (dsum g i e w m == fold_right Qplus 0 (map (fun j => qpow g (i + j) * rw (nth e (nth j w []) dcell)) (seq 0 m)))%Q.
Proof.
  induction m as [|m IH]; intros w i Hm; cbn [dsum seq map fold_right]; [reflexivity|].
  destruct w as [|t r]; cbn in Hm; [lia|].
  rewrite IH by lia. rewrite Nat.add_0_r. cbn [nth]. apply Qplus_comp; [reflexivity|].
  rewrite <- seq_shift, map_map.
  assert (E : forall l, (fold_right Qplus 0 (map (fun j : nat => qpow g (S i + j) * rw (nth e (nth j r []) dcell)) l) ==
                        fold_right Qplus 0 (map (fun x : nat => qpow g (i + S x) * rw (nth e (nth (S x) (t :: r) []) dcell)) l))%Q).
  { induction l as [|x l IHl]; cbn [map fold_right]; [reflexivity|].
    rewrite IHl. rewrite Nat.add_succ_r. cbn [nth plus]. reflexivity. }
  apply E.
Qed.

Lemma info_spec g E e w :
  w <> [] -> width E w -> (e < E) ->
  let r := nth e (n_step_info g w) dcell in
  let m := cut w in
  length (n_step_info g w) = E /\
  ob r = ob (cellat w 0 e) /\ ac r = ac (cellat w 0 e) /\
  (rw r == disc_sum g w 0 e m)%Q /\
  nx r = nx (cellat w (m - 1) e) /\ dn r = dn (cellat w (m - 1) e).
Proof.
  intros Hne Hw He. destruct w as [|first rest]; [congruence|].
  inversion Hw as [|? ? Hf Hr]; subst.
  unfold n_step_info, disc_sum, cellat. cbn [cut].
  destruct (any_done first) eqn:Hd.
  - cbn. repeat split; auto. (try ring; lra).
  - pose proof (accum_spec g (length first) e rest 0 first eq_refl Hr He) as H.
    cbv zeta in H. destruct H as (H0 & H1 & H2 & H3 & H4 & H5).
    cbv zeta. cbn [nth]. repeat split; auto.
    + rewrite H3. rewrite dsum_seq by apply cut_le.
      cbn [seq map fold_right]. cbn [qpow Nat.add nth]. rewrite <- seq_shift, map_map.
      apply Qplus_comp; [ring|].
      generalize (seq 0 (cut rest)). intros l.
      induction l as [|x l IHl]; cbn [map fold_right]; [reflexivity|]. rewrite IHl. reflexivity.
    + rewrite H4. cbn [Nat.sub]. rewrite Nat.sub_0_r. unfold lastc.
      destruct (cut rest) eqn:Ec; cbn; [reflexivity|]. rewrite Nat.sub_0_r. reflexivity.
    + rewrite H5. cbn [Nat.sub]. rewrite Nat.sub_0_r. unfold lastc.
      destruct (cut rest) eqn:Ec; cbn; [reflexivity|]. rewrite Nat.sub_0_r. reflexivity.
Qed.
