(* C10 — proofs about the n-step fusion loop and the paired buffers. *)
From Coq Require Import List Arith Lia Bool QArith Qpower Lqa.
Import ListNotations.
From AgileV Require Import Base.Prelude C09.Model C09.Proofs C10.Model.
Local Open Scope nat_scope.

(* ---------- small list facts ---------- *)
Lemma any_done_false_nth v e : any_done v = false -> dn (nth e v dcell) = false.
Proof.
  unfold any_done. revert e. induction v as [|a v IH]; intros e H.
  - destruct e; reflexivity.
  - cbn in H. apply orb_false_iff in H. destruct H as [Ha Hv]. destruct e; cbn; auto.
Qed.

Lemma any_done_true_ex v : any_done v = true -> exists e, e < length v /\ dn (nth e v dcell) = true.
Proof.
  unfold any_done. induction v as [|a v IH]; cbn; intros H; [discriminate|].
  apply orb_true_iff in H. destruct H as [H|H].
  - exists 0. split; [lia|exact H].
  - destruct (IH H) as (e & He & Hd). exists (S e). split; [lia|exact Hd].
Qed.

Lemma nth_map_lt {T U} (f : T -> U) l n d d' : n < length l -> nth n (map f l) d' = f (nth n l d).
Proof. revert n; induction l as [|a l IH]; intros [|n] H; cbn in *; try lia; auto. apply IH; lia. Qed.

Lemma nth_fuse_step w acc t e :
  length acc = length t -> e < length acc ->
  nth e (fuse_step w acc t) dcell = fuse1 w (nth e acc dcell) (nth e t dcell).
Proof.
  intros Hl He. unfold fuse_step.
  rewrite nth_map_lt with (d := (dcell, dcell)) by (rewrite combine_length; lia).
  rewrite combine_nth by exact Hl. reflexivity.
Qed.

Lemma fuse_step_length w acc t : length acc = length t -> length (fuse_step w acc t) = length acc.
Proof. intros H. unfold fuse_step. rewrite map_length, combine_length. lia. Qed.

Definition width (E : nat) (w : list vtr) : Prop := Forall (fun v => length v = E) w.

(* ---------- the loop: what [accum] computes, environment by environment ---------- *)
(* sum_{j<m} g^(i+j) * r_{j,e} over the first m elements of w *)
Fixpoint dsum (g : Q) (i e : nat) (w : list vtr) (m : nat) {struct m} : Q :=
  match m with
  | O => 0%Q
  | S m' => match w with
            | [] => 0%Q
            | t :: r => (qpow g i * rw (nth e t dcell) + dsum g (S i) e r m')%Q
            end
  end.

(* the cell whose next_obs / done end up in the record: element m-1 of w, or the accumulator *)
Definition lastc (e : nat) (a : cell) (w : list vtr) (m : nat) : cell :=
  match m with O => a | S m' => nth e (nth m' w []) dcell end.

Lemma accum_spec g E e : forall rest i acc,
  length acc = E -> width E rest -> (e < E) ->
  let r := nth e (accum g i acc rest) dcell in
  let a := nth e acc dcell in
  length (accum g i acc rest) = E /\
  ob r = ob a /\ ac r = ac a /\
  (rw r == rw a + dsum g (S i) e rest (cut rest))%Q /\
  nx r = nx (lastc e a rest (cut rest)) /\ dn r = dn (lastc e a rest (cut rest)).
Proof.
  induction rest as [|t rest IH]; intros i acc Hacc Hw He; cbn [accum cut].
  - cbn. repeat split; auto. ring.
  - inversion Hw as [|? ? Ht Hw']; subst.
    assert (Hl : length acc = length t) by lia.
    assert (He' : (e < length acc)) by lia.
    destruct (any_done t) eqn:Hd.
    + cbv zeta. rewrite nth_fuse_step by auto. rewrite fuse_step_length by auto.
      cbn [dsum lastc fuse1 rw ob ac nx dn nth Nat.sub]. repeat split; auto. ring.
    + specialize (IH (S i) (fuse_step (qpow g (S i)) acc t)).
      rewrite fuse_step_length in IH by auto.
      specialize (IH eq_refl Hw' He). cbv zeta in IH. rewrite nth_fuse_step in IH by auto.
      destruct IH as (H0 & H1 & H2 & H3 & H4 & H5).
      cbv zeta. repeat split; auto.
      * rewrite H3. cbn [dsum fuse1 rw]. ring.
      * rewrite H4. destruct (cut rest); reflexivity.
      * rewrite H5. destruct (cut rest); reflexivity.
Qed.

(* ---------- [cut]: how many transitions of a window are summed ---------- *)
Lemma cut_le w : (cut w <= length w).
Proof. induction w as [|t r IH]; cbn; auto. destruct (any_done t); cbn; lia. Qed.

Lemma cut_pos w : w <> [] -> (1 <= cut w).
Proof. destruct w as [|t r]; [congruence|]. intros _. cbn. destruct (any_done t); lia. Qed.

Lemma cut_before w : forall j, (j + 1 < cut w) -> any_done (nth j w []) = false.
Proof.
  induction w as [|t r IH]; cbn; intros j H; [lia|].
  destruct (any_done t) eqn:Hd; [lia|]. destruct j; auto. apply IH. lia.
Qed.

Lemma cut_stop w : cut w = length w \/ any_done (nth (cut w - 1) w []) = true.
Proof.
  induction w as [|t r IH]; cbn; auto.
  destruct (any_done t) eqn:Hd; [right; exact Hd|].
  destruct IH as [IH|IH]; [left; lia|]. right.
  destruct (cut r) eqn:Ec; cbn in *.
  - destruct r as [|v r']; cbn in *; [discriminate|]. destruct (any_done v); discriminate.
  - rewrite Nat.sub_0_r in IH. exact IH.
Qed.

(* ---------- _get_n_step_info = specification, for every window ---------- *)
(* [dsum] in closed form *)
Lemma dsum_seq g e : forall m w i, (m <= length w) ->
  (dsum g i e w m == fold_right Qplus 0 (map (fun j => qpow g (i + j) * rw (nth e (nth j w []) dcell)) (seq 0 m)))%Q.
Proof.
  induction m as [|m IH]; intros w i Hm; cbn [dsum seq map fold_right]; [reflexivity|].
  destruct w as [|t r]; cbn in Hm; [lia|].
  rewrite IH by lia. rewrite Nat.add_0_r. cbn [nth]. apply Qplus_comp; [reflexivity|].
  rewrite <- seq_shift, map_map.
  assert (E : forall l, (fold_right Qplus 0 (map (fun j : nat => qpow g (S i + j) * rw (nth e (nth j r []) dcell)) l) ==
                        fold_right Qplus 0 (map (fun x : nat => qpow g (i + S x) * rw (nth e (nth (S x) (t :: r) []) dcell)) l))%Q).
  { induction l as [|x l IHl]; cbn [map fold_right]; [reflexivity|].
    rewrite IHl. rewrite Nat.add_succ_r. cbn [nth plus]. reflexivity. }
  apply E.
Qed.

Lemma info_spec g E e w :
  w <> [] -> width E w -> (e < E) ->
  let r := nth e (n_step_info g w) dcell in
  let m := cut w in
  length (n_step_info g w) = E /\
  ob r = ob (cellat w 0 e) /\ ac r = ac (cellat w 0 e) /\
  (rw r == disc_sum g w 0 e m)%Q /\
  nx r = nx (cellat w (m - 1) e) /\ dn r = dn (cellat w (m - 1) e).
Proof.
  intros Hne Hw He. destruct w as [|first rest]; [congruence|].
  inversion Hw as [|? ? Hf Hr]; subst.
  unfold n_step_info, disc_sum, cellat. cbn [cut].
  destruct (any_done first) eqn:Hd.
  - cbn. repeat split; auto. ring.
  - pose proof (accum_spec g (length first) e rest 0 first eq_refl Hr He) as H.
    cbv zeta in H. destruct H as (H0 & H1 & H2 & H3 & H4 & H5).
    cbv zeta. cbn [nth]. repeat split; auto.
    + rewrite H3. rewrite dsum_seq by apply cut_le.
      cbn [seq map fold_right]. cbn [qpow Nat.add nth]. rewrite <- seq_shift, map_map.
      apply Qplus_comp; [ring|].
      generalize (seq 0 (cut rest)). intros l.
      induction l as [|x l IHl]; cbn [map fold_right]; [reflexivity|]. rewrite IHl. reflexivity.
    + rewrite H4. replace (S (cut rest) - 1) with (cut rest) by lia. unfold lastc.
      destruct (cut rest) eqn:Ec; reflexivity.
    + rewrite H5. replace (S (cut rest) - 1) with (cut rest) by lia. unfold lastc.
      destruct (cut rest) eqn:Ec; reflexivity.
Qed.

(* ---------- windows of a stream ---------- *)
Lemma window_nth n xs k j : j < n -> nth j (window n xs k) [] = nth (k + j) xs [].
Proof. intros H. unfold window. rewrite nth_firstn_lt by exact H. apply nth_skipn_add. Qed.

Lemma window_length n xs k : k + n <= length xs -> length (window n xs k) = n.
Proof. intros H. unfold window. rewrite firstn_length, skipn_length. lia. Qed.

Lemma Forall_firstn {T} (P : T -> Prop) n l : Forall P l -> Forall P (firstn n l).
Proof. revert n; induction l as [|a l IH]; intros [|n] H; cbn; auto. inversion H; subst. constructor; auto. Qed.
Lemma Forall_skipn {T} (P : T -> Prop) n l : Forall P l -> Forall P (skipn n l).
Proof. revert n; induction l as [|a l IH]; intros [|n] H; cbn; auto. inversion H; subst. auto. Qed.

Lemma window_width E n xs k : width E xs -> width E (window n xs k).
Proof. intros H. unfold window, width. apply Forall_firstn, Forall_skipn, H. Qed.

Lemma window_cellat n xs k j e : j < n -> cellat (window n xs k) j e = cellat xs (k + j) e.
Proof. intros H. unfold cellat. rewrite window_nth by exact H. reflexivity. Qed.

(* the admissible window lengths of the property: at least one and at most n transitions are
   summed; env e is not done at any summed step but possibly the last one; the sum stops before n
   only because some environment ended at the last summed step *)
Definition ok_window (n : nat) (xs : list vtr) (e k m : nat) : Prop :=
  1 <= m <= n /\
  (forall j, j + 1 < m -> dn (cellat xs (k + j) e) = false) /\
  (m = n \/ exists e', dn (cellat xs (k + m - 1) e') = true).

Lemma window_ok n xs k e : 1 <= n -> k + n <= length xs -> ok_window n xs e k (cut (window n xs k)).
Proof.
  intros Hn Hk. pose proof (window_length n xs k Hk) as Hlen.
  assert (Hne : window n xs k <> []) by (intros E0; rewrite E0 in Hlen; cbn in Hlen; lia).
  pose proof (cut_pos _ Hne) as Hp. pose proof (cut_le (window n xs k)) as Hle. rewrite Hlen in Hle.
  split; [lia|]. split.
  - intros j Hj. pose proof (cut_before _ _ Hj) as Hb.
    rewrite window_nth in Hb by lia. unfold cellat. apply any_done_false_nth. exact Hb.
  - destruct (cut_stop (window n xs k)) as [Hs|Hs]; [left; lia|right].
    rewrite window_nth in Hs by lia. destruct (any_done_true_ex _ Hs) as (e' & _ & He').
    exists e'. unfold cellat. replace (k + cut (window n xs k) - 1) with (k + (cut (window n xs k) - 1)) by lia.
    exact He'.
Qed.

Lemma disc_sum_window g n xs k e m : m <= n ->
  (disc_sum g (window n xs k) 0 e m == disc_sum g xs k e m)%Q.
Proof.
  intros Hm. unfold disc_sum.
  assert (H : forall l, Forall (fun i => i < n) l ->
    (fold_right Qplus 0 (map (fun i => qpow g i * rw (cellat (window n xs k) (0 + i) e)) l) ==
     fold_right Qplus 0 (map (fun i => qpow g i * rw (cellat xs (k + i) e)) l))%Q).
  { induction l as [|x l IH]; intros HF; cbn [map fold_right]; [reflexivity|].
    inversion HF; subst. rewrite IH by auto. cbn [Nat.add]. rewrite window_cellat by auto. reflexivity. }
  apply H. apply Forall_forall. intros i Hi. apply in_seq in Hi. lia.
Qed.

(* the fused record of window k, stated on the stream *)
Theorem info_window_spec g E n xs k e :
  1 <= n -> k + n <= length xs -> width E xs -> e < E ->
  let r := nth e (n_step_info g (window n xs k)) dcell in
  let m := cut (window n xs k) in
  length (n_step_info g (window n xs k)) = E /\
  ok_window n xs e k m /\
  ob r = ob (cellat xs k e) /\ ac r = ac (cellat xs k e) /\
  (rw r == disc_sum g xs k e m)%Q /\
  nx r = nx (cellat xs (k + m - 1) e) /\ dn r = dn (cellat xs (k + m - 1) e).
Proof.
  intros Hn Hk Hw He. cbv zeta.
  pose proof (window_length n xs k Hk) as Hlen.
  assert (Hne : window n xs k <> []) by (intros E0; rewrite E0 in Hlen; cbn in Hlen; lia).
  pose proof (info_spec g E e _ Hne (window_width E n xs k Hw) He) as H. cbv zeta in H.
  destruct H as (H0 & H1 & H2 & H3 & H4 & H5).
  pose proof (window_ok n xs k e Hn Hk) as Hok.
  pose proof Hok as ((Hm1 & Hm2) & _).
  rewrite window_cellat in H1, H2 by lia. rewrite Nat.add_0_r in H1, H2.
  rewrite window_cellat in H4, H5 by lia.
  replace (k + (cut (window n xs k) - 1)) with (k + cut (window n xs k) - 1) in H4, H5 by lia.
  repeat split; auto; try lia; try apply Hok.
  rewrite H3. apply disc_sum_window. lia.
Qed.

(* ---------- nothing after a terminal step is mixed in ---------- *)
Lemma accum_prefix g : forall a rest rest' i acc,
  firstn a rest = firstn a rest' -> (exists j, j < a /\ any_done (nth j rest []) = true) ->
  accum g i acc rest = accum g i acc rest'.
Proof.
  induction a as [|a IH]; intros rest rest' i acc Hf (j & Hj & Hd); [lia|].
  destruct rest as [|t r].
  - destruct j; cbn in Hd; discriminate.
  - destruct rest' as [|t' r']; cbn in Hf; [discriminate|]. injection Hf as <- Hf.
    cbn [accum]. destruct (any_done t) eqn:Ht; [reflexivity|].
    destruct j as [|j]; [cbn [nth] in Hd; congruence|].
    apply IH; auto. exists j. split; [lia|exact Hd].
Qed.

Lemma info_prefix g a w w' :
  firstn a w = firstn a w' -> (exists j, j < a /\ any_done (nth j w []) = true) ->
  n_step_info g w = n_step_info g w'.
Proof.
  intros Hf (j & Hj & Hd). destruct a as [|a]; [lia|].
  destruct w as [|t r]; [destruct j; cbn in Hd; discriminate|].
  destruct w' as [|t' r']; cbn in Hf; [discriminate|]. injection Hf as <- Hf.
  cbn [n_step_info]. destruct (any_done t) eqn:Ht; [reflexivity|].
  destruct j as [|j]; [cbn [nth] in Hd; congruence|].
  apply (accum_prefix g a); auto. exists j. split; [lia|exact Hd].
Qed.

Theorem no_leak_window g n xs ys j k e :
  firstn (S j) xs = firstn (S j) ys -> dn (cellat xs j e) = true ->
  k <= j -> j < k + n ->
  n_step_info g (window n xs k) = n_step_info g (window n ys k).
Proof.
  intros Hf Hd Hk Hjn.
  apply (info_prefix g (S j - k)).
  - unfold window. rewrite !firstn_firstn.
    replace (Nat.min (S j - k) n) with (S j - k) by lia.
    rewrite !firstn_skipn_comm. replace (k + (S j - k)) with (S j) by lia. rewrite Hf. reflexivity.
  - exists (j - k). split; [lia|]. rewrite window_nth by lia. replace (k + (j - k)) with j by lia.
    unfold cellat in Hd. unfold any_done.
    apply existsb_exists. exists (nth e (nth j xs []) dcell). split; [|exact Hd].
    destruct (le_lt_dec (length (nth j xs [])) e) as [Hge|Hlt].
    + rewrite nth_overflow in Hd by exact Hge. cbn in Hd. discriminate.
    + apply nth_In. exact Hlt.
Qed.

(* ---------- the pinned loop (before fix 6825082) leaks the next episode ---------- *)
Definition w_bad : list vtr :=
  [ [C 1 1 2 1 true]; [C 2 2 4 2 false]; [C 3 3 8 3 false] ].

Lemma pinned_leaks :
  exists g n xs k e, 1 <= n /\ k + n <= length xs /\ width 1 xs /\ e < 1 /\
    dn (cellat xs k e) = true /\
    let r := nth e (n_step_info_pinned g (window n xs k)) dcell in
    nx r <> nx (cellat xs k e) /\ ~ (rw r == rw (cellat xs k e))%Q.
Proof.
  exists (1#2)%Q, 3, w_bad, 0, 0.
  split; [lia|]. split; [cbn; lia|]. split; [repeat constructor|]. split; [lia|]. split; [reflexivity|].
  cbv zeta. split.
  - cbn. discriminate.
  - intros H. vm_compute in H. discriminate.
Qed.

(* ================= the paired buffers over a whole stream ================= *)
(* number of complete windows after a stream *)
Definition count (n : nat) (xs : list vtr) : nat := length xs + 1 - n.
(* batches pushed into the n-step ring buffer / into the 1-step ring buffer, oldest first *)
Definition hist_n (g : Q) (n : nat) (xs : list vtr) : list vtr :=
  map (fun k => n_step_info g (window n xs k)) (seq 0 (count n xs)).
Definition hist_1 (n : nat) (xs : list vtr) : list vtr := firstn (count n xs) xs.

Lemma window_app n xs ys k : k + n <= length xs -> window n (xs ++ ys) k = window n xs k.
Proof.
  intros H. unfold window. rewrite skipn_app, firstn_app, skipn_length.
  replace (n - (length xs - k)) with 0 by lia. cbn. apply app_nil_r.
Qed.

Lemma window_last n l : n <= length l -> window n l (length l - n) = lastn n l.
Proof. intros H. unfold window, lastn. apply firstn_all2. rewrite skipn_length. lia. Qed.

Lemma firstn_S_nth {T} (d : T) : forall a l, a < length l -> firstn (S a) l = firstn a l ++ [nth a l d].
Proof.
  induction a as [|a IH]; intros [|x l] H; cbn in *; try lia; auto.
  f_equal. apply IH. lia.
Qed.

Lemma hd_skipn {T} (d : T) a l : hd d (skipn a l) = nth a l d.
Proof.
  replace (hd d (skipn a l)) with (nth 0 (skipn a l) d) by (destruct (skipn a l); reflexivity).
  rewrite nth_skipn_add. f_equal. lia.
Qed.

Lemma hist_n_snoc g n xs t : 1 <= n -> n <= length xs + 1 ->
  hist_n g n (xs ++ [t]) = hist_n g n xs ++ [n_step_info g (lastn n (xs ++ [t]))].
Proof.
  intros Hn Hl. unfold hist_n, count. rewrite app_length. cbn [length].
  replace (length xs + 1 + 1 - n) with (S (length xs + 1 - n)) by lia.
  rewrite seq_S, map_app. cbn [map Nat.add]. f_equal.
  - apply map_ext_in. intros k Hk. apply in_seq in Hk. rewrite window_app by lia. reflexivity.
  - f_equal. f_equal. rewrite <- window_last by (rewrite app_length; cbn; lia).
    rewrite app_length. cbn [length]. f_equal; lia.
Qed.

Lemma hist_1_snoc n xs t : 1 <= n -> n <= length xs + 1 ->
  hist_1 n (xs ++ [t]) = hist_1 n xs ++ [hd [] (lastn n (xs ++ [t]))].
Proof.
  intros Hn Hl. unfold hist_1, count. rewrite app_length. cbn [length].
  replace (length xs + 1 + 1 - n) with (S (length xs + 1 - n)) by lia.
  rewrite (firstn_S_nth ([] : vtr)) by (rewrite app_length; cbn; lia).
  f_equal.
  - rewrite firstn_app. replace (length xs + 1 - n - length xs) with 0 by lia. cbn. apply app_nil_r.
  - f_equal. unfold lastn. rewrite hd_skipn, app_length. cbn [length]. f_equal; lia.
Qed.

Lemma hist_small g n xs : length xs < n -> hist_n g n xs = [] /\ hist_1 n xs = [].
Proof. intros H. unfold hist_n, hist_1, count. replace (length xs + 1 - n) with 0 by lia. split; reflexivity. Qed.

Lemma lastn_width E n l : width E l -> width E (lastn n l).
Proof. intros H. unfold lastn. apply Forall_skipn, H. Qed.

Record RunInv (g : Q) (n c : nat) (xs : list vtr) (s : pstate) : Prop := {
  ri_win : win s = lastn n xs;
  ri_n : Inv c (concat (hist_n g n xs)) (nbuf s);
  ri_1 : Inv c (concat (hist_1 n xs)) (mem s);
  ri_ret : ret s = if length xs <? n then None else Some (nth (length xs - n) xs [])
}.

Lemma run_inv_init g n c : 0 < c -> 1 <= n -> RunInv g n c [] (pinit c).
Proof.
  intros Hc Hn. destruct (hist_small g n []) as [E1 E2]; [cbn; lia|].
  constructor; cbn [win nbuf mem ret pinit].
  - reflexivity.
  - rewrite E1. apply inv_init; auto.
  - rewrite E2. apply inv_init; auto.
  - cbn [length]. destruct (Nat.ltb_spec 0 n); [reflexivity|lia].
Qed.

Lemma run_inv_step g n c E xs s t :
  0 < E -> E <= c -> 1 <= n -> width E (xs ++ [t]) ->
  RunInv g n c xs s -> RunInv g n c (xs ++ [t]) (pair_step (n_step_info g) n s t).
Proof.
  intros HE HEc Hn Hw [Hwin HIn HI1 Hret].
  assert (Hc : 0 < c) by lia.
  unfold pair_step, ns_add. rewrite Hwin. unfold dq_append. rewrite lastn_app_lastn.
  rewrite lastn_length, app_length. cbn [length].
  destruct (Nat.ltb_spec (Nat.min n (length xs + 1)) n) as [Hlt|Hge].
  - (* window not full yet: nothing stored, None returned *)
    assert (Hs : length (xs ++ [t]) < n) by (rewrite app_length; cbn; lia).
    destruct (hist_small g n (xs ++ [t]) Hs) as [E1 E2].
    assert (Hs' : length xs < n) by lia.
    destruct (hist_small g n xs Hs') as [E3 E4].
    constructor; cbn [win nbuf mem ret].
    + reflexivity.
    + rewrite E1. rewrite E3 in HIn. exact HIn.
    + rewrite E2. rewrite E4 in HI1. exact HI1.
    + destruct (Nat.ltb_spec (length (xs ++ [t])) n); [reflexivity|lia].
  - assert (Hl : n <= length xs + 1) by lia.
    constructor; cbn [win nbuf mem ret].
    + reflexivity.
    + rewrite hist_n_snoc by auto. rewrite concat_app. cbn [concat]. rewrite app_nil_r.
      apply inv_add; auto.
      assert (Hne : lastn n (xs ++ [t]) <> []).
      { intros E0. apply (f_equal (@length _)) in E0. rewrite lastn_length, app_length in E0. cbn in E0. lia. }
      destruct (info_spec g E 0 _ Hne (lastn_width E n _ Hw) HE) as (H0 & _). lia.
    + rewrite hist_1_snoc by auto. rewrite concat_app. cbn [concat]. rewrite app_nil_r.
      apply inv_add; auto.
      unfold lastn. rewrite hd_skipn.
      destruct (le_lt_dec (length (xs ++ [t])) (length (xs ++ [t]) - n)) as [Hover|Hin].
      * rewrite app_length in Hover. cbn in Hover. lia.
      * unfold width in Hw. rewrite Forall_forall in Hw. rewrite (Hw _ (nth_In _ _ Hin)). exact HEc.
    + destruct (Nat.ltb_spec (length (xs ++ [t])) n) as [H|H]; [rewrite app_length in H; cbn in H; lia|].
      unfold lastn. rewrite hd_skipn. reflexivity.
Qed.

Lemma width_app_l E (xs ys : list vtr) : width E (xs ++ ys) -> width E xs.
Proof. intros H. apply Forall_app in H. apply H. Qed.

Lemma fold_left_snoc {S T} (f : S -> T -> S) l x s : fold_left f (l ++ [x]) s = f (fold_left f l s) x.
Proof. rewrite fold_left_app. reflexivity. Qed.

(* every reachable state of the buffer pair satisfies the invariant *)
Theorem run_inv g n c E xs :
  0 < E -> E <= c -> 1 <= n -> width E xs ->
  RunInv g n c xs (pair_run (n_step_info g) n c xs).
Proof.
  intros HE HEc Hn. induction xs as [|t xs IH] using rev_ind; intros Hw.
  - apply run_inv_init; lia.
  - unfold pair_run. rewrite fold_left_snoc. apply (run_inv_step g n c E); auto.
    apply IH. eapply width_app_l; eauto.
Qed.

(* ---------- rows of the ring buffers: row k*E+e is environment e of batch k ---------- *)
Lemma concat_uniform_length E (l : list vtr) : width E l -> length (concat l) = length l * E.
Proof. induction 1 as [|v l Hv _ IH]; cbn; auto. rewrite app_length, IH, Hv. reflexivity. Qed.

Lemma concat_uniform_nth_error E : forall (l : list vtr) k e,
  width E l -> k < length l -> e < E ->
  nth_error (concat l) (k * E + e) = nth_error (nth k l []) e.
Proof.
  induction l as [|v l IH]; intros k e Hw Hk He; cbn in Hk; [lia|].
  inversion Hw as [|? ? Hv Hw']; subst. destruct k as [|k]; cbn [concat nth].
  - cbn. apply nth_error_app1. lia.
  - rewrite nth_error_app2 by (cbn; lia).
    replace (S k * length v + e - length v) with (k * length v + e) by (cbn; lia).
    apply IH; auto. lia.
Qed.

Lemma count_le n xs : 1 <= n -> count n xs <= length xs.
Proof. unfold count. lia. Qed.

Lemma hist_n_length g n xs : length (hist_n g n xs) = count n xs.
Proof. unfold hist_n. rewrite map_length, seq_length. reflexivity. Qed.

Lemma hist_n_nth g n xs k : k < count n xs -> nth k (hist_n g n xs) [] = n_step_info g (window n xs k).
Proof. intros H. unfold hist_n. apply (nth_map_seq (fun k => n_step_info g (window n xs k))). exact H. Qed.

Lemma hist_n_width g E n xs : 0 < E -> 1 <= n -> width E xs -> width E (hist_n g n xs).
Proof.
  intros HE Hn Hw. unfold hist_n, width. apply Forall_forall. intros v Hv.
  apply in_map_iff in Hv. destruct Hv as (k & <- & Hk). apply in_seq in Hk. unfold count in Hk.
  assert (Hkn : k + n <= length xs) by lia.
  pose proof (window_length n xs k Hkn) as Hlen.
  assert (Hne : window n xs k <> []) by (intros E0; rewrite E0 in Hlen; cbn in Hlen; lia).
  destruct (info_spec g E 0 _ Hne (window_width E n xs k Hw) HE) as (H0 & _). exact H0.
Qed.

Lemma hist_1_length n xs : 1 <= n -> length (hist_1 n xs) = count n xs.
Proof. intros Hn. unfold hist_1. rewrite firstn_length. pose proof (count_le n xs Hn). lia. Qed.

Lemma hist_1_nth n xs k : k < count n xs -> nth k (hist_1 n xs) [] = nth k xs [].
Proof. intros H. unfold hist_1. apply nth_firstn_lt. exact H. Qed.

Lemma hist_1_width E n xs : width E xs -> width E (hist_1 n xs).
Proof. intros H. unfold hist_1. apply Forall_firstn, H. Qed.

Lemma nth_error_nth_lt {T} (l : list T) e d : e < length l -> nth_error l e = Some (nth e l d).
Proof. intros H. apply nth_error_nth'. exact H. Qed.

(* The main theorem on the stored data.  After ANY stream xs (all transitions of width E <= cap),
   for every window k that is complete (k + n <= |xs|) and still among the last cap rows, and every
   environment e: slot (k*E+e) mod cap of the n-step buffer holds the record r described by the
   property, and the SAME slot of the 1-step buffer holds raw transition k of environment e. *)
Theorem stored_spec g n c E xs k e :
  0 < E -> E <= c -> 1 <= n -> width E xs ->
  k + n <= length xs -> e < E -> count n xs * E <= (k * E + e) + c ->
  let s := pair_run (n_step_info g) n c xs in
  let slot := (k * E + e) mod c in
  let m := cut (window n xs k) in
  exists r,
    nth slot (store (nbuf s)) None = Some r /\
    nth slot (store (mem s)) None = Some (cellat xs k e) /\
    ok_window n xs e k m /\
    ob r = ob (cellat xs k e) /\ ac r = ac (cellat xs k e) /\
    (rw r == disc_sum g xs k e m)%Q /\
    nx r = nx (cellat xs (k + m - 1) e) /\ dn r = dn (cellat xs (k + m - 1) e).
Proof.
  intros HE HEc Hn Hw Hk He Hlive. cbv zeta.
  destruct (run_inv g n c E xs HE HEc Hn Hw) as [_ HIn HI1 _].
  assert (Hkc : k < count n xs) by (unfold count; lia).
  pose proof (info_window_spec g E n xs k e Hn Hk Hw He) as Hspec. cbv zeta in Hspec.
  destruct Hspec as (Hlen & Hok & Hrest).
  exists (nth e (n_step_info g (window n xs k)) dcell). split; [|split; [|split; [exact Hok|exact Hrest]]].
  - apply (inv_recent _ _ _ HIn).
    + rewrite (concat_uniform_nth_error E) by (rewrite ?hist_n_length; auto using hist_n_width).
      rewrite hist_n_nth by exact Hkc. apply nth_error_nth_lt. lia.
    + rewrite (concat_uniform_length E) by auto using hist_n_width. rewrite hist_n_length. exact Hlive.
  - apply (inv_recent _ _ _ HI1).
    + rewrite (concat_uniform_nth_error E) by (rewrite ?hist_1_length; auto using hist_1_width).
      rewrite hist_1_nth by exact Hkc. unfold cellat. apply nth_error_nth_lt.
      assert (Hin : k < length xs) by lia.
      unfold width in Hw. rewrite Forall_forall in Hw. rewrite (Hw _ (nth_In _ _ Hin)). exact He.
    + rewrite (concat_uniform_length E) by auto using hist_1_width. rewrite hist_1_length by exact Hn. exact Hlive.
Qed.

(* lengths of the two buffers agree and equal min(#windows * E, cap); the value returned by the
   last add is raw transition |xs| - n (None while fewer than n transitions were seen) *)
Theorem lens_and_return g n c E xs :
  0 < E -> E <= c -> 1 <= n -> width E xs ->
  let s := pair_run (n_step_info g) n c xs in
  size (nbuf s) = Nat.min (count n xs * E) c /\ size (mem s) = Nat.min (count n xs * E) c /\
  cursor (nbuf s) = cursor (mem s) /\
  ret s = if length xs <? n then None else Some (nth (length xs - n) xs []).
Proof.
  intros HE HEc Hn Hw. cbv zeta.
  destruct (run_inv g n c E xs HE HEc Hn Hw) as [_ HIn HI1 Hret].
  pose proof (inv_size _ _ _ HIn) as S1. pose proof (inv_size _ _ _ HI1) as S2.
  pose proof (inv_cur _ _ _ HIn) as C1. pose proof (inv_cur _ _ _ HI1) as C2.
  rewrite (concat_uniform_length E) in S1, C1 by auto using hist_n_width.
  rewrite (concat_uniform_length E) in S2, C2 by auto using hist_1_width.
  rewrite hist_n_length in S1, C1. rewrite hist_1_length in S2, C2 by exact Hn.
  repeat split; auto. congruence.
Qed.

(* stored-level no-leak: the k-th batch pushed into the n-step buffer is the same for two streams
   that agree up to and including a terminal step j inside window k *)
Theorem no_leak_stored g n xs ys j k e :
  firstn (S j) xs = firstn (S j) ys -> dn (cellat xs j e) = true ->
  k <= j -> j < k + n -> k + n <= length xs -> k + n <= length ys ->
  nth k (hist_n g n xs) [] = nth k (hist_n g n ys) [].
Proof.
  intros Hf Hd Hkj Hjn Hx Hy.
  rewrite !hist_n_nth by (unfold count; lia). eapply no_leak_window; eauto.
Qed.

(* ---------- the discount weights are the powers of gamma ---------- *)
Lemma qpow_Qpower g i : (qpow g i == g ^ Z.of_nat i)%Q.
Proof.
  induction i as [|i IH]; [reflexivity|].
  cbn [qpow]. rewrite IH. rewrite Nat2Z.inj_succ. unfold Z.succ.
  rewrite Qpower_plus' by lia. rewrite Qmult_comm. apply Qmult_comp; [reflexivity|].
  cbn. reflexivity.
Qed.

Theorem disc_sum_powers g xs k e m :
  (disc_sum g xs k e m ==
   fold_right Qplus 0 (map (fun i => g ^ Z.of_nat i * rw (cellat xs (k + i) e)) (seq 0 m)))%Q.
Proof.
  unfold disc_sum. generalize (seq 0 m). intros l.
  induction l as [|x l IH]; cbn [map fold_right]; [reflexivity|].
  rewrite IH, qpow_Qpower. reflexivity.
Qed.

(* ---------- alignment of the two buffers (what Rainbow's combined loss relies on) ---------- *)
Theorem aligned_lemma g n c E xs k e :
  0 < E -> E <= c -> 1 <= n -> width E xs ->
  k + n <= length xs -> e < E -> count n xs * E <= (k * E + e) + c ->
  let s := pair_run (n_step_info g) n c xs in
  let slot := (k * E + e) mod c in
  exists r y,
    nth slot (store (nbuf s)) None = Some r /\ nth slot (store (mem s)) None = Some y /\
    y = cellat xs k e /\ ob r = ob y /\ ac r = ac y.
Proof.
  intros HE HEc Hn Hw Hk He Hlive. cbv zeta.
  destruct (stored_spec g n c E xs k e HE HEc Hn Hw Hk He Hlive) as (r & H1 & H2 & _ & H3 & H4 & _).
  exists r, (cellat xs k e). repeat split; auto.
Qed.

(* every stored record starts from an observed (observation, action) pair: batch k of the n-step
   buffer and raw transition k describe the same (observation, action) in every environment *)
Definition obac (x : cell) : nat * nat := (ob x, ac x).

Theorem starts_observed_lemma g E n xs k :
  0 < E -> 1 <= n -> width E xs -> k + n <= length xs ->
  map obac (nth k (hist_n g n xs) []) = map obac (nth k xs []).
Proof.
  intros HE Hn Hw Hk. rewrite hist_n_nth by (unfold count; lia).
  assert (Hin : k < length xs) by lia.
  assert (Hlk : length (nth k xs []) = E).
  { unfold width in Hw. rewrite Forall_forall in Hw. apply Hw, nth_In, Hin. }
  destruct (info_window_spec g E n xs k 0 Hn Hk Hw HE) as (Hlen & _).
  apply nth_ext with (d := obac dcell) (d' := obac dcell).
  - rewrite !map_length. lia.
  - intros e He. rewrite map_length, Hlen in He. rewrite !map_nth.
    destruct (info_window_spec g E n xs k e Hn Hk Hw He) as (_ & _ & H1 & H2 & _).
    unfold obac. unfold cellat in H1, H2. rewrite H1, H2. reflexivity.
Qed.

(* ---------- the converse direction: EVERY stored slot holds such a record ---------- *)
(* which history position a live slot of a ring buffer holds *)
Lemma slot_position c k i : 0 < c -> i < Nat.min k c ->
  exists p, p mod c = i /\ p < k /\ k <= p + c.
Proof.
  intros Hc Hi.
  set (base := k - Nat.min k c).
  exists (base + (i + c - base mod c) mod c).
  destruct (mod_decomp c base Hc) as (q & r & Eb & Hr & Em & _). rewrite Em.
  assert (Hic : i < c) by lia.
  rewrite (modc c r i) by lia. destruct (Nat.ltb_spec i r).
  - split. { rewrite Eb. replace (q * c + r + (i + c - r)) with ((q + 1) * c + i) by nia. apply mod_qr; lia. }
    assert (Nat.min k c = c) by (unfold base in Eb; nia). unfold base in *. split; nia.
  - split. { rewrite Eb. replace (q * c + r + (i - r)) with (q * c + i) by lia. apply mod_qr; lia. }
    unfold base in *. destruct (le_lt_dec k c); [|split; nia].
    assert (Nat.min k c = k) by lia. split; nia.
Qed.

Theorem every_slot_spec g n c E xs i :
  0 < E -> E <= c -> 1 <= n -> width E xs ->
  let s := pair_run (n_step_info g) n c xs in
  i < size (mem s) ->
  exists k e r,
    k + n <= length xs /\ e < E /\
    nth i (store (nbuf s)) None = Some r /\
    nth i (store (mem s)) None = Some (cellat xs k e) /\
    let m := cut (window n xs k) in
    ok_window n xs e k m /\
    ob r = ob (cellat xs k e) /\ ac r = ac (cellat xs k e) /\
    (rw r == disc_sum g xs k e m)%Q /\
    nx r = nx (cellat xs (k + m - 1) e) /\ dn r = dn (cellat xs (k + m - 1) e).
Proof.
  intros HE HEc Hn Hw. cbv zeta. intros Hi.
  destruct (lens_and_return g n c E xs HE HEc Hn Hw) as (_ & Hsz & _). cbv zeta in Hsz.
  rewrite Hsz in Hi.
  destruct (slot_position c (count n xs * E) i ltac:(lia) Hi) as (p & Hp & Hlt & Hlive).
  pose proof (Nat.div_mod p E ltac:(lia)) as Hdm.
  assert (He : p mod E < E) by (apply Nat.mod_upper_bound; lia).
  set (k := p / E) in *. set (e := p mod E) in *.
  assert (Hk : k < count n xs) by nia.
  assert (Hkn : k + n <= length xs) by (unfold count in Hk; lia).
  assert (Hpk : p = k * E + e) by lia.
  rewrite Hpk in Hlive, Hp.
  destruct (stored_spec g n c E xs k e HE HEc Hn Hw Hkn He Hlive) as (r & H1 & H2 & Hrest).
  cbv zeta in H1, H2. rewrite Hp in H1, H2.
  exists k, e, r. repeat split; auto; apply Hrest.
Qed.

(* what the learner receives: gathering both storages with the same live indices yields, row by
   row, an n-step record and the raw transition it starts from *)
Theorem sampled_aligned_lemma g n c E xs idx :
  0 < E -> E <= c -> 1 <= n -> width E xs ->
  let s := pair_run (n_step_info g) n c xs in
  Forall (fun i => i < size (mem s)) idx ->
  Forall2 (fun a b => exists r y, a = Some r /\ b = Some y /\ ob r = ob y /\ ac r = ac y)
          (gather (store (nbuf s)) idx) (gather (store (mem s)) idx).
Proof.
  intros HE HEc Hn Hw. cbv zeta. unfold gather. induction 1 as [|i idx Hi _ IH]; cbn [map]; constructor; auto.
  destruct (every_slot_spec g n c E xs i HE HEc Hn Hw Hi) as (k & e & r & _ & _ & H1 & H2 & _ & H3 & H4 & _).
  exists r, (cellat xs k e). auto.
Qed.

(* ---------- small facts about the repaired loop ---------- *)
(* n = 1: the record is the raw transition itself *)
Lemma info_single g t : n_step_info g [t] = t.
Proof. unfold n_step_info. destruct (any_done t); reflexivity. Qed.

(* fix 6825082 changes the result only for windows that start on a terminal transition *)
Lemma pinned_agrees g w : any_done (hd [] w) = false -> n_step_info_pinned g w = n_step_info g w.
Proof. destruct w as [|t r]; cbn [hd n_step_info n_step_info_pinned]; [reflexivity|]. intros ->. reflexivity. Qed.

(* ... and for those the repaired loop keeps the first transition unchanged *)
Lemma info_terminal_start g t r : any_done t = true -> n_step_info g (t :: r) = t.
Proof. intros H. cbn [n_step_info]. rewrite H. reflexivity. Qed.

(* ---------- layout of the learner's batches with a prioritised 1-step buffer ---------- *)
Lemma shape_pinned_differs : exists B, from_indices_shape_pinned (per_idxs_shape B) <> per_rows_shape B.
Proof. exists 2. cbv. discriminate. Qed.

Lemma shape_repaired_agrees B : from_indices_shape_repaired (per_idxs_shape B) = per_rows_shape B.
Proof. unfold from_indices_shape_repaired, per_idxs_shape, per_rows_shape. cbn [fold_right]. f_equal. lia. Qed.
