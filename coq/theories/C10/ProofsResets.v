(* C10 — several rollouts separated by env.reset(): with a deque that is emptied at every reset no
   stored record spans two rollouts; with the deque that survives (the tree) one does. *)
From Coq Require Import List Arith Lia Bool QArith.
Import ListNotations.
From AgileV Require Import Base.Prelude C09.Model C09.Proofs C10.Model C10.Proofs.
Local Open Scope nat_scope.

(* the run invariant of C10/Proofs.v, relative to what the two ring buffers already received *)
Record RunInvG (g : Q) (n c : nat) (hn0 h10 : list cell) (xs : list vtr) (s : pstate) : Prop := {
  rg_win : win s = lastn n xs;
  rg_n : Inv c (hn0 ++ concat (hist_n g n xs)) (nbuf s);
  rg_1 : Inv c (h10 ++ concat (hist_1 n xs)) (mem s)
}.

Lemma rg_step g n c E hn0 h10 xs s t :
  0 < E -> E <= c -> 1 <= n -> width E (xs ++ [t]) ->
  RunInvG g n c hn0 h10 xs s -> RunInvG g n c hn0 h10 (xs ++ [t]) (pair_step (n_step_info g) n s t).
Proof.
  intros HE HEc Hn Hw [Hwin HIn HI1].
  assert (Hc : 0 < c) by lia.
  unfold pair_step, ns_add. rewrite Hwin. unfold dq_append. rewrite lastn_app_lastn.
  rewrite lastn_length, app_length. cbn [length].
  destruct (Nat.ltb_spec (Nat.min n (length xs + 1)) n) as [Hlt|Hge].
  - assert (Hs : length (xs ++ [t]) < n) by (rewrite app_length; cbn; lia).
    destruct (hist_small g n (xs ++ [t]) Hs) as [E1 E2].
    assert (Hs' : length xs < n) by lia.
    destruct (hist_small g n xs Hs') as [E3 E4].
    constructor; cbn [win nbuf mem ret].
    + reflexivity.
    + rewrite E1. rewrite E3 in HIn. exact HIn.
    + rewrite E2. rewrite E4 in HI1. exact HI1.
  - assert (Hl : n <= length xs + 1) by lia.
    constructor; cbn [win nbuf mem ret].
    + reflexivity.
    + rewrite hist_n_snoc by auto. rewrite concat_app. cbn [concat]. rewrite app_nil_r, app_assoc.
      apply inv_add; auto.
      assert (Hne : lastn n (xs ++ [t]) <> []).
      { intros E0. apply (f_equal (@length _)) in E0. rewrite lastn_length, app_length in E0. cbn in E0. lia. }
      destruct (info_spec g E 0 _ Hne (lastn_width E n _ Hw) HE) as (H0 & _). lia.
    + rewrite hist_1_snoc by auto. rewrite concat_app. cbn [concat]. rewrite app_nil_r, app_assoc.
      apply inv_add; auto.
      unfold lastn. rewrite hd_skipn.
      destruct (le_lt_dec (length (xs ++ [t])) (length (xs ++ [t]) - n)) as [Hover|Hin].
      * rewrite app_length in Hover. cbn in Hover. lia.
      * unfold width in Hw. rewrite Forall_forall in Hw. rewrite (Hw _ (nth_In _ _ Hin)). exact HEc.
Qed.

Lemma rg_fold g n c E hn0 h10 xs s0 :
  0 < E -> E <= c -> 1 <= n -> width E xs ->
  win s0 = [] -> Inv c hn0 (nbuf s0) -> Inv c h10 (mem s0) ->
  RunInvG g n c hn0 h10 xs (fold_left (pair_step (n_step_info g) n) xs s0).
Proof.
  intros HE HEc Hn. induction xs as [|t xs IH] using rev_ind; intros Hw Hwin Hn0 H10.
  - destruct (hist_small g n []) as [E1 E2]; [cbn; lia|].
    constructor; cbn [fold_left].
    + rewrite Hwin. reflexivity.
    + rewrite E1. cbn. rewrite app_nil_r. exact Hn0.
    + rewrite E2. cbn. rewrite app_nil_r. exact H10.
  - rewrite fold_left_snoc. apply (rg_step g n c E); auto.
    apply IH; auto. eapply width_app_l; eauto.
Qed.

(* what the buffers receive over several rollouts when the deque is emptied at every reset:
   rollout by rollout, only windows that lie inside one rollout *)
Definition seg_hist_n (g : Q) (n : nat) (segs : list (list vtr)) : list cell :=
  flat_map (fun seg => concat (hist_n g n seg)) segs.
Definition seg_hist_1 (n : nat) (segs : list (list vtr)) : list cell :=
  flat_map (fun seg => concat (hist_1 n seg)) segs.

Lemma fold_ev_steps info n xs : forall s,
  fold_left (ev_step info n) (map Step xs) s = fold_left (pair_step info n) xs s.
Proof. induction xs as [|t xs IH]; intros s; cbn; auto. Qed.

Lemma segs_inv_from g n c E segs :
  0 < E -> E <= c -> 1 <= n -> Forall (width E) segs ->
  forall s0 hn0 h10, Inv c hn0 (nbuf s0) -> Inv c h10 (mem s0) ->
  let s := fold_left (ev_step (n_step_info g) n) (evs_of true segs) s0 in
  Inv c (hn0 ++ seg_hist_n g n segs) (nbuf s) /\ Inv c (h10 ++ seg_hist_1 n segs) (mem s).
Proof.
  intros HE HEc Hn HF. induction HF as [|seg segs Hseg _ IH]; intros s0 hn0 h10 Hn0 H10; cbv zeta.
  - cbn. rewrite !app_nil_r. auto.
  - unfold evs_of. cbn [flat_map]. rewrite fold_left_app. cbn [fold_left app ev_step].
    rewrite fold_ev_steps.
    set (s1 := {| win := []; nbuf := nbuf s0; mem := mem s0; ret := ret s0 |}).
    destruct (rg_fold g n c E hn0 h10 seg s1 HE HEc Hn Hseg eq_refl Hn0 H10) as [_ H2 H3].
    specialize (IH _ _ _ H2 H3). cbv zeta in IH. fold (evs_of true segs).
    unfold seg_hist_n, seg_hist_1. cbn [flat_map]. rewrite !app_assoc. exact IH.
Qed.

(* after any sequence of rollouts, each started by a reset that empties the deque *)
Theorem segs_inv g n c E segs :
  0 < E -> E <= c -> 1 <= n -> Forall (width E) segs ->
  let s := ev_run (n_step_info g) n c (evs_of true segs) in
  Inv c (seg_hist_n g n segs) (nbuf s) /\ Inv c (seg_hist_1 n segs) (mem s).
Proof.
  intros HE HEc Hn HF. unfold ev_run.
  apply (segs_inv_from g n c E segs HE HEc Hn HF (pinit c) [] []); cbn; apply inv_init; lia.
Qed.

Lemma seg_hist_lengths g n E segs : 0 < E -> 1 <= n -> Forall (width E) segs ->
  length (seg_hist_1 n segs) = length (seg_hist_n g n segs).
Proof.
  intros HE Hn HF. unfold seg_hist_1, seg_hist_n. induction HF as [|seg segs Hseg _ IH]; cbn [flat_map]; auto.
  rewrite !app_length, IH.
  rewrite (concat_uniform_length E) by (apply hist_1_width; auto).
  rewrite (concat_uniform_length E) by (apply hist_n_width; auto).
  rewrite hist_1_length, hist_n_length by auto. reflexivity.
Qed.

Lemma nth_error_mid {T} (A B C : list T) q : q < length B ->
  nth_error (A ++ B ++ C) (length A + q) = nth_error B q.
Proof.
  intros H. rewrite nth_error_app2 by lia. replace (length A + q - length A) with q by lia.
  apply nth_error_app1. exact H.
Qed.

(* every record stored for a window of rollout [seg] is described by that rollout alone:
   slot p mod c (p = rows written before the rollout + k*E + e) of the n-step buffer holds the
   record of window k, env e of [seg]; the same slot of the 1-step buffer holds raw transition
   (k, e) of [seg] — for as long as it is among the last c rows *)
Theorem segs_stored_spec g n c E pre seg post k e :
  0 < E -> E <= c -> 1 <= n -> Forall (width E) (pre ++ seg :: post) ->
  k + n <= length seg -> e < E ->
  let segs := pre ++ seg :: post in
  let p := length (seg_hist_n g n pre) + (k * E + e) in
  length (seg_hist_n g n segs) <= p + c ->
  let s := ev_run (n_step_info g) n c (evs_of true segs) in
  let m := cut (window n seg k) in
  exists r,
    nth (p mod c) (store (nbuf s)) None = Some r /\
    nth (p mod c) (store (mem s)) None = Some (cellat seg k e) /\
    ok_window n seg e k m /\
    ob r = ob (cellat seg k e) /\ ac r = ac (cellat seg k e) /\
    (rw r == disc_sum g seg k e m)%Q /\
    nx r = nx (cellat seg (k + m - 1) e) /\ dn r = dn (cellat seg (k + m - 1) e).
Proof.
  intros HE HEc Hn HF Hk He. cbv zeta. intros Hlive.
  destruct (segs_inv g n c E _ HE HEc Hn HF) as [HIn HI1].
  assert (HFpre : Forall (width E) pre) by (apply Forall_app in HF; apply HF).
  assert (Hseg : width E seg) by (apply Forall_app in HF; destruct HF as [_ HF]; inversion HF; auto).
  assert (Hkc : k < count n seg) by (unfold count; lia).
  pose proof (info_window_spec g E n seg k e Hn Hk Hseg He) as Hspec. cbv zeta in Hspec.
  destruct Hspec as (Hlen & Hok & Hrest).
  assert (Hq : k * E + e < length (concat (hist_n g n seg))).
  { rewrite (concat_uniform_length E) by (apply hist_n_width; auto). rewrite hist_n_length. nia. }
  assert (Hq1 : k * E + e < length (concat (hist_1 n seg))).
  { rewrite (concat_uniform_length E) by (apply hist_1_width; auto). rewrite hist_1_length by auto. nia. }
  exists (nth e (n_step_info g (window n seg k)) dcell). split; [|split; [|split; [exact Hok|exact Hrest]]].
  - apply (inv_recent _ _ _ HIn); [|exact Hlive].
    unfold seg_hist_n. rewrite flat_map_app. cbn [flat_map]. fold (seg_hist_n g n pre). fold (seg_hist_n g n post).
    rewrite nth_error_mid by exact Hq.
    rewrite (concat_uniform_nth_error E) by (rewrite ?hist_n_length; auto using hist_n_width).
    rewrite hist_n_nth by exact Hkc. apply nth_error_nth_lt. lia.
  - rewrite <- (seg_hist_lengths g n E pre HE Hn HFpre).
    apply (inv_recent _ _ _ HI1).
    + unfold seg_hist_1 at 1. rewrite flat_map_app. cbn [flat_map]. fold (seg_hist_1 n pre). fold (seg_hist_1 n post).
      rewrite nth_error_mid by exact Hq1.
      rewrite (concat_uniform_nth_error E) by (rewrite ?hist_1_length; auto using hist_1_width).
      rewrite hist_1_nth by exact Hkc. unfold cellat. apply nth_error_nth_lt.
      assert (Hin : k < length seg) by lia.
      unfold width in Hseg. rewrite Forall_forall in Hseg. rewrite (Hseg _ (nth_In _ _ Hin)). exact He.
    + rewrite (seg_hist_lengths g n E _ HE Hn HF), (seg_hist_lengths g n E pre HE Hn HFpre). exact Hlive.
Qed.

(* a reset that leaves the deque alone is invisible to the buffers: the run equals the run over the
   concatenated rollouts, so windows are formed across the reset *)
Lemma evs_false_is_concat info n segs : forall s,
  fold_left (ev_step info n) (evs_of false segs) s = fold_left (pair_step info n) (concat segs) s.
Proof.
  induction segs as [|seg segs IH]; intros s; cbn [evs_of flat_map concat]; auto.
  rewrite !fold_left_app. cbn [fold_left ev_step]. rewrite fold_ev_steps. apply IH.
Qed.

(* the tree (deque survives env.reset()): a record that starts in the first rollout carries the next
   observation and part of the reward of the second one; no done flag anywhere *)
Definition seg_a : list vtr := [ [C 1 1 1 1 false]; [C 2 2 2 2 false] ].
Definition seg_b : list vtr := [ [C 3 3 4 3 false]; [C 4 4 8 4 false] ].

Lemma reset_span :
  let s := ev_run (n_step_info 1) 3 4 (evs_of false [seg_a; seg_b]) in
  exists r, nth 0 (store (nbuf s)) None = Some r /\
            ob r = ob (cellat seg_a 0 0) /\ nx r = nx (cellat seg_b 0 0) /\ (rw r == 1 + 2 + 4)%Q /\
  (* whereas with a deque emptied at the reset nothing is stored for these two short rollouts *)
  size (nbuf (ev_run (n_step_info 1) 3 4 (evs_of true [seg_a; seg_b]))) = 0.
Proof. cbv zeta. eexists. split; [vm_compute; reflexivity|]. repeat split; vm_compute; reflexivity. Qed.

(* ---------- the stored record does not say how many steps were summed ----------
   With several environments a window may be cut at m < n because ANOTHER environment ended; the
   record of this environment then has done = false and nothing in it tells m from n.  Two streams
   whose records for env 0 coincide field by field but were summed over 1 and over 2 steps: *)
Definition xs_m1 : list vtr := [ [C 1 1 1 5 false; C 9 9 0 9 true]; [C 2 2 7 6 false; C 8 8 0 8 false] ].
Definition xs_m2 : list vtr := [ [C 1 1 (1#2) 7 false; C 9 9 0 9 false]; [C 2 2 1 5 false; C 8 8 0 8 false] ].

Lemma record_has_no_m :
  exists g n xs ys e,
    width 2 xs /\ width 2 ys /\ e < 2 /\
    cut (window n xs 0) <> cut (window n ys 0) /\
    let r1 := nth e (n_step_info g (window n xs 0)) dcell in
    let r2 := nth e (n_step_info g (window n ys 0)) dcell in
    ob r1 = ob r2 /\ ac r1 = ac r2 /\ (rw r1 == rw r2)%Q /\ nx r1 = nx r2 /\ dn r1 = dn r2 /\ dn r1 = false.
Proof.
  exists (1#2)%Q, 2, xs_m1, xs_m2, 0.
  split; [repeat constructor|]. split; [repeat constructor|]. split; [lia|].
  split; [vm_compute; discriminate|]. cbv zeta. repeat split; vm_compute; reflexivity.
Qed.

(* ---------- index tensors: a (B,1) column and the (B,) vector select the same rows ---------- *)
Lemma gather_col_flat st idx : gather_col st (map (fun i => [i]) idx) = gather st idx.
Proof.
  unfold gather_col. f_equal. induction idx as [|i idx IH]; cbn; auto. f_equal. exact IH.
Qed.

Lemma shape_flat_and_col B :
  from_indices_shape_repaired [B] = [B] /\ from_indices_shape_repaired [B; 1] = [B].
Proof. unfold from_indices_shape_repaired. cbn [fold_right]. split; f_equal; lia. Qed.
