"""C03 case generation: exhaustive BFS over reachable architectures (small bounds) on the real modules
+ seeded long walks at the default bounds."""
from __future__ import annotations

import itertools

import c03_blocks as B

CACHE = {}     # observations made while exploring (BFS needs the successor architecture); reused by run_impl


def cached_run(case):
    k = B.key_case(case)
    if k not in CACHE:
        CACHE[k] = B.run_case_uncached(case)
    return CACHE[k]


def bfs(block, static, cfg, init, moves, to_init, limit=4000, tag="bfs"):
    """one case per edge; successors are whatever the implementation produces"""
    def hk(a):
        return repr(a)
    seen, queue, cases = {hk(init)}, [init], []
    complete = True
    while queue:
        a = queue.pop(0)
        for step in moves(a):
            if len(cases) >= limit:
                return cases, False
            case = {"block": block, "static": static, "cfg": cfg, "init": a, "steps": [step], "every": 1, "src": tag}
            if a is init and not cases:
                case["root"] = True
            if tag == "bfs-drawn" and len(cases) % 4 == 0:      # every fourth drawn edge is also replayed on a twin
                case["twin"] = True
            cases.append(case)
            case["every"] = 0          # light observation (descriptor, applied method, returned values) ...
            try:
                obs = cached_run(case)
                rec = obs["steps"][0]
                if rec["error"] is not None or rec["desc"] is None:
                    continue
                nxt = to_init(rec["desc"])
            except Exception:
                continue
            if hk(nxt) not in seen:
                seen.add(hk(nxt)); queue.append(nxt)
                # ... and the full one (state_dict layout, forward, rebuild from init_dict) once per architecture
                CACHE.pop(B.key_case(case), None)
                case["every"] = 1
    return cases, complete


def S(m, r=(), **args):
    return {"m": m, "args": args, "r": list(r)}


# ------------------------------------------------------------------ MLP
def mlp_moves_explicit(amounts):
    def moves(h):
        n = len(h)
        out = []
        for r1 in range(n):
            out.append(S("add_layer", (r1, 0)))
            out.append(S("remove_layer", (r1, 1)))
        for hl in range(n + 1):
            for a in amounts:
                out.append(S("add_node", hidden_layer=hl, numb_new_nodes=a))
                out.append(S("remove_node", hidden_layer=hl, numb_new_nodes=a))
        return out
    return moves


def mlp_moves_drawn(h):
    n = len(h)
    out = []
    for r1 in range(n):
        for r2 in range(3):
            for m in ("add_layer", "remove_layer", "add_node", "remove_node"):
                out.append(S(m, (r1, r2)))
    for r in range(3):
        out.append(S("add_node", (r, 7), hidden_layer=n - 1))
        out.append(S("remove_node", (r, 7), hidden_layer=0))
    for r in range(n):
        out.append(S("add_node", (r, 7), numb_new_nodes=16))
        out.append(S("remove_node", (r, 7), numb_new_nodes=16))
    return out


MLP_STATIC = {"num_inputs": 4, "num_outputs": 3, "layer_norm": True, "output_layernorm": False, "noisy": False}


def gen_mlp(tier, rng):
    cases = []
    ex = True
    cfg = {"min_hidden_layers": 1, "max_hidden_layers": 3, "min_mlp_nodes": 3, "max_mlp_nodes": 13}
    c, e = bfs("mlp", MLP_STATIC, cfg, [8], mlp_moves_explicit((4,)), lambda d: d["widths"], limit=20000)
    cases += c; ex &= e
    cfg2 = {"min_hidden_layers": 1, "max_hidden_layers": 2, "min_mlp_nodes": 16, "max_mlp_nodes": 80}
    st2 = dict(MLP_STATIC, layer_norm=False, output_layernorm=True)
    c, e = bfs("mlp", st2, cfg2, [32], mlp_moves_drawn, lambda d: d["widths"], limit=1200 if tier == "quick" else 20000, tag="bfs-drawn")
    cases += c; ex &= e
    if tier != "quick":
        cfg3 = {"min_hidden_layers": 2, "max_hidden_layers": 3, "min_mlp_nodes": 2, "max_mlp_nodes": 10}
        c, e = bfs("mlp", dict(MLP_STATIC, noisy=True), cfg3, [4, 6], mlp_moves_explicit((2, 4)), lambda d: d["widths"], limit=20000)
        cases += c; ex &= e
    # seeded walks at the default bounds
    nw, ln = (6, 40) if tier == "quick" else (20, 150)
    for w in range(nw):
        static = {"num_inputs": rng.choice([3, 8]), "num_outputs": rng.choice([1, 4]), "layer_norm": rng.random() < 0.5,
                  "output_layernorm": rng.random() < 0.3, "noisy": rng.random() < 0.25}
        cfg = {"min_hidden_layers": 1, "max_hidden_layers": 3, "min_mlp_nodes": 64, "max_mlp_nodes": 500}
        init = [rng.choice([64, 128, 256]) for _ in range(rng.randint(1, 3))]
        steps = []
        for _ in range(ln):
            m = rng.choice(["add_layer", "remove_layer", "add_node", "remove_node", "add_node", "remove_node"])
            steps.append(S(m, (rng.randrange(1000), rng.randrange(1000))))
        cases.append({"block": "mlp", "static": static, "cfg": cfg, "init": init, "steps": steps, "every": 10, "src": "walk"})
    return cases, ex


# ------------------------------------------------------------------ scalar blocks
SC = {
    "lstm": dict(layer=("add_layer", "remove_layer"), node=("add_node", "remove_node"), amount="numb_new_nodes",
                 static={"input_size": 4, "num_outputs": 3},
                 cfg_small={"min_layers": 1, "max_layers": 3, "min_hidden_size": 4, "max_hidden_size": 16},
                 cfg_drawn={"min_layers": 1, "max_layers": 2, "min_hidden_size": 16, "max_hidden_size": 96},
                 cfg_default={"min_layers": 1, "max_layers": 3, "min_hidden_size": 16, "max_hidden_size": 500},
                 init_small={"layers": 1, "width": 8}, init_drawn={"layers": 1, "width": 32}, amounts=(4, 6),
                 init_default=[{"layers": 1, "width": 64}, {"layers": 2, "width": 128}]),
    "simba": dict(layer=("add_block", "remove_block"), node=("add_node", "remove_node"), amount="numb_new_nodes",
                  static={"num_inputs": 4, "num_outputs": 3, "scale_factor": 2},
                  cfg_small={"min_blocks": 1, "max_blocks": 3, "min_mlp_nodes": 4, "max_mlp_nodes": 16},
                  cfg_drawn={"min_blocks": 1, "max_blocks": 2, "min_mlp_nodes": 16, "max_mlp_nodes": 96},
                  cfg_default={"min_blocks": 1, "max_blocks": 4, "min_mlp_nodes": 16, "max_mlp_nodes": 500},
                  init_small={"layers": 1, "width": 8}, init_drawn={"layers": 1, "width": 32}, amounts=(4, 6),
                  init_default=[{"layers": 2, "width": 128}, {"layers": 1, "width": 64}]),
    "resnet": dict(layer=("add_block", "remove_block"), node=("add_channel", "remove_channel"), amount="numb_new_channels",
                   static={"input_shape": [3, 8, 8], "num_outputs": 3, "kernel_size": 3, "stride_size": 2, "scale_factor": 2},
                   cfg_small={"min_blocks": 1, "max_blocks": 3, "min_channel_size": 2, "max_channel_size": 10},
                   cfg_drawn={"min_blocks": 1, "max_blocks": 2, "min_channel_size": 8, "max_channel_size": 48},
                   cfg_default={"min_blocks": 1, "max_blocks": 4, "min_channel_size": 32, "max_channel_size": 256},
                   init_small={"layers": 1, "width": 4}, init_drawn={"layers": 1, "width": 16}, amounts=(2, 3),
                   init_default=[{"layers": 1, "width": 32}, {"layers": 2, "width": 64}]),
}


def gen_scalar(name, tier, rng):
    sp = SC[name]
    cases, ex = [], True
    to_init = lambda d: {"layers": d["layers"], "width": d["widths"][0]}  # noqa

    def moves_small(a):
        out = []
        for r in range(3):
            out.append(S(sp["layer"][0], (r,))); out.append(S(sp["layer"][1], (r,)))
        for am in sp["amounts"]:
            out.append(S(sp["node"][0], **{sp["amount"]: am})); out.append(S(sp["node"][1], **{sp["amount"]: am}))
        return out

    def moves_drawn(a):
        out = []
        for r in range(3):
            for m in sp["layer"] + sp["node"]:
                out.append(S(m, (r,)))
        for m in sp["node"]:
            out.append(S(m, **{sp["amount"]: 8}))
        return out

    c, e = bfs(name, sp["static"], sp["cfg_small"], sp["init_small"], moves_small, to_init, limit=1500)
    cases += c; ex &= e
    c, e = bfs(name, sp["static"], sp["cfg_drawn"], sp["init_drawn"], moves_drawn, to_init, limit=1500, tag="bfs-drawn")
    cases += c; ex &= e
    nw, ln = (3, 40) if tier == "quick" else ((6, 100) if name == "resnet" else (10, 150))
    for w in range(nw):
        steps = [S(rng.choice(sp["layer"] + sp["node"] + sp["node"]), (rng.randrange(1000),)) for _ in range(ln)]
        static = dict(sp["static"])
        if name == "resnet":
            static.update(input_shape=[3, 12, 12], kernel_size=rng.choice([3, 4]), stride_size=rng.choice([1, 2]), scale_factor=1)
        cases.append({"block": name, "static": static, "cfg": sp["cfg_default"], "init": rng.choice(sp["init_default"]),
                      "steps": steps, "every": 10, "src": "walk"})
    return cases, ex


def generate_cases(tier, rng):
    cases, ex = [], True
    for g in GENERATORS:
        c, e = g(tier, rng)
        cases += c; ex &= e
    for c in cases:                       # walks also replay every applied mutation on a twin (HPO: same mutation on the critic)
        if c.get("src") == "walk" and c["block"] not in ("netmulti", "netany"):
            c["twin"] = True
    return cases, ex


GENERATORS = [gen_mlp, lambda t, r: gen_scalar("lstm", t, r), lambda t, r: gen_scalar("simba", t, r),
              lambda t, r: gen_scalar("resnet", t, r)]


# ------------------------------------------------------------------ CNN
def largest_fit(h, w, ks, ss, hl):
    """largest kernel for layer hl that leaves every layer with an input >= its kernel (plain arithmetic, generator side)"""
    best = 0
    for k in range(1, 64):
        ks2 = list(ks); ks2[hl] = k
        x, y, ok = h, w, True
        for kk, st in zip(ks2, ss):
            if kk > x or kk > y:
                ok = False; break
            x, y = (x - kk) // st + 1, (y - kk) // st + 1
        if ok:
            best = k
    return best


def cnn_moves(quick, hw=None):
    def moves(a):
        n = len(a["channels"])
        out = []
        if hw is not None and n > 1:           # explicit kernels at the boundary of what still fits (roll-back decision)
            for hl in range(1, n):
                f = largest_fit(hw[0], hw[1], a["kernels"], a["strides"], hl)
                if 1 <= f <= 9:
                    out += [S("change_kernel", (0, 0), kernel_size=f, hidden_layer=hl), S("change_kernel", (0, 0), kernel_size=f + 1, hidden_layer=hl)]
        out += [S("add_layer", (0, 0)), S("add_layer", (1, 0)), S("add_layer", (0, 1)), S("add_layer", (2, 1))]
        for r1 in range(n):
            out.append(S("remove_layer", (r1, 0)))
        for r1 in range(3):
            for r2 in range(3):
                out.append(S("change_kernel", (r1, r2)))
        out.append(S("change_kernel", (1, 1), kernel_size=1, hidden_layer=n - 1))
        out.append(S("change_kernel", (2, 1), hidden_layer=n - 1))
        for hl in ((0, n) if quick else range(n + 1)):
            out.append(S("add_channel", hidden_layer=hl, numb_new_channels=4))
            out.append(S("remove_channel", hidden_layer=hl, numb_new_channels=4))
        out.append(S("add_channel", (n - 1, 0)))
        out.append(S("remove_channel", (0, 0)))
        out.append(S("remove_channel", (1,), hidden_layer=0))
        return out
    return moves


def cnn_to_init(d):
    return {"channels": d["widths"], "kernels": d["kernels"], "strides": d["strides"]}


def gen_cnn(tier, rng):
    cases, ex = [], True
    quick = tier == "quick"
    st = {"input_shape": [2, 16, 16], "num_outputs": 3, "layer_norm": False, "init_layers": False}
    cfg = {"min_hidden_layers": 1, "max_hidden_layers": 3, "min_channel_size": 4, "max_channel_size": 8}
    c, e = bfs("cnn", st, cfg, {"channels": [4], "kernels": [3], "strides": [1]}, cnn_moves(quick), cnn_to_init,
               limit=1600 if quick else 30000)
    cases += c; ex &= e
    st2 = {"input_shape": [1, 34, 30], "num_outputs": 2, "layer_norm": True, "init_layers": False}
    cfg2 = {"min_hidden_layers": 1, "max_hidden_layers": 2, "min_channel_size": 8, "max_channel_size": 24}
    c, e = bfs("cnn", st2, cfg2, {"channels": [8], "kernels": [4], "strides": [2]}, cnn_moves(True, (34, 30)), cnn_to_init,
               limit=250 if quick else 30000, tag="bfs-drawn")
    cases += c; ex &= e
    nw, ln = (4, 40) if quick else (12, 150)
    for w in range(nw):
        hw = rng.choice([(32, 32), (48, 40), (64, 64), (28, 44), (20, 56)] if not quick else [(32, 32), (40, 36), (28, 44), (16, 40)][w % 4:][:1])
        static = {"input_shape": [3, *hw], "num_outputs": rng.choice([4, 16]), "layer_norm": rng.random() < 0.4, "init_layers": False}
        cfg = {"min_hidden_layers": 1, "max_hidden_layers": 6, "min_channel_size": 32, "max_channel_size": 256 if not quick else 96}
        init = rng.choice([{"channels": [32, 32], "kernels": [3, 3], "strides": [1, 1]},
                           {"channels": [32, 64], "kernels": [8, 4], "strides": [4, 2]} if hw[0] >= 48 else
                           {"channels": [32], "kernels": [4], "strides": [2]},
                           {"channels": [64], "kernels": [5], "strides": [1]}])
        steps = []
        for _ in range(ln):
            m = rng.choice(["add_layer", "remove_layer", "change_kernel", "change_kernel", "add_channel", "remove_channel"])
            steps.append(S(m, (rng.randrange(1000), rng.randrange(1000))))
        if w % 2 == 1:
            static["tuple_kernels"] = True
        cases.append({"block": "cnn", "static": static, "cfg": cfg, "init": init, "steps": steps, "every": 10, "src": "walk"})
    # kernel sizes given as tuples + explicit change_kernel arguments (what Mutations passes on to the other networks)
    st = {"input_shape": [2, 20, 20], "num_outputs": 3, "layer_norm": False, "init_layers": False, "tuple_kernels": True}
    ccfg = {"min_hidden_layers": 1, "max_hidden_layers": 4, "min_channel_size": 8, "max_channel_size": 64}
    cases.append({"block": "cnn", "static": st, "cfg": ccfg, "init": {"channels": [8, 8], "kernels": [3, 3], "strides": [1, 1]},
                  "steps": [S("change_kernel", (0, 1)), S("change_kernel", (0, 0), kernel_size=2, hidden_layer=1), S("add_layer", (1, 0)),
                            S("change_kernel", (1, 2)), S("remove_layer", (0, 0)), S("add_channel", (1, 1)), S("change_kernel", (0, 0), kernel_size=1, hidden_layer=0)],
                  "every": 1, "src": "walk"})
    return cases, ex


GENERATORS.append(gen_cnn)


# ------------------------------------------------------------------ networks
NET_ENC_INIT = {
    "vector": lambda small: {"layers": 1, "widths": [8]} if small else {"layers": 2, "widths": [64, 64]},
    "image": lambda small: {"layers": 2, "widths": [8, 8], "kernels": [3, 3], "strides": [1, 1]},
    "simba": lambda small: {"layers": 1, "widths": [32]},
    "lstm": lambda small: {"layers": 1, "widths": [32]},
}
NET_ENC_METHODS = {
    "vector": ["encoder.add_node", "encoder.remove_node"], "simba": ["encoder.add_node", "encoder.remove_node"],
    "lstm": ["encoder.add_node", "encoder.remove_node"],
    "image": ["encoder.add_channel", "encoder.remove_channel", "encoder.change_kernel"],
}
HEAD_METHODS = ["head_net.add_layer", "head_net.remove_layer", "head_net.add_node", "head_net.remove_node"]


def net_enc_cfg(obs, rng, partial):
    if obs == "vector":
        c = {}
        if partial >= 1 and rng.random() < 0.5:
            c["activation"] = rng.choice(["Tanh", "ELU", "ReLU"])
        if partial >= 1 and rng.random() < 0.4:
            c["output_activation"] = rng.choice(["Sigmoid", "Tanh"])
        if partial >= 1 and rng.random() < 0.4:
            c["layer_norm"] = rng.random() < 0.5
        if partial >= 2:
            c.update(min_hidden_layers=1, max_hidden_layers=3, min_mlp_nodes=16, max_mlp_nodes=160)
        return c
    if obs == "image":
        c = {"min_channel_size": 8, "max_channel_size": 48, "init_layers": False}
        if rng.random() < 0.5:
            c["layer_norm"] = rng.random() < 0.5
        return c
    if obs == "simba":
        return {"min_mlp_nodes": 16, "max_mlp_nodes": 160} if partial else {}
    return {"min_hidden_size": 16, "max_hidden_size": 160} if partial else {}


def gen_net(tier, rng):
    cases, ex = [], True
    quick = tier == "quick"
    # exhaustive walk of a small Q network: every advertised method, clone before every step
    cfg = {"min_latent_dim": 8, "max_latent_dim": 40,
           "encoder_config": {"min_hidden_layers": 1, "max_hidden_layers": 3, "min_mlp_nodes": 4, "max_mlp_nodes": 12},
           "head_config": {"min_hidden_layers": 1, "max_hidden_layers": 2, "min_mlp_nodes": 4, "max_mlp_nodes": 12}}
    init = {"latent": 16, "enc": {"layers": 1, "widths": [8]}, "head": [8]}

    def moves(a):
        out = [S("add_latent_node", numb_new_nodes=8), S("remove_latent_node", numb_new_nodes=8),
               S("add_latent_node", (0,)), S("remove_latent_node", (1,)), S("add_latent_node", (2,)),
               S("encoder.add_node", hidden_layer=0, numb_new_nodes=4), S("encoder.remove_node", hidden_layer=0, numb_new_nodes=4),
               S("encoder.add_node", (0, 0)),
               S("head_net.add_layer", (0, 0)), S("head_net.remove_layer", (0, 0)),
               S("head_net.add_node", hidden_layer=5, numb_new_nodes=4), S("head_net.remove_node", hidden_layer=0, numb_new_nodes=4)]
        return out

    def to_init(d):
        return {"latent": d["latent"], "enc": d["enc"], "head": d["head"]["widths"]}

    proto = {"net": "q", "obs": "vector", "clone": True}

    def bfs_net(tag):
        seen, queue, out = {repr(init)}, [init], []
        while queue:
            a = queue.pop(0)
            for st in moves(a):
                case = dict(proto, block="net", static={}, cfg=cfg, init=a, steps=[st], every=0, src=tag)
                out.append(case)
                try:
                    rec = cached_run(case)["steps"][0]
                    if rec["error"] is not None or rec["desc"] is None:
                        continue
                    nxt = to_init(rec["desc"])
                except Exception:
                    continue
                if repr(nxt) not in seen:
                    seen.add(repr(nxt)); queue.append(nxt)
                    CACHE.pop(B.key_case(case), None); case["every"] = 1
        return out
    cases += bfs_net("bfs")
    # seeded clone-and-mutate walks over every network class x observation family, partial configurations included
    combos = [(n, o) for n in ("q", "value", "det", "stoch", "contq") for o in ("vector", "image", "simba", "lstm")
              if not (n == "contq" and o == "lstm")] + [("rainbow", "vector")]
    rng.shuffle(combos)
    ln = 12 if quick else 60
    for idx, (n, o) in enumerate(combos if not quick else combos[:12]):
        partial = idx % 3
        ec = net_enc_cfg(o, rng, partial)
        hc = {} if partial == 0 else {"min_mlp_nodes": 16, "max_mlp_nodes": 160}
        if rng.random() < 0.3 and n != "rainbow":
            hc["layer_norm"] = False
        c = {"min_latent_dim": 8, "max_latent_dim": 128, "encoder_config": ec, "head_config": hc}
        i = {"latent": rng.choice([16, 32, 64]), "enc": NET_ENC_INIT[o](False), "head": [rng.choice([32, 64])]}
        meths = ["add_latent_node", "remove_latent_node"] + NET_ENC_METHODS[o] + HEAD_METHODS
        steps = [S(rng.choice(meths), (rng.randrange(1000), rng.randrange(1000))) for _ in range(ln)]
        cases.append({"block": "net", "net": n, "obs": o, "clone": True, "static": {}, "cfg": c, "init": i, "steps": steps,
                      "every": 4, "src": "walk"})
    # latent width at / next to its bounds (strict guards on both sides), every amount the methods can draw
    for lat, meth in ((120, "add_latent_node"), (96, "add_latent_node"), (16, "remove_latent_node"), (40, "remove_latent_node")):
        for n in ("q", "stoch"):
            cases.append({"block": "net", "net": n, "obs": "vector", "clone": True, "static": {},
                          "cfg": {"min_latent_dim": 8, "max_latent_dim": 128, "encoder_config": {}, "head_config": {}},
                          "init": {"latent": lat, "enc": {"layers": 1, "widths": [64]}, "head": [64]},
                          "steps": [S(meth, (0, r)) for r in (0, 1, 2)] + [S("head_net.add_node", (0, 2)), S(meth, (0, 0))], "every": 2, "src": "walk"})
    # the minimal partial configuration of the reconnaissance (R20)
    for n in ("q", "value", "det"):
        cases.append({"block": "net", "net": n, "obs": "vector", "clone": True, "static": {},
                      "cfg": {"min_latent_dim": 8, "max_latent_dim": 128, "encoder_config": {}, "head_config": {}},
                      "init": {"latent": 32, "enc": {"layers": 2, "widths": [32, 32]}, "head": [32]},
                      "steps": [S("head_net.add_node", (0, 0)), S("encoder.add_node", (1, 1)), S("add_latent_node", (1,))], "every": 1, "src": "walk"})
    return cases, ex


GENERATORS.append(gen_net)


# ------------------------------------------------------------------ two modules built from one configuration
def gen_sibling(tier, rng):
    cases = []
    n = 3 if tier == "quick" else 12
    for _ in range(n):
        cfg = {"min_hidden_layers": 1, "max_hidden_layers": 3, "min_mlp_nodes": 16, "max_mlp_nodes": 200}
        steps = [S(rng.choice(["add_node", "remove_node", "add_layer", "add_node"]), (rng.randrange(100), rng.randrange(100))) for _ in range(4)]
        cases.append({"block": "mlp", "static": dict(MLP_STATIC), "cfg": cfg, "init": [64, 64], "steps": steps, "every": 4, "src": "sibling", "sibling": True})
        st = {"input_shape": [2, 20, 20], "num_outputs": 3, "layer_norm": False, "init_layers": False}
        ccfg = {"min_hidden_layers": 1, "max_hidden_layers": 4, "min_channel_size": 8, "max_channel_size": 64}
        steps = [S(rng.choice(["add_channel", "remove_channel", "change_kernel", "add_layer", "add_channel"]), (rng.randrange(100), rng.randrange(100))) for _ in range(4)]
        cases.append({"block": "cnn", "static": st, "cfg": ccfg, "init": {"channels": [16, 16], "kernels": [3, 3], "strides": [1, 1]},
                      "steps": steps, "every": 4, "src": "sibling", "sibling": True})
        o = rng.choice(["vector", "image"])
        ec = {"min_mlp_nodes": 16, "max_mlp_nodes": 200} if o == "vector" else {"min_channel_size": 8, "max_channel_size": 64, "init_layers": False}
        meths = NET_ENC_METHODS[o] + ["head_net.add_node", "head_net.add_layer"]
        steps = [S(rng.choice(meths), (rng.randrange(100), rng.randrange(100))) for _ in range(4)]
        cases.append({"block": "net", "net": rng.choice(["q", "value", "det"]), "obs": o, "clone": False, "static": {},
                      "cfg": {"min_latent_dim": 8, "max_latent_dim": 128, "encoder_config": ec, "head_config": {"min_mlp_nodes": 16, "max_mlp_nodes": 200}},
                      "init": {"latent": 32, "enc": NET_ENC_INIT[o](False) if o == "image" else {"layers": 2, "widths": [32, 32]}, "head": [32]},
                      "steps": steps, "every": 4, "src": "sibling", "sibling": True})
    return cases, True


GENERATORS.append(gen_sibling)


# ------------------------------------------------------------------ round-3 audit: failed calls, non-square images, tuple arguments, same-clone chains
BAD_CALLS = {
    "mlp": [("add_node", {"numb_new_nodes": "16"}), ("remove_node", {"hidden_layer": "0", "numb_new_nodes": 4}), ("add_node", {"hidden_layer": 0, "numb_new_nodes": None, "bogus": 1})],
    "lstm": [("add_node", {"numb_new_nodes": "16"}), ("remove_node", {"numb_new_nodes": "4"})],
    "simba": [("add_node", {"numb_new_nodes": "16"}), ("remove_node", {"numb_new_nodes": "4"})],
    "resnet": [("add_channel", {"numb_new_channels": "8"}), ("remove_channel", {"numb_new_channels": "4"})],
    "cnn": [("change_kernel", {"kernel_size": 2.5, "hidden_layer": 1}), ("change_kernel", {"kernel_size": 2, "hidden_layer": 99}),
            ("change_kernel", {"hidden_layer": 99}), ("add_channel", {"numb_new_channels": "8"}), ("remove_channel", {"hidden_layer": "0"})],
}


def gen_round3(tier, rng):
    cases = []
    quick = tier == "quick"
    # (A) a call that raises (and is caught) followed by ordinary mutations ON THE SAME OBJECT, every block, every documented failure
    protos = {
        "mlp": dict(static=dict(MLP_STATIC), cfg={"min_hidden_layers": 1, "max_hidden_layers": 3, "min_mlp_nodes": 16, "max_mlp_nodes": 200}, init=[64, 64],
                    good=[S("add_node", (1, 0)), S("add_layer", (0, 0)), S("remove_node", (0, 0)), S("remove_layer", (0, 1))]),
        "cnn": dict(static={"input_shape": [2, 20, 28], "num_outputs": 3, "layer_norm": False, "init_layers": False},
                    cfg={"min_hidden_layers": 1, "max_hidden_layers": 4, "min_channel_size": 8, "max_channel_size": 64},
                    init={"channels": [16, 16], "kernels": [3, 3], "strides": [1, 1]},
                    good=[S("add_channel", (1, 0)), S("change_kernel", (0, 1)), S("add_layer", (0, 0)), S("remove_channel", (0, 0)), S("remove_layer", (0, 0))]),
    }
    for name in ("lstm", "simba", "resnet"):
        sp = SC[name]
        protos[name] = dict(static=sp["static"], cfg=sp["cfg_drawn"], init=sp["init_drawn"],
                            good=[S(sp["node"][0], (0,)), S(sp["layer"][0], (0,)), S(sp["node"][1], (0,)), S(sp["layer"][1], (1,))])
    for name, pr in protos.items():
        for (bm, bargs) in BAD_CALLS[name]:
            for pos in ((0, 2) if quick else (0, 1, 2, 3)):
                good = [dict(g) for g in pr["good"]]
                steps = good[:pos] + [{"m": bm, "args": {}, "r": [0, 0], "bad": bargs}] + good[pos:]
                cases.append({"block": name, "static": pr["static"], "cfg": pr["cfg"], "init": pr["init"], "steps": steps, "every": 1, "src": "failed-call"})
    # networks / multi-input: one clone, then a failed call, a latent mutation and nested mutations on that same clone
    netcfg = {"min_latent_dim": 8, "max_latent_dim": 128, "encoder_config": {"min_mlp_nodes": 16, "max_mlp_nodes": 200}, "head_config": {"min_mlp_nodes": 16, "max_mlp_nodes": 200}}
    for n in (("q", "stoch") if quick else ("q", "stoch", "value", "det", "contq", "rainbow")):
        for first in ("add_latent_node", "remove_latent_node"):
            steps = [{"m": "add_latent_node", "args": {}, "r": [0, 0], "bad": {"numb_new_nodes": "8"}},
                     {"m": "encoder.add_node", "args": {}, "r": [0, 0], "bad": {"numb_new_nodes": "16"}},
                     S(first, (0, 0)), S("head_net.add_node", (0, 0)), S("encoder.add_node", (0, 1)), S("head_net.add_layer", (0, 0)),
                     S("remove_latent_node" if first == "add_latent_node" else "add_latent_node", (0, 1)), S("encoder.remove_node", (0, 0)), S("head_net.remove_layer", (0, 0))]
            cases.append({"block": "net", "net": n, "obs": "vector", "clone": "once", "static": {}, "cfg": netcfg,
                          "init": {"latent": 32, "enc": {"layers": 1, "widths": [64]}, "head": [64]}, "steps": steps, "every": 1, "src": "same-clone"})
    # (B) networks over a non-square image (H < W and H > W)
    for img in ([2, 12, 20], [2, 20, 12]):
        ec = {"min_channel_size": 8, "max_channel_size": 48, "init_layers": False}
        meths = ["add_latent_node", "remove_latent_node"] + NET_ENC_METHODS["image"] + HEAD_METHODS
        steps = [S(rng.choice(meths), (rng.randrange(1000), rng.randrange(1000))) for _ in range(10 if quick else 40)]
        cases.append({"block": "net", "net": rng.choice(["q", "value"]), "obs": "image", "img": img, "clone": True, "static": {},
                      "cfg": {"min_latent_dim": 8, "max_latent_dim": 128, "encoder_config": ec, "head_config": {}},
                      "init": {"latent": 32, "enc": {"layers": 2, "widths": [8, 8], "kernels": [3, 3], "strides": [1, 1]}, "head": [32]},
                      "steps": steps, "every": 3, "src": "walk", "twin": True})
    return cases, True


GENERATORS.append(gen_round3)


# ------------------------------------------------------------------ round 5: non-unit strides, explicit kernels at the boundary of what fits
STRIDED = [  # (input H, W, kernels, strides)
    (32, 32, [4, 3], [4, 1]), (20, 28, [3, 3], [2, 2]), (11, 15, [3, 3], [1, 3]), (30, 36, [3, 2, 2], [3, 1, 2]), (28, 20, [4, 2], [2, 1]),
]


def boundary_steps(h, w, ks, ss):
    steps = []
    for hl in range(1, len(ks)):
        f = largest_fit(h, w, ks, ss, hl)
        for k in (f + 1, f + 2, f, f + 1, max(1, f - 1)):
            if k - 0 <= 12 and (k > f or k <= 9):
                steps.append(S("change_kernel", (0, 0), kernel_size=k, hidden_layer=hl))
                if k <= f:
                    ks = list(ks); ks[hl] = k
    return steps


def gen_round5(tier, rng):
    cases = []
    quick = tier == "quick"
    ccfg = {"min_hidden_layers": 1, "max_hidden_layers": 4, "min_channel_size": 8, "max_channel_size": 64}
    for (h, w, ks, ss) in STRIDED:
        st = {"input_shape": [2, h, w], "num_outputs": 3, "layer_norm": False, "init_layers": False}
        init = {"channels": [8] * len(ks), "kernels": list(ks), "strides": list(ss)}
        steps = boundary_steps(h, w, ks, ss)
        steps += [S("add_channel", (0, 0)), S("change_kernel", (0, 2)), S("change_kernel", (1, 1)), S("remove_layer", (0, 0)), S("add_layer", (1, 1))]
        cases.append({"block": "cnn", "static": st, "cfg": ccfg, "init": init, "steps": steps, "every": 1, "src": "strided", "twin": True})
        cases.append({"block": "cnn3d", "static": st, "cfg": ccfg, "init": init,
                      "steps": [dict(x, args=dict(x["args"], kernel_size=[1, x["args"]["kernel_size"], x["args"]["kernel_size"]])) if "kernel_size" in x["args"] else x
                                for x in steps], "every": 1, "src": "strided", "twin": True})
        # failed call in the middle of a strided chain
        bad = {"m": "change_kernel", "args": {}, "r": [0, 0], "bad": {"kernel_size": 2.5, "hidden_layer": 1}}
        cases.append({"block": "cnn", "static": st, "cfg": ccfg, "init": init, "steps": steps[:2] + [bad] + steps[2:6], "every": 1, "src": "failed-call"})
        # seeded walks from the strided start
        for wk in range(1 if quick else 4):
            wsteps = [S(rng.choice(["add_layer", "remove_layer", "change_kernel", "change_kernel", "add_channel", "remove_channel"]),
                        (rng.randrange(1000), rng.randrange(1000))) for _ in range(12 if quick else 60)]
            cases.append({"block": "cnn", "static": st, "cfg": ccfg, "init": init, "steps": wsteps, "every": 4, "src": "walk"})
    # network-level CNN encoders with non-unit strides: explicit boundary kernels through 'encoder.change_kernel', clone before every step
    for (img, ks, ss) in (([2, 20, 28], [3, 3], [2, 2]), ([2, 32, 32], [4, 3], [4, 1])):
        ec = {"min_channel_size": 8, "max_channel_size": 48, "init_layers": False}
        bs = boundary_steps(img[1], img[2], ks, ss)
        steps = [dict(x, m="encoder.change_kernel") for x in bs] + [S("encoder.change_kernel", (0, 1)), S("add_latent_node", (0, 1)), S("encoder.add_channel", (1, 0)),
                                                                   S("encoder.change_kernel", (0, 0), kernel_size=1, hidden_layer=1)]
        for n in (("q",) if quick else ("q", "value", "rainbow")):
            if n == "rainbow":
                continue
            cases.append({"block": "net", "net": n, "obs": "image", "img": img, "clone": True, "static": {},
                          "cfg": {"min_latent_dim": 8, "max_latent_dim": 128, "encoder_config": ec, "head_config": {}},
                          "init": {"latent": 32, "enc": {"layers": len(ks), "widths": [8] * len(ks), "kernels": list(ks), "strides": list(ss)}, "head": [32]},
                          "steps": steps, "every": 1, "src": "strided", "twin": True})
    return cases, True


GENERATORS.append(gen_round5)
