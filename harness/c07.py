"""C07 — a saved checkpoint restores an equivalent agent.

Shadow execution on top of the shared Evo engine (harness/evo.py, DESIGN 8.0): a seeded history of learn / score /
mutation / clone operations is applied to a real population of tiny agents, members are written with
``save_checkpoint`` to /verif/build/C07/*.pt and restored through both paths (``Algo.load(path)`` -> new member,
``member.load_checkpoint(path)`` in place), immediately or after the saved agent has moved on (crash point: the file
must give back the agent as it was when it was saved).  After every operation a snapshot is taken.  The model
(coq/theories/C07/Model.v: save / load / load_checkpoint over the Evo heap) runs the same history inside Coq and is
compared with the snapshots (C07/Check.v); the oracle below states the property directly on the snapshots:
restored == saved (every tensor of every network incl. targets, optimizer state, hp, bookkeeping, init dicts),
restored owns only new storage, nobody else changes, equal greedy actions, equal weights after 3 identical learn calls.
"""
from __future__ import annotations

import gc
import json
import os
import sys

import vlib
from vlib import Violation

import evo

FILES = vlib.BUILD / ("C07" + vlib.ALT_TAG)
# keys of the checkpoint dictionary that load_checkpoint leaves behind as attributes of the agent: not agent state
JUNK_ATTRS = {"agilerl_version", "wrapper_cls", "wrapper_init_dict", "wrapper_attrs"}
_BLOCK_TYPE = __import__("re").compile(r"block_type='Conv[23]d'")


def mutate_named_hp(agent, seed, which):
    """Mutations.mutation with the hyper-parameter kind forced (evo.apply_mutation) AND the sampled hyper-parameter scripted:
    HyperparameterConfig.sample() draws torch.randperm(len(config))[0]; the draw is replaced in-process so that it selects
    `which` ('lr' = first learning-rate name, 'lr_last' = last one, or an attribute name such as 'batch_size')."""
    import torch
    a = evo.unwrap(agent)
    names = list(a.registry.hp_config.names())
    lrn = list(a.get_lr_names())
    target = lrn[0] if which == "lr" else lrn[-1] if which == "lr_last" else which
    idx = names.index(target)
    orig = torch.randperm

    def fake(n, *args, **kw):
        if n != len(names):
            return orig(n, *args, **kw)
        return torch.tensor([idx] + [j for j in range(n) if j != idx])
    torch.randperm = fake
    try:
        return evo.apply_mutation(agent, "hp", seed)
    finally:
        torch.randperm = orig


def opt_groups(agent):
    """per optimizer: the settings of every param_group (everything but the parameters themselves)"""
    a = evo.unwrap(agent)
    out = {}
    for oc in a.registry.optimizers:
        w = getattr(a, oc.name)
        out[oc.name] = [{k: (list(v) if isinstance(v, tuple) else v) for k, v in sorted(g.items()) if k != "params"}
                        for o in evo._opt_list(w) for g in o.param_groups]
    return out


def deep_wrapper_slots(agent, seen):
    """tensors of an AgentWrapper that evo.wrapper_slots does not reach: running statistics kept in (nested) dicts / tuples of
    RunningMeanStd objects (Dict / Tuple observation spaces, multi-agent algorithms)"""
    import torch
    out = []
    if evo.unwrap(agent) is agent:
        return out

    def walk(name, v, depth):
        if depth > 4 or isinstance(v, evo.EvolvableAlgorithm) or callable(v):
            return
        if isinstance(v, torch.Tensor):
            if v.numel() > 0 and ("T", v.data_ptr()) not in seen:
                seen.add(("T", v.data_ptr()))
                out.append((name, "ext", ("T", v.data_ptr()), evo._fp_tensor(v)))
        elif isinstance(v, dict):
            for k in sorted(v, key=str):
                walk(f"{name}.{k}", v[k], depth + 1)
        elif isinstance(v, (list, tuple)):
            for i, x in enumerate(v):
                walk(f"{name}[{i}]", x, depth + 1)
        elif hasattr(v, "__dict__") and not isinstance(v, type):
            for k in sorted(vars(v)):
                walk(f"{name}.{k}", vars(v)[k], depth + 1)
    for n in sorted(vars(agent)):
        if n not in ("agent",):
            walk(f"wrapper.{n}", vars(agent)[n], 0)
    return out


def wrapper_struct(agent):
    if evo.unwrap(agent) is agent:
        return None
    eps = []

    def walk(v, depth):
        if depth > 4:
            return
        if isinstance(v, dict):
            for k in sorted(v, key=str):
                walk(v[k], depth + 1)
        elif isinstance(v, (list, tuple)):
            for x in v:
                walk(x, depth + 1)
        elif hasattr(v, "epsilon"):
            eps.append(float(v.epsilon))
    walk(getattr(agent, "obs_rms", None), 0)
    return {"cls": type(agent).__name__, "norm_obs_keys": getattr(agent, "norm_obs_keys", None), "epsilon": eps}


def prelu_config(family):
    """net_config whose hidden and encoder-output activations are PReLU - the one entry of the activation table
    (agilerl/utils/evolvable_networks.get_activation) that owns a learnable parameter - for encoder and head"""
    head = {"hidden_size": [16], "activation": "PReLU"}       # (Rainbow's head asserts at least 16 nodes)
    if family == "image":
        enc = {"channel_size": [2], "kernel_size": [3], "stride_size": [1], "activation": "PReLU"}
    elif family == "dict":
        # the multi-input encoder has no hidden activation of its own: PReLU after the concatenated features
        enc = {"latent_dim": 8, "output_activation": "PReLU"}
    else:
        enc = {"hidden_size": [6], "activation": "PReLU", "output_activation": "PReLU"}
    return {"encoder_config": enc, "head_config": head}


def all_tensor_ptrs(agent):
    """storage census that does not go through evo.slots: every parameter and buffer reachable through
    named_parameters() / named_buffers() of every network attribute (activation modules included), every tensor of every
    optimizer state.  {name: data_ptr}"""
    import torch
    a = evo.unwrap(agent)
    out = {}
    for n in evo.net_names(a):
        obj = getattr(a, n)
        for mi, m in enumerate(obj if isinstance(obj, (list, tuple)) else [obj]):
            m = getattr(m, "_orig_mod", m)
            for k, t in torch.nn.Module.named_parameters(m, remove_duplicate=False):
                if t.numel() > 0:
                    out[f"{n}[{mi}].{k}"] = t.data_ptr()
            for k, t in torch.nn.Module.named_buffers(m, remove_duplicate=False):
                if t.numel() > 0:
                    out[f"{n}[{mi}].{k}#buffer"] = t.data_ptr()
    for oc in a.registry.optimizers:
        for oi, o in enumerate(evo._opt_list(getattr(a, oc.name))):
            for pi, (p_, st) in enumerate(o.state.items()):
                for k, v in st.items():
                    if isinstance(v, torch.Tensor) and v.numel() > 0:
                        out[f"{oc.name}[{oi}].state[{pi}].{k}"] = v.data_ptr()
    return out


def module_reprs(agent):
    """class structure of the live module tree of every network (layer classes, activation classes, sizes as printed by torch):
    a rebuilt network must have the structure of the saved one, not only an equal init dict"""
    import hashlib
    import torch
    a = evo.unwrap(agent)
    out = {}
    for n in evo.net_names(a):
        obj = getattr(a, n)
        txt = "\n".join(torch.nn.Module.__repr__(getattr(m, "_orig_mod", m)) for m in (obj if isinstance(obj, (list, tuple)) else [obj]))
        out[n] = hashlib.sha1(txt.encode()).hexdigest()[:12] + ":" + str(len(txt))
    return out


def hp_types(agent):
    """Python / numpy type of every registered hyper-parameter attribute and of the common scalar attributes"""
    a = evo.unwrap(agent)
    hc = a.registry.hp_config
    names = list(hc.names() if hc else []) + [oc.lr for oc in a.registry.optimizers] + ["index", "gamma", "tau", "batch_size", "learn_step"]
    return {n: type(getattr(a, n)).__name__ for n in dict.fromkeys(names) if hasattr(a, n)}


def _neq(a, b):
    """inequality of (nested) numbers in which NaN equals NaN (extreme weights make outputs overflow identically on both agents)"""
    return json.dumps(a, default=str) != json.dumps(b, default=str)


def _file_hash(path):
    import hashlib
    with open(path, "rb") as f:
        return hashlib.sha1(f.read()).hexdigest()


def poke_extremes(agent, seed):
    """extreme but legal float32 magnitudes written in place into the first tensors of the policy network (largest finite values of
    both signs, the smallest denormal, negative zero): a checkpoint must give back exactly these bit patterns"""
    import torch
    a = evo.unwrap(agent)
    pol = getattr(a, evo.registry_plus(a)["policy"])
    vals = [3.0e38, -3.0e38, 1.0e-45, -0.0, 1.0e30, -1.0e-30]
    with torch.no_grad():
        for m in (pol if isinstance(pol, (list, tuple)) else [pol]):
            for k_, t in list(torch.nn.Module.named_parameters(getattr(m, "_orig_mod", m)))[:2]:
                flat = t.view(-1)
                for j in range(min(len(vals), flat.numel())):
                    flat[j] = vals[(j + int(seed)) % len(vals)]


def _coq_str(s):
    assert all(32 <= ord(c) < 127 and c != '"' for c in s), s
    return f'(s_of "{s}"%string)'


class C07(vlib.Driver):
    pid = "C07"
    coq_dirs = ("Evo",)
    preamble = ("From Coq Require Import NArith QArith.\nFrom Coq Require String.\nImport String.StringSyntax.\nFrom AgileV Require Import Evo.Heap Evo.Evo C07.Model C07.Check.\n"
                "Open Scope N_scope.")
    rule = ("history = (algorithm, space family, shared/unshared encoders, net_config kind, wrapper, op-kind sequence) over "
            "{learn, score, act, clone, 5 mutation kinds, save, load, load_into}.  Distinct = distinct key.  Non-trivial = >= 1 learn "
            "and >= 1 mutation/clone before a save, that file restored (load or load_into) and a later learn on the restored agent.")
    trusted_base = ["hand-written models coq/theories/Evo/{Heap,Evo}.v and coq/theories/C07/Model.v",
                    "correspondence harness harness/evo.py + harness/c07.py (slot extraction through state_dict/data_ptr/id, "
                    "value fingerprints, forced mutation kinds)"]
    assumptions = ["torch copy/alias semantics (module.load_state_dict copies values into existing tensors, unpickling creates new "
                   "objects, optimizer.load_state_dict keeps the unpickled tensors) are parameters of the model validated by K only",
                   "pickling itself (dill / torch.save round trip of values), device moves and accelerator wrapping are not modelled",
                   "equal values => equal behaviour relies on torch being deterministic on CPU under equal seeds (checked by the oracle)"]
    shard = 2

    # ------------------------------------------------------------------ generation
    @staticmethod
    def boundary_ops():
        """save member 0 after a history that changed its architecture and hyper-parameters; restore through both paths,
        resume both copies identically; restore an old file after the saved agent has moved on"""
        pair3 = lambda p, c, s: [["learn", p, s], ["learn", c, s, p], ["learn", p, s + 1], ["learn", c, s + 1, p]]
        return ([["learn", 0, 1], ["learn", 0, 2], ["score", 0, 3], ["mutate", 0, "arch", 5], ["learn", 0, 3],
                 ["mutate", 0, "hp", 7], ["learn", 0, 4], ["mutate", 1, "arch", 6], ["learn", 1, 9],
                 ["save", 0], ["load", 0], ["act", 0, 5], ["act", 2, 5, 0]] + pair3(0, 2, 20) +
                [["load_into", 0, 1],               # file 0 is older than member 0 now: member 1 becomes member 0 as saved
                 ["learn", 1, 30],
                 ["score", 0, 4], ["save", 0], ["load_into", 1, 1], ["act", 0, 6], ["act", 1, 6, 0]] + pair3(0, 1, 40) +
                [["load", 0], ["learn", 3, 50]])

    @staticmethod
    def fresh_optimizer_ops():
        """checkpoints written right after a mutation that re-creates the optimizers, with NO learn step in between (the saved
        optimizer state is empty, so everything the optimizer knows is in its param_groups), restored into a member whose
        hyper-parameters (lr, batch_size) differ from the saved ones and through Algo.load; both copies then resume identically"""
        pair3 = lambda p, c, s: [["learn", p, s], ["learn", c, s, p], ["learn", p, s + 1], ["learn", c, s + 1, p]]
        return ([["learn", 0, 1], ["learn", 1, 2],
                 ["mutate", 1, "hp", 11, "batch_size"], ["mutate", 0, "hp", 12, "lr"],
                 ["save", 0], ["load_into", 0, 1]] + pair3(0, 1, 20) +
                [["mutate", 1, "hp", 13, "lr_last"], ["mutate", 1, "hp", 14, "lr"], ["mutate", 0, "arch", 15],
                 ["save", 0], ["load", 1], ["load_into", 1, 1]] + pair3(0, 2, 30) +
                [["learn", 1, 33], ["mutate", 0, "param", 16], ["mutate", 0, "hp", 17, "lr_last"],
                 ["save", 0], ["load_into", 2, 2]] + pair3(0, 2, 40))

    @staticmethod
    def premutation_ops(k1, k2, gap1=False, gap2=True, src=0, chain=False):
        """every mutation kind immediately (or one learn step) before a save: member `src` is mutated with kind k1, saved, restored by
        Algo.load, and both copies choose greedy actions and learn twice from the same batches; then the same with kind k2 and
        load_checkpoint into the other member.  What a mutation changes outside the weights (activation / architecture entries of the
        init dicts, hyper-parameters, re-created optimizers) must come back from the file, and must still be in force when resuming.
        src = 1 saves the member whose index is not the constructor default.  chain = True adds objects that are not freshly built:
        a checkpoint of a CLONE (clone -> save -> load) and a checkpoint of a RESTORED agent (load -> save -> load_checkpoint)."""
        a, b = src, 1 - src

        def mut(i, k, s):
            return ["mutate", i, "hp", s, "lr"] if k == "hp" else ["mutate", i, k, s]

        def pair2(p, c, s):
            return [["learn", p, s], ["learn", c, s, p], ["learn", p, s + 1], ["learn", c, s + 1, p]]
        # the loading member always has scores; the saved member only when src == 0 (an EMPTY saved list must replace a non-empty one)
        ops = [["learn", 0, 1], ["learn", 1, 2], ["score", b, 4]] + ([["score", a, 5]] if src == 0 else []) + [mut(a, k1, 21)]
        ops += [["learn", a, 3]] if gap1 else []
        ops += [["save", a], ["load", 0], ["act", a, 5], ["act", 2, 5, a]] + pair2(a, 2, 6)            # file 0 -> member 2
        n, nf = 3, 1
        if chain:
            ops += [["save", 2], ["load_into", nf, b]] + pair2(2, b, 12)                                  # a restored agent is saved
            nf += 1
            ops += [["clone", a, 7], ["mutate", n, "param", 23], ["save", n], ["load", nf]] + pair2(n, n + 1, 14)   # a clone is saved
            n, nf = n + 2, nf + 1
        ops += [mut(a, k2, 22)] + ([["learn", a, 8]] if gap2 else [])
        # the same file is loaded by load_checkpoint into TWO members (they must not share anything afterwards)
        ops += [["save", a], ["load_into", nf, b], ["load_into", nf, 2], ["act", a, 9], ["act", b, 9, a]] + pair2(a, b, 10)
        return ops

    @staticmethod
    def wrapper_act_ops():
        """wrapped agents of the algorithms whose batches RSNorm.learn cannot normalise (on-policy, bandits, multi-agent): the running
        statistics move through get_action; architecture mutation, save, both load paths, greedy actions of saved and restored agent"""
        return [["act", 0, 1], ["act", 0, 2], ["act", 1, 3], ["mutate", 0, "arch", 4], ["act", 0, 5], ["save", 0], ["load", 0], ["load_into", 0, 1],
                ["act", 0, 6], ["act", 2, 6, 0], ["act", 0, 7], ["act", 2, 7, 0], ["mutate", 2, "hp", 8, "lr"], ["save", 2], ["load_into", 1, 0]]

    @staticmethod
    def oneside_ops():
        """after a restore only ONE of the agents is trained for a few steps: the others (the saved original, the other restored
        copy) must not change - not even a parameter hidden in an activation module; then the lock-step comparison"""
        return [["learn", 0, 1], ["learn", 0, 2], ["learn", 1, 3], ["save", 0], ["load", 0], ["load_into", 0, 1],
                ["learn", 2, 4], ["learn", 2, 5], ["learn", 2, 6],            # only the agent returned by Algo.load trains
                ["learn", 1, 7], ["learn", 1, 8],                             # only the agent restored in place trains
                ["load_into", 0, 1],                                          # the SAME file again into the same agent: rolled back
                ["load_into", 0, 1],                                          # identical consecutive calls
                ["load_missing", 1],                                          # a failing load, caught; the agent is used afterwards
                ["learn", 0, 9], ["act", 0, 10],                              # only the saved original trains / acts
                ["save", 0], ["load", 1], ["act", 0, 11], ["act", 3, 11, 0],
                ["learn", 0, 12], ["learn", 3, 12, 0], ["learn", 0, 13], ["learn", 3, 13, 0], ["learn", 0, 14], ["learn", 3, 14, 0]]

    @staticmethod
    def extreme_ops():
        """extreme but legal float32 magnitudes in the weights (largest finite values, denormals, negative zero), two identical saves
        in a row, both load paths; no learn step afterwards (the losses would overflow)"""
        return [["learn", 0, 1], ["learn", 1, 2], ["poke", 0, 0], ["act", 0, 3], ["save", 0], ["save", 0], ["load", 1], ["load_into", 0, 1],
                ["act", 0, 4], ["act", 2, 4, 0], ["poke", 1, 3], ["save", 1], ["load_into", 2, 0], ["load_into", 2, 0], ["act", 1, 5], ["act", 0, 5, 1]]

    @staticmethod
    def bound_ops():
        """architecture mutations repeated until the configured bounds (max layers / nodes / channels of the 'full' net_config)
        are reached, then save and restore: the init dict at a bound must rebuild the same network"""
        return ([["learn", 0, 1]] + [["mutate", 0, "arch", 30 + k] for k in range(7)] +
                [["learn", 0, 2], ["save", 0], ["load", 0], ["act", 0, 3], ["act", 2, 3, 0], ["learn", 0, 4], ["learn", 2, 4, 0],
                 ["mutate", 0, "arch", 40], ["mutate", 0, "arch", 41], ["save", 0], ["load_into", 1, 1], ["learn", 0, 5], ["learn", 1, 5, 0]])

    @staticmethod
    def premutation_matrix(tier):
        """(algo, family, share, k1, k2, gap1, gap2, src, chain): quick = every mutation kind x every observation family at least once, and the
        activation mutation x {dict, image} for every algorithm that receives activation mutations; thorough = the full product"""
        act_algos = ["DQN", "RainbowDQN", "CQN", "NeuralUCB", "NeuralTS"]
        others = ["arch", "param", "hp", "none"]
        out = []
        if tier == "quick":
            j = 0
            for fam in ("dict", "image"):
                for algo in act_algos:
                    out.append((algo, fam, False, "act", others[j % 4], j % 2 == 1, j % 2 == 0, j % 2, j in (2, 7)))
                    j += 1
            out += [("DDPG", "vector", True, "none", "arch", False, True, 1, False), ("TD3", "vector", False, "param", "hp", True, False, 0, True),
                    ("PPO", "vector", True, "act", "none", False, False, 1, False), ("NeuralTS", "vector", False, "act", "param", False, True, 0, False),
                    ("MADDPG", "discrete", False, "arch", "param", False, True, 1, True), ("MATD3", "discrete", False, "hp", "act", True, False, 0, False),
                    ("IPPO", "discrete", False, "none", "arch", False, False, 1, False), ("CQN", "discrete", False, "act", "hp", True, False, 1, False)]
        else:
            kinds = ["act"] + others
            j = 0
            for algo in evo.ALGOS:
                for fam in evo.FAMILIES:
                    for a in range(0, len(kinds), 2):
                        k1 = kinds[(a + j) % 5]
                        k2 = kinds[(a + 1 + j) % 5]
                        out.append((algo, fam, algo in evo.SHARE_CAPABLE and j % 2 == 0, k1, k2, j % 2 == 1, j % 3 == 0, (j // 2) % 2, j % 4 == 1))
                        j += 1
        return out

    def generate(self, tier, rng):
        cases = []
        algos = evo.ALGOS

        def history(nag, L, rng):
            ops, n, nfiles, has = [], nag, 0, False
            ops.append(["learn", 0, rng.randrange(1000)])
            for _ in range(L):
                r = rng.random()
                if r < 0.25:
                    ops.append(["learn", rng.randrange(n), rng.randrange(1000)])
                elif r < 0.32:
                    ops.append(["score", rng.randrange(n), rng.randrange(100)])
                elif r < 0.55:
                    ops.append(["mutate", rng.randrange(n), rng.choice(evo.MUT_KINDS), rng.randrange(1000)])
                elif r < 0.62 and n < 4:
                    ops.append(["clone", rng.randrange(n), rng.choice([None, 10 + n])]); n += 1
                elif r < 0.82 or nfiles == 0:
                    i = rng.randrange(n)
                    q = rng.random()
                    c = rng.choice([j for j in range(n) if j != i]) if (n >= 2 and (q >= 0.45 or n >= 5) and q < 0.8) else None
                    if rng.random() < 0.5:       # the file is written right after a mutation (optimizers re-created, never stepped)
                        if c is not None:        # ... and loaded into a member whose hyper-parameters differ
                            ops.append(["mutate", c, "hp", rng.randrange(1000), rng.choice(["lr", "lr_last", "batch_size"])])
                        ops.append(rng.choice([["mutate", i, "hp", rng.randrange(1000), rng.choice(["lr", "lr_last"])],
                                               ["mutate", i, "arch", rng.randrange(1000)], ["mutate", i, "param", rng.randrange(1000)]]))
                    ops.append(["save", i]); f = nfiles; nfiles += 1
                    if q < 0.45 and n < 5:       # immediate resume into a new member
                        ops.append(["load", f]); n += 1; c = n - 1
                    elif c is not None:          # immediate resume into another member
                        ops.append(["load_into", f, c])
                    else:
                        continue
                    s = rng.randrange(1000)
                    if rng.random() < 0.6:
                        ops.append(["act", i, s]); ops.append(["act", c, s, i])
                    for k in range(3):
                        ops.append(["learn", i, s + k]); ops.append(["learn", c, s + k, i])
                else:                             # an older file, possibly after the saved agent moved on
                    f = rng.randrange(nfiles)
                    if rng.random() < 0.5 and n < 5:
                        ops.append(["load", f]); n += 1
                        ops.append(["learn", n - 1, rng.randrange(1000)])
                    else:
                        j = rng.randrange(n)
                        ops.append(["load_into", f, j])
                        ops.append(["learn", j, rng.randrange(1000)])
            return ops

        def add(algo, family, share, netcfg, L, seed, nag=2, wrapper=False, ops=None, **extra):
            c = {"algo": algo, "family": family, "share": share, "netcfg": netcfg, "seed": seed, "pop": nag,
                 "ops": ops if ops is not None else history(nag, L, rng)}
            if wrapper:
                c["wrapper"] = True
            c.update(extra)
            cases.append(c)

        only = os.environ.get("VERIF_C07_ONLY")      # developer shortcut for the mutation self-test (never registered)
        for algo in algos:
            # quick: the share-capable algorithms run this history with shared encoders only (their un-shared form is covered by
            # the fresh-optimizer / pre-mutation / one-sided histories below)
            for share in (([False, True] if tier != "quick" else [True]) if algo in evo.SHARE_CAPABLE else [False]):
                add(algo, "vector", share, "partial", 0, 1, ops=self.boundary_ops())
        add("DQN", "vector", False, "partial", 0, 2, wrapper=True, ops=self.boundary_ops())
        for algo in algos:
            add(algo, "vector", algo == "TD3", "partial", 0, 3, ops=self.fresh_optimizer_ops())
        for n_, (algo, fam, share, k1, k2, g1, g2, src, chain) in enumerate(self.premutation_matrix(tier)):
            add(algo, fam, share, ["partial", "none", "full"][n_ % 3], 0, 4 + n_ % 3, ops=self.premutation_ops(k1, k2, g1, g2, src, chain))
        # configurations beyond the default encoders: heterogeneous multi-agent observation spaces, caller-ordered agent ids,
        # ResNet encoder, MakeEvolvable-wrapped plain torch networks
        P = self.premutation_ops
        add("MADDPG", "vector", False, "partial", 0, 7, ops=P("arch", "param", False, True, 1, False), hetero=True)
        add("IPPO", "vector", False, "partial", 0, 8, ops=P("hp", "arch", True, False, 0, False), hetero=True, ids="rev")
        add("DQN", "image", False, "resnet", 0, 9, ops=P("arch", "act", False, True, 1, False))
        add("DQN", "vector", False, "custom", 0, 10, ops=P("arch", "hp", False, False, 0, True))
        # AgentWrapper beyond DQN/DDPG on vector observations: non-default constructor arguments (wrapper_init_dict), per-key
        # statistics of Dict observations (nested dicts of RunningMeanStd), algorithms driven through get_action only
        add("DQN", "dict", False, "partial", 0, 17, wrapper={"epsilon": 0.001}, ops=P("act", "arch", False, True, 1, False))
        add("PPO", "vector", False, "partial", 0, 18, wrapper=True, ops=self.wrapper_act_ops())
        add("CQN", "vector", False, "full", 0, 24, ops=self.bound_ops())
        # activations that own a learnable parameter (PReLU) in encoder and head; one-sided training after the restore
        add("DQN", "vector", False, "prelu", 0, 28, ops=self.oneside_ops())
        add("PPO", "image", True, "prelu", 0, 29, ops=self.oneside_ops())
        add("DDPG", "discrete", False, "prelu", 0, 30, ops=P("param", "arch", False, True, 1, False))
        add("MATD3", "vector", False, "prelu", 0, 31, ops=self.oneside_ops())
        add("NeuralUCB", "vector", False, "partial", 0, 32, ops=self.oneside_ops())
        add("DQN", "vector", False, "partial", 0, 35, ops=self.extreme_ops())
        add("DDPG", "image", True, "partial", 0, 36, ops=self.extreme_ops())
        if tier != "quick":
            for n_, algo in enumerate(algos):
                add(algo, ["vector", "discrete", "dict", "image"][n_ % 4], False, ["partial", "full", "none"][n_ % 3], 0, 37, ops=self.extreme_ops())
        if tier != "quick":
            for n_, algo in enumerate(algos):
                fam = ["vector", "image", "discrete", "dict"][n_ % 4]
                add(algo, fam, algo in evo.SHARE_CAPABLE and n_ % 2 == 0, "prelu", 0, 33,
                    ops=self.oneside_ops() if n_ % 2 == 0 else P("act", "arch", True, False, n_ % 2, True))
            add("DQN", "image", False, "full", 0, 25, ops=self.bound_ops())
            add("PPO", "vector", True, "full", 0, 26, ops=self.bound_ops())
            add("MADDPG", "vector", False, "full", 0, 27, ops=self.bound_ops())
            add("NeuralTS", "vector", False, "none", 0, 19, wrapper={"epsilon": 0.01}, ops=self.wrapper_act_ops())
            add("PPO", "dict", True, "partial", 0, 20, wrapper={"epsilon": 0.001}, ops=self.wrapper_act_ops())
            add("TD3", "dict", False, "partial", 0, 21, wrapper={"epsilon": 0.001}, ops=P("arch", "hp", True, False, 0, True))
            add("DQN", "image", False, "partial", 0, 22, wrapper=True, ops=P("act", "param", False, True, 1, False))
            add("DDPG", "discrete", False, "full", 0, 23, wrapper=True, ops=self.fresh_optimizer_ops())
            add("MATD3", "vector", False, "partial", 0, 11, ops=P("arch", "act", True, True, 0, True), hetero=True, ids="rev")
            add("MADDPG", "vector", False, "none", 0, 12, ops=P("param", "arch", False, False, 0, False), ids="rev")
            add("IPPO", "vector", False, "full", 0, 13, ops=P("arch", "none", False, True, 1, True), hetero=True)
            for algo in ("DDPG", "PPO", "CQN"):      # (evo.RESNET_ALGOS; RainbowQNetwork takes no encoder_cls)
                add(algo, "image", algo == "PPO", "resnet", 0, 14, ops=P("arch", "param", True, False, 0, False))
            for algo, fams in evo.CUSTOM_ALGOS.items():
                for fam in fams:
                    # (architecture mutations of the MakeEvolvable CNN can raise on the tiny 6x6 input, which is C03's subject)
                    add(algo, fam, False, "custom", 0, 15, ops=P("act", "arch" if fam == "vector" else "param", False, True, 1, False))
                    add(algo, fam, False, "custom", 0, 16, ops=self.fresh_optimizer_ops())
        if only == "boundary":
            return cases
        if tier == "quick":
            for algo in rng.sample(algos, 3):       # the deterministic histories above cover every algorithm; 3 of them also get a seeded one
                add(algo, "vector", False, rng.choice(["partial", "full", "none"]), 5, rng.randrange(100))
            for algo, fam in ((rng.choice(["DQN", "RainbowDQN"]), "image"), (rng.choice(["PPO", "IPPO"]), "dict")):
                add(algo, fam, False, "partial", 4, rng.randrange(100))
            add("DDPG", "vector", False, "partial", 4, rng.randrange(100), wrapper=True)
        else:
            for algo in ("DQN", "RainbowDQN", "CQN", "DDPG", "TD3"):
                for rep in range(2):
                    add(algo, "vector", False, rng.choice(["partial", "none"]), rng.choice([5, 8]), rng.randrange(1000), wrapper=True)
            for algo in algos:
                for fam in evo.FAMILIES:
                    for share in ([False, True] if algo in evo.SHARE_CAPABLE else [False]):
                        for rep in range(1):      # (the deterministic matrix above adds 132 histories over the same product)
                            add(algo, fam, share, rng.choice(["partial", "full", "none"]), rng.choice([5, 8, 10]),
                                rng.randrange(1000), nag=rng.choice([2, 3]))
        return cases

    # ------------------------------------------------------------------ implementation
    def run_impl(self, case):
        import torch
        torch.set_num_threads(1)
        FILES.mkdir(parents=True, exist_ok=True)
        spec = {k: case[k] for k in ("algo", "family", "share", "netcfg", "seed")}
        if case.get("ids"):
            spec["ids"] = case["ids"]          # multi-agent: caller-chosen (unsorted) agent id order
        shared_cfg = (None if case["netcfg"] == "custom" else prelu_config(case["family"]) if case["netcfg"] == "prelu"
                      else evo.net_config_for(case["netcfg"], case["family"]))
        hp = evo.hp_config_for(case["algo"])
        orig_space = evo.obs_space
        if case.get("hetero"):
            # multi-agent algorithms with DIFFERENT observation spaces per agent: the per-agent networks (and their init dicts,
            # state dicts, optimizer parameter lists) are not interchangeable
            from gymnasium import spaces as _sp
            import numpy as _np
            dims = iter([3, 5] * 64)
            evo.obs_space = lambda family: _sp.Box(-1.0, 1.0, (next(dims),), _np.float32)
        try:
            pop = [evo.build_agent(dict(spec, index=i, _hp_obj=hp), shared_cfg=shared_cfg) for i in range(case["pop"])]
        finally:
            evo.obs_space = orig_space
        if case.get("wrapper"):
            from agilerl.wrappers.agent import RSNorm
            wkw = case["wrapper"] if isinstance(case["wrapper"], dict) else {}
            pop = [RSNorm(a, **wkw) for a in pop]
        cls = evo.algo_class(case["algo"])
        reg = evo.registry_plus(pop[0])
        a0 = evo.unwrap(pop[0])
        names = {"nets": list(a0.evolvable_attributes(networks_only=True)),
                 "opts": [n for n in a0.evolvable_attributes() if n not in a0.evolvable_attributes(networks_only=True)]}
        states = [self._snap(pop)]
        recs, files = [], []
        tag = "{}_{}".format(os.getpid(), abs(hash(json.dumps(case, sort_keys=True, default=str))) % 10 ** 8)
        try:
            for op in case["ops"]:
                rec = {"op": op[0]}
                k = op[0]
                try:
                    if k == "learn":
                        if len(op) > 3:
                            rec["pair"] = [op[3], op[1]]
                        rec["loss"] = evo.learn(pop[op[1]], spec, op[2])
                    elif k == "score":
                        evo.apply_score(pop[op[1]], op[2])
                    elif k == "act":
                        if len(op) > 3:
                            rec["pair"] = [op[3], op[1]]
                        rec["action"] = evo.greedy(pop[op[1]], spec, op[2])
                    elif k == "clone":
                        p = pop[op[1]]
                        pop.append(p.clone() if op[2] is None else p.clone(index=op[2]))
                    elif k == "mutate":
                        if len(op) > 4:      # hyper-parameter mutation with the sampled hyper-parameter scripted
                            pop[op[1]] = mutate_named_hp(pop[op[1]], op[3], op[4])
                        else:
                            pop[op[1]] = evo.apply_mutation(pop[op[1]], op[2], op[3])
                        rec["label"] = evo.unwrap(pop[op[1]]).mut
                    elif k == "save":
                        path = str(FILES / f"ck_{tag}_{len(files)}.pt")
                        pop[op[1]].save_checkpoint(path)
                        files.append(path)
                    elif k == "load":
                        h0 = _file_hash(files[op[1]])
                        pop.append(cls.load(files[op[1]]))
                        rec["wrapped"] = evo.unwrap(pop[-1]) is not pop[-1]
                        rec["file_changed"] = _file_hash(files[op[1]]) != h0
                    elif k == "load_into":
                        h0 = _file_hash(files[op[1]])
                        pop[op[2]].load_checkpoint(files[op[1]])
                        rec["file_changed"] = _file_hash(files[op[1]]) != h0
                    elif k == "load_missing":
                        # a failing call caught by the caller, the same object used afterwards: the path does not exist
                        try:
                            pop[op[1]].load_checkpoint(str(FILES / f"ck_{tag}_missing.pt"))
                            rec["raised"] = None
                        except Exception as e_:
                            rec["raised"] = type(e_).__name__
                    elif k == "poke":
                        poke_extremes(pop[op[1]], op[2])
                    else:
                        raise ValueError(k)
                except Exception as e:       # the operation raised: the history stops here, the oracle reports it
                    import traceback
                    rec["error"] = f"{type(e).__name__}: {e}"
                    rec["trace"] = traceback.format_exc()[-800:]
                    recs.append(rec)
                    break
                recs.append(rec)
                states.append(self._snap(pop))
        finally:
            for f in files:
                try:
                    os.unlink(f)
                except OSError:
                    pass
        del pop
        gc.collect()
        return {"reg": reg, "names": names, "states": states, "recs": recs}

    @staticmethod
    def _snap(pop):
        out = []
        for member, ag in zip(pop, evo.snapshot(pop)):
            st = ag["struct"]
            for name, groups in opt_groups(member).items():
                st["opts"][name]["groups"] = json.loads(json.dumps(groups, default=str))
            st["wrapper"] = wrapper_struct(member)
            st["ptrs"] = all_tensor_ptrs(member)
            st["modrepr"] = module_reprs(member)
            st["hp_types"] = hp_types(member)
            extra = deep_wrapper_slots(member, {tuple(s_[2]) for s_ in ag["slots"]})
            # tensors inside the user's net_config dictionary (e.g. the sample_input that multi-agent image networks write into it) are
            # read-only constants of a configuration object that a population shares by construction: not agent state
            ag = dict(ag, slots=[s_ for s_ in ag["slots"] if not s_[0].startswith("attr.net_config.")] + extra)
            for d in st["nets"].values():
                # C01 known finding (faithful@dict:{MADDPG,MATD3,IPPO}:arch, frame@dict:*:struct): multi-agent networks built
                # without an explicit cnn_config share the module-level DefaultCnnConfig object, whose block_type is flipped
                # in place to Conv3d by the first rebuild in the process (of ANY agent).  It is unused for Dict spaces without
                # image sub-spaces (the only ones generated here) and unrelated to checkpoints, so it is normalised away.
                d["arch"] = _BLOCK_TYPE.sub("block_type='ConvNd'", d["arch"])
            out.append({"slots": [[s[0], s[1], list(s[2]), s[3]] for s in ag["slots"]], "struct": st})
        return out

    # ------------------------------------------------------------------ model term
    def coq_term(self, case, obs):
        tab = evo.Tables()
        reg = obs["reg"]
        for st in obs["states"]:
            for ag in st:
                for s in ag["slots"]:
                    tab.val(s[3])
        nvals = len(tab.vals)
        try:
            regterm = evo.coq_registry(reg, tab, case["algo"])
        except ValueError:
            return "false"
        w0 = evo.coq_world(obs["states"][0], reg, tab, regterm, nvals)
        ops = []
        nst = len(obs["states"]) - 1            # operations that completed
        for op, rec, before, after in zip(case["ops"][:nst], obs["recs"][:nst], obs["states"], obs["states"][1:]):
            k = op[0]
            if k == "learn":
                st = after[op[1]]["struct"]["opts"]
                ops.append("CEvo (Learn {}%nat [{}])".format(op[1], "; ".join(f"({tab.name(o)}, {d['nstate']}%nat)" for o, d in st.items())))
            elif k == "score":
                ops.append(f"CEvo (Score {op[1]}%nat)")
            elif k == "act":
                ops.append(f"CEvo (Act {op[1]}%nat)")
            elif k == "clone":
                ops.append(f"CEvo (Clone {op[1]}%nat {'None' if op[2] is None else '(Some %d)' % op[2]})")
            elif k == "mutate":
                i, kind = op[1], op[2]
                label = rec["label"]
                a = after[i]["struct"]
                evals = [g["eval"] for g in reg["groups"]]
                shapes = "; ".join("mkShape {} {} {}%nat {}%nat {}%nat {}%nat {}%nat {}%nat".format(
                    tab.name(n), tab.arch(a["nets"][n]["arch"]), a["nets"][n]["enc"], a["nets"][n]["head"],
                    a["nets"][n]["henc"], a["nets"][n]["const"], a["nets"][n]["cfg"], a["nets"][n]["buf"]) for n in evals)
                if kind == "act":
                    mk = "MAct"
                elif kind == "arch":
                    mk = "MNone" if label == "None" else "MArch"
                elif kind == "none" or label in (None, "None"):
                    mk = "MNone"
                elif kind == "param":
                    mk = "MParam"
                else:
                    mk = f"(MHp {tab.name(label)} {evo._q(a['hps'][label])})"
                ops.append(f"CEvo (Mutate {i}%nat {mk} [{shapes}] {tab.label(label)})")
            elif k == "load_missing":
                ops.append("CEvo (Discard 9999%nat)")       # a failed load changes nothing: a no-op of the model
            elif k == "poke":
                st = after[op[1]]["struct"]["opts"]           # in-place write of the policy's cells: a subset of a learn step's footprint
                ops.append("CEvo (Learn {}%nat [{}])".format(op[1], "; ".join(f"({tab.name(o)}, {d['nstate']}%nat)" for o, d in st.items())))
            elif k == "save":
                ops.append(f"CSave {op[1]}%nat")
            elif k == "load":
                ops.append(f"CLoad {op[1]}%nat")
            elif k == "load_into":
                ops.append(f"CLoadInto {op[1]}%nat {op[2]}%nat")
        # the state after an operation inside a run of consecutive learn / act operations is not emitted (the model still steps;
        # the state at the end of the run is compared, and the value refinement is threaded through the whole history)
        executed = case["ops"][:nst]

        def emitted(t):          # t = index of the state (0 = initial)
            if t == 0 or t == nst:
                return True
            return not (executed[t - 1][0] in ("learn", "act") and executed[t][0] in ("learn", "act"))
        obl = ["(Some " + evo.coq_obs(st, reg, tab) + ")" if emitted(t) else "None" for t, st in enumerate(obs["states"])]
        lrt = ["[" + "; ".join("[" + "; ".join("[" + "; ".join(evo._q(x) for x in d["lrs"]) + "]" for d in ag["struct"]["opts"].values()) + "]"
                               for ag in st) + "]" for st in obs["states"]]
        nets = "[" + "; ".join(_coq_str(n) for n in obs["names"]["nets"]) + "]"
        opts = "[" + "; ".join(_coq_str(n) for n in obs["names"]["opts"]) + "]"
        return f"ccheck_run {w0} [{'; '.join(ops)}] [{'; '.join(obl)}] [{'; '.join(lrt)}] {nets} {opts}"

    # ------------------------------------------------------------------ oracle: the property on the implementation
    def oracle(self, case, obs):
        out = []
        algo = case["algo"]
        reg = obs["reg"]
        states, recs = obs["states"], obs["recs"]
        fam = "" if case.get("family", "vector") == "vector" else "@" + case["family"]
        who = f"{algo}{'+share' if case.get('share') else ''}{'+wrapper' if case.get('wrapper') else ''}"

        def sig(clause, path, cls):
            return f"{clause}{fam}:{who}:{path}:{cls}"

        def shared_ptrs(st, what, path):
            seen = {}
            for ai, ag in enumerate(st):
                for s in ag["slots"]:
                    p = tuple(s[2])
                    if p in seen and seen[p][0] != ai:
                        out.append(Violation("fresh", sig("shared", path, s[1]),
                                             f"{what}: slot {s[0]} of agent #{ai} is the same object as slot {seen[p][1]} of agent #{seen[p][0]}"))
                        return
                    seen.setdefault(p, (ai, s[0]))

        def shared_census(st, what, path):
            """no parameter / buffer / optimizer-state tensor of one agent has the storage of a tensor of another agent"""
            seen = {}
            for ai, ag in enumerate(st):
                for name, ptr in (ag["struct"].get("ptrs") or {}).items():
                    if ptr in seen and seen[ptr][0] != ai:
                        cls = "ost" if ".state[" in name else "buf" if name.endswith("#buffer") else "param"
                        out.append(Violation("fresh", sig("shared-storage", path, cls),
                                             f"{what}: tensor {name} of agent #{ai} has the storage of {seen[ptr][1]} of agent #{seen[ptr][0]}"))
                        return
                    seen.setdefault(ptr, (ai, name))

        def unchanged(b, a, j, what, path):
            nb = [(s[0], s[3]) for s in b["slots"]]
            na = [(s[0], s[3]) for s in a["slots"]]
            if nb != na or self._stable(b["struct"]) != self._stable(a["struct"]):
                diff = [x[0] for x, y in zip(nb, na) if x != y][:5]
                cls = next((s[1] for s, y in zip(b["slots"], na) if (s[0], s[3]) != y), "struct")
                out.append(Violation("frame", sig("frame", path, cls),
                                     f"{what} changed agent #{j} (index {b['struct']['index']}): slots {diff or 'structure'}"))
                return False
            return True

        saved = []          # per file: snapshot of the saved agent at save time
        shared_ptrs(states[0], "initial population", "init")
        for t, (op, rec) in enumerate(zip(case["ops"], recs)):
            k = op[0]
            what = f"op {t} {op[:3]}"
            path = k if k in ("save", "load", "load_into") else "loop"
            if rec.get("error"):
                cause = rec["error"].split(":")[0]
                if k in ("save", "load", "load_into"):
                    out.append(Violation("restore", sig("raises", path, cause), f"{what} raised {rec['error']}\n{rec.get('trace', '')}"))
                else:
                    # an operation of the training loop fails: only a finding of this property if the agent came out of a file
                    i = op[1]
                    path2 = self._origin(case, t, i)
                    if path2 is None:
                        break        # an agent that never came out of a file fails in the training loop: not this property's subject
                    out.append(Violation("resume", sig("resume-raises", path2 or "loop", k + "/" + cause),
                                         f"{what} raised {rec['error']} (agent #{i} {'was restored by ' + path2 if path2 else 'was never restored'})\n{rec.get('trace', '')}"))
                break
            before, after = states[t], states[t + 1]
            if k == "save":
                saved.append(before[op[1]])
                for j in range(len(before)):
                    if not unchanged(before[j], after[j], j, what, path):
                        break
            elif k == "load":
                for j in range(len(before)):
                    if not unchanged(before[j], after[j], j, what, path):
                        break
                self._equivalent(out, sig, path, saved[op[1]], after[-1], what)
                if case.get("wrapper") and not rec.get("wrapped"):
                    out.append(Violation("restore", sig("restore", path, "wrapper"), f"{what}: the checkpoint of a wrapped agent was loaded without its wrapper"))
            elif k == "load_into":
                for j in range(len(before)):
                    if j != op[2] and not unchanged(before[j], after[j], j, what, path):
                        break
                self._equivalent(out, sig, path, saved[op[1]], after[op[2]], what)
            elif k in ("learn", "score", "mutate", "act"):
                # an agent that came out of a file and the agent it was saved from are independent: training / mutating one
                # of them (or anybody else) changes nobody else
                for j in range(len(before)):
                    if j != op[1] and not unchanged(before[j], after[j], j, what, self._origin(case, t, op[1]) or "loop"):
                        break
            elif k == "load_missing":
                if rec.get("raised") is None:
                    out.append(Violation("restore", sig("missing-file", "load_into", "no-error"), f"{what}: load_checkpoint of a path that does not exist did not raise"))
                for j in range(len(before)):      # ... and the failed call leaves everybody (the caller included) as they were
                    if not unchanged(before[j], after[j], j, what + " (failed load)", "load_into"):
                        break
            elif k == "poke":
                for j in range(len(before)):
                    if j != op[1] and not unchanged(before[j], after[j], j, what, "loop"):
                        break
            if k in ("load", "load_into"):
                if rec.get("file_changed"):
                    out.append(Violation("restore", sig("file-modified", path, "file"), f"{what}: the checkpoint file was modified by reading it"))
                shared_ptrs(after, what, path)
                shared_census(after, what, path)
            if len(out) > 8:
                break
            if k == "act" and rec.get("pair"):
                p, c = rec["pair"]
                path2 = self._origin(case, t, c) or "loop"
                if self._policy_equal(states[t - 1][p], states[t - 1][c], reg) and _neq(recs[t - 1].get("action"), rec.get("action")):
                    out.append(Violation("behaviour", sig("greedy", path2, "action"),
                                         f"{what}: agent #{p} and the agent #{c} restored from its checkpoint (equal policy weights) choose different "
                                         f"greedy actions {recs[t - 1].get('action')} vs {rec.get('action')}"))
            if k == "learn" and rec.get("pair"):
                p, c = rec["pair"]
                path2 = self._origin(case, t, c) or "loop"
                pre_p, pre_c = states[t - 1][p], states[t - 1][c]
                if [s[3] for s in pre_p["slots"]] == [s[3] for s in pre_c["slots"]]:
                    ap, ac = after[p], after[c]
                    diff = [(x[0], x[1]) for x, y in zip(ap["slots"], ac["slots"]) if x[3] != y[3]]
                    lp, lc = recs[t - 1].get("loss"), rec.get("loss")
                    if diff or _neq(lp, lc):
                        out.append(Violation("behaviour", sig("update", path2, diff[0][1] if diff else "loss"),
                                             f"{what}: agent #{p} and the value-identical agent #{c} restored from its checkpoint computed different "
                                             f"updates from the same batch: losses {lp} vs {lc}; differing slots {[d[0] for d in diff[:6]]}"))
        return out

    @staticmethod
    def _origin(case, t, i):
        """how agent #i (at operation t) was last restored: 'load' / 'load_into' / None (never)"""
        n, origin = case["pop"], {}
        for o in case["ops"][:t]:
            if o[0] == "clone":
                origin[n] = None
                n += 1
            elif o[0] == "load":
                origin[n] = "load"
                n += 1
            elif o[0] == "load_into":
                origin[o[2]] = "load_into"
        return origin.get(i)

    @staticmethod
    def _stable(st):
        d = {k: v for k, v in st.items() if k not in ("nets", "opts", "scalars", "ptrs")}
        d["nets"] = {n: {k: v for k, v in x.items() if k != "param_ids"} for n, x in st["nets"].items()}
        d["opts"] = {n: {k: v for k, v in x.items() if k not in ("ref_ptrs", "wrapper_lr")} for n, x in st["opts"].items()}
        return json.dumps(d, sort_keys=True, default=str)

    @staticmethod
    def _policy_equal(p, c, reg):
        pol = reg.get("policy")
        a = [(s[0], s[3]) for s in p["slots"] if s[0].split(".")[0].split("[")[0] == pol or s[1] == "ext"]
        b = [(s[0], s[3]) for s in c["slots"] if s[0].split(".")[0].split("[")[0] == pol or s[1] == "ext"]
        return a == b

    def _equivalent(self, out, sig, path, p, c, what):
        """c restored from the checkpoint of p (snapshot at save time): same hp, mutated architectures, weights of every
        network incl. targets, optimizer state, bookkeeping"""
        if len(out) > 6:
            return
        ps, cs = p["struct"], c["struct"]
        a, b = [s[0] for s in p["slots"]], [s[0] for s in c["slots"]]
        if a != b:
            d = [x for x in a if x not in b][:3] + [x for x in b if x not in a][:3]
            cls = next((s[1] for s in p["slots"] if s[0] not in b), None) or next((s[1] for s in c["slots"] if s[0] not in a), "order")
            out.append(Violation("restore", sig("restore-slots", path, cls), f"{what}: the restored agent has different slots than the saved one: {d}"))
            return
        seen = set()
        for s, t in zip(p["slots"], c["slots"]):
            if s[3] != t[3] and s[1] not in seen:
                seen.add(s[1])
                out.append(Violation("restore", sig("restore", path, s[1]),
                                     f"{what}: slot {s[0]} of the restored agent differs in value from the saved agent (index {ps['index']})"))
        for n in ps["nets"]:
            if ps["nets"][n]["arch"] != cs["nets"][n]["arch"]:
                out.append(Violation("restore", sig("restore", path, "arch"), f"{what}: architecture of {n} differs: {ps['nets'][n]['arch']} vs {cs['nets'][n]['arch']}"))
                break
        # agilerl_version is a key of the checkpoint dictionary that load_checkpoint leaves behind as an attribute: not agent state
        d = {k: (v, cs["scalars"].get(k, "<missing>")) for k, v in ps["scalars"].items()
             if k not in JUNK_ATTRS and cs["scalars"].get(k, "<missing>") != v}
        if d:
            out.append(Violation("restore", sig("restore", path, "scalar"), f"{what}: scalar attributes differ (saved, restored): {d}"))
        if ps["hps"] != cs["hps"]:
            out.append(Violation("restore", sig("restore", path, "hp"), f"{what}: hyper-parameters differ {ps['hps']} vs {cs['hps']}"))
        for o in ps["opts"]:
            x, y = ps["opts"][o], cs["opts"][o]
            if x["lrs"] != y["lrs"] or x["nstate"] != y["nstate"] or x.get("groups") != y.get("groups"):
                gd = [(i, k, g.get(k), h.get(k)) for i, (g, h) in enumerate(zip(x.get("groups", []), y.get("groups", []))) for k in g if g.get(k) != h.get(k)]
                out.append(Violation("restore", sig("restore", path, "opt"),
                                     f"{what}: optimizer {o} of the restored agent does not have the saved optimizer's settings: param_group lr {x['lrs']} (saved) vs "
                                     f"{y['lrs']} (restored); state tensors {x['nstate']} vs {y['nstate']}; differing param_group entries (group, key, saved, restored) {gd[:6]}"))
            if not y["refs_ok"]:
                out.append(Violation("restore", sig("restore", path, "optrefs"), f"{what}: optimizer {o} of the restored agent does not hold the restored parameters"))
        if ps.get("modrepr") != cs.get("modrepr"):
            d = [n for n in ps.get("modrepr", {}) if ps["modrepr"].get(n) != (cs.get("modrepr") or {}).get(n)]
            out.append(Violation("restore", sig("restore", path, "module-structure"),
                                 f"{what}: the module tree (layer / activation classes as printed by torch) of {d} differs between the saved and the restored agent"))
        if ps.get("hp_types") != cs.get("hp_types"):
            d = {n: (v, (cs.get("hp_types") or {}).get(n)) for n, v in ps.get("hp_types", {}).items() if (cs.get("hp_types") or {}).get(n) != v}
            out.append(Violation("restore", sig("restore", path, "hp-type"), f"{what}: numeric type of hyper-parameter attributes differs (saved, restored): {d}"))
        if ps.get("wrapper") != cs.get("wrapper"):
            out.append(Violation("restore", sig("restore", path, "wrapper"), f"{what}: wrapper configuration differs (saved, restored): {ps.get('wrapper')} vs {cs.get('wrapper')}"))
        if ps["books"] != cs["books"] or ps["mut"] != cs["mut"]:
            out.append(Violation("restore", sig("restore", path, "book"), f"{what}: bookkeeping differs {ps['books']}/{ps['mut']} vs {cs['books']}/{cs['mut']}"))
        if cs["index"] != ps["index"]:
            out.append(Violation("restore", sig("restore", path, "index"), f"{what}: index {cs['index']} expected {ps['index']}"))

    # ------------------------------------------------------------------ evidence helpers
    def extra_static(self):
        """fail closed if the slot extraction does not cover what the checkpoint code iterates over, or if a hook has no model"""
        out = []
        self.notes = []
        for algo in evo.ALGOS:
            a = evo.build_agent({"algo": algo, "family": "vector", "share": False, "netcfg": "partial", "seed": 0, "index": 0})
            nets = set(a.evolvable_attributes(networks_only=True))
            alle = set(a.evolvable_attributes())
            reg_nets = set(evo.net_names(a))
            reg_opts = {o.name for o in a.registry.optimizers}
            self.notes.append(f"checkpoint names {algo}: networks={sorted(nets)} optimizers={sorted(alle - nets)} hooks={list(a.registry.hooks)}")
            if nets != reg_nets or (alle - nets) != reg_opts:
                out.append(Violation("coverage", f"coverage:{algo}", f"{algo}: evolvable attributes {sorted(alle)} are not exactly the "
                                     f"registry's networks {sorted(reg_nets)} + optimizers {sorted(reg_opts)}; slots would be missed",
                                     None, None, found_input=False))
            for h in a.registry.hooks:
                if h not in ("init_hook", "share_encoder_parameters", "init_params"):
                    out.append(Violation("coverage", f"coverage:hook:{algo}", f"{algo}: mutation hook {h!r} has no model", None, None, found_input=False))
        return out

    def key(self, case):
        return json.dumps([case["algo"], case["family"], case["share"], case["netcfg"], bool(case.get("wrapper")), bool(case.get("hetero")), case.get("ids"),
                           [o[0] if o[0] != "mutate" else ":".join([o[0], o[2]] + [str(x) for x in o[4:]]) for o in case["ops"]]])

    def nontrivial(self, case, obs):
        ops = case["ops"][:len(obs["states"]) - 1]
        nfile = 0
        good_files = set()
        learned = changed = False
        restored = set()
        n = case["pop"]
        for o in ops:
            if o[0] == "learn":
                learned = True
                if o[1] in restored:
                    return True
            elif o[0] in ("mutate", "clone"):
                changed = True
                if o[0] == "clone":
                    n += 1
            elif o[0] == "save":
                if learned and changed:
                    good_files.add(nfile)
                nfile += 1
            elif o[0] == "load":
                if o[1] in good_files:
                    restored.add(n)
                n += 1
            elif o[0] == "load_into":
                if o[1] in good_files:
                    restored.add(o[2])
        return False

    def classify(self, case, obs):
        labs = [f"algo={case['algo']}", f"family={case['family']}", f"wrapper={bool(case.get('wrapper'))}", f"share={case['share']}",
                f"netcfg={case['netcfg']}", f"hetero={bool(case.get('hetero'))}", f"ids={case.get('ids')}", f"len={min(len(case['ops']) // 8 * 8, 32)}+"]
        for o in case["ops"]:
            labs.append("op=" + (o[0] if o[0] != "mutate" else ":".join(["mutate", o[2]] + [str(x) for x in o[4:]])))
        for r in obs["recs"]:
            if r["op"] == "mutate":
                labs.append("label=" + str(r.get("label")))
            if r.get("pair"):
                labs.append("pair-resumed")
            if r.get("error"):
                labs.append("op-raised")
        return labs

    def neighbours(self, case, rng):
        """prefixes of the history that end right after a restore (at most 2, longest first)"""
        cuts = [t + 1 for t, o in enumerate(case["ops"]) if o[0] in ("load", "load_into") and t + 1 < len(case["ops"])]
        for cut in sorted(cuts, reverse=True)[:2]:
            c = dict(case)
            c["ops"] = case["ops"][:cut]
            yield c


if __name__ == "__main__":
    sys.exit(vlib.run_check(C07()))
