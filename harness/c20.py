"""C20 — training loops compose end to end and keep step and population accounting right."""
from __future__ import annotations

import json
import os
import random
import sys
from fractions import Fraction

import vlib
from vlib import Violation, coq_Q

import c20_run as R

LOOPNAME = {"off": "Off", "on": "On", "offline": "Offline", "bandit": "Bandit", "maoff": "MAOff", "maon": "MAOn"}


def plain(case):
    return case["num_envs"] == 0


def ne_of(case):
    return max(1, case["num_envs"])


# ------------------------------------------------------------------ observation -> per-generation facts
def derive(case, obs):
    """bookkeeping over the parsed event log: per generation the rollouts, the snapshots taken at the end of every
    test(), the selection outcome and the lineage sums of environment steps / learn calls."""
    n = obs["pop_in"]
    # what the individuals bring along: the counter they are handed over with counts as taken by their lineage
    taken = list(obs.get("taken0") or [st["steps"][-1] for st in obs.get("start", [])] or [0] * n)
    learned = list(obs.get("learned0") or taken)
    out = []
    for g in obs["gens"]:
        rolls = [(r["env_steps"], r["learns"]) for r in g["rollouts"]]
        d = {"rolls": rolls, "tests": g["tests"], "select": g["select"], "mutation": g["mutation"],
             "saves": g["saves"], "pre": g["pre"], "eval_steps": g["eval_steps"], "eval_resets": g.get("eval_resets", 0),
             "saved_agents": g.get("saved_agents", {})}
        if len(rolls) == len(taken):
            taken = [t + r[0] for t, r in zip(taken, rolls)]
            learned = [t + r[1] for t, r in zip(learned, rolls)]
        d["taken_tested"] = list(taken)
        d["learned_tested"] = list(learned)
        if g["select"] is not None:
            par = g["select"]["parents"]
            if all(0 <= p < len(taken) for p in par):
                taken = [taken[p] for p in par]
                learned = [learned[p] for p in par]
        d["taken_after"] = list(taken)
        d["learned_after"] = list(learned)
        out.append(d)
    return out, taken, learned


def segments(case, obs):
    """(case, observation) per call of the training function; the lineage sums are threaded from call to call"""
    segs = obs.get("segments") or []
    if not segs:
        yield case, obs
        return
    taken0 = learned0 = None
    for seg in segs:
        c = dict(case); c["max_steps"] = seg["max_steps"]
        o = dict(seg)
        if taken0 is not None and len(taken0) == len(seg.get("start", [])) and not seg.get("fresh_pop"):
            o["taken0"], o["learned0"] = taken0, learned0
        yield c, o
        if not (o.get("completed") and not o.get("error")):
            return
        _, taken0, learned0 = derive(c, o)


def ck_steps(names):
    """checkpoint file names -> step numbers by population position ([] when the names carry no step number)"""
    xs = {}
    for nm in names:
        if not nm.startswith("ck_"):
            continue
        parts = nm[:-3].split("_")
        if len(parts) == 3:
            xs[int(parts[1])] = int(parts[2])
        elif len(parts) == 2:
            xs[int(parts[1])] = None
    if not xs:
        return None
    if any(v is None for v in xs.values()):
        return []
    return [xs[i] for i in sorted(xs)]


class C20(vlib.Driver):
    pid = "C20"
    preamble = "From Coq Require Import QArith.\nFrom AgileV Require Import C20.Model C20.Check.\nOpen Scope nat_scope."
    rule = ("one case = one real train_* call on scripted counting environments: (loop, algorithm, plain/vectorised env with "
            "num_envs, learn_step, batch_size, evo_steps, max_steps, memory kind, tournament/mutation kind, checkpointing, "
            "early stop). Distinct = distinct configuration (seed excluded). Non-trivial = the run completed and crossed at "
            "least 2 generations.")
    trusted_base = ["hand-written model coq/theories/C20/Model.v",
                    "correspondence harness harness/c20.py, c20_run.py (event log from wrappers around get_action/learn/test/"
                    "clone/save_checkpoint and TournamentSelection.select / Mutations.mutation), c20_envs.py (scripted environments)"]
    assumptions = ["among several individuals with the same maximal mean fitness any may be kept as elite (np.argsort's tie order is "
                   "platform dependent: the AVX-512 argsort is not stable); the model takes the choice as input and checks maximality",
                   "the fitness means compared for the elite are exact in float64 (rewards are multiples of 1/4, short episodes)",
                   "wandb / accelerate / LLM paths are outside the model; learning itself (gradient steps) is opaque"]
    shard = 12

    # ---------- generation
    def generate(self, tier, rng):
        cases = []

        def add(**kw):
            c = dict(num_envs=2, learn_step=2, batch_size=4, evo_steps=8, max_steps=20, pop=2, ep_len=4, seed=len(cases))
            c.update(kw)
            cases.append(c)

        # --- train_off_policy: num_envs x learn_step grid (both branches of the learn schedule and the == boundary),
        #     budgets that are an exact multiple of the generation size (guard < vs <=) and not
        grid = [(1, 1), (1, 3), (1, 8), (2, 1), (2, 3), (2, 8), (4, 1), (4, 3), (4, 8), (2, 2), (4, 4)]
        for k, (ne, ls) in enumerate(grid):
            evo = [8, 12, 9][k % 3]
            S = (evo // ne) * ne
            mx = [2 * S, 2 * S + 1, 3 * S - 1, 3 * S][k % 4]
            add(loop="off", algo="DQN", num_envs=ne, learn_step=ls, evo_steps=evo, max_steps=mx,
                batch_size=[4, 2, 6][k % 3], learning_delay=[0, 5, 0, 9][k % 4], mem_cap=[64, 8][k % 2])
        for m in ("uniform", "nstep", "per", "per+nstep"):
            add(loop="off", algo="Rainbow DQN", memory=m, num_envs=2, learn_step=[2, 3, 1, 5][len(cases) % 4],
                evo_steps=10, max_steps=20, n_step=3)
        add(loop="off", algo="DDPG", num_envs=2, learn_step=1, evo_steps=8, max_steps=17)
        add(loop="off", algo="TD3", num_envs=1, learn_step=3, evo_steps=6, max_steps=12)
        add(loop="off", algo="DDPG", num_envs=4, learn_step=8, evo_steps=12, max_steps=24, share_encoders=False)
        add(loop="off", algo="DQN", evo=True, mut="hp", checkpoint=8, max_steps=24, elitism=True)
        add(loop="off", algo="DQN", evo=True, mut="none", checkpoint=10, overwrite=True, max_steps=25, elitism=False, pop=3)
        add(loop="off", algo="TD3", evo=True, mut="param", elitism=True, pop=3, max_steps=16, save_elite=True)
        add(loop="off", algo="DQN", evo=True, mut="arch", elitism=True, mutate_elite=True, pop=3, max_steps=24, eval_loop=2, eval_steps=3)
        add(loop="off", algo="DQN", num_envs=0, learn_step=2, evo_steps=6, max_steps=12)
        add(loop="off", algo="DDPG", num_envs=0, learn_step=1, evo_steps=5, max_steps=11, evo=True, mut="hp", checkpoint=5)
        add(loop="off", algo="Rainbow DQN", num_envs=0, learn_step=3, evo_steps=7, max_steps=14, memory="per+nstep", n_step=2)
        # --- train_on_policy
        for k, (ne, ls) in enumerate([(1, 3), (2, 3), (2, 8), (4, 3), (4, 8), (1, 1), (2, 5)]):
            evo = [8, 12, 9][k % 3]
            h = -(-evo // ls) * -(-ls // ne) * ne
            add(loop="on", algo="PPO", num_envs=ne, learn_step=ls, evo_steps=evo, max_steps=[2 * h, 2 * h + 1, 3 * h - 1][k % 3])
        add(loop="on", algo="PPO", evo=True, mut="hp", learn_step=3, evo_steps=9, max_steps=40, pop=3, checkpoint=12)
        add(loop="on", algo="PPO", evo=True, mut="hp", learn_step=4, evo_steps=8, max_steps=32, pop=2, elitism=False, seed=7)
        add(loop="on", algo="PPO", act="box", learn_step=4, evo_steps=8, max_steps=16)
        add(loop="on", algo="PPO", num_envs=0, learn_step=3, evo_steps=6, max_steps=12)
        add(loop="on", algo="PPO", num_envs=0, act="box", learn_step=1, evo_steps=5, max_steps=10, evo=True, mut="none", pop=3)
        # --- train_offline
        add(loop="offline", algo="CQN", evo_steps=3, max_steps=9)
        add(loop="offline", algo="CQN", evo_steps=4, max_steps=9, evo=True, mut="hp", checkpoint=4)
        add(loop="offline", algo="CQN", num_envs=0, evo_steps=2, max_steps=6)
        # --- train_bandits
        add(loop="bandit", algo="NeuralUCB", episode_steps=5, evo_steps=5, max_steps=10)
        add(loop="bandit", algo="NeuralTS", episode_steps=4, evo_steps=6, max_steps=17, evo=True, mut="hp", learn_step=1)
        add(loop="bandit", algo="NeuralUCB", episode_steps=3, evo_steps=7, max_steps=12, evo=True, mut="none", checkpoint=5, batch_size=2)
        add(loop="bandit", algo="NeuralTS", episode_steps=6, evo_steps=6, max_steps=13, batch_size=8, learn_step=3)
        # --- train_multi_agent_off_policy
        add(loop="maoff", algo="MADDPG", num_envs=2, learn_step=2, max_steps=16)
        add(loop="maoff", algo="MATD3", num_envs=0, learn_step=2, max_steps=17)
        add(loop="maoff", algo="MADDPG", num_envs=4, learn_step=1, evo_steps=12, max_steps=30, learning_delay=10, mem_cap=16)
        add(loop="maoff", algo="MATD3", num_envs=2, learn_step=8, evo=True, mut="hp", checkpoint=8, max_steps=24)
        add(loop="maoff", algo="MADDPG", num_envs=1, learn_step=3, act="box", evo=True, mut="none", elitism=True, pop=3, max_steps=16)
        # --- train_multi_agent_on_policy (budget summed over the population)
        add(loop="maon", algo="IPPO", num_envs=2, learn_step=4, max_steps=33)
        add(loop="maon", algo="IPPO", num_envs=0, learn_step=3, evo_steps=7, max_steps=36, evo=True, mut="hp")
        add(loop="maon", algo="IPPO", num_envs=4, learn_step=8, evo_steps=8, max_steps=32, pop=2, checkpoint=8)
        add(loop="maon", algo="IPPO", num_envs=2, learn_step=3, evo_steps=8, max_steps=48, pop=3, evo=True, mut="none", grouped=True)
        add(loop="maon", algo="IPPO", num_envs=2, learn_step=2, evo_steps=8, max_steps=32)
        # --- deepening round: configurations no earlier case produced
        #     memory readiness boundaries: size == learning_delay, size == batch_size exactly at an iteration
        add(loop="off", algo="DQN", num_envs=2, learn_step=2, batch_size=2, learning_delay=4, evo_steps=10, max_steps=20, mem_cap=6)
        add(loop="off", algo="DQN", num_envs=2, learn_step=4, batch_size=6, learning_delay=6, evo_steps=12, max_steps=24, mem_cap=6)
        add(loop="maoff", algo="MATD3", num_envs=2, learn_step=4, batch_size=4, learning_delay=4, evo_steps=10, max_steps=20, mem_cap=4)
        #     image observations with swap_channels=True (vectorised and plain)
        add(loop="off", algo="DQN", image=True, num_envs=2, learn_step=2, evo_steps=6, max_steps=12)
        add(loop="on", algo="PPO", image=True, num_envs=0, learn_step=3, evo_steps=6, max_steps=12, evo=True, mut="arch", pop=2)
        add(loop="offline", algo="CQN", image=True, num_envs=2, evo_steps=2, max_steps=4)
        #     multi-agent: per-agent scores (sum_scores=False), agent ids in a caller order that is not sorted, environment
        #     dictionaries in another key order, grouped ids
        add(loop="maoff", algo="MADDPG", num_envs=2, learn_step=2, max_steps=16, sum_scores=False, evo=True, mut="none", ids="unsorted")
        add(loop="maon", algo="IPPO", num_envs=2, learn_step=4, max_steps=33, sum_scores=False, ids="unsorted", rev=True, evo=True, mut="hp")
        add(loop="maoff", algo="MATD3", num_envs=0, learn_step=1, max_steps=16, rev=True, grouped=True, ids="unsorted", checkpoint=8)
        add(loop="maon", algo="IPPO", num_envs=0, learn_step=2, evo_steps=6, max_steps=24, grouped=True, rev=True, sum_scores=False)
        #     Dict observation spaces (multi-input encoders), vectorised and plain
        add(loop="off", algo="DQN", dictobs=True, num_envs=2, learn_step=2, evo_steps=8, max_steps=16, evo=True, mut="arch", checkpoint=8)
        add(loop="on", algo="PPO", dictobs=True, num_envs=0, learn_step=3, evo_steps=6, max_steps=12)
        add(loop="off", algo="TD3", dictobs=True, num_envs=0, learn_step=1, evo_steps=5, max_steps=10)
        #     hyper-parameters that start AT their configured bounds (learn_step 8 = max / 1 = min, batch_size 8 = max = capacity, 2 = min)
        add(loop="off", algo="DQN", num_envs=2, learn_step=8, batch_size=8, mem_cap=8, evo_steps=12, max_steps=48, evo=True, mut="hp", pop=3, checkpoint=12)
        add(loop="on", algo="PPO", num_envs=2, learn_step=1, batch_size=2, evo_steps=6, max_steps=30, evo=True, mut="hp", pop=3, elitism=False)
        add(loop="bandit", algo="NeuralUCB", episode_steps=4, evo_steps=4, max_steps=16, evo=True, mut="hp", learn_step=8, batch_size=8, mem_cap=8)
        #     per-agent scores while no training episode finishes within a generation (long episodes, short generations)
        add(loop="maoff", algo="MADDPG", num_envs=2, learn_step=2, evo_steps=4, max_steps=8, ep_len=9, sum_scores=False, eval_steps=3)
        add(loop="maon", algo="IPPO", num_envs=0, learn_step=2, evo_steps=4, max_steps=16, ep_len=9, sum_scores=False, eval_steps=3)
        #     activation / architecture mutations followed directly by a checkpoint (reloaded by the harness), two evaluation episodes
        add(loop="off", algo="DDPG", evo=True, mut="act", elitism=True, pop=3, max_steps=24, checkpoint=8, eval_loop=2, eval_steps=2)
        add(loop="on", algo="PPO", evo=True, mut="arch", elitism=True, pop=3, learn_step=4, evo_steps=8, max_steps=24, checkpoint=8, save_elite=True)
        add(loop="bandit", algo="NeuralTS", episode_steps=4, evo_steps=4, max_steps=12, evo=True, mut="arch", checkpoint=4, batch_size=2)
        add(loop="maoff", algo="MADDPG", num_envs=2, learn_step=2, max_steps=24, evo=True, mut="arch", checkpoint=8, pop=3)
        #     prioritised / n-step memories with the other off-policy algorithms (the loop's parameters are not algorithm specific)
        add(loop="off", algo="DQN", memory="per", num_envs=2, learn_step=2, evo_steps=8, max_steps=16)
        add(loop="off", algo="DQN", memory="nstep", num_envs=2, learn_step=2, evo_steps=8, max_steps=16)
        add(loop="off", algo="DDPG", memory="per+nstep", num_envs=2, learn_step=2, evo_steps=8, max_steps=16)
        add(loop="off", algo="TD3", memory="per", num_envs=1, learn_step=1, evo_steps=8, max_steps=16)
        # --- round 3: the function is called again on the population it returned (budgets = max_steps of the successive
        #     calls; the last one is already met -> zero generations), for all six loops
        add(loop="off", algo="DQN", num_envs=2, learn_step=2, evo_steps=8, max_steps=16, budgets=[16, 33, 30])
        add(loop="off", algo="Rainbow DQN", memory="per+nstep", n_step=2, num_envs=2, learn_step=2, evo_steps=8, max_steps=8,
            budgets=[8, 24, 24], evo=True, mut="hp", checkpoint=8)
        add(loop="on", algo="PPO", num_envs=2, learn_step=4, evo_steps=8, max_steps=16, budgets=[16, 24, 24], evo=True, mut="none", pop=3)
        add(loop="offline", algo="CQN", evo_steps=3, max_steps=6, budgets=[6, 10, 9])
        add(loop="bandit", algo="NeuralTS", episode_steps=4, evo_steps=6, max_steps=8, budgets=[8, 13, 12], evo=True, mut="none", batch_size=2)
        add(loop="maoff", algo="MADDPG", num_envs=2, learn_step=2, evo_steps=8, max_steps=16, budgets=[16, 20, 24, 24])
        add(loop="maon", algo="IPPO", num_envs=2, learn_step=4, evo_steps=8, max_steps=32, budgets=[32, 48, 40])
        add(loop="maon", algo="IPPO", num_envs=0, learn_step=3, evo_steps=6, max_steps=12, budgets=[12, 13, 36], pop=3, evo=True, mut="hp")
        #     round 5: the numeric type of reward / done flags / observations differs from step to step (float, np.float32,
        #     np.float64, int; bool vs np.bool_ / int8 arrays; float64 observations), plain and vectorised
        add(loop="off", algo="DQN", mixed=True, num_envs=0, learn_step=1, evo_steps=8, max_steps=16)
        add(loop="off", algo="Rainbow DQN", mixed=True, memory="per+nstep", n_step=2, num_envs=2, learn_step=2, evo_steps=8, max_steps=16)
        add(loop="off", algo="TD3", mixed=True, num_envs=2, learn_step=1, evo_steps=8, max_steps=16, evo=True, mut="none")
        add(loop="on", algo="PPO", mixed=True, num_envs=0, learn_step=3, evo_steps=6, max_steps=12)
        add(loop="on", algo="PPO", mixed=True, num_envs=2, act="box", learn_step=4, evo_steps=8, max_steps=16)
        add(loop="offline", algo="CQN", mixed=True, num_envs=0, evo_steps=3, max_steps=6)
        #     round 4: ONE TournamentSelection / Mutations object reused for a SECOND population whose indices are larger and
        #     not contiguous (a population that evolved elsewhere); distinct indices after every generation
        add(loop="off", algo="DQN", pop=4, evo=True, mut="none", elitism=True, max_steps=8, tour_eval_loop=3,
            second={"indices": [9, 4, 7, 5], "budget": 19, "preset": {"steps": 3, "nfit": 2, "best": 9}})
        add(loop="on", algo="PPO", pop=4, evo=True, mut="hp", elitism=True, learn_step=4, evo_steps=8, max_steps=8, tour_eval_loop=3,
            second={"indices": [9, 4, 7, 5], "budget": 16, "preset": {"steps": 0, "nfit": 2, "best": 7}})
        add(loop="maoff", algo="MADDPG", pop=3, evo=True, mut="none", elitism=True, max_steps=8, tour_eval_loop=3,
            second={"indices": [6, 3, 8], "budget": 21, "preset": {"steps": 5, "nfit": 2, "best": 6}})
        add(loop="maon", algo="IPPO", pop=3, evo=True, mut="none", elitism=False, learn_step=4, max_steps=24,
            second={"indices": [5, 11, 2], "budget": 48})
        add(loop="bandit", algo="NeuralTS", pop=3, evo=True, mut="none", elitism=True, episode_steps=4, evo_steps=4, max_steps=4,
            tour_eval_loop=3, second={"indices": [6, 2, 9], "budget": 8, "preset": {"steps": 0, "nfit": 2, "best": 6}}, batch_size=2)
        add(loop="offline", algo="CQN", pop=3, evo=True, mut="none", elitism=True, evo_steps=3, max_steps=3, tour_eval_loop=3,
            second={"indices": [8, 2, 6], "budget": 8, "preset": {"steps": 2, "nfit": 2, "best": 6}})
        #     eval_loop in {2, 3} for every algorithm (one fitness entry per agent and generation whatever the number of episodes)
        add(loop="off", algo="DQN", eval_loop=3, eval_steps=2, max_steps=16)
        add(loop="off", algo="Rainbow DQN", eval_loop=2, max_steps=16, evo=True, mut="none")
        add(loop="off", algo="DDPG", eval_loop=3, eval_steps=3, max_steps=16, evo=True, mut="none", pop=3)
        add(loop="off", algo="TD3", eval_loop=2, eval_steps=2, num_envs=0, max_steps=16)
        add(loop="on", algo="PPO", eval_loop=3, learn_step=4, evo_steps=8, max_steps=16, evo=True, mut="hp")
        add(loop="offline", algo="CQN", eval_loop=3, eval_steps=2, evo_steps=3, max_steps=6)
        add(loop="offline", algo="CQN", eval_loop=2, evo_steps=3, max_steps=6, evo=True, mut="none")
        add(loop="bandit", algo="NeuralUCB", eval_loop=2, episode_steps=4, evo_steps=4, max_steps=8)
        add(loop="bandit", algo="NeuralTS", eval_loop=3, episode_steps=4, evo_steps=4, max_steps=8, evo=True, mut="none")
        add(loop="maoff", algo="MADDPG", eval_loop=3, eval_steps=2, max_steps=16)
        add(loop="maoff", algo="MATD3", eval_loop=2, max_steps=16, evo=True, mut="none")
        add(loop="maoff", algo="MATD3", eval_loop=3, eval_steps=3, num_envs=0, max_steps=16, evo=True, mut="hp", pop=3)
        add(loop="maon", algo="IPPO", eval_loop=2, learn_step=4, max_steps=32, evo=True, mut="none")
        add(loop="maon", algo="IPPO", eval_loop=3, eval_steps=2, num_envs=0, learn_step=3, evo_steps=6, max_steps=24)
        #     populations handed over in a permuted index order and with history (counters at 5, two earlier generations, the
        #     individual with the LARGEST index clearly best: it is the elite while another index stands last)
        add(loop="off", algo="DQN", pop=4, perm=[1, 3, 0, 2], preset={"steps": 5, "nfit": 2, "best": 3}, tour_eval_loop=3,
            evo=True, mut="none", elitism=True, max_steps=21)
        add(loop="on", algo="PPO", pop=4, perm=[3, 2, 1, 0], preset={"steps": 5, "nfit": 2, "best": 3}, tour_eval_loop=3,
            evo=True, mut="hp", elitism=True, learn_step=4, evo_steps=8, max_steps=21)
        add(loop="maoff", algo="MATD3", pop=4, perm=[1, 3, 0, 2], preset={"steps": 7, "nfit": 2, "best": 3}, tour_eval_loop=3,
            evo=True, mut="none", elitism=True, max_steps=23)
        add(loop="maon", algo="IPPO", pop=3, perm=[2, 0, 1], preset={"steps": 4, "nfit": 2, "best": 2}, tour_eval_loop=3,
            evo=True, mut="none", elitism=True, learn_step=4, max_steps=60)
        add(loop="offline", algo="CQN", pop=3, perm=[2, 1, 0], preset={"steps": 2, "nfit": 1, "best": 2}, tour_eval_loop=2,
            evo=True, mut="none", elitism=True, evo_steps=3, max_steps=8)
        add(loop="bandit", algo="NeuralUCB", pop=3, perm=[1, 2, 0], preset={"steps": 3, "nfit": 2, "best": 2}, tour_eval_loop=3,
            evo=True, mut="none", elitism=True, episode_steps=4, evo_steps=4, max_steps=11)
        # --- early stop (needs 99 generations: the cheapest loop)
        add(loop="bandit", algo="NeuralUCB", episode_steps=1, evo_steps=50, max_steps=150, target=-1.0, eval_steps=1, batch_size=4, learn_step=1)
        if tier == "thorough":
            add(loop="offline", algo="CQN", evo_steps=1, max_steps=120, target=-1.0, eval_steps=1)
        # --- seeded configurations
        nseed = 6 if tier == "quick" else 330
        for _ in range(nseed):
            loop = rng.choice(["off", "off", "off", "on", "on", "offline", "bandit", "maoff", "maon"])
            algo = rng.choice(R.ALGOS[loop])
            ne0 = rng.choice([1, 2, 4, 1, 2, 3, 0])       # 0 = plain (non-vectorised) environment
            ne = max(1, ne0)
            ls = rng.choice([1, 2, 3, 5, 8])
            evo = rng.choice([6, 8, 9, 12, 15])
            c = dict(loop=loop, algo=algo, num_envs=ne0, learn_step=ls, batch_size=rng.choice([2, 4, 6]), evo_steps=max(evo, ne),
                     pop=rng.choice([2, 2, 3, 4]), ep_len=rng.choice([3, 4, 6]), seed=rng.randrange(10 ** 6),
                     learning_delay=rng.choice([0, 0, 4, 11]), mem_cap=rng.choice([8, 32, 64]), eval_loop=rng.choice([1, 1, 2]),
                     eval_steps=rng.choice([None, 3]))
            if ne0 == 3:
                c["eval_loop"] = 1      # keeps the elite's mean fitness exact (a mean over 3 sub-environments is not dyadic)
            if loop == "bandit":
                c["episode_steps"] = rng.choice([2, 3, 5])
                c["eval_steps"] = 2
                S = c["episode_steps"]
            elif loop == "offline":
                c["evo_steps"] = rng.choice([2, 3, 4]); S = c["evo_steps"]
            elif loop in ("on", "maon"):
                S = -(-c["evo_steps"] // ls) * -(-ls // ne) * ne
            else:
                S = (c["evo_steps"] // ne) * ne
            G = rng.choice([2, 3, 4])
            tot = S * (c["pop"] if loop == "maon" else 1)
            c["max_steps"] = max(1, rng.choice([G * tot, G * tot - 1, G * tot + 1, (G - 1) * tot + 1]))
            if algo == "Rainbow DQN":
                c["memory"] = rng.choice(["uniform", "nstep", "per", "per+nstep"]); c["n_step"] = rng.choice([2, 3])
            if rng.random() < 0.5:
                c.update(evo=True, mut=rng.choice(["none", "hp", "hp", "param", "arch"]), elitism=rng.random() < 0.7,
                         mutate_elite=rng.random() < 0.3, tsize=rng.choice([1, 2, 3]))
            if tier == "thorough":       # dimensions added in the deepening round (drawn after everything else: earlier seeds keep their cases)
                r2 = random.Random(c["seed"])
                if loop in ("maoff", "maon"):
                    if r2.random() < 0.35:
                        c["ids"] = "unsorted"
                    if r2.random() < 0.35:
                        c["rev"] = True
                    if r2.random() < 0.3:
                        c["grouped"] = True
                    if r2.random() < 0.3 and not (c.get("grouped") and c["eval_loop"] > 1):
                        c["sum_scores"] = False
                elif loop in ("on", "offline") and r2.random() < 0.12:
                    c["image"] = True
                if c.get("evo") and r2.random() < 0.2:
                    c["mut"] = "act"
                # round 3: more evaluation episodes, repeated calls on the returned population, permuted populations with history
                if r2.random() < 0.3:
                    c["eval_loop"] = r2.choice([2, 3])
                    if c.get("grouped") and c.get("sum_scores") is False:
                        c["eval_loop"] = 1
                if ne0 == 3:
                    c["eval_loop"] = 1
                if r2.random() < 0.25:
                    m0 = c["max_steps"]
                    c["budgets"] = [m0, m0 + r2.choice([1, tot, 2 * tot + 1]), m0 + r2.choice([0, 1])]
                if c.get("evo") and r2.random() < 0.3 and c.get("sum_scores") is not False:   # (pre-set histories are scalar fitness values)
                    perm = list(range(c["pop"])); r2.shuffle(perm)
                    c["perm"] = perm
                    c["preset"] = {"steps": r2.choice([0, 3, 5]), "nfit": 2, "best": r2.randrange(c["pop"])}
                    c["tour_eval_loop"] = 3
                    c["max_steps"] = c["max_steps"] + c["preset"]["steps"]
                    if c.get("budgets"):
                        c["budgets"] = [b + c["preset"]["steps"] for b in c["budgets"]]
            if rng.random() < 0.4:
                c.update(checkpoint=rng.choice([S, S + 1, 2 * S, max(1, S // 2)]), overwrite=rng.random() < 0.3)
            cases.append(c)
        only = os.environ.get("C20_LOOPS")      # developer shortcut for the mutation self-test (never in MANIFEST commands)
        if only:
            cases = [c for c in cases if c["loop"] in only.split(",")]
        return cases

    # ---------- implementation
    def setup(self, tier):
        self.tier = tier

    def run_impl(self, case):
        guard = 240 if case.get("target") is not None else 90      # seconds of CPU time
        return R.run_loop(case, vlib.BUILD / ("C20" + vlib.ALT_TAG), guard_s=guard)

    # ---------- model term
    def cfg_term(self, case):
        n = case.get("n_step", 3) if case.get("memory") in ("nstep", "per+nstep") else 0
        t = case.get("target")
        return ("{| lp := %s; num_envs := %d; evo_steps := %d; max_steps := %d; episode_steps := %d; delay := %d; "
                "mem_cap := %d; nstep := %d; checkpoint := %d; evolve := %s; elitism := %s; tour_pop := %d; eval_loop := %d; "
                "target := %s |}") % (
            LOOPNAME[case["loop"]], ne_of(case), case["evo_steps"], case["max_steps"], case.get("episode_steps", 0),
            case.get("learning_delay", 0) if case["loop"] in ("off", "maoff") else 0, case.get("mem_cap", 64), n,
            case.get("checkpoint") or 0, "true" if case.get("evo") else "false",
            "true" if case.get("elitism", True) else "false", case.get("tour_pop", case["pop"]), R.tour_eval_loop(case),
            "None" if t is None else f"(Some {coq_Q(t)})")

    def coq_term(self, case, obs):
        if not obs.get("completed") or obs.get("error"):
            return None
        terms = [self.coq_term_seg(c, o) for c, o in segments(case, obs)]
        if any(t is None for t in terms):
            return None
        return "(" + ") && (".join(terms) + ")" if len(terms) > 1 else terms[0]

    def coq_term_seg(self, case, obs):
        if not obs.get("completed") or obs.get("error"):
            return None
        gens, taken, _ = derive(case, obs)
        npop = obs["pop_in"]
        inps, obl = [], []
        for d in gens:
            if len(d["tests"]) != npop:
                return "false"
            hps = "[" + "; ".join("{| ls := %d; bs := %d |}" % (t["learn_step"], t["batch_size"]) for t in d["tests"]) + "]"
            fit = "[" + "; ".join(coq_Q(t["fit"]) for t in d["tests"]) + "]"
            sel = d["select"]
            if sel is not None:
                par = sel["parents"]          # with elitism the first entry is the elite's position
                if any(p < 0 for p in par):
                    return "false"
                snaps = d["mutation"]["snaps"] if d["mutation"] else sel["after"]
                after = [(s["index"], s["steps"][-1], len(s["steps"]), s["nfit"], tk) for s, tk in zip(snaps, d["taken_after"])]
            else:
                par = []
                after = [(t["index"], t["steps"][-1], len(t["steps"]) + 1, t["nfit"], tk) for t, tk in zip(d["tests"], d["taken_after"])]
            inps.append("{| g_hps := %s; g_fit := %s; g_parents := [%s] |}" % (hps, fit, "; ".join(map(str, par))))
            rolls = d["rolls"] if len(d["rolls"]) == npop else d["rolls"] + [(4999, 4999)]
            tested = [(t["index"], t["steps"][-1], len(t["steps"]), t["nfit"]) for t in d["tests"]]
            cks = ck_steps(d["saves"])
            obl.append("{| b_roll := [%s]; b_tested := [%s]; b_sel := %s; b_after := [%s]; b_saved := %s |}" % (
                "; ".join(f"({a}, {b})" for a, b in rolls),
                "; ".join("(%d, %d, %d, %d)" % t for t in tested), "true" if sel is not None else "false",
                "; ".join("(%d, %d, %d, %d, %d)" % t for t in after),
                "None" if cks is None else "(Some [" + "; ".join(map(str, cks)) + "])"))
        final = "; ".join("(%d, [%s], %d, %d)" % (f["index"], "; ".join(map(str, f["steps"])), f["nfit"], tk)
                          for f, tk in zip(obs["final"], taken))
        start = obs.get("start")
        if start is None:
            pop0 = "[" + "; ".join(f"fresh_agent {i}" for i in obs["pop_in_indices"]) + "]"
            return "check_run %s %s [%s] [%s] [%s]" % (self.cfg_term(case), pop0, "; ".join(inps), "; ".join(obl), final)
        tk0 = obs.get("taken0") or [st["steps"][-1] for st in start]
        pop0 = "[" + "; ".join("{| idx := %d; stp := [%s]; fit := [%s]; taken := %d |}" % (
            st["index"], "; ".join(map(str, reversed(st["steps"]))), "; ".join(coq_Q(x) for x in reversed(st["fitness"])), tk)
            for st, tk in zip(start, tk0)) + "]"
        return "check_run_from %s %s %d [%s] [%s] [%s]" % (self.cfg_term(case), pop0, obs.get("mem_start", 0),
                                                          "; ".join(inps), "; ".join(obl), final)

    # ---------- oracle: the property stated directly on the behaviour of the implementation
    def site(self, case, obs):
        w = obs.get("where") or ["?"]
        return w[-1].split(":")[-1]

    def oracle(self, case, obs):
        out, seen = [], set()
        for c, o in segments(case, obs):
            for v in self.oracle_seg(c, o):
                if o.get("call"):
                    v.detail = f"call {o['call'] + 1} on the same population (budgets {case.get('budgets')}): " + v.detail
                if v.signature not in seen:
                    seen.add(v.signature); out.append(v)
        return out

    def oracle_seg(self, case, obs):
        out = []
        loop, algo = case["loop"], case["algo"]
        tag = f"{loop}:{algo}"
        if not obs.get("completed") or obs.get("error"):
            if obs.get("harness_fault") and obs.get("stage") == "build":
                raise RuntimeError("could not build the components: " + str(obs.get("error")))
            et = (obs.get("error") or "").split(":")[0]
            kind = "plain-env" if plain(case) else "vec-env"
            if loop == "off" and case.get("memory", "uniform") != "uniform":
                kind += ":" + case["memory"]
            out.append(Violation("completes", f"completes:{loop}:{kind}:{self.site(case, obs)}:{et}:{algo}",
                                 f"{R.LOOPS[loop][1]} did not run to completion: {obs.get('error')} at {obs.get('where')}"))
            return out
        gens, taken, learned = derive(case, obs)
        npop = obs["pop_in"]
        fin = obs["final"]
        mx = case["max_steps"]
        start = obs.get("start") or [{"index": i, "steps": [0], "fitness": []} for i in obs["pop_in_indices"]]
        nfit0, len0 = len(start[0]["fitness"]), len(start[0]["steps"])
        # population size and indices
        if len(set(obs["pop_in_indices"])) != npop:
            out.append(Violation("indices", f"indices:{tag}:create_population", f"create_population built indices {obs['pop_in_indices']}"))
        if len(fin) != npop:
            out.append(Violation("pop-size", f"pop-size:{tag}", f"given {npop} agents, returned {len(fin)}"))
        idxs = [f["index"] for f in fin]
        if len(set(idxs)) != len(idxs):
            out.append(Violation("indices", f"indices:{tag}", f"returned indices not distinct: {idxs}"))
        G = len(gens)
        stopped_early = case.get("target") is not None and G >= 99 and all(f["steps"][-1] < mx for f in fin) and loop != "maon"
        for gi, d in enumerate(gens):
            if len(d["tests"]) != npop or len(d["rolls"]) != npop:
                out.append(Violation("one-fitness", f"one-fitness:{tag}:tests-per-generation",
                                     f"generation {gi}: {len(d['tests'])} evaluations / {len(d['rolls'])} training phases for {npop} agents"))
                return out
            starts = ([st["steps"][-1] for st in start] if gi == 0 else
                      [(t["steps"][-2] if len(t["steps"]) >= 2 else 0) for t in d["tests"]])
            # the generation ran, so the budget must not have been met before it
            met = (sum(starts) >= mx) if loop == "maon" else any(s >= mx for s in starts)
            if met:
                out.append(Violation("budget", f"budget:{tag}:ran-past-budget",
                                     f"generation {gi} started with steps {starts} although max_steps={mx} was already met"))
            for pos, (t, s0, r) in enumerate(zip(d["tests"], starts, d["rolls"])):
                inc = t["steps"][-1] - s0
                want = r[0] if loop != "offline" else r[1]
                if inc != want:
                    out.append(Violation("steps-eq-env", f"steps-eq-env:{tag}",
                                         f"generation {gi} agent at position {pos}: counter grew by {inc}, "
                                         f"{'environment steps taken' if loop != 'offline' else 'learn calls'} = {want}"))
                if t["nfit"] != nfit0 + gi + 1 or len(t["steps"]) != len0 + gi:
                    out.append(Violation("one-fitness", f"one-fitness:{tag}:agent",
                                         f"generation {gi} position {pos}: {t['nfit']} fitness entries and {len(t['steps'])} steps entries; handed over with "
                                         f"{nfit0} / {len0}, so {nfit0 + gi + 1} / {len0 + gi} expected right after its evaluation"))
            sel = d["select"]
            if sel is not None:
                before, after = sel["before"], sel["after"]
                if len(after) != len(before):
                    out.append(Violation("pop-size", f"pop-size:{tag}:select", f"generation {gi}: selection turned {len(before)} agents into {len(after)}"))
                ai = [s["index"] for s in after]
                if len(set(ai)) != len(ai):
                    out.append(Violation("indices", f"indices:{tag}:select", f"generation {gi}: indices after selection {ai}"))
                for pos, (s, p) in enumerate(zip(after, sel["parents"])):
                    if p < 0 or s["steps"] != before[p]["steps"] or s["nfit"] != before[p]["nfit"]:
                        out.append(Violation("steps-eq-env", f"steps-eq-env:{tag}:clone",
                                             f"generation {gi}: new member {pos} (parent {p}) has steps {s['steps']}, parent had {before[p]['steps'] if p >= 0 else None}"))
                if case.get("elitism", True):
                    k = case.get("eval_loop", 1)
                    means = [sum(Fraction(x) for x in b["fit_tail"]) / max(1, len(b["fit_tail"])) for b in before]
                    p0 = sel["parents"][0]
                    if p0 < 0 or means[p0] != max(means):
                        out.append(Violation("elite", f"elite:{tag}:not-best",
                                             f"generation {gi}: member 0 of the new population descends from position {p0}, mean fitnesses {[float(m) for m in means]}"))
                    elif not case.get("mutate_elite", False) and d["mutation"] is not None:
                        if d["mutation"]["fp"][0] != sel["before_fp"][p0] or d["mutation"]["snaps"][0]["index"] != before[p0]["index"]:
                            out.append(Violation("elite", f"elite:{tag}:changed",
                                                 f"generation {gi}: the elite (position {p0}, index {before[p0]['index']}) was not carried unchanged "
                                                 f"(mutation applied: {d['mutation']['muts'][0]})"))
        # documented frequencies: learn_step ("learning frequency") once the memory is ready for the whole phase, and
        # evolution every generation (bandits: "evo_steps: evolution frequency (steps)", each time member 0 crosses a multiple)
        if loop in ("off", "maoff"):
            # learn_step is the documented learning frequency; before the memory holds batch_size transitions (and more
            # than learning_delay) nothing can be learned. Recomputed here iteration by iteration from the documented
            # rule, independently of the Coq model (closed forms: theorems learn_schedule / learn_schedule_warmup).
            ne = ne_of(case)
            cap = case.get("mem_cap", 64)
            delay = case.get("learning_delay", 0)
            nst = case.get("n_step", 3) if case.get("memory") in ("nstep", "per+nstep") else 0
            stored, calls = int(obs.get("mem_start", 0)), 0
            n_it = case["evo_steps"] // ne
            for gi, d in enumerate(gens):
                for pos, (t, r) in enumerate(zip(d["tests"], d["rolls"])):
                    ls_, bs_ = t["learn_step"], t["batch_size"]
                    want = 0
                    calls = 0       # the n-step window is emptied with the env.reset() that starts every turn (f859dc3)
                    for i in range(n_it):
                        calls += 1
                        if nst == 0 or calls >= nst:
                            stored += ne
                        size = min(stored, cap)
                        ok = size >= bs_ and ((stored if loop == "maoff" else size) > delay)
                        if ls_ > ne:
                            want += 1 if (ok and i % (ls_ // ne) == 0) else 0
                        else:
                            want += (ne // ls_) if ok else 0
                    if r[1] != want:
                        out.append(Violation("learn-frequency", f"learn-frequency:{tag}",
                                             f"generation {gi} position {pos}: learn_step={ls_}, num_envs={ne}, batch_size={bs_}, delay={delay}, "
                                             f"memory capacity {cap}, n_step {nst}: {r[1]} learn calls in {n_it} iterations, expected {want}"))
            if obs.get("mem_len") is not None and obs["mem_len"] != min(stored, cap):
                out.append(Violation("stored-transitions", f"stored-transitions:{tag}",
                                     f"the memory holds {obs['mem_len']} transitions after {G} generations; every turn of {n_it} iterations stores "
                                     f"(iterations - (n_step - 1)) x num_envs = {max(0, n_it - max(0, nst - 1)) * ne}, expected {min(stored, cap)} (capacity {cap})"))
        if loop == "bandit":
            stored = int(obs.get("mem_start", 0))
            for gi, d in enumerate(gens):
                for pos, (t, r) in enumerate(zip(d["tests"], d["rolls"])):
                    want = 0
                    for i in range(case["episode_steps"]):
                        stored += 1
                        if min(stored, case.get("mem_cap", 64)) >= t["batch_size"]:
                            want += t["learn_step"]
                    if r[1] != want:
                        out.append(Violation("learn-frequency", f"learn-frequency:{tag}",
                                             f"generation {gi} position {pos}: {r[1]} learn calls, expected {want} (learn_step={t['learn_step']}, batch_size={t['batch_size']})"))
        if loop in ("on", "maon"):
            for gi, d in enumerate(gens):
                for pos, (t, r) in enumerate(zip(d["tests"], d["rolls"])):
                    want = -(-case["evo_steps"] // t["learn_step"])
                    if r[1] != want:
                        out.append(Violation("learn-frequency", f"learn-frequency:{tag}",
                                             f"generation {gi} position {pos}: {r[1]} learn calls for evo_steps={case['evo_steps']}, learn_step={t['learn_step']} (expected {want})"))
        if loop in ("on", "maon"):
            ne = ne_of(case)
            for gi, d in enumerate(gens):
                for pos, (t, r) in enumerate(zip(d["tests"], d["rolls"])):
                    # every rollout handed to learn() covers at least learn_step environment steps (and less than one more vector step)
                    lo, hi = r[1] * t["learn_step"], r[1] * (t["learn_step"] + ne - 1)
                    if not (lo <= r[0] <= hi):
                        out.append(Violation("rollout-length", f"rollout-length:{tag}",
                                             f"generation {gi} position {pos}: {r[0]} environment steps for {r[1]} rollouts of learn_step={t['learn_step']} (num_envs={ne})"))
        if loop != "bandit":
            for gi, d in enumerate(gens):
                want = npop * case.get("eval_loop", 1)
                if d["eval_resets"] != want:
                    out.append(Violation("evaluation", f"evaluation:{tag}:episodes",
                                         f"generation {gi}: {d['eval_resets']} evaluation episodes for {npop} agents with eval_loop={case.get('eval_loop', 1)}"))
                    break
        for what in obs.get("args_changed", []):
            # verdict only where the modification touches what the property states (the population handed to the function);
            # net_config / INIT_HP / MUT_P / dataset modifications are outside the statement: recorded as evidence labels
            if not what.startswith("pop list"):
                continue
            out.append(Violation("arguments-modified", f"arguments-modified:{what.split(' ')[0].split(':')[-1]}:{tag}",
                                 f"the caller's {what} was modified by the call"))
        for rl in obs.get("reloaded", []):
            saved = None
            for d in gens:
                if rl["file"] in d["saved_agents"]:
                    saved = d["saved_agents"][rl["file"]]
            if not rl["ok"]:
                out.append(Violation("checkpoint", f"checkpoint:{tag}:reload-raises", f"{rl['file']} cannot be loaded: {rl['error']}"))
            elif saved is not None and (rl["index"] != saved["index"] or rl["steps"] != saved["steps"]):
                out.append(Violation("checkpoint", f"checkpoint:{tag}:reload-differs",
                                     f"{rl['file']}: saved index {saved['index']} steps {saved['steps']}, loaded index {rl['index']} steps {rl['steps']}"))
        if case.get("evo"):
            count = 0
            for gi, d in enumerate(gens):
                if stopped_early and gi == G - 1:
                    break
                s0 = d["tests"][0]["steps"][-1]
                should = (s0 // case["evo_steps"] > count) if loop == "bandit" else True
                if (d["select"] is not None) != should:
                    out.append(Violation("evolution-frequency", f"evolution-frequency:{tag}",
                                         f"generation {gi}: member 0 at {s0} steps, evo_steps={case['evo_steps']}, {count} evolutions so far: "
                                         f"selection {'ran' if d['select'] is not None else 'did not run'}"))
                if d["select"] is not None:
                    count += 1
        # returned agents
        for pos, f in enumerate(fin):
            want = taken[pos] if loop != "offline" else learned[pos]
            if f["steps"][-1] != want:
                out.append(Violation("steps-eq-env", f"steps-eq-env:{tag}:returned",
                                     f"returned agent {pos} (index {f['index']}): steps[-1]={f['steps'][-1]}, its lineage took {want}"))
            if f["nfit"] != nfit0 + G:
                out.append(Violation("one-fitness", f"one-fitness:{tag}:returned",
                                     f"returned agent {pos}: {f['nfit']} fitness entries after {G} generations (handed over with {nfit0})"))
        if G == 0:
            # budget already met at the call: nothing runs, the population comes back as it was handed over
            if [(f["index"], f["steps"], f["nfit"]) for f in fin] != [(st["index"], st["steps"], len(st["fitness"])) for st in start]:
                out.append(Violation("budget", f"budget:{tag}:zero-generations-changed",
                                     f"no generation ran but the population changed: {[(f['index'], f['steps']) for f in fin]} "
                                     f"from {[(st['index'], st['steps']) for st in start]}"))
        rows = obs.get("ret_fit_rows", [])
        if len(rows) != G or any(r != npop for r in rows):
            out.append(Violation("one-fitness", f"one-fitness:{tag}:returned-fitnesses",
                                 f"the returned fitness list has rows of length {rows} after {G} generations of {npop} agents"))
        # the budget is met when the function returns (unless it stopped early on the target)
        if not stopped_early:
            ends = [f["steps"][-1] for f in fin]
            ok = (sum(ends) >= mx) if loop == "maon" else any(e >= mx for e in ends)
            if not ok:
                out.append(Violation("budget", f"budget:{tag}:stopped-early", f"returned with steps {ends}, max_steps={mx}"))
        if case.get("checkpoint"):
            # documented: "Checkpoint frequency (steps)" -- one checkpoint each time member 0 crosses a multiple of it
            written = 0
            for gi, d in enumerate(gens):
                if stopped_early and gi == G - 1:
                    break
                cks = ck_steps(d["saves"])
                snaps = (d["mutation"]["snaps"] if d["mutation"] else (d["select"]["after"] if d["select"] else d["tests"]))
                should = snaps[0]["steps"][-1] // case["checkpoint"] > written
                if (cks is not None) != should:
                    out.append(Violation("checkpoint", f"checkpoint:{tag}:trigger",
                                         f"generation {gi}: member 0 at {snaps[0]['steps'][-1]} steps, frequency {case['checkpoint']}, "
                                         f"{written} checkpoints so far: checkpoint {'written' if cks is not None else 'not written'}"))
                if cks is not None:
                    written += 1
                if cks and not case.get("overwrite") and cks != [s["steps"][-1] for s in snaps]:
                    out.append(Violation("checkpoint", f"checkpoint:{tag}:names", f"generation {gi}: checkpoint names carry {cks}, agents are at {[s['steps'][-1] for s in snaps]}"))
        seen, uniq = set(), []
        for v in out:
            if v.signature not in seen:
                seen.add(v.signature); uniq.append(v)
        return uniq

    def extra_static(self):
        """Sampler dispatches to the buffer-specific sample function (anchored mechanism, checked on the real classes)"""
        from agilerl.components.sampler import Sampler
        from agilerl.components.replay_buffer import ReplayBuffer, MultiStepReplayBuffer, PrioritizedReplayBuffer
        from agilerl.components.multi_agent_replay_buffer import MultiAgentReplayBuffer
        out = []
        want = [(ReplayBuffer(4), "sample_standard"), (MultiStepReplayBuffer(4, n_step=2), "sample_n_step"),
                (PrioritizedReplayBuffer(4, alpha=0.6), "sample_per"),
                (MultiAgentReplayBuffer(4, field_names=["state"], agent_ids=["a_0"]), "sample_standard")]
        # tournament_selection_and_mutation (public helper, called directly): returns the new generation and leaves the
        # population list it was handed as it was (the training loops rebind their own list before calling it)
        import numpy as np
        from gymnasium import spaces
        from agilerl.utils.utils import create_population, tournament_selection_and_mutation
        from agilerl.hpo.tournament import TournamentSelection
        from agilerl.hpo.mutation import Mutations
        lst = create_population("DQN", spaces.Box(-1.0, 1.0, (4,), np.float32), spaces.Discrete(2),
                                {"encoder_config": {"hidden_size": [16]}, "head_config": {"hidden_size": [16]}},
                                {"BATCH_SIZE": 4}, population_size=3)
        for i, a in enumerate(lst):
            a.fitness = [float(i)]
        given = list(lst)
        new = tournament_selection_and_mutation(population=lst, tournament=TournamentSelection(2, True, 3, 1),
                                                mutation=Mutations(1.0, 0, 0, 0, 0, 0, rand_seed=0), env_name="c20")
        if len(lst) != 3 or any(a is not b for a, b in zip(lst, given)):
            out.append(Violation("arguments-modified", "arguments-modified:pop:tournament_selection_and_mutation",
                                 "tournament_selection_and_mutation wrote into the population list it was handed "
                                 f"(indices now {[int(a.index) for a in lst]}, were [0, 1, 2])",
                                 {"static": "tournament_selection_and_mutation(population=[3 x DQN])"}, None, found_input=True))
        if len(new) != 3 or len({int(a.index) for a in new}) != 3 or int(new[0].index) != 2:
            out.append(Violation("indices", "indices:static:tournament_selection_and_mutation",
                                 f"direct call on fitness [0,1,2]: returned indices {[int(a.index) for a in new]} (elite 2 first, 3 distinct expected)",
                                 {"static": "tournament_selection_and_mutation(population=[3 x DQN])"}, None, found_input=True))
        for mem, name in want:
            got = getattr(Sampler(memory=mem).sample, "__name__", "?")
            if got != name:
                out.append(Violation("sampler-dispatch", f"sampler-dispatch:{type(mem).__name__}",
                                     f"Sampler(memory={type(mem).__name__}).sample is {got}, expected {name}",
                                     {"static": type(mem).__name__}, None, found_input=True))
        return out

    def key(self, case):
        k = {a: b for a, b in case.items() if a != "seed"}
        return super().key(k)

    def nontrivial(self, case, obs):
        total = sum(len(sg.get("gens", [])) for sg in obs.get("segments") or [obs])
        return bool(obs.get("completed")) and not obs.get("error") and total >= 2

    def classify(self, case, obs):
        labs = [f"loop={case['loop']}", f"algo={case['algo']}", f"env={'plain' if plain(case) else 'vec' + str(case['num_envs'])}",
                f"memory={case.get('memory', 'uniform') if case['loop'] == 'off' else '-'}",
                f"evolution={case.get('mut') if case.get('evo') else 'off'}", f"checkpoint={'on' if case.get('checkpoint') else 'off'}",
                f"obs={'image+swap_channels' if case.get('image') else 'dict' if case.get('dictobs') else 'vector'}",
                f"step-types={'mixed' if case.get('mixed') else 'uniform'}",
                f"generations={min(len(obs.get('gens', [])), 5)}{'+' if len(obs.get('gens', [])) > 5 else ''}",
                f"completed={bool(obs.get('completed')) and not obs.get('error')}"]
        for what in {w.split(' ')[0] for sg in (obs.get("segments") or []) for w in sg.get("args_changed", [])}:
            labs.append("observation:caller-argument-modified:" + what)
        labs += [f"calls={len(case.get('budgets') or [0]) + (1 if case.get('second') else 0)}",
                 f"tournament-object={'reused-for-another-population' if case.get('second') else 'own'}", f"eval_loop={case.get('eval_loop', 1)}",
                 f"handed-over={'permuted+history' if case.get('perm') else 'fresh'}"]
        if any(len(sg.get("gens", [])) == 0 for sg in obs.get("segments") or []):
            labs.append("call-with-budget-already-met")
        ne, ls = ne_of(case), case["learn_step"]
        if case["loop"] in ("off", "maoff"):
            labs.append("schedule=" + ("learn_step>num_envs" if ls > ne else "learn_step<=num_envs"))
        if case["loop"] in ("on", "maon"):
            labs.append("rollout_len=" + ("1" if -(-ls // ne) == 1 else ">1"))
        if obs.get("completed") and not obs.get("error"):
            fin = obs["final"]
            mx = case["max_steps"]
            e = sum(f["steps"][-1] for f in fin) if case["loop"] == "maon" else max(f["steps"][-1] for f in fin)
            labs.append("budget=" + ("met-exactly" if e == mx else "overshot" if e > mx else "early-stop"))
            if any(g["select"] for g in obs["gens"]):
                labs.append("selection-ran")
            if any(ck_steps(g["saves"]) is not None for g in obs["gens"]):
                labs.append("checkpoint-written")
            hp = {(t["learn_step"], t["batch_size"]) for g in obs["gens"] for t in g["tests"]}
            if len(hp) > 1:
                labs.append("hp-changed-by-mutation")
        return labs

    def neighbours(self, case, rng):
        for d in (1, -1, 2):
            c = dict(case); c["max_steps"] = max(1, case["max_steps"] + d); yield c
        c = dict(case); c["seed"] = case.get("seed", 0) + 1; yield c


if __name__ == "__main__":
    sys.exit(vlib.run_check(C20()))
