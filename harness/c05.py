"""C05 — tournament selection keeps the fittest and builds a well-formed generation.

Real `TournamentSelection.select` (and `tournament_selection_and_mutation`) are run on populations of
real agents (DQN with tiny networks, so the real `clone()` runs) and of duck-typed light agents (for
the boundary-complete enumeration); `np.random.randint` is replaced by a scripted source whose draws
are handed to the Coq model.  Parents are recognised through a tag attribute that `clone` copies.
Tie classes are compared by mean value, never by position (np.argsort is not stable).
"""
from __future__ import annotations

import copy
import hashlib
import itertools
import sys
from fractions import Fraction

import numpy as np
import torch

import vlib
from vlib import Violation, coq_Q, coq_Z

from agilerl.hpo.tournament import TournamentSelection

TAG = "verif_tag"          # public name: EvolvableAlgorithm.clone copies public non-routine attributes


# ------------------------------------------------------------------ agents
class LiteAgent:
    """Duck-typed agent: exactly what select() uses (fitness, index, clone)."""

    def __init__(self, index, fitness, tag=None, body=None):
        self.index = index
        self.fitness = fitness
        self.body = body if body is not None else [0.0]
        setattr(self, TAG, tag)

    def clone(self, index=None, wrap=True):
        c = LiteAgent(self.index if index is None else index, copy.deepcopy(self.fitness),
                      getattr(self, TAG), copy.deepcopy(self.body))
        return c


def net_fingerprint(agent):
    """hash of every evolvable network's parameters/buffers (dqn) or of the body (lite)"""
    h = hashlib.sha1()
    if isinstance(agent, LiteAgent):
        h.update(repr(agent.body).encode())
        return h.hexdigest()[:16]
    # the trained (evaluation / policy) networks and the optimizer state.  Lagging copies (DQN's
    # actor_target) are NOT compared: clone() runs the mutation hook, which by design re-synchronises
    # the target with the online network (observation reported for C01/C08, not a C05 clause).
    try:
        names = sorted({g.eval for g in agent.registry.groups})
    except AttributeError:
        names = sorted(agent.evolvable_attributes(networks_only=True))
    for name in names:
        net = getattr(agent, name)
        nets = net if isinstance(net, list) else [net]
        for m in nets:
            for k, v in m.state_dict().items():
                h.update(k.encode())
                h.update(v.detach().cpu().numpy().tobytes())
    for t in opt_state_tensors(agent):
        h.update(t.detach().cpu().numpy().tobytes())
    return h.hexdigest()[:16]


def opt_state_tensors(agent):
    """tensors held in the state of the agent's optimizers (Adam moments, step counters)"""
    out = []
    try:
        for oc in agent.registry.optimizers:
            w = getattr(agent, oc.name)
            opts = w.optimizer if isinstance(w.optimizer, (list, tuple)) else [w.optimizer]
            for o in opts:
                for st in o.state.values():
                    for k in sorted(st):
                        if torch.is_tensor(st[k]):
                            out.append(st[k])
    except AttributeError:
        pass          # optimizers organised differently: network parameters alone are compared
    return out


def storages(agent):
    """identities of the mutable pieces an agent owns"""
    out = {id(agent), id(agent.fitness)}
    if isinstance(agent, LiteAgent):
        out.add(id(agent.body))
        return out
    for name, net in agent.evolvable_attributes(networks_only=True).items():
        nets = net if isinstance(net, list) else [net]
        for m in nets:
            out.add(id(m))
            for p in m.parameters():
                if p.numel() > 0:              # empty tensors have no storage of their own (data_ptr 0)
                    out.add(("ptr", p.data_ptr()))
    for t in opt_state_tensors(agent):
        if t.numel() > 0:
            out.add(("ptr", t.data_ptr()))
    return out


def snapshot(agent):
    return {"index": int(agent.index), "fitness": [float(x) for x in agent.fitness],
            "tag": getattr(agent, TAG, None), "fp": net_fingerprint(agent), "id": id(agent),
            "fid": id(agent.fitness)}


class Script:
    """scripted np.random.randint: hands out the prepared draws, records what was asked for"""

    def __init__(self, draws):
        self.draws = draws
        self.k = 0
        self.reqs = []

    def __call__(self, low, high=None, size=None, dtype=int):
        if high is None:
            low, high = 0, low
        if size is None:
            sz = -1
        elif isinstance(size, (tuple, list)):
            sz = int(np.prod(size))
        else:
            sz = int(size)
        self.reqs.append([int(low), int(high), sz])
        if self.k >= len(self.draws):
            raise RuntimeError("scripted randint exhausted: select drew more tournaments than population_size + 2")
        d = self.draws[self.k]
        self.k += 1
        if size is None:
            return int(d[0])
        return np.array(d, dtype=np.int64)


def frac_mean(fit, w):
    win = fit[-w:]
    return sum(Fraction(x) for x in win) / len(win)


def well_conditioned(pop_fitness, w):
    """float order of np.mean == exact order of the rational means (so model and code see the same order)"""
    fm = [frac_mean(f, w) for f in pop_fitness]
    xm = [float(np.mean(f[-w:])) for f in pop_fitness]
    for i in range(len(fm)):
        for j in range(i):
            a = (fm[i] > fm[j]) - (fm[i] < fm[j])
            b = (xm[i] > xm[j]) - (xm[i] < xm[j])
            if a != b:
                return False
    return True


# ------------------------------------------------------------------ the driver
class C05(vlib.Driver):
    pid = "C05"
    preamble = ("From Coq Require Import ZArith QArith.\n"
                "From AgileV Require Import Base.Prelude C05.Model C05.Check.\nOpen Scope nat_scope.")
    rule = ("a case = configuration (tournament size, elitism, population size, eval window) + population (indices, "
            "fitness histories) + scripted tournament draws, possibly chained over generations. Distinct = distinct "
            "(agent kind, cfg, ordinal pattern of the window means incl. ties, history lengths, draws, generations). "
            "Non-trivial = some generation has a population >= 2 whose means are not all equal.")
    trusted_base = ["hand-written model coq/theories/C05/Model.v",
                    "correspondence harness harness/c05.py (scripted np.random.randint, parent tags copied by clone, "
                    "exact float->Q import of fitness values)"]
    assumptions = ["np.argsort(x).argsort() returns a permutation of 0..n-1 that is strictly monotone in x whatever the "
                   "tie-breaking of the sort (valid_ranking); exercised by K with ties, compared by mean class",
                   "np.mean in float64 orders the window means like the exact rational means (generator keeps sums exact "
                   "or means well separated; verified per case with fractions.Fraction)",
                   "every agent has >= 1 fitness entry and the population is non-empty (guards stated in the theorems)",
                   "EvolvableAlgorithm.clone itself is property C01; here only fitness/index/tag/network-parameter equality "
                   "and non-aliasing of the copies are observed"]
    shard = 40
    notes = ["exhaustive=true refers to stream A only (every weak ordering of the window means for n<=4 x every draw tuple x "
             "both elitism settings); streams B-F are seeded",
             "label branch:top-tie-broken-unlike-a-stable-sort counts cases where NumPy's argsort ranked a tied agent differently "
             "from a stable sort: tie classes are therefore compared by mean value, never by position"]

    # ---------- generation
    VALS = [-8.0, -2.5, -1.0, -0.25, 0.0, 0.5, 1.0, 1.0, 2.0, 2.0, 3.75, 6.0, 10.0]

    def fitness_for_mean(self, mean_x4, w, shape, rng):
        """a history whose last-w window has mean mean_x4/4 exactly; shape picks length/decoration"""
        m = mean_x4 / 4.0
        if shape == 0:
            return [m]                                   # shorter than any window > 1
        if shape == 1:
            return [100.0, -100.0] + [m] * w              # older scores must be ignored
        if shape == 2 and w >= 2:
            return [7.0] + [m - 1.0] + [m] * (w - 2) + [m + 1.0]   # same mean, different entries
        if shape == 3:
            return [m] * max(1, w - 1) if w > 1 else [-3.0, m]      # history shorter than the window
        return [m] * w

    def gen_draws(self, rng, n, t, count):
        return [[rng.randrange(n) for _ in range(t)] for _ in range(count)]

    def rand_fitness(self, rng, n, w, float_stream=False):
        fits = []
        for i in range(n):
            L = rng.choice([1, 1, 2, 3, w, w + 1, w + 2, 7])
            if float_stream:
                f = [round(rng.uniform(-50, 50), rng.choice([1, 2, 3])) for _ in range(L)]
            else:
                f = [rng.choice(self.VALS) for _ in range(L)]
            fits.append(f)
        # force ties: copy a window / permute a window / same mean with other entries
        for i in range(1, n):
            r = rng.random()
            if r < 0.18:
                fits[i] = list(fits[rng.randrange(i)])
            elif r < 0.30 and not float_stream:
                src = fits[rng.randrange(i)][-w:]
                fits[i] = [rng.choice(self.VALS)] * rng.randint(0, 2) + list(reversed(src)) \
                    if len(src) >= w else list(reversed(src))
        return fits

    def rand_indices(self, rng, n):
        style = rng.random()
        if style < 0.4:
            return list(range(n))
        if style < 0.8:
            return rng.sample(range(0, max(40, 2 * n)), n)
        base = rng.randint(50, 3000)
        return rng.sample(range(base, base + 3 * n + 3), n)

    def generate(self, tier, rng):
        cases = []
        quick = tier == "quick"
        self.shard = 40 if quick else 12      # chains make large terms: spread them over more coqc processes
        # A. boundary-complete enumeration (light agents): every weak ordering of the means for n <= 4,
        #    every tournament draw tuple, both elitism settings
        self.exhaustive = True
        for n, ts_list in ((1, [1, 2]), (2, [1, 2, 3]), (3, [1, 2]), (4, [2] if quick else [1, 2, 3])):
            levels = range(min(n, 3))
            for pat in itertools.product(levels, repeat=n):
                for t in ts_list:
                    tuples = list(itertools.product(range(n), repeat=t))
                    for elit in (True, False):
                        w = 1 + (sum(pat) + t) % 3
                        fits = [self.fitness_for_mean(4 * lv - 3, w, (i + lv + t) % 5, rng) for i, lv in enumerate(pat)]
                        p = len(tuples) + (1 if elit else 0)
                        cases.append({"kind": "lite", "via": "select",
                                      "cfg": {"t": t, "e": elit, "p": p, "w": w},
                                      "pop": [{"index": 3 * i + 1, "fitness": f} for i, f in enumerate(fits)],
                                      "gens": [{"draws": [list(x) for x in tuples] + self.gen_draws(rng, n, t, 2), "newfit": []}]})
        # B. seeded single selections on real DQN agents
        nb = 80 if quick else 300
        for _ in range(nb):
            n = rng.choice([1, 2, 2, 3, 3, 4, 5, 6, 8]) if quick else rng.choice([1, 2, 3, 4, 5, 6, 8, 10, 12])
            p = rng.choice([1, 2, 3, n, n, n, n + 1, 8]) if quick else rng.choice([1, 2, n, n, n + 2, 12])
            t = rng.randint(1, 5)
            w = rng.randint(1, 5)
            cases.append({"kind": "dqn", "via": "select", "cfg": {"t": t, "e": rng.random() < 0.6, "p": p, "w": w},
                          "pop": [{"index": ix, "fitness": f} for ix, f in zip(self.rand_indices(rng, n), self.rand_fitness(rng, n, w))],
                          "gens": [{"draws": self.gen_draws(rng, n, t, p + 2), "newfit": []}]})
        # C. chains of generations on real agents, half of them through tournament_selection_and_mutation
        nc, G = (4, 6) if quick else (12, 15)
        for ci in range(nc):
            n = rng.choice([2, 3, 4, 6])
            p = rng.choice([n, n, 4, 6])
            t, w = rng.randint(1, 4), rng.randint(1, 4)
            cases.append(self.chain_case(rng, "dqn", "utils" if ci % 2 == 0 else "select", n, p, t, w, rng.random() < 0.7, G))
        # D. long chains, light agents (sizes where NumPy switches sort algorithm in the thorough tier)
        nd, G = (16, 14) if quick else (60, 15)
        for ci in range(nd):
            n = rng.randint(2, 8) if quick else rng.choice([2, 5, 8, 12, 16, 17, 20, 24])
            p = rng.choice([n, n, max(1, n - 1), n + 1])
            t, w = rng.randint(1, 5), rng.randint(1, 5)
            cases.append(self.chain_case(rng, "lite", "select", n, p, t, w, rng.random() < 0.7, G))
        # E. non-dyadic fitness values (order checked against exact rationals per case), light agents;
        #    populations beyond 16 where the sort is not an insertion sort
        ne = 60 if quick else 800
        made = 0
        while made < ne:
            n = rng.choice([2, 3, 5, 8, 12, 17, 24]) if quick else rng.choice([2, 3, 5, 8, 12, 17, 24, 33, 48])
            t, w = rng.randint(1, 5), rng.randint(1, 5)
            fits = self.rand_fitness(rng, n, w, float_stream=rng.random() < 0.7)
            if not well_conditioned(fits, w):
                continue
            made += 1
            p = rng.choice([n, n, n + 1, max(1, n // 2)])
            cases.append({"kind": "lite", "via": "select", "cfg": {"t": t, "e": rng.random() < 0.5, "p": p, "w": w},
                          "pop": [{"index": ix, "fitness": f} for ix, f in zip(self.rand_indices(rng, n), fits)],
                          "gens": [{"draws": self.gen_draws(rng, n, t, p + 2), "newfit": []}]})
        # F. the guard: an empty population is rejected by the code and by the model
        cases.append({"kind": "lite", "via": "select", "cfg": {"t": 2, "e": True, "p": 3, "w": 1}, "pop": [],
                      "gens": [{"draws": self.gen_draws(rng, 1, 2, 5), "newfit": []}]})
        return cases

    def chain_case(self, rng, kind, via, n, p, t, w, elit, G):
        gens = []
        size = n
        for g in range(G):
            gens.append({"draws": self.gen_draws(rng, size, t, p + 2),
                         "newfit": [[rng.choice(self.VALS) for _ in range(rng.choice([1, 1, 1, 2]))] for _ in range(p)]})
            size = p
        # a few generations where everybody scores the same: long-lived ties
        for g in rng.sample(range(G), max(1, G // 5)):
            v = rng.choice(self.VALS)
            gens[g]["newfit"] = [[v] * w for _ in range(p)]
        return {"kind": kind, "via": via, "cfg": {"t": t, "e": elit, "p": p, "w": w},
                "pop": [{"index": ix, "fitness": f} for ix, f in zip(self.rand_indices(rng, n), self.rand_fitness(rng, n, w))],
                "gens": gens}

    # ---------- implementation
    def setup(self, tier):
        self.pool = []
        self.mut = None

    def dqn_agent(self, k):
        from gymnasium import spaces
        from agilerl.algorithms.dqn import DQN
        while len(self.pool) <= k:
            obs = spaces.Box(-1, 1, (3,), dtype=np.float32)
            # partial net_config on purpose (DESIGN 8.21b)
            ag = DQN(obs, spaces.Discrete(2), index=len(self.pool),
                     net_config={"encoder_config": {"hidden_size": [8]}})
            # one gradient step, so that the optimizer has state that a clone must copy and not share
            from tensordict import TensorDict
            b = 4
            ag.learn(TensorDict({"obs": torch.randn(b, 3), "action": torch.randint(0, 2, (b, 1)),
                                 "reward": torch.randn(b, 1), "next_obs": torch.randn(b, 3),
                                 "done": torch.zeros(b, 1)}, batch_size=[b]))
            self.pool.append(ag)
        return self.pool[k]

    def make_pop(self, case):
        pop = []
        for i, a in enumerate(case["pop"]):
            if case["kind"] == "dqn":
                ag = self.dqn_agent(i)
                ag.index = a["index"]
                ag.fitness = [float(x) for x in a["fitness"]]
                setattr(ag, TAG, i)
            else:
                ag = LiteAgent(a["index"], [float(x) for x in a["fitness"]], i, [float(i), 0.5])
            pop.append(ag)
        return pop

    def run_impl(self, case):
        cfg = case["cfg"]
        ts = TournamentSelection(cfg["t"], cfg["e"], cfg["p"], cfg["w"])
        pop = self.make_pop(case)
        gens_obs = []
        orig = np.random.randint
        for g in case["gens"]:
            for i, ag in enumerate(pop):
                setattr(ag, TAG, i)
            pre = [snapshot(a) for a in pop]
            pre_store = [storages(a) for a in pop]
            pop_ids = [id(a) for a in pop]
            rec = {"pre": [{"index": s["index"], "fitness": s["fitness"]} for s in pre]}
            rec["wellcond"] = well_conditioned([s["fitness"] for s in pre], cfg["w"]) if pre else True
            script = Script(g["draws"])
            np.random.randint = script
            captured = {}
            try:
                if case["via"] == "utils":
                    from agilerl.utils.utils import tournament_selection_and_mutation
                    from agilerl.hpo.mutation import Mutations
                    if self.mut is None:
                        self.mut = Mutations(no_mutation=1.0, architecture=0, new_layer_prob=0, parameters=0,
                                             activation=0, rl_hp=0, rand_seed=1)
                    real_select = ts.select

                    def spy(population, _f=real_select):
                        e, npop = _f(population)
                        captured["elite"] = e
                        captured["raw"] = [snapshot(a) for a in npop]
                        return e, npop
                    ts.select = spy
                    try:
                        new_pop = tournament_selection_and_mutation(pop, ts, self.mut, "verif-env", algo="DQN")
                    finally:
                        ts.select = real_select
                    elite = captured.get("elite")
                else:
                    elite, new_pop = ts.select(pop)
                err = None
            except Exception as e:  # noqa: BLE001 — the observation records that the call raised
                err = f"{type(e).__name__}: {e}"
            finally:
                np.random.randint = orig
            rec["reqs"] = script.reqs
            rec["used"] = script.k
            rec["error"] = err
            # the old population after the call
            post = [snapshot(a) for a in pop]
            rec["old_changed"] = [i for i, (a, b) in enumerate(zip(pre, post)) if a != b]
            rec["old_list_changed"] = pop_ids != [id(a) for a in pop]
            if err is not None:
                gens_obs.append(rec)
                break
            is_list = isinstance(new_pop, list)
            rec["elite"] = self.observe(elite, pre)
            rec["members"] = [self.observe(a, pre) for a in new_pop]
            if case["via"] == "utils" and "raw" in captured:
                # what select returned must be what the wrapper hands on (mutation was configured as no-op)
                rec["wiring_ok"] = is_list and [(s["index"], s["tag"], s["fitness"], s["fp"]) for s in captured["raw"]] == \
                    [(int(a.index), getattr(a, TAG, None), [float(x) for x in a.fitness], net_fingerprint(a)) for a in new_pop]
            # aliasing between the new objects and the old ones / each other
            alias = []
            seen = {}
            for i, st in enumerate(pre_store):
                for s in st:
                    seen[s] = f"old[{i}]"
            objs = [("elite", elite)] + [(f"new[{i}]", a) for i, a in enumerate(new_pop)]
            for name, a in objs:
                for s in storages(a):
                    if s in seen:
                        alias.append([name, seen[s]])
                    else:
                        seen[s] = name
            rec["alias"] = alias[:6]
            gens_obs.append(rec)
            # next generation: every member is trained / evaluated, a score is appended
            for i, a in enumerate(new_pop):
                nf = g["newfit"][i] if i < len(g["newfit"]) else []
                for x in nf:
                    a.fitness.append(float(x))
            pop = list(new_pop)
        return {"gens": gens_obs}

    def observe(self, a, pre):
        tag = getattr(a, TAG, None)
        o = {"parent": tag, "index": int(a.index), "fitness": [float(x) for x in a.fitness], "fp": net_fingerprint(a)}
        o["same_net"] = (tag is not None and 0 <= tag < len(pre) and pre[tag]["fp"] == o["fp"])
        return o

    # ---------- model term
    def coq_term(self, case, obs):
        cfg = case["cfg"]
        c = f"{{| tsize := {cfg['t']}; elitism := {vlib.coq_bool(cfg['e'])}; psize := {cfg['p']}; eval_loop := {cfg['w']} |}}"
        gs = []
        for g, rec in zip(case["gens"], obs["gens"]):
            if not rec["wellcond"]:
                continue
            pop = "[" + "; ".join(f"mk {coq_Z(a['index'])} {self.qlist(a['fitness'])} {i}" for i, a in enumerate(rec["pre"])) + "]"
            draws = "[" + "; ".join("[" + "; ".join(str(int(d)) for d in ds) + "]" for ds in g["draws"][:rec["used"]]) + "]"
            reqs = "[" + "; ".join(f"({coq_Z(r[0])}, {coq_Z(r[1])}, {max(r[2], 0) if r[2] < 5000 else 4999})" for r in rec["reqs"]) + "]"
            if rec["error"] is not None:
                ob = "None"
            else:
                def oa(o):
                    par = o["parent"] if isinstance(o["parent"], int) and 0 <= o["parent"] < 4999 else 4999
                    return f"({par}, {coq_Z(o['index'])}, {self.qlist(o['fitness'])})"
                ob = f"(Some ({oa(rec['elite'])}, [" + "; ".join(oa(m) for m in rec["members"]) + "]))"
            shared = vlib.coq_bool(bool(rec.get("alias")))
            changed = vlib.coq_bool(bool(rec["old_changed"]) or rec["old_list_changed"])
            gs.append(f"({pop}, {draws}, {reqs}, ({shared}, {changed}), {ob})")
        if not gs:
            return None
        return f"check_chain {c} [" + "; ".join(gs) + "]"

    @staticmethod
    def qlist(xs):
        return "[" + "; ".join(coq_Q(x) for x in xs) + "]"

    # ---------- oracle: the property stated directly on the implementation's behaviour
    def oracle(self, case, obs):
        out = []
        cfg = case["cfg"]
        kind = case["kind"]
        for gi, (g, rec) in enumerate(zip(case["gens"], obs["gens"])):
            pre = rec["pre"]
            n = len(pre)
            where = f"generation {gi}, {kind} agents, cfg {cfg}"
            if n == 0:
                continue                       # outside the guard (the code raises, the model returns None)
            if rec["error"] is not None:
                out.append(Violation("select-returns", f"select-raises:{rec['error'].split(':')[0]}",
                                     f"{where}: select raised {rec['error']} on a non-empty population {pre}"))
                break
            if not rec["wellcond"]:
                continue
            means = [frac_mean(a["fitness"], cfg["w"]) for a in pre]
            best = max(means)
            el, mem = rec["elite"], rec["members"]

            def valid_parent(o):
                return isinstance(o["parent"], int) and 0 <= o["parent"] < n

            # 1. elite = copy of an agent with the highest window mean, same index
            if not valid_parent(el) or means[el["parent"]] != best:
                out.append(Violation("elite-is-best", "elite-not-best",
                                     f"{where}: elite descends from agent {el['parent']} (mean "
                                     f"{means[el['parent']] if valid_parent(el) else '?'}) but the best mean is {best}; means={[str(m) for m in means]}"))
            elif el["index"] != pre[el["parent"]]["index"]:
                out.append(Violation("elite-is-best", "elite-index-changed",
                                     f"{where}: elite has index {el['index']}, its parent {pre[el['parent']]['index']}"))
            # 2. size
            if len(mem) != cfg["p"]:
                out.append(Violation("size-exact", "population-size",
                                     f"{where}: new population has {len(mem)} members, configured {cfg['p']}"))
            # 3. elitism: first member is that elite
            off = 1 if cfg["e"] else 0
            if cfg["e"] and mem:
                if mem[0]["parent"] != el["parent"] or mem[0]["index"] != el["index"]:
                    out.append(Violation("elite-first", "elite-not-first",
                                         f"{where}: first member descends from {mem[0]['parent']} with index {mem[0]['index']}, "
                                         f"elite from {el['parent']} with index {el['index']}"))
            # 4. every other member: best-ranked among the ones drawn for its tournament
            draws = g["draws"]
            for i, o in enumerate(mem[off:]):
                if i >= rec["used"]:
                    out.append(Violation("winner-of-drawn", "member-without-tournament",
                                         f"{where}: member {off + i} was produced without a tournament draw"))
                    break
                ds = draws[i]
                if not valid_parent(o) or o["parent"] not in ds:
                    out.append(Violation("winner-of-drawn", "parent-not-drawn",
                                         f"{where}: member {off + i} descends from {o['parent']}, drawn were {ds}"))
                    break
                if any(d < 0 or d >= n for d in ds):
                    continue
                if means[o["parent"]] != max(means[d] for d in ds):
                    out.append(Violation("winner-of-drawn", "winner-not-best",
                                         f"{where}: member {off + i} descends from {o['parent']} (mean {means[o['parent']]}) but "
                                         f"drawn {ds} have means {[str(means[d]) for d in ds]}"))
                    break
            # 5. fresh indices
            old_ix = {a["index"] for a in pre}
            new_ix = [o["index"] for o in mem[off:]]
            if len(set(new_ix)) != len(new_ix) or (cfg["e"] and mem and mem[0]["index"] in new_ix):
                out.append(Violation("index-fresh", "index-duplicate",
                                     f"{where}: indices of the new population {[o['index'] for o in mem]} are not pairwise distinct"))
            elif old_ix & set(new_ix):
                out.append(Violation("index-fresh", "index-reused",
                                     f"{where}: new members carry indices {sorted(old_ix & set(new_ix))} already used by the old population {sorted(old_ix)}"))
            # 6. faithful copies
            for name, o in [("elite", el)] + [(f"member {i}", o) for i, o in enumerate(mem)]:
                if valid_parent(o) and (o["fitness"] != pre[o["parent"]]["fitness"] or not o["same_net"]):
                    out.append(Violation("faithful-copy", "copy-differs",
                                         f"{where}: {name} is not a faithful copy of agent {o['parent']}: fitness {o['fitness']} vs "
                                         f"{pre[o['parent']]['fitness']}, networks equal={o['same_net']}"))
                    break
            # 7. old population untouched, no sharing with it
            if rec["old_changed"] or rec["old_list_changed"]:
                out.append(Violation("old-untouched", "old-population-changed",
                                     f"{where}: agents {rec['old_changed']} of the old population changed (list changed: {rec['old_list_changed']})"))
            if rec["alias"]:
                out.append(Violation("old-untouched", "copy-shares-storage",
                                     f"{where}: objects share storage: {rec['alias']}"))
            if rec.get("wiring_ok") is False:
                out.append(Violation("wiring", "utils-wiring",
                                     f"{where}: tournament_selection_and_mutation (mutation disabled) does not return the population select built"))
            if out:
                break
        return out

    # ---------- evidence helpers
    def pattern(self, case):
        w = case["cfg"]["w"]
        ms = [frac_mean(a["fitness"], w) for a in case["pop"]]
        order = {m: i for i, m in enumerate(sorted(set(ms)))}
        return [order[m] for m in ms], [min(len(a["fitness"]), w + 1) for a in case["pop"]]

    def key(self, case):
        pat, lens = self.pattern(case)
        g0 = case["gens"][0]
        k = {"kind": case["kind"], "via": case["via"], "cfg": case["cfg"], "pat": pat, "lens": lens,
             "draws": g0["draws"][:case["cfg"]["p"]], "G": len(case["gens"]),
             "later": hashlib.sha1(repr(case["gens"][1:]).encode()).hexdigest()[:10] if len(case["gens"]) > 1 else ""}
        return super().key(k)

    def nontrivial(self, case, obs):
        w = case["cfg"]["w"]
        for rec in obs["gens"]:
            if len(rec["pre"]) >= 2 and len({frac_mean(a["fitness"], w) for a in rec["pre"]}) >= 2:
                return True
        return False

    def classify(self, case, obs):
        cfg = case["cfg"]
        n = len(case["pop"])
        labs = [f"kind={case['kind']}", f"via={case['via']}", f"n={n if n <= 8 else ('9-16' if n <= 16 else '>16')}",
                f"tsize={cfg['t']}", f"window={cfg['w']}", f"elitism={cfg['e']}",
                "psize" + ("=" if cfg["p"] == n else ("<" if cfg["p"] < n else ">")) + "n",
                f"generations={len(case['gens']) if len(case['gens']) < 5 else '>=5'}"]
        for gi, (g, rec) in enumerate(zip(case["gens"], obs["gens"])):
            pre = rec["pre"]
            if not pre or rec["error"] is not None:
                labs.append("select-raised" if rec["error"] is not None else "empty")
                continue
            ms = [frac_mean(a["fitness"], cfg["w"]) for a in pre]
            if ms.count(max(ms)) > 1:
                labs.append("branch:tie-at-the-top")
                # a stable argsort gives the best rank to the LAST of the tied agents
                stable_pick = max(i for i, m in enumerate(ms) if m == max(ms))
                if rec["elite"]["parent"] != stable_pick:
                    labs.append("branch:top-tie-broken-unlike-a-stable-sort")
            if len(set(ms)) < len(ms):
                labs.append("branch:some-tie")
            if any(x < 0 for a in pre for x in a["fitness"]):
                labs.append("negative-scores")
            if len({len(a["fitness"]) for a in pre}) > 1:
                labs.append("unequal-length-histories")
            if any(len(a["fitness"]) < cfg["w"] for a in pre):
                labs.append("branch:history-shorter-than-window")
            if any(len(a["fitness"]) > cfg["w"] for a in pre):
                labs.append("branch:history-longer-than-window")
            off = 1 if cfg["e"] else 0
            for i, o in enumerate(rec["members"][off:]):
                ds = g["draws"][i]
                if len(set(ds)) < len(ds):
                    labs.append("branch:duplicate-draw")
                top = max(ms[d] for d in ds)
                if len({d for d in ds if ms[d] == top}) > 1:
                    labs.append("branch:tie-among-drawn-best")
                if ds and ms[ds[0]] != top:
                    labs.append("branch:winner-not-first-drawn")
            if not rec["wellcond"]:
                labs.append("skipped:float-order-differs-from-exact")
        return sorted(set(labs))

    nb_budget = 8        # K disagreements whose neighbourhood is searched (each search runs the code 5-6 times)

    def neighbours(self, case, rng):
        # same populations, other draws; then shorter chains
        if self.nb_budget <= 0:
            return
        self.nb_budget -= 1
        for _ in range(5):
            c = copy.deepcopy(case)
            size = len(c["pop"])
            for g in c["gens"]:
                g["draws"] = self.gen_draws(rng, max(1, size), c["cfg"]["t"], c["cfg"]["p"] + 2)
                size = c["cfg"]["p"]
            yield c
        if len(case["gens"]) > 1:
            c = copy.deepcopy(case)
            c["gens"] = c["gens"][:1]
            yield c


# A coqc process that dies without any output was killed from outside (OOM killer on a loaded box,
# wall-clock timeout): re-evaluate just those cases once, in smaller files, before calling it a
# correspondence error.  (Wrapper around the shared runner; vlib itself is not modified.)
_run_coq_cases = vlib.run_coq_cases


def _run_coq_cases_retry(pid, preamble, terms, shard=250, tag="cases", timeout=900):
    failing, errors = _run_coq_cases(pid, preamble, terms, shard=shard, tag=tag, timeout=timeout)
    if errors and all(not e["log"].strip() for e in errors):
        ids = {i for e in errors for i in e["ids"]}
        sub = [(cid, t) for cid, t in terms if cid in ids]
        f2, errors = _run_coq_cases(pid, preamble, sub, shard=max(1, shard // 3), tag=tag + "_retry", timeout=timeout)
        failing = sorted(set(failing) | set(f2))
    return failing, errors


vlib.run_coq_cases = _run_coq_cases_retry


if __name__ == "__main__":
    sys.exit(vlib.run_check(C05()))
