"""C05 — tournament selection keeps the fittest and builds a well-formed generation.

Real `TournamentSelection.select` (and `tournament_selection_and_mutation`) are run on populations of
real agents (DQN with tiny networks, so the real `clone()` runs) and of duck-typed light agents (for
the boundary-complete enumeration); `np.random.randint` is replaced by a scripted source whose draws
are handed to the Coq model.  Parents are recognised through a tag attribute that `clone` copies.
Tie classes are compared by mean value, never by position (np.argsort is not stable).
"""
from __future__ import annotations

import copy
import hashlib
import itertools
import sys
from fractions import Fraction

import numpy as np
import torch

import vlib
from vlib import Violation, coq_Q, coq_Z

from agilerl.hpo.tournament import TournamentSelection

TAG = "verif_tag"          # public name: EvolvableAlgorithm.clone copies public non-routine attributes


# ------------------------------------------------------------------ agents
class LiteAgent:
    """Duck-typed agent: exactly what select() uses (fitness, index, clone)."""

    def __init__(self, index, fitness, tag=None, body=None):
        self.index = index
        self.fitness = fitness
        self.body = body if body is not None else [0.0]
        setattr(self, TAG, tag)

    def clone(self, index=None, wrap=True):
        c = LiteAgent(self.index if index is None else index, copy.deepcopy(self.fitness),
                      getattr(self, TAG), copy.deepcopy(self.body))
        return c


def _inner(agent):
    """(wrapper or None, algorithm): AgentWrapper instances keep the algorithm in `.agent`"""
    if not isinstance(agent, LiteAgent) and "agent" in getattr(agent, "__dict__", {}):
        return agent, agent.__dict__["agent"]
    return None, agent


def _walk(prefix, v, out, depth=0):
    """flatten a value into slots: (name, kind, leaf) with kind in tensor|array|list|scalar"""
    if torch.is_tensor(v):
        out.append((prefix, "tensor", v))
    elif isinstance(v, np.ndarray):
        out.append((prefix, "array", v))
    elif isinstance(v, (list, tuple)):
        if isinstance(v, list):
            out.append((prefix, "list", v))
        if depth < 4:
            for i, x in enumerate(v):
                _walk(f"{prefix}[{i}]", x, out, depth + 1)
    elif isinstance(v, dict):
        if depth < 4:
            for k in sorted(v, key=repr):
                _walk(f"{prefix}[{k!r}]", v[k], out, depth + 1)
    elif isinstance(v, (int, float, str, bool, type(None), np.generic)):
        out.append((prefix, "scalar", v))
    elif isinstance(v, torch.nn.Module):
        out.append((prefix, "module", v))
        for k, t in v.state_dict().items():
            out.append((f"{prefix}/{k}", "tensor", t))
    elif hasattr(v, "__dict__") and depth < 3 and type(v).__module__.startswith("agilerl"):
        for k in sorted(vars(v)):
            if not k.startswith("__") and not callable(vars(v)[k]):
                _walk(f"{prefix}.{k}", vars(v)[k], out, depth + 1)
    else:
        out.append((prefix, "scalar", repr(v) if type(v).__module__.startswith("gymnasium") else type(v).__name__))


def slots(agent):
    """every piece of state of an agent: plain attributes (tensors, arrays, lists, scalars, incl. those of an
    AgentWrapper), all evolvable networks, all optimizer states.  name -> (kind, leaf)"""
    out = []
    if isinstance(agent, LiteAgent):
        _walk("attr:fitness", agent.fitness, out)
        _walk("attr:body", agent.body, out)
        out.append(("attr:index", "scalar", agent.index))
        return out
    wrapper, algo = _inner(agent)
    if wrapper is not None:
        for k in sorted(vars(wrapper)):
            if k in ("agent", "agent_get_action", "agent_learn", TAG) or callable(vars(wrapper)[k]):
                continue
            _walk(f"wrapper:{k}", vars(wrapper)[k], out)
    from agilerl.algorithms.core.base import EvolvableAlgorithm
    try:
        attrs = EvolvableAlgorithm.inspect_attributes(algo)
    except Exception:  # noqa: BLE001
        attrs = {k: v for k, v in vars(algo).items() if not k.startswith("_")}
    for k in sorted(attrs):
        v = attrs[k]
        if k == TAG or callable(v) or isinstance(v, EvolvableAlgorithm):
            continue
        _walk(f"attr:{k}", v, out)
    shared = set()
    try:
        for g in algo.registry.groups:
            sh = g.shared if isinstance(g.shared, (list, tuple)) else ([g.shared] if g.shared else [])
            shared.update(sh)
    except AttributeError:
        pass
    for name, net in sorted(algo.evolvable_attributes(networks_only=True).items()):
        _walk(("lagnet:" if name in shared else "net:") + name, net, out)
    for i, t in enumerate(opt_state_tensors(algo)):
        out.append((f"opt:{i}", "tensor", t))
    return out


def _leaf_bytes(kind, v):
    if kind == "tensor":
        return v.detach().cpu().numpy().tobytes() + str(tuple(v.shape)).encode()
    if kind == "array":
        return v.tobytes() + str(v.shape).encode()
    if kind == "list":
        return f"list[{len(v)}]".encode()
    if kind == "module":
        return type(v).__name__.encode()
    return repr(v).encode()


def full_state(agent):
    """slot name -> content hash, for everything the agent holds"""
    return {name: hashlib.sha1(_leaf_bytes(kind, v)).hexdigest()[:12] for name, kind, v in slots(agent)}


# what a faithful copy must reproduce: everything except the index, and except lagging (target) networks, which
# clone() re-synchronises with the online network through the mutation hook (C01/C08 observation, not a C05 clause)
def faithful_view(state):
    # attr:mut is the label of the last mutation, rewritten by Mutations.mutation even when it is a no-op
    return {k: v for k, v in state.items() if k not in ("attr:index", "attr:mut") and not k.startswith("lagnet:")}


def net_fingerprint(agent):
    st = faithful_view(full_state(agent))
    return hashlib.sha1(repr(sorted(st.items())).encode()).hexdigest()[:16]


def opt_state_tensors(agent):
    """tensors held in the state of the agent's optimizers (Adam moments, step counters)"""
    out = []
    try:
        for oc in agent.registry.optimizers:
            w = getattr(agent, oc.name)
            opts = w.optimizer if isinstance(w.optimizer, (list, tuple)) else [w.optimizer]
            for o in opts:
                for st in o.state.values():
                    for k in sorted(st):
                        if torch.is_tensor(st[k]):
                            out.append(st[k])
    except AttributeError:
        pass          # optimizers organised differently: network parameters alone are compared
    return out


def storages(agent):
    """identities of the mutable pieces an agent owns: storage key -> slot name"""
    out = {id(agent): "object"}
    wrapper, algo = _inner(agent)
    if wrapper is not None:
        out[id(algo)] = "wrapped-agent"
    for name, kind, v in slots(agent):
        if kind == "tensor":
            if v.numel() > 0:                  # empty tensors have no storage of their own (data_ptr 0)
                out[("ptr", v.data_ptr())] = name
        # numpy arrays: constructor arguments such as DDPG's expl_noise / mean_noise are handed from the parent to
        # the clone's constructor as the same (constant) array object; interference through arrays is detected
        # dynamically (a member trains and acts, everybody else is re-inspected), not by identity
        elif kind in ("list", "module") and "['" not in name:
            # lists inside configuration dicts (net_config, hp_config ...) are descriptors handed from the parent's
            # constructor arguments to the clone's: their content is compared, their identity is not
            out[id(v)] = name
    return out


def snapshot(agent):
    st = full_state(agent)
    return {"index": int(agent.index), "fitness": [float(x) for x in agent.fitness],
            "tag": getattr(agent, TAG, None),
            "fp": hashlib.sha1(repr(sorted(faithful_view(st).items())).encode()).hexdigest()[:16],
            "full": hashlib.sha1(repr(sorted(st.items())).encode()).hexdigest()[:16],
            "fstate": faithful_view(st),
            "id": id(agent), "fid": id(agent.fitness)}


class Script:
    """scripted np.random.randint: hands out the prepared draws, records what was asked for"""

    def __init__(self, draws):
        self.draws = draws
        self.k = 0
        self.reqs = []

    def __call__(self, low, high=None, size=None, dtype=int):
        if high is None:
            low, high = 0, low
        if size is None:
            sz = -1
        elif isinstance(size, (tuple, list)):
            sz = int(np.prod(size))
        else:
            sz = int(size)
        self.reqs.append([int(low), int(high), sz])
        if self.k >= len(self.draws):
            raise RuntimeError("scripted randint exhausted: select drew more tournaments than population_size + 2")
        d = self.draws[self.k]
        self.k += 1
        if size is None:
            return int(d[0])
        return np.array(d, dtype=np.int64)


def frac_mean(fit, w):
    win = fit[-w:]
    return sum(Fraction(x) for x in win) / len(win)


def well_conditioned(pop_fitness, w):
    """float order of np.mean == exact order of the rational means (so model and code see the same order)"""
    fm = [frac_mean(f, w) for f in pop_fitness]
    xm = [float(np.mean(f[-w:])) for f in pop_fitness]
    for i in range(len(fm)):
        for j in range(i):
            a = (fm[i] > fm[j]) - (fm[i] < fm[j])
            b = (xm[i] > xm[j]) - (xm[i] < xm[j])
            if a != b:
                return False
    return True


# ------------------------------------------------------------------ the driver
class C05(vlib.Driver):
    pid = "C05"
    preamble = ("From Coq Require Import ZArith QArith.\n"
                "From AgileV Require Import Base.Prelude C05.Model C05.Check.\nOpen Scope nat_scope.")
    rule = ("a case = configuration (tournament size, elitism, population size, eval window) + population (indices, "
            "fitness histories) + scripted tournament draws, possibly chained over generations. Distinct = distinct "
            "(agent kind, cfg, ordinal pattern of the window means incl. ties, history lengths, draws, generations). "
            "Non-trivial = some generation has a population >= 2 whose means are not all equal.")
    trusted_base = ["hand-written model coq/theories/C05/Model.v",
                    "correspondence harness harness/c05.py (scripted np.random.randint, parent tags copied by clone, "
                    "exact float->Q import of fitness values)"]
    assumptions = ["tie classes are compared by score value, never by position (NumPy's sort is not stable; 20+ quick cases break a "
                   "top tie unlike a stable sort)",
                   "the scores the code ranks by are observed (np.mean results while select runs) and accepted when within relative "
                   "2^-40 of the exact window means; ranking is then checked on the observed scores, so float rounding of near-ties "
                   "needs no assumption.  When they cannot be observed (mean computed otherwise) exact means are used and the "
                   "generation must be well-conditioned (float order == exact order, checked with fractions.Fraction)",
                   "np.argsort returns a permutation that sorts its input (then argsort().argsort() is a valid ranking: theorem "
                   "any_argsort_gives_valid_ranking)",
                   "every agent has >= 1 fitness entry and the population is non-empty (guards stated in the theorems)",
                   "EvolvableAlgorithm.clone itself is property C01; here only fitness/index/tag/network-parameter equality "
                   "and non-aliasing of the copies are observed"]
    shard = 40
    notes = ["exhaustive=true refers to stream A only (every weak ordering of the window means for n<=4 x every draw tuple x "
             "both elitism settings); streams B-F are seeded",
             "label branch:top-tie-broken-unlike-a-stable-sort counts cases where NumPy's argsort ranked a tied agent differently "
             "from a stable sort: tie classes are therefore compared by mean value, never by position"]

    # ---------- generation
    VALS = [-8.0, -2.5, -1.0, -0.25, 0.0, 0.5, 1.0, 1.0, 2.0, 2.0, 3.75, 6.0, 10.0]

    def fitness_for_mean(self, mean_x4, w, shape, rng):
        """a history whose last-w window has mean mean_x4/4 exactly; shape picks length/decoration"""
        m = mean_x4 / 4.0
        if shape == 0:
            return [m]                                   # shorter than any window > 1
        if shape == 1:
            return [100.0, -100.0] + [m] * w              # older scores must be ignored
        if shape == 2 and w >= 2:
            return [7.0] + [m - 1.0] + [m] * (w - 2) + [m + 1.0]   # same mean, different entries
        if shape == 3:
            return [m] * max(1, w - 1) if w > 1 else [-3.0, m]      # history shorter than the window
        return [m] * w

    def gen_draws(self, rng, n, t, count):
        return [[rng.randrange(n) for _ in range(t)] for _ in range(count)]

    def rand_fitness(self, rng, n, w, float_stream=False):
        fits = []
        for i in range(n):
            L = rng.choice([1, 1, 2, 3, w, w + 1, w + 2, 7])
            if float_stream:
                f = [round(rng.uniform(-50, 50), rng.choice([1, 2, 3])) for _ in range(L)]
            else:
                f = [rng.choice(self.VALS) for _ in range(L)]
            fits.append(f)
        # force ties: copy a window / permute a window / same mean with other entries
        for i in range(1, n):
            r = rng.random()
            if r < 0.18:
                fits[i] = list(fits[rng.randrange(i)])
            elif r < 0.30 and not float_stream:
                src = fits[rng.randrange(i)][-w:]
                fits[i] = [rng.choice(self.VALS)] * rng.randint(0, 2) + list(reversed(src)) \
                    if len(src) >= w else list(reversed(src))
        return fits

    def rand_indices(self, rng, n):
        style = rng.random()
        if style < 0.4:
            return list(range(n))
        if style < 0.8:
            return rng.sample(range(0, max(40, 2 * n)), n)
        if style < 0.9:
            base = rng.randint(50, 3000)
            return rng.sample(range(base, base + 3 * n + 3), n)
        if style < 0.97:
            return sorted(rng.sample(range(-20, 60), n), reverse=True)    # descending: the largest index comes first
        return [2 ** 40 + i for i in rng.sample(range(0, 5 * n), n)]      # beyond int32

    def generate(self, tier, rng):
        cases = []
        quick = tier == "quick"
        self.shard = 40 if quick else 12      # chains make large terms: spread them over more coqc processes
        # A. boundary-complete enumeration (light agents): every weak ordering of the means for n <= 4,
        #    every tournament draw tuple, both elitism settings
        self.exhaustive = True
        for n, ts_list in ((1, [1, 2]), (2, [1, 2, 3]), (3, [1, 2]), (4, [2] if quick else [1, 2, 3])):
            levels = range(min(n, 3))
            for pat in itertools.product(levels, repeat=n):
                for t in ts_list:
                    tuples = list(itertools.product(range(n), repeat=t))
                    for elit in (True, False):
                        w = 1 + (sum(pat) + t) % 3
                        fits = [self.fitness_for_mean(4 * lv - 3, w, (i + lv + t) % 5, rng) for i, lv in enumerate(pat)]
                        p = len(tuples) + (1 if elit else 0)
                        cases.append({"kind": "lite", "via": "select",
                                      "cfg": {"t": t, "e": elit, "p": p, "w": w},
                                      "pop": [{"index": 3 * i + 1, "fitness": f} for i, f in enumerate(fits)],
                                      "gens": [{"draws": [list(x) for x in tuples] + self.gen_draws(rng, n, t, 2), "newfit": []}]})
        # B. seeded single selections on real DQN agents
        nb = 60 if quick else 200
        for _ in range(nb):
            n = rng.choice([1, 2, 2, 3, 3, 4, 5, 6, 8]) if quick else rng.choice([1, 2, 3, 4, 5, 6, 8, 10, 12])
            p = rng.choice([1, 2, 3, n, n, n, n + 1, 8]) if quick else rng.choice([1, 2, n, n, n + 2, 12])
            t = rng.randint(1, 5)
            w = rng.randint(1, 5)
            cases.append({"kind": "dqn", "via": "select", "cfg": {"t": t, "e": rng.random() < 0.6, "p": p, "w": w},
                          "pop": [{"index": ix, "fitness": f} for ix, f in zip(self.rand_indices(rng, n), self.rand_fitness(rng, n, w))],
                          "gens": [{"draws": self.gen_draws(rng, n, t, p + 2), "newfit": []}]})
        # C. chains of generations on real agents, half of them through tournament_selection_and_mutation
        nc, G = (4, 6) if quick else (8, 10)
        for ci in range(nc):
            n = rng.choice([2, 3, 4, 6])
            p = rng.choice([n, n, 4, 6])
            t, w = rng.randint(1, 4), rng.randint(1, 4)
            cases.append(self.chain_case(rng, "dqn", "utils" if ci % 2 == 0 else "select", n, p, t, w, rng.random() < 0.7, G))
        # D. long chains, light agents (sizes where NumPy switches sort algorithm in the thorough tier)
        nd, G = (16, 14) if quick else (40, 12)
        for ci in range(nd):
            n = rng.randint(2, 8) if quick else rng.choice([2, 5, 8, 12, 16, 17, 20, 24])
            p = rng.choice([n, n, max(1, n - 1), n + 1])
            t, w = rng.randint(1, 5), rng.randint(1, 5)
            cases.append(self.chain_case(rng, "lite", "select", n, p, t, w, rng.random() < 0.7, G))
        # E. non-dyadic fitness values (order checked against exact rationals per case), light agents;
        #    populations beyond 16 where the sort is not an insertion sort
        ne = 60 if quick else 450
        made = 0
        while made < ne:
            n = rng.choice([2, 3, 5, 8, 12, 17, 24]) if quick else rng.choice([2, 3, 5, 8, 12, 17, 24, 33, 48])
            t, w = rng.randint(1, 5), rng.randint(1, 5)
            fits = self.rand_fitness(rng, n, w, float_stream=rng.random() < 0.7)
            if not well_conditioned(fits, w):
                continue
            made += 1
            p = rng.choice([n, n, n + 1, max(1, n // 2)])
            cases.append({"kind": "lite", "via": "select", "cfg": {"t": t, "e": rng.random() < 0.5, "p": p, "w": w},
                          "pop": [{"index": ix, "fitness": f} for ix, f in zip(self.rand_indices(rng, n), fits)],
                          "gens": [{"draws": self.gen_draws(rng, n, t, p + 2), "newfit": []}]})
        # G. other real agents, each having LEARNED and ACTED before selection: bandits (confidence matrix in a plain
        #    tensor updated in place), an actor-critic (noise state in arrays), a multi-agent algorithm (lists of
        #    networks/optimizers), AgentWrapper-wrapped populations (RSNorm: index/fitness reached through the wrapper,
        #    running statistics on the wrapper).  Single selections and chains; every member trains and acts afterwards.
        kinds = ["ucb", "ts", "ddpg", "maddpg", "rsnorm", "rsnorm-ddpg", "td3", "cqn", "ppo", "matd3"]
        for kind in kinds:
            heavy = kind in ("maddpg", "matd3")
            extra = kind in ("td3", "cqn", "ppo", "matd3")      # more algorithms: one selection each in the quick tier
            for rep in range((1 if heavy or extra else 2) if quick else (2 if heavy else 4)):
                n = rng.choice([2, 3]) if heavy else rng.choice([2, 3, 4])
                p = rng.choice([n, n + 1, 2]) if not heavy else rng.choice([2, 3])
                t, w = rng.randint(1, 3), rng.randint(1, 3)
                cases.append({"kind": kind, "via": "select", "cfg": {"t": t, "e": rng.random() < 0.6, "p": p, "w": w},
                              "ftype": rng.choice(["float", "np", "int"]),
                              "pop": [{"index": ix, "fitness": f} for ix, f in zip(self.rand_indices(rng, n), self.rand_fitness(rng, n, w))],
                              "gens": [{"draws": self.gen_draws(rng, n, t, p + 2), "newfit": []}]})
            if extra and quick:
                continue
            n = 2 if heavy else 3
            c = self.chain_case(rng, kind, "utils" if kind in ("rsnorm", "ucb") else "select", n, n, rng.randint(1, 3), rng.randint(1, 2),
                                True, 3 if quick else 4)
            c["ftype"] = "np"
            cases.append(c)
        # G'. populations that were saved and loaded back before the selection (a resumed run)
        for kind in ("dqn", "ucb"):
            for rep in range(1 if quick else 2):
                n, p, t, w = 3, rng.choice([3, 4]), 2, rng.randint(1, 3)
                c = self.chain_case(rng, kind, "select", n, p, t, w, True, 2 if quick else 4)
                c["reload"] = True
                cases.append(c)
        # H. clone -> mutate -> clone chains: real architecture / parameter / hyper-parameter mutations between the
        #    selections (tournament_selection_and_mutation as the training loops call it)
        for ci in range(2 if quick else 4):
            c = self.chain_case(rng, "dqn" if ci % 2 == 0 else "rsnorm", "utils", 3, rng.choice([3, 4]), 2, rng.randint(1, 3),
                                rng.random() < 0.7, 5 if quick else 6)
            c["mut"] = "real"
            cases.append(c)
        # E'. near-ties: windows whose exact means are equal or 1 ulp apart while the float64 means may differ
        #     (order of summation): ranked by the scores the code actually computed
        near = [[0.1, 0.2, 0.3], [0.3, 0.2, 0.1], [0.2, 0.2, 0.2], [0.3, 0.1, 0.2], [0.1, 0.1, 0.4], [0.6 / 3, 0.2, 0.2],
                [0.2, 0.2, float(np.nextafter(0.2, 1))], [0.7, 0.1, -0.2], [0.7, -0.2, 0.1],
                [-1e9, -1e9 + 1.0, -1e9], [1e17, 1e17, 1e17 + 32.0], [1e17 + 16.0, 1e17, 1e17 + 16.0], [1e-300, 2e-300, 3e-300]]   # extreme but legal magnitudes
        # (catastrophic cancellation such as [1e16, 1.0, -1e16], float mean 0.0 vs exact 1/3, is outside the claim:
        #  observed scores are accepted only within relative 2^-40 of the exact window mean)
        for rep in range(12 if quick else 60):
            n = rng.choice([2, 3, 4, 6, 10])
            fits = [[rng.choice(self.VALS)] * rng.randint(0, 2) + list(rng.choice(near)) for _ in range(n)]
            t = rng.randint(1, 4)
            p = rng.choice([n, n + 1])
            cases.append({"kind": "lite", "via": "select", "cfg": {"t": t, "e": rng.random() < 0.5, "p": p, "w": 3},
                          "pop": [{"index": ix, "fitness": f} for ix, f in zip(self.rand_indices(rng, n), fits)],
                          "gens": [{"draws": self.gen_draws(rng, n, t, p + 2), "newfit": []}]})
        # R. the same selector object on populations it did not produce (state must not persist across calls):
        #    newcomers with the next free / higher indices replacing members between generations, a second population
        #    with its own index range (higher, lower, overlapping), the very same population selected twice in a row,
        #    a raising call (empty population) followed by further use.  Boundary-complete over elitism x where the
        #    fittest agent's index falls relative to what the selector handed out before.
        for kind in (["lite", "dqn", "rsnorm"] if quick else ["lite"] * 6 + ["dqn", "rsnorm", "ucb", "ddpg"]):
            for elit in (True, False):
                n = p = 4
                t, w = 2, rng.randint(1, 2)
                first = [{"index": i, "fitness": [float(rng.choice([1, 2, 3]))] * w} for i in range(n)]
                gens = [{"draws": self.gen_draws(rng, n, t, p + 2), "newfit": [[rng.choice(self.VALS)] for _ in range(p)]}
                        for _ in range(3)]
                # after 3 generations the selector has handed out n + 3*(p - elit) - 1 as its highest index
                top = max(a["index"] for a in first) + 3 * (p - (1 if elit else 0))
                for off in (1, 2, p - 1, p, p + 3):       # the fittest newcomer's index relative to that
                    c = {"kind": kind, "via": "select", "cfg": {"t": t, "e": elit, "p": p, "w": w}, "pop": first,
                         "gens": copy.deepcopy(gens) + [
                             {"inject": [{"pos": rng.randrange(n), "index": top + off, "fitness": [50.0] * w}],
                              "draws": self.gen_draws(rng, n, t, p + 2), "newfit": [[1.0]] * p},
                             {"draws": self.gen_draws(rng, n, t, p + 2), "newfit": []}]}
                    if off == p - 1:
                        c["itype"] = "np"            # indices that came out of numpy (np.int64)
                    cases.append(c)
                    if kind != "lite":
                        break
                for base in ((top + 1, "above"), (0, "restart"), (top - 2, "overlap")):
                    second = [{"index": base[0] + i, "fitness": [float(i)] * w} for i in range(n)]   # fittest has the highest index
                    c = {"kind": kind, "via": "select", "cfg": {"t": t, "e": elit, "p": p, "w": w}, "pop": first,
                         "gens": copy.deepcopy(gens[:2]) + [
                             {"newpop": second, "draws": self.gen_draws(rng, n, t, p + 2), "newfit": [[1.0]] * p},
                             {"keep": True, "draws": self.gen_draws(rng, n, t, p + 2), "newfit": []},
                             {"draws": self.gen_draws(rng, n, t, p + 2), "newfit": []}]}
                    cases.append(c)
                    if kind != "lite":
                        break
        # a raising call followed by further use of the same selector
        cases.append({"kind": "lite", "via": "select", "cfg": {"t": 2, "e": True, "p": 3, "w": 1}, "pop": [],
                      "gens": [{"draws": self.gen_draws(rng, 1, 2, 5), "newfit": []},
                               {"newpop": [{"index": 7, "fitness": [1.0]}, {"index": 9, "fitness": [2.0]}],
                                "draws": self.gen_draws(rng, 2, 2, 5), "newfit": []}]})
        # F. the guard: an empty population is rejected by the code and by the model
        cases.append({"kind": "lite", "via": "select", "cfg": {"t": 2, "e": True, "p": 3, "w": 1}, "pop": [],
                      "gens": [{"draws": self.gen_draws(rng, 1, 2, 5), "newfit": []}]})
        return cases

    def chain_case(self, rng, kind, via, n, p, t, w, elit, G):
        gens = []
        size = n
        for g in range(G):
            gens.append({"draws": self.gen_draws(rng, size, t, p + 2),
                         "newfit": [[rng.choice(self.VALS) for _ in range(rng.choice([1, 1, 1, 2]))] for _ in range(p)]})
            size = p
        # a few generations where everybody scores the same: long-lived ties
        for g in rng.sample(range(G), max(1, G // 5)):
            v = rng.choice(self.VALS)
            gens[g]["newfit"] = [[v] * w for _ in range(p)]
        return {"kind": kind, "via": via, "cfg": {"t": t, "e": elit, "p": p, "w": w},
                "pop": [{"index": ix, "fitness": f} for ix, f in zip(self.rand_indices(rng, n), self.rand_fitness(rng, n, w))],
                "gens": gens}

    # ---------- implementation
    def setup(self, tier):
        self.pools = {}
        self.muts = {}

    @property
    def NET(self):
        return {"encoder_config": {"hidden_size": [8]}}      # partial net_config on purpose (DESIGN 8.21b); one dict per agent

    def build_agent(self, kind, k):
        """a real agent that has LEARNED and ACTED (optimizer state, bandit confidence matrix, noise state and
        observation normaliser are no longer at their initial values, so clone has to carry them over)"""
        from gymnasium import spaces
        box3 = spaces.Box(-1, 1, (3,), dtype=np.float32)
        if kind == "dqn":
            from agilerl.algorithms.dqn import DQN
            ag = DQN(box3, spaces.Discrete(2), index=k, net_config=self.NET)
        elif kind == "rsnorm":
            from agilerl.algorithms.dqn import DQN
            from agilerl.wrappers.agent import RSNorm
            ag = DQN.population(1, box3, spaces.Discrete(2), wrapper_cls=RSNorm, net_config=self.NET)[0]
        elif kind == "rsnorm-ddpg":
            from agilerl.algorithms.ddpg import DDPG
            from agilerl.wrappers.agent import RSNorm
            ag = RSNorm(DDPG(box3, spaces.Box(-1, 1, (2,), dtype=np.float32), index=k, net_config=self.NET, batch_size=4))
        elif kind in ("ucb", "ts"):
            from agilerl.algorithms.neural_ucb_bandit import NeuralUCB
            from agilerl.algorithms.neural_ts_bandit import NeuralTS
            cls = NeuralUCB if kind == "ucb" else NeuralTS
            ag = cls(spaces.Box(-1, 1, (4,), dtype=np.float32), spaces.Discrete(3), index=k, net_config=self.NET, batch_size=4)
        elif kind == "ddpg":
            from agilerl.algorithms.ddpg import DDPG
            ag = DDPG(box3, spaces.Box(-1, 1, (2,), dtype=np.float32), index=k, net_config=self.NET, batch_size=4)
        elif kind == "td3":
            from agilerl.algorithms.td3 import TD3
            ag = TD3(box3, spaces.Box(-1, 1, (2,), dtype=np.float32), index=k, net_config=self.NET, batch_size=4)
        elif kind == "cqn":
            from agilerl.algorithms.cqn import CQN
            ag = CQN(box3, spaces.Discrete(2), index=k, net_config=self.NET, batch_size=4)
        elif kind == "ppo":
            from agilerl.algorithms.ppo import PPO
            ag = PPO(box3, spaces.Discrete(2), index=k, net_config=self.NET, batch_size=4)
        elif kind == "matd3":
            from agilerl.algorithms.matd3 import MATD3
            ids = ["agent_0", "agent_1"]
            ag = MATD3([box3, box3], [spaces.Box(-1, 1, (2,), dtype=np.float32)] * 2, agent_ids=ids, index=k,
                       net_config=self.NET, batch_size=4)
        elif kind == "maddpg":
            from agilerl.algorithms.maddpg import MADDPG
            ids = ["agent_0", "agent_1"]
            ag = MADDPG([box3, box3], [spaces.Box(-1, 1, (2,), dtype=np.float32)] * 2, agent_ids=ids, index=k,
                        net_config=self.NET, batch_size=4)
        else:
            raise ValueError(kind)
        for _ in range(2):
            self.exercise(kind, ag)
        return ag

    def exercise(self, kind, ag):
        """what the training loop does with a member: act, learn"""
        from tensordict import TensorDict
        b = 4
        if kind == "lite":
            ag.body.append(1.0)                     # in-place update of owned state
            ag.body[0] += 1.0
            return
        if kind in ("ucb", "ts"):
            ag.get_action(np.random.randn(3, 4).astype(np.float32))      # updates sigma_inv in place
            ag.learn(TensorDict({"obs": torch.randn(b, 4), "reward": torch.randn(b, 1)}, batch_size=[b]))
        elif kind == "ppo":
            ag.get_action(np.random.randn(1, 3).astype(np.float32))      # on-policy: acting only (rollout learning is C17)
        elif kind in ("dqn", "rsnorm", "cqn"):
            ag.get_action(np.random.randn(1, 3).astype(np.float32))
            ag.learn(TensorDict({"obs": torch.randn(b, 3), "action": torch.randint(0, 2, (b, 1)),
                                 "reward": torch.randn(b, 1), "next_obs": torch.randn(b, 3),
                                 "done": torch.zeros(b, 1)}, batch_size=[b]))
        elif kind in ("ddpg", "rsnorm-ddpg", "td3"):
            ag.get_action(np.random.randn(1, 3).astype(np.float32))
            ag.learn(TensorDict({"obs": torch.randn(b, 3), "action": torch.rand(b, 2),
                                 "reward": torch.randn(b, 1), "next_obs": torch.randn(b, 3),
                                 "done": torch.zeros(b, 1)}, batch_size=[b]))
        elif kind in ("maddpg", "matd3"):
            ids = ["agent_0", "agent_1"]
            ag.get_action({i: np.random.randn(1, 3).astype(np.float32) for i in ids})
            ag.learn(({i: torch.randn(b, 3) for i in ids}, {i: torch.rand(b, 2) for i in ids},
                      {i: torch.randn(b, 1) for i in ids}, {i: torch.randn(b, 3) for i in ids},
                      {i: torch.zeros(b, 1) for i in ids}))

    def pool_agent(self, kind, k):
        pool = self.pools.setdefault(kind, [])
        while len(pool) <= k:
            pool.append(self.build_agent(kind, len(pool)))
        return pool[k]

    def make_pop(self, case):
        pop = []
        for i, a in enumerate(case["pop"]):
            fit = [self.as_type(x, case.get("ftype", "float")) for x in a["fitness"]]
            if case["kind"] == "lite":
                ag = LiteAgent(np.int64(a["index"]) if case.get("itype") == "np" else a["index"], fit, i, [float(i), 0.5])
            else:
                ag = self.pool_agent(case["kind"], i)
                if case.get("reload"):
                    # the population was saved and loaded back before this selection (resumed training run)
                    d = vlib.BUILD / (self.pid + vlib.ALT_TAG) / "ckpt"
                    d.mkdir(parents=True, exist_ok=True)
                    path = str(d / f"{case['kind']}_{i}.pt")
                    ag.save_checkpoint(path)
                    ag = type(ag).load(path)
                ag.index = np.int64(a["index"]) if case.get("itype") == "np" else a["index"]
                ag.fitness = fit
                setattr(ag, TAG, i)
            pop.append(ag)
        return pop

    @staticmethod
    def as_type(x, ftype):
        """scores as the training loops produce them: python floats, np.float64 (np.mean of rewards), ints"""
        if ftype == "np":
            return np.float64(x)
        if ftype == "int" and float(x).is_integer():
            return int(x)
        return float(x)

    def mutations(self, mode):
        from agilerl.hpo.mutation import Mutations
        if mode not in self.muts:
            if mode == "real":      # clone -> mutate -> clone chains
                self.muts[mode] = Mutations(no_mutation=0.2, architecture=0.3, new_layer_prob=0.3, parameters=0.3,
                                            activation=0.1, rl_hp=0.1, rand_seed=7)
            else:
                self.muts[mode] = Mutations(no_mutation=1.0, architecture=0, new_layer_prob=0, parameters=0,
                                            activation=0, rl_hp=0, rand_seed=1)
        return self.muts[mode]

    def run_impl(self, case):
        cfg = case["cfg"]
        ts = TournamentSelection(cfg["t"], cfg["e"], cfg["p"], cfg["w"])
        pop = self.make_pop(case)
        gens_obs = []
        orig = np.random.randint
        for g in case["gens"]:
            # the SAME selector object is used for every generation of the case.  Between two calls the caller may
            # hand it another population (a second run / a restored checkpoint) or replace members by newcomers
            # carrying the next free indices: the selector must not rely on anything it remembered
            if g.get("newpop") is not None:
                pop = self.make_pop({"kind": case["kind"], "pop": g["newpop"], "ftype": case.get("ftype", "float")})
            for inj in g.get("inject", []):
                sub = self.make_pop({"kind": case["kind"], "ftype": case.get("ftype", "float"),
                                     "pop": [{"index": 0, "fitness": [0.0]}] * inj["pos"] + [{"index": inj["index"], "fitness": inj["fitness"]}]})
                pop = list(pop)
                pop[inj["pos"]] = sub[inj["pos"]]
            for i, ag in enumerate(pop):
                setattr(ag, TAG, i)
            pre = [snapshot(a) for a in pop]
            pre_store = [storages(a) for a in pop]
            pop_ids = [id(a) for a in pop]
            rec = {"pre": [{"index": s["index"], "fitness": s["fitness"]} for s in pre]}
            rec["wellcond"] = well_conditioned([s["fitness"] for s in pre], cfg["w"]) if pre else True
            script = Script(g["draws"])
            np.random.randint = script
            captured = {}
            # the scores the code ranks by: results of np.mean on plain lists while select runs
            mean_calls = []
            orig_mean = np.mean

            def rec_mean(a, *args, **kw):
                r = orig_mean(a, *args, **kw)
                if isinstance(a, list) and not args and not kw:
                    try:
                        mean_calls.append(([float(x) for x in a], float(r)))
                    except (TypeError, ValueError):
                        pass
                return r
            np.mean = rec_mean
            try:
                if case["via"] == "utils":
                    from agilerl.utils.utils import tournament_selection_and_mutation
                    mut = self.mutations(case.get("mut", "none"))
                    real_select = ts.select

                    def spy(population, _f=real_select):
                        e, npop = _f(population)
                        np.random.randint = orig          # the scripted source serves select only, not the mutations
                        np.mean = orig_mean
                        captured["elite"] = e
                        captured["npop"] = list(npop)
                        captured["raw"] = [snapshot(a) for a in npop]
                        return e, npop
                    ts.select = spy
                    try:
                        new_pop = tournament_selection_and_mutation(pop, ts, mut, "verif-env",
                                                                    algo=None if len(case["gens"]) % 2 else "DQN")
                    finally:
                        ts.select = real_select
                    elite = captured.get("elite")
                else:
                    elite, new_pop = ts.select(pop)
                err = None
            except Exception as e:  # noqa: BLE001 — the observation records that the call raised
                err = f"{type(e).__name__}: {e}"
                if "raw" in captured:
                    # select had returned: the exception comes from the mutation half of the wrapper (property C02/C03
                    # territory).  Observe what select built, then stop the chain.
                    rec["mutation_error"] = err
                    err, elite, new_pop = None, captured["elite"], captured["npop"]
            finally:
                np.random.randint = orig
                np.mean = orig_mean
            # accepted only if they are, in order, the means of exactly the evaluation windows (otherwise the exact
            # rational means are used and the generation must be well-conditioned)
            wins = [s["fitness"][-cfg["w"]:] for s in pre]
            if len(mean_calls) >= len(pre) > 0 and [c[0] for c in mean_calls[:len(pre)]] == wins:
                rec["mobs"] = [c[1] for c in mean_calls[:len(pre)]]
            else:
                rec["mobs"] = None
            rec["reqs"] = script.reqs
            rec["used"] = script.k
            rec["error"] = err
            # the old population after the call
            post = [snapshot(a) for a in pop]
            rec["old_changed"] = [i for i, (a, b) in enumerate(zip(pre, post)) if a != b]
            rec["old_list_changed"] = pop_ids != [id(a) for a in pop]
            if err is not None:
                gens_obs.append(rec)
                if not pre:
                    continue       # the empty population was rejected (the guard); the selector is used again below
                break
            is_list = isinstance(new_pop, list)
            real_mut = case["via"] == "utils" and case.get("mut") == "real"
            rec["elite"] = self.observe(elite, pre)
            if "raw" in captured:
                # members as select built them (before the real mutation changed their networks)
                rec["members"] = [{"parent": s["tag"], "index": s["index"], "fitness": s["fitness"], "fp": s["fp"],
                                   "same_net": (s["tag"] is not None and 0 <= s["tag"] < len(pre) and pre[s["tag"]]["fp"] == s["fp"])}
                                  for s in captured["raw"]]
            else:
                rec["members"] = [self.observe(a, pre) for a in new_pop]
            if case["via"] == "utils" and "raw" in captured:
                # what select returned must be what the wrapper hands on: same agents in the same order (and, when
                # mutation is configured as a no-op, with the same contents)
                def ident(ix, tag, fit, fp):
                    # contents are compared only for DQN with mutation disabled: Mutations.mutation runs the agents'
                    # mutation hooks even for a no-op, which e.g. resets the bandits' confidence matrix
                    return (ix, tag, fit, fp) if (case["kind"] == "dqn" and not real_mut) else (ix, tag, fit)
                rec["wiring_ok"] = "mutation_error" in rec or is_list and [ident(s["index"], s["tag"], s["fitness"], s["fp"]) for s in captured["raw"]] == \
                    [ident(int(a.index), getattr(a, TAG, None), [float(x) for x in a.fitness], net_fingerprint(a)) for a in new_pop]
            # aliasing between the new objects and the old ones / each other
            alias = []
            seen = {}
            for i, st in enumerate(pre_store):
                for s in st:
                    seen[s] = f"old[{i}]"
            objs = [("elite", elite)] + [(f"new[{i}]", a) for i, a in enumerate(new_pop)]
            for name, a in objs:
                for s, slot in storages(a).items():
                    if s in seen:
                        alias.append([name, seen[s], slot])
                    else:
                        seen[s] = name
            rec["alias"] = alias[:6]
            # every member (then the elite) is trained and acts, one at a time; nobody else may change:
            # neither the old population nor the elite nor a sibling
            everyone = [(f"old[{i}]", a) for i, a in enumerate(pop)] + objs
            states = [full_state(a) for _, a in everyone]
            post_changed = []
            for j in ([] if "mutation_error" in rec else list(range(len(pop) + 1, len(everyone))) + [len(pop)]):
                try:
                    self.exercise(case["kind"], everyone[j][1])
                except Exception as e:  # noqa: BLE001
                    post_changed.append([everyone[j][0], "cannot-train", f"{type(e).__name__}: {e}"[:200]])
                    break
                for i, (nm, a) in enumerate(everyone):
                    st = full_state(a)
                    if i != j and st != states[i]:
                        diff = sorted(k for k in set(st) | set(states[i]) if st.get(k) != states[i].get(k))
                        post_changed.append([everyone[j][0], nm, diff[:3]])
                    states[i] = st
                if post_changed:
                    break
            rec["post_changed"] = post_changed[:4]
            gens_obs.append(rec)
            # next generation: every member is trained / evaluated, a score is appended
            for i, a in enumerate(new_pop):
                nf = g["newfit"][i] if i < len(g["newfit"]) else []
                for x in nf:
                    a.fitness.append(self.as_type(x, case.get("ftype", "float")))
            if not g.get("keep"):          # keep: the caller selects from the very same population again
                pop = list(new_pop)
            if "mutation_error" in rec:
                break
        return {"gens": gens_obs}

    def observe(self, a, pre):
        tag = getattr(a, TAG, None)
        st = faithful_view(full_state(a))
        o = {"parent": tag, "index": int(a.index), "fitness": [float(x) for x in a.fitness],
             "fp": hashlib.sha1(repr(sorted(st.items())).encode()).hexdigest()[:16]}
        o["same_net"] = (isinstance(tag, int) and 0 <= tag < len(pre) and pre[tag]["fp"] == o["fp"])
        if isinstance(tag, int) and 0 <= tag < len(pre) and not o["same_net"]:
            ps = pre[tag]["fstate"]
            o["diff"] = sorted(k for k in set(st) | set(ps) if st.get(k) != ps.get(k))[:5]
        return o

    # ---------- model term
    def coq_term(self, case, obs):
        cfg = case["cfg"]
        c = f"{{| tsize := {cfg['t']}; elitism := {vlib.coq_bool(cfg['e'])}; psize := {cfg['p']}; eval_loop := {cfg['w']} |}}"
        gs = []
        for g, rec in zip(case["gens"], obs["gens"]):
            if not rec["wellcond"] and not rec.get("mobs"):
                continue
            mobs = self.qlist(rec["mobs"]) if rec.get("mobs") else "[]"
            pop = "[" + "; ".join(f"mk {coq_Z(a['index'])} {self.qlist(a['fitness'])} {i}" for i, a in enumerate(rec["pre"])) + "]"
            draws = "[" + "; ".join("[" + "; ".join(str(int(d)) for d in ds) + "]" for ds in g["draws"][:rec["used"]]) + "]"
            reqs = "[" + "; ".join(f"({coq_Z(r[0])}, {coq_Z(r[1])}, {max(r[2], 0) if r[2] < 5000 else 4999})" for r in rec["reqs"]) + "]"
            if rec["error"] is not None:
                ob = "None"
            else:
                def oa(o):
                    par = o["parent"] if isinstance(o["parent"], int) and 0 <= o["parent"] < 4999 else 4999
                    return f"({par}, {coq_Z(o['index'])}, {self.qlist(o['fitness'])})"
                ob = f"(Some ({oa(rec['elite'])}, [" + "; ".join(oa(m) for m in rec["members"]) + "]))"
            shared = vlib.coq_bool(bool(rec.get("alias")))
            changed = vlib.coq_bool(bool(rec["old_changed"]) or rec["old_list_changed"] or bool(rec.get("post_changed")))
            gs.append(f"({pop}, {mobs}, {draws}, {reqs}, ({shared}, {changed}), {ob})")
        if not gs:
            return None
        return f"check_chain_f {c} [" + "; ".join(gs) + "]"

    @staticmethod
    def qlist(xs):
        return "[" + "; ".join(coq_Q(x) for x in xs) + "]"

    # ---------- oracle: the property stated directly on the implementation's behaviour
    def oracle(self, case, obs):
        out = []
        cfg = case["cfg"]
        kind = case["kind"]
        for gi, (g, rec) in enumerate(zip(case["gens"], obs["gens"])):
            pre = rec["pre"]
            n = len(pre)
            where = f"generation {gi}, {kind} agents, cfg {cfg}"
            if n == 0:
                continue                       # outside the guard (the code raises, the model returns None)
            if rec["error"] is not None:
                out.append(Violation("select-returns", f"select-raises:{rec['error'].split(':')[0]}",
                                     f"{where}: select raised {rec['error']} on a non-empty population {pre}"))
                break
            exact = [frac_mean(a["fitness"], cfg["w"]) for a in pre]
            if rec.get("mobs") and all(abs(Fraction(f) - q) <= Fraction(1, 2 ** 40) * (1 + abs(q)) for f, q in zip(rec["mobs"], exact)):
                # the float64 means the code computed (each within rounding of the exact window mean)
                means = [Fraction(f) for f in rec["mobs"]]
            elif rec["wellcond"]:
                means = exact
            else:
                continue
            best = max(means)
            el, mem = rec["elite"], rec["members"]

            def valid_parent(o):
                return isinstance(o["parent"], int) and 0 <= o["parent"] < n

            # 1. elite = copy of an agent with the highest window mean, same index
            if not valid_parent(el) or means[el["parent"]] != best:
                out.append(Violation("elite-is-best", "elite-not-best",
                                     f"{where}: elite descends from agent {el['parent']} (mean "
                                     f"{means[el['parent']] if valid_parent(el) else '?'}) but the best mean is {best}; means={[str(m) for m in means]}"))
            elif el["index"] != pre[el["parent"]]["index"]:
                out.append(Violation("elite-is-best", "elite-index-changed",
                                     f"{where}: elite has index {el['index']}, its parent {pre[el['parent']]['index']}"))
            # 2. size
            if len(mem) != cfg["p"]:
                out.append(Violation("size-exact", "population-size",
                                     f"{where}: new population has {len(mem)} members, configured {cfg['p']}"))
            # 3. elitism: first member is that elite
            off = 1 if cfg["e"] else 0
            if cfg["e"] and mem:
                if mem[0]["parent"] != el["parent"] or mem[0]["index"] != el["index"]:
                    out.append(Violation("elite-first", "elite-not-first",
                                         f"{where}: first member descends from {mem[0]['parent']} with index {mem[0]['index']}, "
                                         f"elite from {el['parent']} with index {el['index']}"))
            # 4. every other member: best-ranked among the ones drawn for its tournament
            draws = g["draws"]
            for i, o in enumerate(mem[off:]):
                if i >= rec["used"]:
                    out.append(Violation("winner-of-drawn", "member-without-tournament",
                                         f"{where}: member {off + i} was produced without a tournament draw"))
                    break
                ds = draws[i]
                if not valid_parent(o) or o["parent"] not in ds:
                    out.append(Violation("winner-of-drawn", "parent-not-drawn",
                                         f"{where}: member {off + i} descends from {o['parent']}, drawn were {ds}"))
                    break
                if any(d < 0 or d >= n for d in ds):
                    continue
                if means[o["parent"]] != max(means[d] for d in ds):
                    out.append(Violation("winner-of-drawn", "winner-not-best",
                                         f"{where}: member {off + i} descends from {o['parent']} (mean {means[o['parent']]}) but "
                                         f"drawn {ds} have means {[str(means[d]) for d in ds]}"))
                    break
            # 5. fresh indices
            old_ix = {a["index"] for a in pre}
            new_ix = [o["index"] for o in mem[off:]]
            if len(set(new_ix)) != len(new_ix) or (cfg["e"] and mem and mem[0]["index"] in new_ix):
                out.append(Violation("index-fresh", "index-duplicate",
                                     f"{where}: indices of the new population {[o['index'] for o in mem]} are not pairwise distinct"))
            elif old_ix & set(new_ix):
                out.append(Violation("index-fresh", "index-reused",
                                     f"{where}: new members carry indices {sorted(old_ix & set(new_ix))} already used by the old population {sorted(old_ix)}"))
            # 6. faithful copies
            for name, o in [("elite", el)] + [(f"member {i}", o) for i, o in enumerate(mem)]:
                if valid_parent(o) and (o["fitness"] != pre[o["parent"]]["fitness"] or not o["same_net"]):
                    out.append(Violation("faithful-copy", "copy-differs",
                                         f"{where}: {name} is not a faithful copy of agent {o['parent']}: fitness {o['fitness']} vs "
                                         f"{pre[o['parent']]['fitness']}, other state equal={o['same_net']}, differing slots {o.get('diff')}"))
                    break
            # 7. old population untouched, no sharing with it
            if rec["old_changed"] or rec["old_list_changed"]:
                out.append(Violation("old-untouched", "old-population-changed",
                                     f"{where}: agents {rec['old_changed']} of the old population changed (list changed: {rec['old_list_changed']})"))
            if rec["alias"]:
                out.append(Violation("old-untouched", "copy-shares-storage",
                                     f"{where}: objects share storage (copy, other object, slot): {rec['alias']}"))
            if rec.get("post_changed"):
                pc = rec["post_changed"][0]
                out.append(Violation("old-untouched", "training-a-member-changes-another-agent",
                                     f"{where}: after selection, training/acting with {pc[0]} changed {pc[1]} (slots {pc[2]}); "
                                     f"all: {rec['post_changed']}"))
            if rec.get("wiring_ok") is False:
                out.append(Violation("wiring", "utils-wiring",
                                     f"{where}: tournament_selection_and_mutation (mutation disabled) does not return the population select built"))
            if out:
                break
        return out

    # ---------- evidence helpers
    def pattern(self, case):
        w = case["cfg"]["w"]
        ms = [frac_mean(a["fitness"], w) for a in case["pop"]]
        order = {m: i for i, m in enumerate(sorted(set(ms)))}
        return [order[m] for m in ms], [min(len(a["fitness"]), w + 1) for a in case["pop"]]

    def key(self, case):
        pat, lens = self.pattern(case)
        g0 = case["gens"][0]
        k = {"kind": case["kind"], "via": case["via"], "cfg": case["cfg"], "pat": pat, "lens": lens,
             "draws": g0["draws"][:case["cfg"]["p"]], "G": len(case["gens"]),
             "later": hashlib.sha1(repr(case["gens"][1:]).encode()).hexdigest()[:10] if len(case["gens"]) > 1 else ""}
        return super().key(k)

    def nontrivial(self, case, obs):
        w = case["cfg"]["w"]
        for rec in obs["gens"]:
            if len(rec["pre"]) >= 2 and len({frac_mean(a["fitness"], w) for a in rec["pre"]}) >= 2:
                return True
        return False

    def classify(self, case, obs):
        cfg = case["cfg"]
        n = len(case["pop"])
        labs = [f"kind={case['kind']}", f"via={case['via']}", f"n={n if n <= 8 else ('9-16' if n <= 16 else '>16')}",
                f"tsize={cfg['t']}", f"window={cfg['w']}", f"elitism={cfg['e']}",
                "psize" + ("=" if cfg["p"] == n else ("<" if cfg["p"] < n else ">")) + "n",
                f"generations={len(case['gens']) if len(case['gens']) < 5 else '>=5'}",
                f"scores-as={case.get('ftype', 'float')}", f"reloaded={bool(case.get('reload'))}", f"mutation={case.get('mut', 'none') if case['via'] == 'utils' else 'n/a'}"]
        if n and case["pop"][0]["index"] == max(a["index"] for a in case["pop"]) and n > 1:
            labs.append("branch:max-index-first")
        if any(a["index"] < 0 for a in case["pop"]):
            labs.append("negative-index")
        for g in case["gens"]:
            if g.get("inject"):
                labs.append("selector-reuse:newcomer-with-higher-index")
            if g.get("newpop") is not None:
                labs.append("selector-reuse:another-population")
            if g.get("keep"):
                labs.append("selector-reuse:same-population-twice")
        for gi, (g, rec) in enumerate(zip(case["gens"], obs["gens"])):
            pre = rec["pre"]
            if not pre or rec["error"] is not None:
                labs.append("select-raised" if rec["error"] is not None else "empty")
                continue
            ms = [frac_mean(a["fitness"], cfg["w"]) for a in pre]
            if ms.count(max(ms)) > 1:
                labs.append("branch:tie-at-the-top")
                # a stable argsort gives the best rank to the LAST of the tied agents
                stable_pick = max(i for i, m in enumerate(ms) if m == max(ms))
                if rec["elite"]["parent"] != stable_pick:
                    labs.append("branch:top-tie-broken-unlike-a-stable-sort")
            if len(set(ms)) < len(ms):
                labs.append("branch:some-tie")
            if any(x < 0 for a in pre for x in a["fitness"]):
                labs.append("negative-scores")
            if len({len(a["fitness"]) for a in pre}) > 1:
                labs.append("unequal-length-histories")
            if any(len(a["fitness"]) < cfg["w"] for a in pre):
                labs.append("branch:history-shorter-than-window")
            if any(len(a["fitness"]) > cfg["w"] for a in pre):
                labs.append("branch:history-longer-than-window")
            off = 1 if cfg["e"] else 0
            for i, o in enumerate(rec["members"][off:]):
                ds = g["draws"][i]
                if len(set(ds)) < len(ds):
                    labs.append("branch:duplicate-draw")
                top = max(ms[d] for d in ds)
                if len({d for d in ds if ms[d] == top}) > 1:
                    labs.append("branch:tie-among-drawn-best")
                if ds and ms[ds[0]] != top:
                    labs.append("branch:winner-not-first-drawn")
            if not rec["wellcond"]:
                labs.append("branch:float-order-differs-from-exact:" + ("ranked-by-observed-scores" if rec.get("mobs") else "skipped"))
            labs.append("scores-observed" if rec.get("mobs") else "scores-not-observed")
            if "mutation_error" in rec:
                labs.append("chain-ended:mutation-raised:" + rec["mutation_error"].split(":")[0])
        return sorted(set(labs))

    def extra_static(self):
        """the guards the theorems state as hypotheses (sizes > 0, boolean elitism) are enforced by the constructor"""
        out = []
        for args, what in (((0, True, 2, 1), "tournament_size=0"), ((2, True, 0, 1), "population_size=0"),
                           ((2, True, 2, 0), "eval_loop=0"), ((2, 1, 2, 1), "elitism=1 (not a bool)"),
                           ((-1, False, 2, 1), "tournament_size=-1")):
            try:
                TournamentSelection(*args)
            except AssertionError:
                continue
            except Exception as e:  # noqa: BLE001
                out.append(Violation("constructor-guard", "constructor-guard", f"TournamentSelection{args} ({what}) raised {type(e).__name__} instead of rejecting it", None, None))
                continue
            out.append(Violation("constructor-guard", "constructor-guard",
                                 f"TournamentSelection{args} ({what}) was accepted: the selection theorems assume sizes > 0 and a boolean elitism flag", None, None))
        return out

    nb_budget = 8        # K disagreements whose neighbourhood is searched (each search runs the code 5-6 times)

    def neighbours(self, case, rng):
        # same populations, other draws; then shorter chains
        if self.nb_budget <= 0:
            return
        self.nb_budget -= 1
        for _ in range(5):
            c = copy.deepcopy(case)
            size = len(c["pop"])
            for g in c["gens"]:
                g["draws"] = self.gen_draws(rng, max(1, size), c["cfg"]["t"], c["cfg"]["p"] + 2)
                size = c["cfg"]["p"]
            yield c
        if len(case["gens"]) > 1:
            c = copy.deepcopy(case)
            c["gens"] = c["gens"][:1]
            yield c


# A coqc process that dies without any output was killed from outside (OOM killer on a loaded box,
# wall-clock timeout): re-evaluate just those cases once, in smaller files, before calling it a
# correspondence error.  (Wrapper around the shared runner; vlib itself is not modified.)
_run_coq_cases = vlib.run_coq_cases


def _run_coq_cases_retry(pid, preamble, terms, shard=250, tag="cases", timeout=900):
    failing, errors = _run_coq_cases(pid, preamble, terms, shard=shard, tag=tag, timeout=timeout)
    if errors and all(not e["log"].strip() for e in errors):
        ids = {i for e in errors for i in e["ids"]}
        sub = [(cid, t) for cid, t in terms if cid in ids]
        f2, errors = _run_coq_cases(pid, preamble, sub, shard=max(1, shard // 3), tag=tag + "_retry", timeout=timeout)
        failing = sorted(set(failing) | set(f2))
    return failing, errors


vlib.run_coq_cases = _run_coq_cases_retry


if __name__ == "__main__":
    sys.exit(vlib.run_check(C05()))
