"""C20 — scripted environments that log every reset()/step() call (used by harness/c20.py only).

Every environment appends to a shared event log (a Python list):  ("reset",)  and  ("step", k)  where k is the
number of sub-environments advanced by the call (1 for a plain environment). Rewards are multiples of 0.25 and
episodes are short, so scores / fitness values are exactly representable.
"""
from __future__ import annotations

import numpy as np
from gymnasium import spaces


IMG = (6, 5, 3)      # H, W, C  (not square: an axis mix-up cannot go unnoticed)
DICT_SPACE = spaces.Dict({"a": spaces.Box(-1.0, 1.0, (3,), np.float32), "b": spaces.Box(-1.0, 1.0, (2,), np.float32)})


def _space(kind):
    if kind == "discrete":
        return spaces.Discrete(2)
    return spaces.Box(-1.0, 1.0, (1,), np.float32)


def _reward(kind, a, t):
    if kind == "discrete":
        return 0.25 * float(int(np.asarray(a).reshape(-1)[0]) == t % 2) + 0.25
    return 0.25 * float(float(np.asarray(a).reshape(-1)[0]) > 0.0) + 0.25


class CountEnv:
    """plain (non-vectorised) Gymnasium-style environment"""

    def __init__(self, log, ep_len=4, act="discrete", obs_dim=4, image=False, dictobs=False, mixed=False):
        self.log = log
        self.L = ep_len
        self.act = act
        self.dictobs = dictobs
        self.mixed = mixed
        self.shape = IMG if image else (obs_dim,)        # image: channels LAST (the loop is run with swap_channels=True)
        self.observation_space = DICT_SPACE if dictobs else spaces.Box(-1.0, 1.0, self.shape, np.float32)
        self.action_space = _space(act)
        self.t = 0
        self.d = obs_dim

    def _obs(self):
        if self.dictobs:
            return {"a": np.full((3,), 0.125 * (self.t % 8), dtype=np.float32), "b": np.full((2,), 0.25, dtype=np.float32)}
        return np.full(self.shape, 0.125 * (self.t % 8), dtype=np.float32)

    def reset(self, seed=None, options=None):
        self.log.append(("reset",))
        self.t = 0
        return self._obs(), {}

    def step(self, action):
        self.log.append(("step", 1))
        a = np.asarray(action)
        assert a.size == 1, f"plain environment received an action of shape {a.shape}"
        self.t += 1
        r = _reward(self.act, a, self.t)
        term = self.t >= self.L and self.t % 2 == 0
        trunc = self.t >= self.L and not term
        o = self._obs()
        k = self.t
        if term or trunc:
            self.t = 0
        if self.mixed:       # the numeric type of reward / flags differs from step to step (all legal for a Gymnasium env)
            r = [float(r), np.float32(r), np.float64(r), int(4 * r) / 4][k % 4]
            if k % 2:
                return o.astype(np.float64), r, np.bool_(term), np.bool_(trunc), {}
        return o, r, bool(term), bool(trunc), {}


class CountVecEnv:
    """vectorised environment (gymnasium.vector style interface, auto-reset), sub-env i has episode length L+i"""

    def __init__(self, log, num_envs, ep_len=4, act="discrete", obs_dim=4, image=False, dictobs=False, mixed=False):
        self.log = log
        self.num_envs = num_envs
        self.L = ep_len
        self.act = act
        self.d = obs_dim
        self.dictobs = dictobs
        self.mixed = mixed
        self.k = 0
        self.shape = IMG if image else (obs_dim,)
        self.single_observation_space = DICT_SPACE if dictobs else spaces.Box(-1.0, 1.0, self.shape, np.float32)
        self.single_action_space = _space(act)
        self.observation_space = spaces.Box(-1.0, 1.0, (num_envs,) + self.shape, np.float32)
        self.action_space = self.single_action_space
        self.t = np.zeros(num_envs, dtype=np.int64)

    def _obs(self):
        if self.dictobs:
            return {"a": np.stack([np.full((3,), 0.125 * (t % 8), dtype=np.float32) for t in self.t]),
                    "b": np.full((self.num_envs, 2), 0.25, dtype=np.float32)}
        return np.stack([np.full(self.shape, 0.125 * (t % 8), dtype=np.float32) for t in self.t])

    def reset(self, seed=None, options=None):
        self.log.append(("reset",))
        self.t[:] = 0
        return self._obs(), {}

    def step(self, actions):
        self.log.append(("step", self.num_envs))
        a = np.asarray(actions)
        assert a.shape[0] == self.num_envs, f"vector environment of {self.num_envs} received actions of shape {a.shape}"
        self.t += 1
        r = np.array([_reward(self.act, a[i], int(self.t[i])) for i in range(self.num_envs)], dtype=np.float64)
        end = np.array([self.t[i] >= self.L + i for i in range(self.num_envs)])
        term = end & (self.t % 2 == 0)
        trunc = end & ~term
        o = self._obs()
        self.t[end] = 0
        if self.mixed:       # dtypes of the returned arrays differ from step to step
            self.k += 1
            r = r.astype([np.float64, np.float32, np.float16][self.k % 3])
            if self.k % 2:
                return o.astype(np.float64), r, term.astype(np.int8), trunc.astype(np.uint8), {}
        return o, r, term, trunc, {}


class CountBanditEnv:
    """contextual bandit in the format of agilerl.wrappers.learning.BanditEnv"""

    def __init__(self, log, arms=3, dim=2):
        self.log = log
        self.arms = arms
        self.context_dim = (arms * dim,)
        self.dim = dim
        self.t = 0

    def _ctx(self):
        # BanditEnv layout: arm k sees the features in block k of a zero vector
        c = np.zeros((self.arms, self.arms * self.dim), dtype=np.float64)   # float64 on purpose (pandas features are)
        for k in range(self.arms):
            c[k, k * self.dim:(k + 1) * self.dim] = 0.25 * ((self.t + np.arange(self.dim)) % 4)
        return c

    def reset(self):
        self.log.append(("reset",))
        self.t = 0
        return self._ctx()

    def step(self, k):
        self.log.append(("step", 1))
        self.t += 1
        r = 1.0 if int(k) == self.t % self.arms else 0.0
        return self._ctx(), r


def _reorder(d, rev):
    """the dictionaries an environment returns need not be in possible_agents order"""
    return dict(reversed(list(d.items()))) if rev else d


class CountParallelEnv:
    """plain PettingZoo-parallel style environment with agents a_0, a_1 (optionally grouped other_0)"""

    def __init__(self, log, ep_len=4, act="discrete", agent_ids=("a_0", "a_1"), obs_dim=3, rev=False):
        self.rev = rev
        self.log = log
        self.L = ep_len
        self.act = act
        self.d = obs_dim
        self.possible_agents = list(agent_ids)
        self.agents = list(agent_ids)
        self.t = 0
        self._os = {a: spaces.Box(-1.0, 1.0, (obs_dim,), np.float32) for a in agent_ids}
        self._as = {a: _space(act) for a in agent_ids}

    def observation_space(self, a):
        return self._os[a]

    def action_space(self, a):
        return self._as[a]

    def _obs(self):
        return {a: np.full((self.d,), 0.125 * ((self.t + i) % 8), dtype=np.float32) for i, a in enumerate(self.possible_agents)}

    def reset(self, seed=None, options=None):
        self.log.append(("reset",))
        self.t = 0
        self.agents = list(self.possible_agents)
        return _reorder(self._obs(), self.rev), {a: {} for a in self.possible_agents}

    def step(self, actions):
        self.log.append(("step", 1))
        assert set(actions) == set(self.possible_agents), f"actions for {sorted(actions)}"
        for a, v in actions.items():
            assert np.asarray(v).size == 1, f"plain multi-agent environment received action of shape {np.asarray(v).shape} for {a}"
        self.t += 1
        rew = {a: _reward(self.act, actions[a], self.t + i) for i, a in enumerate(self.possible_agents)}
        end = self.t >= self.L
        term = {a: bool(end and self.t % 2 == 0) for a in self.possible_agents}
        trunc = {a: bool(end and self.t % 2 == 1) for a in self.possible_agents}
        return _reorder(self._obs(), self.rev), _reorder(rew, self.rev), term, _reorder(trunc, self.rev), {a: {} for a in self.possible_agents}


class CountParallelVecEnv:
    """vectorised multi-agent environment (interface of AsyncPettingZooVecEnv: dicts of arrays with leading num_envs,
    auto-reset), sub-env i has episode length L+i"""

    def __init__(self, log, num_envs, ep_len=4, act="discrete", agent_ids=("a_0", "a_1"), obs_dim=3, rev=False):
        self.rev = rev
        self.log = log
        self.num_envs = num_envs
        self.L = ep_len
        self.act = act
        self.d = obs_dim
        self.possible_agents = list(agent_ids)
        self.agents = list(agent_ids)
        self.t = np.zeros(num_envs, dtype=np.int64)
        self._os = {a: spaces.Box(-1.0, 1.0, (obs_dim,), np.float32) for a in agent_ids}
        self._as = {a: _space(act) for a in agent_ids}

    def single_observation_space(self, a):
        return self._os[a]

    def single_action_space(self, a):
        return self._as[a]

    observation_space = single_observation_space
    action_space = single_action_space

    def _obs(self):
        return {a: np.stack([np.full((self.d,), 0.125 * ((t + i) % 8), dtype=np.float32) for t in self.t])
                for i, a in enumerate(self.possible_agents)}

    def reset(self, seed=None, options=None):
        self.log.append(("reset",))
        self.t[:] = 0
        return _reorder(self._obs(), self.rev), {a: {} for a in self.possible_agents}

    def step(self, actions):
        self.log.append(("step", self.num_envs))
        assert set(actions) == set(self.possible_agents), f"actions for {sorted(actions)}"
        for a, v in actions.items():
            assert np.asarray(v).shape[0] == self.num_envs, f"vector env of {self.num_envs}: action shape {np.asarray(v).shape} for {a}"
        self.t += 1
        rew = {a: np.array([_reward(self.act, actions[a][e], int(self.t[e]) + i) for e in range(self.num_envs)])
               for i, a in enumerate(self.possible_agents)}
        end = np.array([self.t[e] >= self.L + e for e in range(self.num_envs)])
        term = {a: end & (self.t % 2 == 0) for a in self.possible_agents}
        trunc = {a: end & (self.t % 2 == 1) for a in self.possible_agents}
        o = self._obs()
        self.t[end] = 0
        return _reorder(o, self.rev), _reorder(rew, self.rev), term, _reorder(trunc, self.rev), {a: {} for a in self.possible_agents}
