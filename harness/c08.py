"""C08 — value-based learning uses the Bellman target and really tracks its target net.

Real agents (DQN plain/double, CQN plain/double, Rainbow 1-step/n-step/PER, DDPG, TD3, MADDPG, MATD3) with tiny
networks.  For every case the harness
  * evaluates the real networks on s / s' itself (tables, float32 -> exact Q) and lets the Coq model compute the
    loss from the tables; the model's loss is compared with learn()'s return value inside Coq (1e-4 relative);
  * runs learn(batch) and learn(batch with next_obs perturbed where done = 1) on two identically built agents
    under equal seeds: loss and all weights must be identical;
  * snapshots every (online, target) pair around each of 1-5 consecutive learn calls (optionally after a
    learn+clone / checkpoint round trip / mutation) and compares target_after with
    tau * online_after + (1 - tau) * target_before (1e-6), respecting the policy delay.
"""
from __future__ import annotations

import copy
import math
import os
import random
import sys
import tempfile
from fractions import Fraction

import numpy as np
import torch
from gymnasium import spaces
from tensordict import TensorDict

import vlib
from vlib import Violation, coq_Q, coq_nat, coq_bool
import c08_grad

SINGLE_DISCRETE = ("DQN", "DDQN", "CQN", "CDQN")
SINGLE_AC = ("DDPG", "TD3")
MULTI = ("MADDPG", "MATD3")
ALGOS = SINGLE_DISCRETE + ("Rainbow",) + SINGLE_AC + MULTI
OBS_DIM = 3
N_ACT = 3            # discrete actions
ACT_DIM = 3          # continuous action dimension (the critics layer-normalise the action vector: with 2 components
                     # only the sign of their difference would survive and the critics would be blind to the next action)
AGENT_IDS = ["a_0", "b_0"]
MA_OBS = {"a_0": 3, "b_0": 2}
MA_ACT = {"a_0": 2, "b_0": 1}
NOISE_CLIP, POLICY_NOISE = 0.5, 0.4     # clip at 1.25 sigma so that the noise clamp is exercised in most batches
MAX_CELLS = 10       # cells per (online, target) pair that go to Coq (the oracle looks at every cell)
TOL_LOSS, TOL_W = 1e-4, 1e-6


def ids(case):
    """agent ids in the order the algorithm was given them (unsorted variant: b_0 before a_0)"""
    return list(reversed(AGENT_IDS)) if case.get("ids_unsorted") else list(AGENT_IDS)


def ma_act_dim(case, a):
    return {"a_0": 3, "b_0": 2}[a] if case.get("ma_discrete") else MA_ACT[a]


def noise_args(case):
    """(noise_clip, policy_noise) the learn call uses: explicit, or the defaults of DDPG/TD3.learn"""
    return (0.5, 0.2) if case.get("default_noise") else (NOISE_CLIP, POLICY_NOISE)


def obs_space_of(case):
    k = case.get("obs", "vec")
    if k == "image":
        return spaces.Box(0, 255, (3, 8, 8), np.float32)
    if k == "dict":
        return spaces.Dict({"a": spaces.Box(-4, 4, (3,), np.float32), "b": spaces.Box(-4, 4, (2,), np.float32)})
    if k == "disc":
        return spaces.Discrete(5)
    return spaces.Box(-4, 4, (OBS_DIM,), np.float32)


def gen_obs(case, B, gen):
    k = case.get("obs", "vec")
    if k == "image":
        return torch.randint(0, 256, (B, 3, 8, 8), generator=gen).to(torch.float32)
    if k == "dict":
        return TensorDict({"a": torch.randn(B, 3, generator=gen), "b": torch.randn(B, 2, generator=gen)}, batch_size=[B])
    if k == "disc":
        return torch.randint(0, 5, (B, 1), generator=gen).to(torch.float32)
    return torch.randn(B, OBS_DIM, generator=gen)


def perturb_obs(case, o, dones, gen):
    """a different observation on the rows where dones = 1, the same one elsewhere"""
    k = case.get("obs", "vec")
    B = dones.shape[0]
    if k == "image":
        d = dones.reshape(B, 1, 1, 1)
        return o * (1 - d) + d * ((o + 1 + torch.randint(0, 200, (B, 3, 8, 8), generator=gen).to(torch.float32)) % 256)
    if k == "dict":
        return TensorDict({kk: o[kk] + dones * (1.0 + torch.rand(B, o[kk].shape[1], generator=gen)) for kk in o.keys()}, batch_size=[B])
    if k == "disc":
        return (o + dones * (1 + torch.randint(0, 4, (B, 1), generator=gen).to(torch.float32))) % 5
    return o + dones * (1.0 + torch.rand(B, OBS_DIM, generator=gen))


def hp_config_of(case):
    if "mut_hp" not in case.get("pre", []):
        return None
    from agilerl.algorithms.core.registry import HyperparameterConfig, RLParameter
    if case["algo"] in SINGLE_DISCRETE or case["algo"] == "Rainbow":
        return HyperparameterConfig(lr=RLParameter(min=2e-3, max=5e-2))
    return HyperparameterConfig(lr_actor=RLParameter(min=2e-3, max=5e-2), lr_critic=RLParameter(min=2e-3, max=5e-2))


def lists(t):
    return t.detach().cpu().to(torch.float64).tolist()


def f32(x):
    return float(np.float32(x))


# ---------------------------------------------------------------------------------- building agents
def net_config(rainbow=False, partial=False, obs="vec"):
    if obs == "image":
        return {"latent_dim": 8, "encoder_config": {"channel_size": [4], "kernel_size": [3], "stride_size": [1]},
                "head_config": {"hidden_size": [16 if rainbow else 8]}}
    if obs == "dict":
        return {"latent_dim": 8, "head_config": {"hidden_size": [16 if rainbow else 8]}}
    if partial:          # a user configuration that names only the encoder (everything else defaulted by the library)
        return {"encoder_config": {"hidden_size": [8]}}
    enc = {"hidden_size": [8], "min_mlp_nodes": 4, "max_mlp_nodes": 32}
    head = {"hidden_size": [16 if rainbow else 8]}
    if not rainbow:
        head.update({"min_mlp_nodes": 4, "max_mlp_nodes": 32})
    return {"latent_dim": 8, "encoder_config": enc, "head_config": head}


def build(case):
    """a fresh agent for the case (deterministic in case['seed'])"""
    algo = case["algo"]
    torch.manual_seed(case["seed"])
    np.random.seed(case["seed"] % (2 ** 31))
    random.seed(case["seed"])
    g, tau = case["gamma"], case["tau"]
    obs_space = obs_space_of(case)
    ok = case.get("obs", "vec")
    hpc = hp_config_of(case)
    if algo in SINGLE_DISCRETE:
        from agilerl.algorithms.dqn import DQN
        from agilerl.algorithms.cqn import CQN
        cls = DQN if algo in ("DQN", "DDQN") else CQN
        return cls(obs_space, spaces.Discrete(N_ACT), net_config=net_config(partial=case.get("partial_cfg", False), obs=ok), gamma=g, tau=tau, hp_config=hpc,
                   double=algo in ("DDQN", "CDQN"), batch_size=case["B"], lr=case.get("lr", 1e-2))
    if algo == "Rainbow":
        from agilerl.algorithms.dqn_rainbow import RainbowDQN
        rb = case["rb"]
        return RainbowDQN(obs_space, spaces.Discrete(N_ACT), net_config=net_config(True, partial=case.get("partial_cfg", False), obs=ok), gamma=g, tau=tau, hp_config=hpc,
                          batch_size=case["B"], lr=case.get("lr", 1e-2), num_atoms=rb["atoms"], v_min=rb["vmin"],
                          v_max=rb["vmax"], n_step=rb["n_step"], combined_reward=rb["combined"])
    if algo in SINGLE_AC:
        lo = np.array(case["lo"], dtype=np.float32)
        hi = np.array(case["hi"], dtype=np.float32)
        from agilerl.algorithms.ddpg import DDPG
        from agilerl.algorithms.td3 import TD3
        cls = DDPG if algo == "DDPG" else TD3
        return cls(obs_space, spaces.Box(lo, hi, (ACT_DIM,), np.float32), net_config=net_config(partial=case.get("partial_cfg", False), obs=ok), gamma=g, tau=tau, hp_config=hpc,
                   policy_freq=case["pf"], share_encoders=case.get("share", False), batch_size=case["B"],
                   lr_actor=case.get("lr", 1e-2), lr_critic=case.get("lr", 1e-2))
    from agilerl.algorithms.maddpg import MADDPG
    from agilerl.algorithms.matd3 import MATD3
    osp = [spaces.Box(-4, 4, (MA_OBS[a],), np.float32) for a in ids(case)]
    if case.get("ma_discrete"):
        asp = [spaces.Discrete(ma_act_dim(case, a)) for a in ids(case)]
    else:
        asp = [spaces.Box(-1, 1, (MA_ACT[a],), np.float32) for a in ids(case)]
    kw = dict(agent_ids=ids(case), hp_config=hpc, net_config=net_config(partial=case.get("partial_cfg", False)), gamma=g, tau=tau, batch_size=case["B"],
              lr_actor=case.get("lr", 1e-2), lr_critic=case.get("lr", 1e-2))
    if algo == "MATD3":
        return MATD3(osp, asp, policy_freq=case["pf"], **kw)
    return MADDPG(osp, asp, **kw)


def pairs(agent, algo):
    """(name, online network, target network) for every target the learner keeps"""
    if algo in SINGLE_DISCRETE or algo == "Rainbow":
        return [("actor", agent.actor, agent.actor_target)]
    if algo == "DDPG":
        return [("actor", agent.actor, agent.actor_target), ("critic", agent.critic, agent.critic_target)]
    if algo == "TD3":
        return [("actor", agent.actor, agent.actor_target), ("critic_1", agent.critic_1, agent.critic_target_1),
                ("critic_2", agent.critic_2, agent.critic_target_2)]
    out = []
    for i, aid in enumerate(AGENT_IDS):
        out.append((f"actor[{i}]", agent.actors[i], agent.actor_targets[i]))
        if algo == "MADDPG":
            out.append((f"critic[{i}]", agent.critics[i], agent.critic_targets[i]))
        else:
            out.append((f"critic_1[{i}]", agent.critics_1[i], agent.critic_targets_1[i]))
            out.append((f"critic_2[{i}]", agent.critics_2[i], agent.critic_targets_2[i]))
    return out


def weights(net):
    """every weight tensor of a network, whether it is a registered parameter or a plain tensor attribute
    (detached copies placed with TensorDict.to_module); buffers (noisy-layer epsilons) excluded.
    -> (flat float64 vector, number of cells exposed through parameters())"""
    vec, n_exposed = [], 0
    for _, m in sorted(net.named_modules(), key=lambda kv: kv[0]):
        for k in sorted(m._parameters):
            p = m._parameters[k]
            if p is not None:
                vec.append(p.detach().reshape(-1).to(torch.float64))
                n_exposed += p.numel()
        for k in sorted(m.__dict__):
            v = m.__dict__[k]
            if isinstance(v, torch.Tensor) and k not in m._buffers:
                vec.append(v.detach().reshape(-1).to(torch.float64))
    n_params = sum(p.numel() for p in net.parameters())
    v = torch.cat(vec).numpy().copy() if vec else np.zeros(0)
    return v, n_params


def snapshot(agent, algo):
    return {name: (weights(on)[0], weights(tg)[0], weights(tg)[1]) for name, on, tg in pairs(agent, algo)}


# ---------------------------------------------------------------------------------- batches
def dyadic(gen, shape, scale=4, lim=2):
    return torch.randint(-lim * scale, lim * scale + 1, shape, generator=gen).to(torch.float32) / scale


def make_batch(case, salt=0, B=None):
    """(batch, batch with next_obs perturbed where done = 1)"""
    algo = case["algo"]
    B = B or case["B"]
    gen = torch.Generator().manual_seed(case["seed"] * 7919 + salt)
    dones = torch.tensor(case["dones"][:B] + [0] * max(0, B - len(case["dones"])), dtype=torch.float32).reshape(B, 1)
    rewards = torch.tensor(case["rewards"][:B] + [0.0] * max(0, B - len(case["rewards"])), dtype=torch.float32).reshape(B, 1)
    if salt:
        rewards = dyadic(gen, (B, 1))
    if algo in MULTI:
        st = {a: torch.randn(B, MA_OBS[a], generator=gen) for a in AGENT_IDS}
        ns = {a: torch.randn(B, MA_OBS[a], generator=gen) for a in AGENT_IDS}
        if case.get("ma_discrete"):      # what the buffer holds for Discrete action spaces: the actors' (relaxed one-hot) outputs
            ac = {a: torch.softmax(3 * torch.randn(B, ma_act_dim(case, a), generator=gen), dim=1) for a in AGENT_IDS}
        else:
            ac = {a: torch.rand(B, MA_ACT[a], generator=gen) * 2 - 1 for a in AGENT_IDS}
        rw = {a: (rewards + i).clone() for i, a in enumerate(AGENT_IDS)}
        dn = {}
        for i, a in enumerate(AGENT_IDS):
            d = dones.clone()
            if case.get("ma_split") and i == 1:          # agent b is done on a different set of rows
                d = torch.roll(d, 1, 0)
            dn[a] = d
        alld = torch.stack([dn[a] for a in AGENT_IDS]).min(0)[0]      # rows where every agent is done
        ns2 = {a: ns[a] + alld * (1.0 + torch.rand(B, MA_OBS[a], generator=gen)) for a in AGENT_IDS}
        # key order of the dictionaries the caller hands over: canonical, or the reverse of the algorithm's agent_ids
        order = ids(case)
        if case.get("key_order") == "reversed":
            order = list(reversed(order))
        ro = lambda d: {a: d[a] for a in order}
        return tuple(ro(d) for d in (st, ac, rw, ns, dn)), tuple(ro(d) for d in (st, ac, rw, ns2, dn))
    obs = gen_obs(case, B, gen)
    nxt = gen_obs(case, B, gen)
    if algo in SINGLE_AC:
        act = torch.rand(B, ACT_DIM, generator=gen) * 2 - 1
    else:
        act = torch.randint(0, N_ACT, (B, 1), generator=gen).to(torch.float32)     # the buffer stores float32 columns
        if case.get("act1d"):
            act = act.reshape(B)                                                     # a caller-built batch with a flat action vector
    nxt2 = perturb_obs(case, nxt, dones, gen)
    mk = lambda n: TensorDict({"obs": obs.clone(), "action": act.clone(), "reward": rewards.clone(),
                               "next_obs": n.clone(), "done": dones.clone()}, batch_size=[B])
    b1, b2 = mk(nxt), mk(nxt2)
    if algo == "Rainbow":
        rb = case["rb"]
        if rb["per"]:
            # PrioritizedReplayBuffer.sample: weights.unsqueeze(1), indices.unsqueeze(1)  -> columns (B, 1)
            w = (torch.randint(1, 9, (B,), generator=gen).to(torch.float32) / 8)
            for b in (b1, b2):
                b["weights"] = w.clone().reshape(B, 1) if rb.get("wshape", "col") == "col" else w.clone()
                b["idxs"] = torch.arange(B).reshape(B, 1)
        elif rb["nstep_batch"]:
            for b in (b1, b2):
                b["idxs"] = torch.arange(B)                    # ReplayBuffer.sample(return_idx=True)
        if rb["nstep_batch"]:
            # the fused n-step transitions: own rewards / next observations / done flags
            nd = torch.tensor(rb["ndones"][:B] + [0] * max(0, B - len(rb["ndones"])), dtype=torch.float32).reshape(B, 1)
            nr = dyadic(gen, (B, 1))
            nn_ = gen_obs(case, B, gen)
            nn2 = perturb_obs(case, nn_, nd, gen)
            mkn = lambda n: TensorDict({"obs": obs.clone(), "action": act.clone(), "reward": nr.clone(),
                                        "next_obs": n.clone(), "done": nd.clone()}, batch_size=[B])
            return (b1, mkn(nn_)), (b2, mkn(nn2))
        return (b1, None), (b2, None)
    return b1, b2


def clone_batch(case, batch):
    if case["algo"] in MULTI:
        return tuple({k: v.clone() for k, v in d.items()} for d in batch)
    if case["algo"] == "Rainbow":
        return (batch[0].clone(), None if batch[1] is None else batch[1].clone())
    return batch.clone()


MA_FIELDS = ("state", "action", "reward", "next_state", "done")


def batch_tensors(case, b):
    """every tensor handed to learn(), by name"""
    out = {}
    if case["algo"] in MULTI:
        for f, d in zip(MA_FIELDS, b):
            for a, v in d.items():
                out[f"{f}[{a}]"] = v
        return out
    parts = [("", b[0]), ("n_step.", b[1])] if case["algo"] == "Rainbow" else [("", b)]
    for pre, td in parts:
        if td is None:
            continue
        for k, v in td.flatten_keys(".").items():
            out[pre + k] = v
    return out


def modified_fields(case, passed, pristine):
    """fields of the batch handed to learn() whose contents are no longer bit-identical to the pristine copy"""
    a, b = batch_tensors(case, passed), batch_tensors(case, pristine)
    out = []
    for k in b:
        if k not in a or a[k].shape != b[k].shape or not torch.equal(a[k], b[k]):
            diff = float((a[k].to(torch.float64) - b[k].to(torch.float64)).abs().max()) if k in a and a[k].shape == b[k].shape else None
            out.append([k, diff])
    return out


class SharedBatch:
    """the SAME experiences handed to learn() again and again (an offline dataset swept for several epochs):
    'same'  = one batch object, 'views' = fresh slices of one dataset tensor (same storage) on every call"""

    def __init__(self, case, batch, mode):
        self.case, self.mode = case, mode
        cat2 = lambda v: torch.cat([v.clone(), v.clone()], 0)
        if mode == "same":
            self.obj = clone_batch(case, batch)
        elif case["algo"] in MULTI:
            self.big = tuple({k: cat2(v) for k, v in d.items()} for d in batch)
            self.B = next(iter(batch[0].values())).shape[0]
        elif case["algo"] == "Rainbow":
            self.big = tuple(None if td is None else torch.cat([td.clone(), td.clone()], 0) for td in batch)
            self.B = batch[0].batch_size[0]
        else:
            self.big = torch.cat([batch.clone(), batch.clone()], 0)
            self.B = batch.batch_size[0]

    def get(self):
        if self.mode == "same":
            return self.obj
        if self.case["algo"] in MULTI:
            return tuple({k: v[:self.B] for k, v in d.items()} for d in self.big)
        if self.case["algo"] == "Rainbow":
            return tuple(None if td is None else td[:self.B] for td in self.big)
        return self.big[:self.B]


def malformed(case, batch, kind):
    """a copy of the batch on which learn() must fail:
       'width'   — continuous actions one column too wide (fails in the first critic forward of the call); discrete actions
                   out of range (fails in the gather / index, after the networks were evaluated),
       'rows'    — the reward tensor(s) one row too long (fails when the Bellman target is assembled, after the target
                   networks were evaluated),
       'late'    — multi-agent only: only the LAST agent's reward is one row too long (the earlier agents' updates run first)"""
    b = clone_batch(case, batch)
    if kind == "rows" and case["B"] == 1:
        kind = "width"            # a one-row batch broadcasts against any number of reward rows: learn() would accept it
    wide = lambda v: torch.cat([v, v[:, :1]], dim=1) if v.ndim == 2 else torch.stack([v, v], dim=1)
    tall = lambda v: torch.cat([v, v[:1]], dim=0)
    if case["algo"] in MULTI:
        st, ac, rw, ns, dn = b
        if kind == "width":
            ac = {a: wide(v) for a, v in ac.items()}
        elif kind == "rows":
            rw = {a: tall(v) for a, v in rw.items()}
        else:
            last = ids(case)[-1]
            rw = {a: (tall(v) if a == last else v) for a, v in rw.items()}
        return (st, ac, rw, ns, dn)
    tds = [b[0], b[1]] if case["algo"] == "Rainbow" else [b]
    out = []
    for td in tds:
        if td is None:
            out.append(None)
            continue
        d = {k: td[k] for k in td.keys()}
        if kind == "width":
            d["action"] = wide(d["action"]) if case["algo"] in SINGLE_AC else d["action"] + (N_ACT + 5)
        else:
            d["reward"] = tall(d["reward"])
        out.append(d)             # a plain dict: the fields no longer share one batch size
    return tuple(out) if case["algo"] == "Rainbow" else out[0]


def full_state(agent, algo):
    """everything a failed learn() call must leave untouched: all network weights (online and target), all optimiser
    state tensors, the phase counter(s) of the policy delay"""
    st = {}
    for n, on, tg in pairs(agent, algo):
        st["online:" + n], st["target:" + n] = weights(on)[0], weights(tg)[0]
    for name, v in sorted(vars(agent).items()):
        if hasattr(v, "optimizer") and hasattr(v, "state_dict"):
            sds = v.state_dict()
            for oi, sd in enumerate(sds if isinstance(sds, list) else [sds]):
                for pid, ps in sorted(sd.get("state", {}).items(), key=lambda kv: str(kv[0])):
                    for kk, vv in sorted(ps.items()):
                        st[f"optimizer:{name}[{oi}].{pid}.{kk}"] = (vv.detach().reshape(-1).to(torch.float64).numpy().copy()
                                                                    if isinstance(vv, torch.Tensor) else np.array([float(vv)]))
    lc = getattr(agent, "learn_counter", None)
    if lc is not None:
        st["counter:learn_counter"] = np.array([float(x) for x in (lc.values() if isinstance(lc, dict) else [lc])])
    return st


def state_diff(a, b):
    out = []
    for k in sorted(set(a) | set(b)):
        if k not in a or k not in b or a[k].shape != b[k].shape or not np.array_equal(a[k], b[k]):
            out.append(k)
    return out


def failing_learn(agent, case, batch, kind):
    """hand learn() a malformed batch, catch what it raises, report whether anything of the agent changed"""
    before = full_state(agent, case["algo"])
    bad = malformed(case, batch, kind)
    algo = case["algo"]
    try:
        if algo == "Rainbow":
            agent.learn(bad[0], n_experiences=bad[1], per=case["rb"]["per"])
        elif algo in SINGLE_AC:
            agent.learn(bad, noise_clip=NOISE_CLIP, policy_noise=POLICY_NOISE)
        else:
            agent.learn(bad)
        raised = None
    except Exception as e:
        raised = f"{type(e).__name__}: {str(e)[:160]}"
    changed = state_diff(before, full_state(agent, algo))       # observation only (atomicity is not part of the property)
    return {"kind": kind, "raised": raised, "changed": changed,
            "targets_moved": [c for c in changed if c.startswith("target:")]}


def call_learn(agent, case, batch, passed=None):
    """learn() on a fresh clone of [batch] (or on [passed], experiences that share storage with earlier calls);
    reports which of the handed-over tensors learn() modified"""
    algo = case["algo"]
    b0 = b = clone_batch(case, batch) if passed is None else passed
    if algo == "Rainbow":
        out = agent.learn(b[0], n_experiences=b[1], per=case["rb"]["per"])
        pri = out[2]
        return {"loss": float(out[0]), "pri": None if pri is None else [float(x) for x in np.asarray(pri).reshape(-1)],
                "modified": modified_fields(case, b0, batch)}
    if case.get("form") == "tuple":       # CQN / TD3 also accept the five tensors as a tuple
        b = (b["obs"], b["action"], b["reward"], b["next_obs"], b["done"])
    if algo in SINGLE_AC:
        if case.get("default_noise"):
            out = agent.learn(b)
        else:
            out = agent.learn(b, noise_clip=NOISE_CLIP, policy_noise=POLICY_NOISE)
        return {"loss": float(out[1]), "actor_loss": None if out[0] is None else float(out[0]),
                "modified": modified_fields(case, b0, batch)}
    if algo in MULTI:
        out = agent.learn(b)
        return {"loss": [float(out[a][1]) for a in ids(case)],
                "actor_loss": [None if out[a][0] is None else float(out[a][0]) for a in ids(case)],
                "modified": modified_fields(case, b0, batch)}
    return {"loss": float(agent.learn(b)), "modified": modified_fields(case, b0, batch)}


# ---------------------------------------------------------------------------------- tables: the real networks on s / s'
def tables(agent, case, batch, seed):
    """evaluate the agent's real networks on the batch the way the learner's definition says; nothing is learned"""
    algo = case["algo"]
    with torch.no_grad():
        if algo in SINGLE_DISCRETE:
            obs = agent.preprocess_observation(batch["obs"])
            nxt = agent.preprocess_observation(batch["next_obs"])
            qe = agent.actor(obs)
            t = {"qe": lists(qe), "qon": lists(agent.actor(nxt)), "qtn": lists(agent.actor_target(nxt)),
                 "a": [int(x) for x in batch["action"].reshape(-1)], "r": lists(batch["reward"].reshape(-1)),
                 "d": lists(batch["done"].reshape(-1))}
            if algo in ("CQN", "CDQN"):
                t["lse"] = lists(torch.logsumexp(qe.to(torch.float64), dim=1))
            return t
        if algo == "Rainbow":
            out = {}
            for key, b in (("one", batch[0]), ("n", batch[1])):
                if b is None:
                    out[key] = None
                    continue
                obs = agent.preprocess_observation(b["obs"])
                nxt = agent.preprocess_observation(b["next_obs"])
                B = b["reward"].shape[0]
                na = agent.actor(nxt).argmax(1)
                p = agent.actor_target(nxt, q=False)[range(B), na]
                logp = agent.actor(obs, q=False, log=True)[range(B), b["action"].reshape(-1).long()]
                out[key] = {"p": lists(p), "logp": lists(logp), "r": lists(b["reward"].reshape(-1)),
                            "d": lists(b["done"].reshape(-1))}
            out["w"] = lists(batch[0]["weights"].reshape(-1)) if case["rb"]["per"] else [1.0] * batch[0].batch_size[0]
            out["support"] = lists(agent.support)
            return out
        if algo in SINGLE_AC:
            obs = agent.preprocess_observation(batch["obs"])
            nxt = agent.preprocess_observation(batch["next_obs"])
            act = batch["action"]
            crit = [agent.critic] if algo == "DDPG" else [agent.critic_1, agent.critic_2]
            critt = [agent.critic_target] if algo == "DDPG" else [agent.critic_target_1, agent.critic_target_2]
            qs = torch.cat([c(obs, act) for c in crit], dim=1)
            pi = agent.actor_target(nxt)
            torch.manual_seed(seed)                       # the draw learn() will make under the same seed
            clip_, std_ = noise_args(case)
            noise = torch.empty_like(act).normal_(0, std_)
            lo = torch.tensor(case["lo"], dtype=torch.float32)
            hi = torch.tensor(case["hi"], dtype=torch.float32)
            an = torch.max(torch.min(pi + noise.clamp(-clip_, clip_), hi), lo)
            qns = torch.cat([c(nxt, an) for c in critt], dim=1)
            return {"qs": lists(qs), "qns": lists(qns), "pi": lists(pi), "noise": lists(noise), "an": lists(an),
                    "r": lists(batch["reward"].reshape(-1)), "d": lists(batch["done"].reshape(-1))}
        # multi-agent: centralised critics over the stacked observations / actions of all agents
        st, ac, rw, ns, dn = batch
        st = agent.preprocess_observation(st)
        ns = agent.preprocess_observation(ns)
        # every stacked input is in the order of the algorithm's agent_ids, whatever the key order of the dictionaries
        AID = ids(case)
        sst = torch.cat([st[a] for a in AID], dim=1)
        sns = torch.cat([ns[a] for a in AID], dim=1)
        sac = torch.cat([ac[a] for a in AID], dim=1)
        torch.manual_seed(seed)          # Discrete action spaces: the target actors' Gumbel-softmax draws learn() will make
        nac = torch.cat([agent.actor_targets[i](ns[a]) for i, a in enumerate(AID)], dim=1)
        per_agent = []
        for i, a in enumerate(AID):
            if algo == "MADDPG":
                crit, critt = [agent.critics[i]], [agent.critic_targets[i]]
            else:
                crit = [agent.critics_1[i], agent.critics_2[i]]
                critt = [agent.critic_targets_1[i], agent.critic_targets_2[i]]
            per_agent.append({"qs": lists(torch.cat([c(sst, sac) for c in crit], dim=1)),
                              "qns": lists(torch.cat([c(sns, nac) for c in critt], dim=1)),
                              "r": lists(rw[a].reshape(-1)), "d": lists(dn[a].reshape(-1))})
        return {"agents": per_agent,
                "stack": {"ids": [AGENT_IDS.index(a) for a in AID],
                          "dict": [[AGENT_IDS.index(a), lists(ac[a][0])] for a in ac.keys()], "stacked": lists(sac[0])}}


# ---------------------------------------------------------------------------------- reference losses (float64, independent of Coq)
def ref_loss(case, t):
    algo, g = case["algo"], case["gamma"]
    if algo in SINGLE_DISCRETE:
        dbl = algo in ("DDQN", "CDQN")
        ys, qs = [], []
        for i in range(len(t["a"])):
            nxt = t["qtn"][i][int(np.argmax(t["qon"][i]))] if dbl else max(t["qtn"][i])
            ys.append(t["r"][i] + g * (1.0 - t["d"][i]) * nxt)
            qs.append(t["qe"][i][t["a"][i]])
        m = float(np.mean((np.array(qs) - np.array(ys)) ** 2))
        if algo in ("CQN", "CDQN"):
            return float(np.mean(t["lse"]) - np.mean(np.array(t["qe"])) + 0.5 * m)
        return m
    if algo == "Rainbow":
        rb = case["rb"]
        N, vmin, vmax = rb["atoms"], f32(rb["vmin"]), f32(rb["vmax"])
        dz = (rb["vmax"] - rb["vmin"]) / (N - 1)
        sup = np.array(t["support"])

        def elem(tt, gam):
            out = []
            for i in range(len(tt["r"])):
                tz = np.clip(tt["r"][i] + (1 - tt["d"][i]) * gam * sup, vmin, vmax)
                b = np.clip((tz - vmin) / dz, 0, N - 1)
                L, u = np.floor(b).astype(int), np.ceil(b).astype(int)
                L[(u > 0) & (L == u)] -= 1
                u[(L < N - 1) & (L == u)] += 1
                proj = np.zeros(N)
                p = np.array(tt["p"][i])
                np.add.at(proj, L, p * (u - b))
                np.add.at(proj, u, p * (b - L))
                out.append(-float(np.sum(proj * np.array(tt["logp"][i]))))
            return np.array(out)
        use1 = rb["combined"] or t["n"] is None
        e = np.zeros(len(t["w"]))
        if use1:
            e = e + elem(t["one"], f32(g))
        if t["n"] is not None:
            e = e + elem(t["n"], f32(g ** rb["n_step"]))
        return float(np.mean(e * np.array(t["w"]))), [float(x) for x in e]
    if algo in SINGLE_AC:
        return ref_ac(t, g)
    return [ref_ac(ta, g) for ta in t["agents"]]


def ref_ac(t, g):
    qs, qns = np.array(t["qs"]), np.array(t["qns"])
    y = np.array(t["r"]) + (1 - np.array(t["d"])) * g * qns.min(axis=1)
    return float(sum(np.mean((qs[:, k] - y) ** 2) for k in range(qs.shape[1])))


def relerr(a, b):
    return abs(a - b) / max(1.0, abs(b))


# ---------------------------------------------------------------------------------- the driver
class C08(vlib.Driver):
    pid = "C08"
    preamble = "From Coq Require Import QArith.\nFrom AgileV Require Import C08.Model C08.Check C08.ModelMA C08.CheckMA.\nOpen Scope Q_scope."
    rule = ("one case = (algorithm, batch with a done pattern and dyadic rewards, gamma, tau, policy_freq, number of "
            "consecutive learn calls, optional pre-history learn+clone / checkpoint round trip / mutation). Distinct = distinct "
            "(algorithm incl. variant, done pattern, gamma, tau, policy_freq, steps, pre-history). Non-trivial = the batch has at "
            "least one done=1 and one done=0 row, or there are >= 2 consecutive learn calls.")
    trusted_base = ["hand-written model coq/theories/C08/Model.v (networks enter as tables / Section variables)",
                    "correspondence harness harness/c08.py (table extraction by calling the real networks, replay of the "
                    "target-policy noise under the same torch seed, weight snapshots incl. non-parameter tensors)"]
    assumptions = ["the gradient step (autograd, Adam, gradient clipping) is opaque: online weights after each step are inputs",
                   "torch.argmax returns the first maximal index; nn.MSELoss is the mean of squared differences (K-validated)",
                   "log-sum-exp (CQN) and log-softmax (Rainbow) values enter the model as tables computed by torch",
                   "float32 rounding: model and implementation agree to 1e-4 (loss) / 1e-6 (weights), evaluated in Q"]
    shard = 12

    # ---------- generation
    def generate(self, tier, rng):
        cases = []
        gammas = [0.0, 0.5, 0.99, 1.0]
        taus = [1e-3, 0.25, 1.0]
        pres = [[], ["learn", "clone"], ["learn", "ckpt"], ["learn", "mut_arch"], ["learn", "mut_param"], ["learn", "mut_act"],
                ["learn", "load"]]
        per_algo = 9 if tier == "quick" else 120
        variants = ["DQN", "DDQN", "CQN", "CDQN", "Rainbow", "DDPG", "TD3", "MADDPG", "MATD3"]
        n = 0
        for algo in variants:
            k_algo = per_algo if algo not in ("DDQN", "CDQN") else per_algo // 2
            for j in range(k_algo):
                n += 1
                B = rng.choice([1, 2, 3, 4, 5, 8, 16]) if j % 4 else rng.choice([2, 4])
                # done patterns: all placements for small B are covered over the run; always mixed on j%3==0
                if j % 3 == 0 and B >= 2:
                    dones = [1, 0] + [rng.randint(0, 1) for _ in range(B - 2)]
                    rng.shuffle(dones)
                elif j % 3 == 1:
                    dones = [rng.randint(0, 1) for _ in range(B)]
                else:
                    dones = [rng.choice([0, 0, 1])] * B if j % 2 else [rng.randint(0, 1) for _ in range(B)]
                case = {"algo": algo, "seed": rng.randrange(1, 10 ** 6), "B": B,
                        "gamma": gammas[j % 4], "tau": taus[(j // 2) % 3], "pf": 1,
                        "dones": dones, "rewards": [rng.randint(-8, 8) / 4 for _ in range(B)],
                        "steps": 1 + (j % 5), "pre": pres[(j - 3) % len(pres)] if j >= 4 else [], "lr": 1e-2,
                        "partial_cfg": j % 6 == 5, "reuse": [None, "same", None, "views", None][j % 5]}
                if j % 3 == 2:     # failed learn() calls (caught) at several positions of the history
                    kinds = ["width", "rows"]
                    case["fail_at"] = [[p_, kinds[(j + p_) % 2]] for p_ in sorted({0, (j // 3) % case["steps"], case["steps"] - 1})]
                if algo in SINGLE_AC or algo == "MATD3":
                    case["pf"] = 1 + (j % 3)
                if algo in SINGLE_AC:
                    case["share"] = (j % 4 == 3)
                    # boxes narrower than the noise clip, so that the clamp to the action box acts on most rows
                    lo = [rng.choice([-1.0, -0.25]), rng.choice([-0.5, -0.125, 0.0]), rng.choice([-1.0, -0.5])]
                    case["lo"], case["hi"] = lo, [rng.choice([1.0, 0.25]), rng.choice([0.125, 0.25, 2.0]), rng.choice([0.5, 1.0])]
                if algo in MULTI:
                    case["ma_split"] = (j % 2 == 1)
                if algo == "Rainbow":
                    nstep_batch = j % 3 != 0
                    case["rb"] = {"atoms": rng.choice([5, 9]), "vmin": rng.choice([-2.0, -4.0]), "vmax": rng.choice([2.0, 4.0]),
                                  "n_step": rng.choice([2, 3]) if nstep_batch else rng.choice([1, 3]), "nstep_batch": nstep_batch,
                                  "per": j % 2 == 1, "combined": j % 4 in (1, 2),
                                  "ndones": [rng.randint(0, 1) for _ in range(B)],
                                  "wshape": "flat" if j % 4 == 3 else "col"}
                    if "mut_arch" in case["pre"] or "mut_act" in case["pre"]:
                        case["pre"] = ["learn", "mut_param"]
                cases.append(case)
        cases += self.audit_cases(tier, rng)
        return cases

    # ---------- boundary / audit cases: every guard, default argument and input form of the anchored code that the
    # seeded stream above never reaches, and objects that are NOT freshly built (chains of clone / mutation / reload)
    AUDIT = {
        "DQN": [{"act1d": True}, {"obs": "image", "pre": ["mut_arch"]}, {"obs": "dict", "pre": ["clone", "mut_arch", "clone"]},
                {"obs": "disc"}, {"pre": ["mut_arch", "ckpt"]}, {"pre": ["learn", "mut_hp"]}],
        "DDQN": [{"obs": "dict"}, {"act1d": True, "pre": ["mut_act", "load"]}, {"obs": "image"}],
        "CQN": [{"form": "tuple"}, {"obs": "image", "form": "tuple"}, {"pre": ["mut_arch", "mut_arch"]}, {"obs": "dict", "pre": ["learn", "mut_hp"]}],
        "CDQN": [{"form": "tuple", "obs": "dict"}, {"obs": "disc", "pre": ["mut_arch", "ckpt"]}],
        "Rainbow": [{"obs": "image"}, {"obs": "dict", "per": True}, {"pre": ["mut_param", "ckpt"]}, {"pre": ["learn", "mut_hp"], "per": True},
                    {"obs": "disc", "pre": ["clone", "mut_param", "clone"]}, {"pre": ["sharpen"], "force_done": True, "atoms": 33}],
        "DDPG": [{"default_noise": True, "lo": [-1.0, -1.0, -1.0], "hi": [1.0, 1.0, 1.0]}, {"obs": "dict"}, {"obs": "image", "share": True}, {"pre": ["clone", "mut_arch", "clone"], "share": True},
                 {"pre": ["mut_arch", "ckpt"]}, {"pre": ["learn", "mut_hp"]}],
        "TD3": [{"form": "tuple"}, {"default_noise": True, "form": "tuple", "lo": [-1.0, -1.0, -1.0], "hi": [1.0, 1.0, 1.0]}, {"obs": "dict", "pre": ["mut_arch", "load"]},
                {"pre": ["learn", "mut_hp"], "share": True}, {"obs": "image", "pre": ["clone", "mut_act", "clone"]}],
        "MADDPG": [{"key_order": "reversed"}, {"ids_unsorted": True}, {"ids_unsorted": True, "key_order": "reversed", "pre": ["learn", "clone"]},
                   {"ma_discrete": True}, {"ma_discrete": True, "key_order": "reversed"}, {"pre": ["mut_arch", "ckpt"]}, {"pre": ["learn", "mut_hp"]}],
        "MATD3": [{"key_order": "reversed"}, {"ids_unsorted": True}, {"ids_unsorted": True, "key_order": "reversed", "pre": ["learn", "clone"]},
                  {"ma_discrete": True}, {"ma_discrete": True, "key_order": "reversed"}, {"pre": ["clone", "mut_arch", "clone"]}, {"pre": ["learn", "mut_hp"]}],
    }

    def audit_cases(self, tier, rng):
        out = []
        for algo in self.AUDIT:           # every learner sweeps the same experiences three times: one object / slices of one dataset
            self.AUDIT[algo] = [v for v in self.AUDIT[algo] if not v.get("_reuse")] + \
                [{"reuse": "same", "steps3": True, "_reuse": True}, {"reuse": "views", "steps3": True, "_reuse": True}]
        for algo in self.AUDIT:           # policy-delay phase after failed calls: 5 successful calls, failures before calls 1 and 3
            self.AUDIT[algo] += [{"fail_at": [[1, "width"], [3, "rows"]], "steps5": True, "pf2": True, "_reuse": True},
                                 {"fail_at": [[0, "rows"], [2, "width"], [2, "rows"]], "steps5": True, "pf3": True, "_reuse": True}]
        for algo in ("MADDPG", "MATD3"):
            self.AUDIT[algo].append({"fail_at": [[1, "late"]], "steps3": True, "pf2": True, "_reuse": True})
        self.AUDIT["CQN"].append({"reuse": "views", "form": "tuple", "steps3": True, "_reuse": True})
        self.AUDIT["TD3"].append({"reuse": "same", "form": "tuple", "steps3": True, "_reuse": True})
        reps = 1 if tier == "quick" else 4
        for algo, variants in self.AUDIT.items():
            for vi, v in enumerate(variants):
                for r in range(reps):
                    B = 4 if r == 0 else rng.choice([2, 3, 5, 8])
                    dones = [1, 0] + [rng.randint(0, 1) for _ in range(B - 2)]
                    rng.shuffle(dones)
                    case = {"algo": algo, "seed": rng.randrange(1, 10 ** 6), "B": B, "gamma": [0.99, 0.5, 1.0][(vi + r) % 3],
                            "tau": [0.25, 1e-3, 1.0][(vi + r) % 3], "pf": 1, "dones": dones,
                            "rewards": [rng.randint(-8, 8) / 4 for _ in range(B)], "steps": 2 + (vi + r) % 2, "pre": [], "lr": 1e-2,
                            "partial_cfg": False, "audit": True}
                    if algo in SINGLE_AC or algo == "MATD3":
                        case["pf"] = 1 + (vi + r) % 3
                    if algo in SINGLE_AC:
                        case["share"] = False
                        case["lo"], case["hi"] = [-0.25, -0.125, -1.0], [1.0, 0.25, 0.5]
                    if algo in MULTI:
                        case["ma_split"] = bool((vi + r) % 2)
                    if algo == "Rainbow":
                        case["rb"] = {"atoms": 5, "vmin": -2.0, "vmax": 2.0, "n_step": 3, "nstep_batch": bool((vi + r) % 2), "per": False,
                                      "combined": bool(vi % 2), "ndones": [rng.randint(0, 1) for _ in range(B)], "wshape": "col"}
                        if v.get("per"):
                            case["rb"]["per"] = True
                    case.update({k: x for k, x in v.items() if k not in ("per", "force_done", "atoms", "steps3", "steps5", "pf2", "pf3", "_reuse")})
                    if v.get("steps3"):
                        case["steps"] = 3
                    if v.get("steps5"):
                        case["steps"] = 5
                    if (v.get("pf2") or v.get("pf3")) and (algo in SINGLE_AC or algo == "MATD3"):
                        case["pf"] = 2 if v.get("pf2") else 3
                    if v.get("atoms"):
                        case["rb"]["atoms"] = v["atoms"]
                    if v.get("force_done"):
                        case["dones"] = [1] * (B - 1) + [0]
                        case["rb"]["ndones"] = [1] * B
                    out.append(case)
        return out

    # ---------- pre-history
    def apply_pre(self, agent, case, op, k):
        torch.manual_seed(case["seed"] + 31 * (k + 1))
        np.random.seed((case["seed"] + 31 * (k + 1)) % (2 ** 31))
        random.seed(case["seed"] + 31 * (k + 1))
        if op == "learn":
            b, _ = make_batch(case, salt=100 + k)
            torch.manual_seed(case["seed"] + 17 * k)
            call_learn(agent, case, b)
            return agent
        if op == "sharpen":
            # a trained Rainbow net has peaked return distributions: scale the output layers of the value / advantage
            # streams of actor and actor_target so that some atoms fall below the 1e-3 clamp of the network's forward
            with torch.no_grad():
                for net in (agent.actor, agent.actor_target):
                    for n_, p_ in net.named_parameters():
                        if "layer_output" in n_ and n_.endswith(("weight_mu", "bias_mu")) and "head_net" in n_:
                            p_.mul_(150.0)
            return agent
        if op == "clone":
            return agent.clone()
        if op == "ckpt":
            d = vlib.BUILD / ("C08" + vlib.ALT_TAG)
            d.mkdir(parents=True, exist_ok=True)
            fd, path = tempfile.mkstemp(suffix=".pt", dir=str(d))
            os.close(fd)
            try:
                agent.save_checkpoint(path)
                fresh = build(dict(case, seed=case["seed"] + 1))      # different initial weights
                fresh.load_checkpoint(path)
            finally:
                os.unlink(path)
            return fresh
        if op == "load":                                              # the class-method path: rebuilds the agent from the file
            d = vlib.BUILD / ("C08" + vlib.ALT_TAG)
            d.mkdir(parents=True, exist_ok=True)
            fd, path = tempfile.mkstemp(suffix=".pt", dir=str(d))
            os.close(fd)
            try:
                agent.save_checkpoint(path)
                fresh = type(agent).load(path)
            finally:
                os.unlink(path)
            return fresh
        from agilerl.hpo.mutation import Mutations
        kind = op.split("_")[1]
        mut = Mutations(no_mutation=0, architecture=1 if kind == "arch" else 0, new_layer_prob=0.3,
                        parameters=1 if kind == "param" else 0, activation=1 if kind == "act" else 0, rl_hp=1 if kind == "hp" else 0,
                        rand_seed=case["seed"])
        return mut.mutation([agent])[0]

    # ---------- implementation run
    def run_impl(self, case):
        algo = case["algo"]
        torch.set_num_threads(1)
        obs = {"error": None, "steps": [], "pairs": [], "twin": None}
        try:
            A, A2 = build(case), build(case)
            for k, op in enumerate(case["pre"]):
                A = self.apply_pre(A, case, op, k)
                A2 = self.apply_pre(A2, case, op, k)
            batch, batch2 = make_batch(case)
            shared = SharedBatch(case, batch, case["reuse"]) if case.get("reuse") else None
            tau = float(A.tau)
            obs["tau"], obs["gamma"] = tau, float(A.gamma)
            lc = getattr(A, "learn_counter", 0)
            obs["counter0"] = int(next(iter(lc.values())) if isinstance(lc, dict) else lc)
            s0 = snapshot(A, algo)
            names = [n for n, _, _ in pairs(A, algo)]
            rng = random.Random(case["seed"])
            idx = {}
            for n in names:
                size = len(s0[n][1])
                idx[n] = sorted(rng.sample(range(size), min(MAX_CELLS, size)))
            obs["pairs"] = [{"name": n, "cells": len(s0[n][1]), "online_cells": len(s0[n][0]), "exposed": int(s0[n][2]),
                             "idx": idx[n], "t0": [float(s0[n][1][i]) for i in idx[n]]} for n in names]
            prev = s0
            obs["failed"] = []
            for k in range(case["steps"]):
                seed_k = case["seed"] + 1000 + k
                for fk, kind in case.get("fail_at", []):       # a learn() call that raises (caught here) before successful call k
                    if fk == k:
                        torch.manual_seed(seed_k + 500)
                        fr = failing_learn(A, case, batch, kind)
                        fr["before_step"] = k
                        obs["failed"].append(fr)
                        if fr["raised"] is None:
                            obs["accepted_malformed"] = True
                        prev = snapshot(A, algo)      # the next successful step is judged from the state right before it
                        if k == 0:
                            torch.manual_seed(seed_k + 500)
                            failing_learn(A2, case, batch2, kind)   # the twin lives through the same history
                if case.get("default_noise"):
                    # the default noise_clip (0.5) is 2.5 sigma of the default policy_noise (0.2): pick the torch seed of
                    # this call so that the clip really acts on a not-done row (otherwise the default would go untested)
                    live = (batch["done"].reshape(-1) == 0)
                    for s_try in range(seed_k, seed_k + 200000, 977):
                        torch.manual_seed(s_try)
                        nz = torch.empty_like(batch["action"]).normal_(0, 0.2)
                        if bool((nz[live].abs() > 0.5).any()):
                            seed_k = s_try
                            break
                rec = {"tables": tables(A, case, batch, seed_k)}
                if k == 0:
                    rec["tables2"] = tables(A, case, batch2, seed_k)
                pf_k = case["pf"] if algo in SINGLE_AC + ("MATD3",) else 1
                updating = (obs["counter0"] + k + 1) % pf_k == 0
                pre_nets = c08_grad.copies(A, algo)
                torch.manual_seed(seed_k)
                with c08_grad.StepRecorder() as recd:
                    rec["out"] = call_learn(A, case, batch, passed=None if shared is None else shared.get())
                post = snapshot(A, algo)
                try:      # gradient left behind by learn() vs gradient of the defined loss on the pre-step copy
                    g_impl = c08_grad.impl_grads(A, algo, recd.grads)
                    cmpg = c08_grad.compare(c08_grad.reference_grads(A, case, batch, rec["tables"], pre_nets, ids(case)), g_impl)
                    rec["grad"] = [[n_, cos_, ratio_,
                                    float(np.abs(post[n_][0] - prev[n_][0]).max()) if n_ in post and len(post[n_][0]) == len(prev[n_][0]) else None]
                                   for n_, cos_, ratio_ in cmpg]
                except Exception as e:      # the clause is an extra: never let it mask the main observations
                    rec["grad"] = []
                    rec["grad_error"] = f"{type(e).__name__}: {e}"
                soft = []
                for n in names:
                    on, tg, _ = post[n]
                    tp = prev[n][1]
                    ok_shape = len(on) == len(tg) == len(tp)
                    r = {"name": n, "shape_ok": ok_shape}
                    if ok_shape:
                        want = tau * on + (1.0 - tau) * tp
                        scale = np.maximum(1.0, np.abs(want))
                        e = np.abs(tg - want) / scale
                        j = int(np.argmax(e)) if len(e) else 0
                        r.update({"err": float(e.max()) if len(e) else 0.0, "moved": float(np.abs(tg - tp).max()) if len(e) else 0.0,
                                  "gap": float(np.abs(on - tp).max()) if len(e) else 0.0,
                                  "worst": [j, float(on[j]), float(tp[j]), float(tg[j])] if len(e) else None,
                                  "online": [float(on[i]) for i in idx[n]], "target": [float(tg[i]) for i in idx[n]]})
                    soft.append(r)
                rec["soft"] = soft
                if k == 0:
                    torch.manual_seed(seed_k)
                    with c08_grad.StepRecorder() as recd2:
                        out2 = call_learn(A2, case, batch2)
                    p2 = snapshot(A2, algo)
                    wdiff = 0.0
                    for n in names:
                        for a, b in ((post[n][0], p2[n][0]), (post[n][1], p2[n][1])):
                            wdiff = max(wdiff, float(np.abs(a - b).max()) if len(a) == len(b) and len(a) else (0.0 if len(a) == len(b) else 1.0))
                    gdiff = 0.0        # relative difference of the value networks' gradients at the optimiser step
                    try:
                        g2 = c08_grad.impl_grads(A2, algo, recd2.grads)
                        for n_, ga in g_impl.items():
                            gb = g2.get(n_)
                            if gb is not None and len(gb) == len(ga) and np.linalg.norm(ga) > 1e-7:
                                gdiff = max(gdiff, float(np.linalg.norm(ga - gb) / np.linalg.norm(ga)))
                    except Exception:
                        gdiff = None
                    obs["twin"] = {"out": out2, "wdiff": wdiff, "gdiff": gdiff}
                prev = post
                obs["steps"].append(rec)
        except Exception as e:  # learn() / clone() / load raised: reported by the oracle with this very case
            import traceback
            obs["error"] = f"{type(e).__name__}: {e}"
            obs["error_type"] = type(e).__name__
            obs["trace"] = traceback.format_exc()[-1200:]
        return obs

    # ---------- which calls update the targets, according to the property
    @staticmethod
    def update_steps(case, obs):
        pf = case["pf"] if case["algo"] in SINGLE_AC + ("MATD3",) else 1
        c = obs["counter0"]
        out = []
        for _ in obs["steps"]:
            c += 1
            out.append(c % pf == 0)
        return pf, out

    # ---------- model term
    def coq_term(self, case, obs):
        if obs["error"] or not obs["steps"] or obs.get("accepted_malformed"):
            return None
        algo = case["algo"]
        g = coq_Q(obs["gamma"])
        Ql = lambda xs: "[" + "; ".join(coq_Q(x) for x in xs) + "]"
        QLL = lambda xss: "[" + "; ".join(Ql(xs) for xs in xss) + "]"
        terms = []

        def drows(t):
            return "[" + "; ".join(
                f"Build_drow {Ql(t['qe'][i])} {t['a'][i]}%nat {coq_Q(t['r'][i])} {coq_Q(t['d'][i])} {Ql(t['qon'][i])} {Ql(t['qtn'][i])}"
                for i in range(len(t["a"]))) + "]"

        def arows(t):
            return "[" + "; ".join(
                f"Build_arow {Ql(t['qs'][i])} {coq_Q(t['r'][i])} {coq_Q(t['d'][i])} {Ql(t['qns'][i])}"
                for i in range(len(t["r"]))) + "]"

        def rrows(t):
            if t is None:
                return "[]"
            return "[" + "; ".join(
                f"Build_rrow {coq_Q(t['r'][i])} {coq_Q(t['d'][i])} {Ql(t['p'][i])} {Ql(t['logp'][i])}"
                for i in range(len(t["r"]))) + "]"

        for k, rec in enumerate(obs["steps"]):
            t = rec["tables"]
            t2 = rec.get("tables2", t)
            out = rec["out"]
            if algo in SINGLE_DISCRETE:
                dbl = coq_bool(algo in ("DDQN", "CDQN"))
                if algo in ("DQN", "DDQN"):
                    terms.append(f"check_dqn {g} {dbl} {drows(t)} {drows(t2)} {coq_Q(out['loss'])}")
                else:
                    terms.append(f"check_cqn {g} {dbl} {drows(t)} {drows(t2)} {Ql(t['lse'])} {coq_Q(out['loss'])}")
            elif algo == "Rainbow":
                rb = case["rb"]
                g32 = f32(obs["gamma"])
                gn = Fraction(f32(obs["gamma"] ** rb["n_step"]))
                dz = Fraction(rb["vmax"] - rb["vmin"]) / (rb["atoms"] - 1)
                use1 = rb["combined"] or t["n"] is None
                usen = t["n"] is not None
                pri = out.get("pri")
                elem_obs = Ql([p - 1e-6 for p in pri]) if pri is not None else "[]"
                terms.append(f"check_rainbow {coq_Q(g32)} {coq_Q(gn)} {coq_Q(f32(rb['vmin']))} {coq_Q(f32(rb['vmax']))} {coq_Q(dz)} "
                             f"{Ql(t['support'])} {coq_bool(use1)} {coq_bool(usen)} {rrows(t['one'])} {rrows(t['n'])} {Ql(t['w'])} "
                             f"{coq_Q(out['loss'])} {elem_obs}")
                terms.append(f"check_rainbow_mass true {Ql(t['support'])} {rrows(t['one'])} && check_rainbow_mass true {Ql(t['support'])} {rrows(t['n'])}")
            elif algo in SINGLE_AC:
                nc = 1 if algo == "DDPG" else 2
                terms.append(f"check_ac {g} {nc}%nat {arows(t)} {arows(t2)} {coq_Q(out['loss'])}")
                terms.append(f"check_next_actions {coq_Q(noise_args(case)[0])} {Ql(case['lo'])} {Ql(case['hi'])} {QLL(t['pi'])} {QLL(t['noise'])} {QLL(t['an'])}")
            else:
                nc = 1 if algo == "MADDPG" else 2
                for i, ta in enumerate(t["agents"]):
                    terms.append(f"check_ac {g} {nc}%nat {arows(ta)} {arows(t2['agents'][i])} {coq_Q(out['loss'][i])}")
                if k == 0:
                    sk = t["stack"]
                    dct = "[" + "; ".join(f"({a}%nat, {Ql(v)})" for a, v in sk["dict"]) + "]"
                    terms.append(f"check_stack [{'; '.join(str(a) + '%nat' for a in sk['ids'])}] {dct} {Ql(sk['stacked'])}")
        # soft-update traces
        pf, _ = self.update_steps(case, obs)
        tau = coq_Q(obs["tau"])
        for pi, p in enumerate(obs["pairs"]):
            tr = []
            for rec in obs["steps"]:
                s = rec["soft"][pi]
                if not s["shape_ok"]:
                    return "false"
                tr.append(f"({Ql(s['online'])}, {Ql(s['target'])})")
            terms.append(f"check_soft {tau} {pf}%nat {obs['counter0']}%nat {Ql(p['t0'])} [{'; '.join(tr)}]")
        return "(" + "\n  && ".join(terms) + ")%bool"

    # ---------- oracle: the property stated directly on the implementation's behaviour
    def oracle(self, case, obs):
        algo = case["algo"]
        out = []
        if obs["error"]:
            return [Violation("learn-raises", f"learn-raises:{algo}:{obs.get('error_type')}",
                              f"{algo}: building the agent, its pre-history or learn() raised on a batch the replay buffer would "
                              f"deliver: {obs['error']}\n{obs.get('trace', '')}")]
        if obs.get("accepted_malformed"):
            return []           # learn() accepted the malformed batch: this is not a failed-call history (and not this property)
        pf, upd = self.update_steps(case, obs)
        tau = obs["tau"]
        # (0) failed learn() calls (malformed batch, caught by the caller) are outside the property's quantifier, except
        #     that they are no learn STEP: they must not move any target, and they do not count for the policy-delay phase
        #     (update_steps counts the successful calls only; the clauses below judge those)
        for fr in obs.get("failed", []):
            if fr["raised"] is not None and fr["targets_moved"]:
                out.append(Violation("soft", f"soft-failed-call:{algo}",
                                     f"a learn() call that raised ({fr['kind']}: {fr['raised']!r}) before successful call {fr['before_step']} "
                                     f"moved the target network(s) {fr['targets_moved']}: targets may only move by the tau formula at a learn step"))
                return out
        for k, rec in enumerate(obs["steps"]):
            # (1) the minimised quantity is the defined loss with the Bellman target
            ref = ref_loss(case, rec["tables"])
            got = rec["out"]["loss"]
            if algo == "Rainbow":
                ref, elems = ref
                pri = rec["out"].get("pri")
                if pri is not None:
                    bad = [i for i, (p, e) in enumerate(zip(pri, elems)) if relerr(p - 1e-6, e) > TOL_LOSS]
                    if bad or len(pri) != len(elems):
                        out.append(Violation("priority", f"priority:{algo}", f"learn call {k}: new priorities {pri} are not the element-wise "
                                             f"cross-entropies {elems} + prior_eps (rows {bad})"))
            pairs_l = list(zip(got, ref)) if isinstance(got, list) else [(got, ref)]
            sig = f"loss:{algo}"
            if algo == "Rainbow" and case["rb"]["per"] and case["rb"].get("wshape", "col") == "col":
                # is the returned value mean(elementwise) * mean(weights), i.e. the mean of the (B, B) outer product?
                outer = float(np.mean(elems) * np.mean(rec["tables"]["w"]))
                if relerr(got, ref) > TOL_LOSS and relerr(got, outer) <= TOL_LOSS:
                    sig = "loss:Rainbow:per-weights-column-broadcast"
            if algo in MULTI and case.get("key_order") == "reversed":
                sig = f"loss:{algo}:action-key-order"
            for i, (a, b) in enumerate(pairs_l):
                if not (math.isfinite(a) and relerr(a, b) <= TOL_LOSS):
                    out.append(Violation("loss", sig,
                                         f"learn call {k}{' agent ' + str(i) if len(pairs_l) > 1 else ''}: learn() returned loss {a!r} but the "
                                         f"algorithm's loss with target r + gamma*(1-done)*Q_target(s') evaluated on the agent's own "
                                         f"networks is {b!r} (gamma={obs['gamma']}, dones={case['dones']})"
                                         + (f"; the returned value equals mean(elementwise loss) * mean(weights) = {outer!r}: the (B,1) importance "
                                            f"weights {rec['tables']['w']} delivered by the prioritised buffer broadcast against the (B,) losses "
                                            f"{elems} to a (B,B) matrix" if sig.endswith("broadcast") else "")))
                    break
            # (1b) what learn() called backward() on is that loss: gradient direction (and size, where no clipping applies)
            clipped = algo in ("CQN", "CDQN", "Rainbow")
            for name, cos, ratio, moved in (rec.get("grad", []) if not out else []):
                if cos is None:
                    continue            # different parameter list: not comparable
                if ratio == 0.0:
                    # no gradient left behind: fine if learn() clears gradients after stepping, but then the step must have
                    # moved the network; a network with a non-zero loss gradient that did not move at all was not trained
                    if moved == 0.0:
                        out.append(Violation("minimised", f"minimised:{algo}",
                                             f"learn call {k}: {name} received no gradient and its weights did not change although the "
                                             f"gradient of the algorithm's loss with respect to it is not zero: this network is not trained"))
                        break
                    continue
                if cos < 1 - 1e-3 or (ratio > 1 + 1e-2) or (not clipped and ratio < 1 - 1e-2):
                    out.append(Violation("minimised", f"minimised:{algo}",
                                         f"learn call {k}: the gradient learn() left in {name} is not the gradient of the algorithm's loss "
                                         f"(cosine {cos:.6f}, norm ratio {ratio:.6f}{', gradient clipping allowed for' if clipped else ''}): "
                                         f"learn() minimises something other than the loss it is defined by"))
                    break
            # (2) every target network = tau * online + (1 - tau) * previous (at the calls that update, untouched otherwise)
            for s, p in zip(rec["soft"], obs["pairs"]):
                kind = s["name"].split("[")[0]
                if not s["shape_ok"]:
                    out.append(Violation("soft", f"soft-shape:{algo}:{kind}", f"learn call {k}: online and target {s['name']} have different numbers of weights"))
                    continue
                if upd[k]:
                    if s["err"] > TOL_W:
                        vac = "" if p["exposed"] == p["cells"] else f" (only {p['exposed']} of {p['cells']} target weights are exposed by parameters())"
                        out.append(Violation("soft", f"soft:{algo}:{kind}",
                                             f"learn call {k}: target {s['name']} is not tau*online + (1-tau)*previous (tau={tau}): "
                                             f"cell {s['worst'][0]} online={s['worst'][1]!r} previous={s['worst'][2]!r} new={s['worst'][3]!r}, "
                                             f"expected {tau * s['worst'][1] + (1 - tau) * s['worst'][2]!r}; target moved by {s['moved']:.3g}{vac}"))
                elif s["moved"] != 0.0:
                    out.append(Violation("soft-delay", f"soft-delay:{algo}:{kind}",
                                         f"learn call {k} (counter {obs['counter0'] + k + 1}, policy_freq {pf}): target {s['name']} changed "
                                         f"by {s['moved']:.3g} although this call must not update the targets"))
            # (2b) learn() must not modify the experiences it is handed (they may be slices of a dataset / a batch that is
            #      swept again: the next step would then learn from a corrupted transition)
            mod = rec["out"].get("modified") or []
            if mod and not out:
                how = {None: "a fresh copy of the batch", "same": "the same batch object as in the earlier calls",
                       "views": "fresh slices of one dataset tensor (same storage as in the earlier calls)"}[case.get("reuse")]
                conseq = ""
                if case.get("reuse") and k + 1 < len(obs["steps"]):      # what the next sweep over the same storage then does
                    nxt_rec = obs["steps"][k + 1]
                    r2 = ref_loss(case, nxt_rec["tables"])
                    r2 = r2[0] if algo == "Rainbow" else r2
                    conseq = (f" Consequence on this very history: learn call {k + 1} on the same storage returned loss "
                              f"{nxt_rec['out']['loss']!r} where the loss defined on the pristine transitions is {r2!r}.")
                for fld, diff in mod[:1]:
                    out.append(Violation("args-modified", f"args-modified:{algo}:{fld.split('[')[0]}",
                                         f"learn call {k} (handed {how}): learn() changed the caller's tensor {fld!r} in place "
                                         f"(max abs change {diff}); all modified fields: {[m[0] for m in mod]}. A later learn step that sees the "
                                         f"same storage no longer learns from the stored transition." + conseq))
            if out:
                break
        # (3) a done transition's next observation has no influence at all
        tw = obs["twin"]
        if tw is not None and not out:
            l1, l2 = obs["steps"][0]["out"]["loss"], tw["out"]["loss"]
            l1 = l1 if isinstance(l1, list) else [l1]
            l2 = l2 if isinstance(l2, list) else [l2]
            tol_l, tol_w = (1e-5, None) if algo == "Rainbow" else (0.0, 0.0)
            sigd = f"done-mask:{algo}"
            extra = ""
            if algo == "Rainbow":
                masses = [sum(p) for key in ("one", "n") for tt in [obs["steps"][0]["tables"][key], obs["steps"][0]["tables2"][key]] if tt
                          for p, dd in zip(tt["p"], tt["d"]) if dd == 1]
                if masses and max(abs(m - 1) for m in masses) > 1e-5:
                    sigd = "done-mask:Rainbow:clamped-target-mass"
                    extra = (f"; the target distributions of the done rows have total mass {[round(m, 6) for m in masses]} (softmax clamped at "
                             f"1e-3 without renormalisation), and the projected target of a done row is (that mass) x (a reward-only vector)")
            if any(relerr(a, b) > tol_l for a, b in zip(l1, l2)):
                out.append(Violation("done-mask", sigd,
                                     f"two identical agents under equal seeds: learn(batch) -> loss {l1}, learn(batch with next_obs changed only "
                                     f"where done=1) -> loss {l2} (dones={case['dones']})" + extra))
            elif tw.get("gdiff") is not None and tw["gdiff"] > (1e-4 if algo == "Rainbow" else 0.0):
                out.append(Violation("done-mask", f"done-mask-gradient:{algo}",
                                     f"two identical agents under equal seeds: the gradients of the value networks at the optimiser step differ by "
                                     f"{tw['gdiff']:.3g} (relative) between learn(batch) and learn(batch with next_obs changed only where done=1) "
                                     f"(dones={case['dones']})"))
            elif tol_w is not None and tw["wdiff"] > tol_w:
                out.append(Violation("done-mask", f"done-mask-weights:{algo}",
                                     f"two identical agents under equal seeds end with weights differing by {tw['wdiff']:.3g} after learn(batch) / "
                                     f"learn(batch with next_obs changed only where done=1) (dones={case['dones']})"))
        return out

    # ---------- the synthetic batches have exactly the format the real replay buffers deliver
    def extra_static(self):
        from agilerl.components.replay_buffer import ReplayBuffer, PrioritizedReplayBuffer
        from agilerl.components.multi_agent_replay_buffer import MultiAgentReplayBuffer
        from agilerl.components.data import Transition
        out = []
        fmt = lambda td: {k: (tuple(v.shape[1:]), str(v.dtype)) for k, v in td.items()}
        E, B = 2, 4

        def fill(buf, cont):
            for _ in range(3):         # what train_off_policy stores for a 2-env vector env
                act = np.random.rand(E, ACT_DIM).astype(np.float32) if cont else np.array([1, 0])
                t = Transition(obs=np.random.randn(E, OBS_DIM).astype(np.float32), action=act, reward=np.array([1.0, -1.0]),
                               next_obs=np.random.randn(E, OBS_DIM).astype(np.float32), done=np.array([False, True])).to_tensordict()
                t.batch_size = [E]
                buf.add(t)
        base = {"seed": 1, "B": B, "dones": [0, 1, 0, 1], "rewards": [0.0] * B, "gamma": 0.5, "tau": 0.5, "pf": 1}
        rbc = {"atoms": 5, "vmin": -2.0, "vmax": 2.0, "n_step": 1, "nstep_batch": False, "per": False, "combined": False, "ndones": [0] * B}
        checks = []
        buf = ReplayBuffer(max_size=8); fill(buf, False)
        checks.append(("ReplayBuffer/discrete", fmt(buf.sample(B)), fmt(make_batch(dict(base, algo="DQN"))[0])))
        checks.append(("ReplayBuffer/return_idx", fmt(buf.sample(B, return_idx=True)),
                       fmt(make_batch(dict(base, algo="Rainbow", rb=dict(rbc, nstep_batch=True, n_step=3)))[0][0])))
        buf = ReplayBuffer(max_size=8); fill(buf, True)
        checks.append(("ReplayBuffer/continuous", fmt(buf.sample(B)), fmt(make_batch(dict(base, algo="DDPG", lo=[-1, -1, -1], hi=[1, 1, 1]))[0])))
        buf = PrioritizedReplayBuffer(max_size=8, alpha=0.6); fill(buf, False)
        checks.append(("PrioritizedReplayBuffer", fmt(buf.sample(B, 0.4)),
                       fmt(make_batch(dict(base, algo="Rainbow", rb=dict(rbc, per=True, wshape="col")))[0][0])))
        ma = MultiAgentReplayBuffer(memory_size=8, field_names=["state", "action", "reward", "next_state", "done"], agent_ids=list(AGENT_IDS))
        for _ in range(4):
            st = {a: np.random.randn(MA_OBS[a]).astype(np.float32) for a in AGENT_IDS}
            ac = {a: np.random.rand(MA_ACT[a]).astype(np.float32) for a in AGENT_IDS}
            ma.save_to_memory(st, ac, {a: 1.0 for a in AGENT_IDS}, st, {a: False for a in AGENT_IDS}, is_vectorised=False)
        got = ma.sample(B)
        mine = make_batch(dict(base, algo="MADDPG"))[0]
        order = (0, 1, 2, 3, 4)       # state, action, reward, next_state, done
        checks.append(("MultiAgentReplayBuffer", [fmt(got[i]) for i in order], [fmt(mine[i]) for i in order]))
        for name, real, synth in checks:
            if real != synth:
                out.append(Violation("harness", f"batch-format:{name}",
                                     f"the batches generated by the harness no longer have the format {name} delivers: real {real} vs generated {synth}",
                                     None, None, found_input=False))
        return out

    def key(self, case):
        return super().key({k: case.get(k) for k in ("algo", "dones", "gamma", "tau", "pf", "steps", "pre", "rb", "share", "ma_split", "obs", "form", "act1d",
                                                               "default_noise", "key_order", "ids_unsorted", "ma_discrete", "reuse", "fail_at")})

    def nontrivial(self, case, obs):
        d = case["dones"][:case["B"]]
        return (0 in d and 1 in d) or case["steps"] >= 2

    def classify(self, case, obs):
        d = case["dones"][:case["B"]]
        labs = [f"algo={case['algo']}", f"gamma={case['gamma']}", f"tau={case['tau']}", f"pf={case['pf']}",
                f"steps={case['steps']}", f"B={case['B']}", "pre=" + "+".join(case["pre"] or ["none"]), "cfg=" + ("partial" if case.get("partial_cfg") else "tiny"),
                "dones=" + ("mixed" if (0 in d and 1 in d) else ("all1" if 1 in d else "all0"))]
        labs.append("obs=" + case.get("obs", "vec"))
        for flag in ("form", "act1d", "default_noise", "key_order", "ids_unsorted", "ma_discrete", "reuse", "fail_at"):
            if case.get(flag):
                labs.append(f"{flag}={case[flag]}" if flag != "fail_at" else "failed-calls=" + "+".join(sorted({k_ for _, k_ in case[flag]})))
        if len(case["pre"]) >= 3 or (case["pre"] and case["pre"][0] != "learn"):
            labs.append("pre-chain-or-no-learn-before-op")
        if case["algo"] == "Rainbow":
            rb = case["rb"]
            labs.append(f"rainbow={('per-' + rb.get('wshape', 'col')) if rb['per'] else 'uniform'}/{'nstep' if rb['nstep_batch'] else '1step'}/{'combined' if rb['combined'] else 'single'}")
        if obs.get("steps") and case["algo"] in SINGLE_AC:
            box = clip = False
            for rec in obs["steps"]:
                t = rec["tables"]
                for i, d in enumerate(t["d"]):
                    if d == 0:
                        for p_, n_, a_ in zip(t["pi"][i], t["noise"][i], t["an"][i]):
                            nc_ = noise_args(case)[0]
                            clip = clip or abs(n_) > nc_
                            box = box or abs(a_ - (p_ + max(-nc_, min(nc_, n_)))) > 1e-6
            labs.append(f"live-row:noise-clip={'active' if clip else 'inactive'}")
            labs.append(f"live-row:box-clamp={'active' if box else 'inactive'}")
        if obs.get("steps"):
            ng = sum(1 for rec in obs["steps"] for g_ in rec.get("grad", []) if g_[1] is not None and g_[2] != 0.0)
            labs.append("gradient-compared=" + ("yes" if ng else "no"))
            if any(rec.get("grad_error") for rec in obs["steps"]):
                labs.append("gradient-clause-error")
        if obs.get("steps"):
            _, upd = self.update_steps(case, obs)
            labs.append(f"updates={sum(upd)}of{len(upd)}")
        return labs

    def neighbours(self, case, rng):
        for s in range(3):
            c = dict(case)
            c["seed"] = case["seed"] + 1 + s
            yield c
        if case["steps"] > 1:
            c = dict(case); c["steps"] = 1
            yield c
        if case["pre"]:
            c = dict(case); c["pre"] = []
            yield c


if __name__ == "__main__":
    sys.exit(vlib.run_check(C08()))
