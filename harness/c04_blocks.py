"""C04 helper — tiny instances of every evolvable block / network of AgileRL and the argument
choices for their mutation methods. Only the harness uses this file (it imports agilerl)."""
from __future__ import annotations

import inspect

import numpy as np
import torch
from gymnasium import spaces

from agilerl.modules.bert import EvolvableBERT
from agilerl.modules.cnn import EvolvableCNN
from agilerl.modules.gpt import EvolvableGPT
from agilerl.modules.lstm import EvolvableLSTM
from agilerl.modules.mlp import EvolvableMLP
from agilerl.modules.multi_input import EvolvableMultiInput
from agilerl.modules.resnet import EvolvableResNet
from agilerl.modules.simba import EvolvableSimBa
from agilerl.networks.actors import DeterministicActor, StochasticActor
from agilerl.networks.q_networks import ContinuousQNetwork, QNetwork, RainbowQNetwork
from agilerl.networks.custom_modules import DuelingDistributionalMLP
from agilerl.networks.value_networks import ValueNetwork
from agilerl.wrappers.make_evolvable import MakeEvolvable

VEC = spaces.Box(-1, 1, (3,))
IMG = spaces.Box(0, 1, (2, 8, 8))
SEQ = spaces.Box(-1, 1, (4, 3))
DCT = spaces.Dict({"img": IMG, "vec": VEC})
TUP = spaces.Tuple((IMG, VEC))

MLPB = dict(min_mlp_nodes=1, max_mlp_nodes=8, min_hidden_layers=1, max_hidden_layers=3)
CNNB = dict(min_channel_size=1, max_channel_size=5, min_hidden_layers=1, max_hidden_layers=3)
ENC_MLP = dict(hidden_size=[4], **MLPB)
ENC_CNN = dict(channel_size=[3], kernel_size=[3], stride_size=[1], **CNNB)
ENC_CNN2 = dict(channel_size=[2, 3], kernel_size=[3, 3], stride_size=[1, 1], **CNNB)
ENC_LSTM = dict(hidden_size=4, min_hidden_size=1, max_hidden_size=6)
ENC_SIMBA = dict(hidden_size=4, num_blocks=2, scale_factor=2, min_mlp_nodes=2, max_mlp_nodes=8, min_blocks=1, max_blocks=3)
HEAD = dict(hidden_size=[4], **MLPB)
LAT = dict(latent_dim=4, min_latent_dim=1, max_latent_dim=8)
ENC_MULTI = dict(cnn_config=dict(ENC_CNN), mlp_config=dict(ENC_MLP), vector_space_mlp=True, **LAT)


def _x(shape, batch=3):
    g = torch.Generator().manual_seed(1234)
    return torch.randint(-2, 3, (batch, *shape), generator=g).float()


def _tok(shape, vocab, seed=0):
    g = torch.Generator().manual_seed(99 + seed)
    return torch.randint(0, vocab, shape, generator=g)


def _xd():
    return {"img": _x((2, 8, 8)), "vec": _x((3,))}


# name -> (constructor thunk, input thunk). Inputs are integer valued.
BLOCKS = {
    # ---- modules
    "mlp": (lambda: EvolvableMLP(3, 2, [4, 5], layer_norm=False, **MLPB), lambda: _x((3,))),
    "mlp_ln": (lambda: EvolvableMLP(3, 2, [4], layer_norm=True, output_layernorm=True, **MLPB), lambda: _x((3,))),
    "mlp_noisy": (lambda: EvolvableMLP(3, 2, [4], layer_norm=True, noisy=True, **MLPB), lambda: _x((3,))),
    "mlp_tanh": (lambda: EvolvableMLP(3, 2, [3, 2, 3], layer_norm=False, activation="Tanh", output_activation="Tanh", output_vanish=False, init_layers=False, **MLPB), lambda: _x((3,))),
    "cnn": (lambda: EvolvableCNN([2, 8, 8], 3, [3, 3], [3, 3], [1, 1], **CNNB), lambda: _x((2, 8, 8))),
    "cnn_bn": (lambda: EvolvableCNN([2, 8, 8], 3, [3], [3], [1], layer_norm=True, **CNNB), lambda: _x((2, 8, 8))),
    "cnn_stride": (lambda: EvolvableCNN([1, 9, 9], 2, [2, 2], [2, 3], [2, 1], **CNNB), lambda: _x((1, 9, 9))),
    "cnn3d": (lambda: EvolvableCNN([1, 2, 7, 7], 2, [2, 2], [3, 3], [1, 1], block_type="Conv3d",
                                   sample_input=torch.zeros(1, 1, 2, 7, 7), **CNNB), lambda: _x((1, 2, 7, 7))),
    "lstm": (lambda: EvolvableLSTM(3, 3, 2, num_layers=1, **{k: v for k, v in ENC_LSTM.items() if k != "hidden_size"}), lambda: _x((4, 3))),
    "lstm2": (lambda: EvolvableLSTM(2, 2, 2, num_layers=2, min_hidden_size=1, max_hidden_size=5), lambda: _x((3, 2))),
    "simba": (lambda: EvolvableSimBa(3, 2, **ENC_SIMBA), lambda: _x((3,))),
    "resnet": (lambda: EvolvableResNet([2, 6, 6], 2, 2, 3, 1, 2, scale_factor=2, min_channel_size=1, max_channel_size=5, min_blocks=1, max_blocks=3), lambda: _x((2, 6, 6))),
    "multi_dict": (lambda: EvolvableMultiInput(DCT, 3, **ENC_MULTI), _xd),
    "multi_dict_bn": (lambda: EvolvableMultiInput(DCT, 3, cnn_config=dict(ENC_CNN, layer_norm=True), mlp_config=dict(ENC_MLP), vector_space_mlp=True, **LAT), _xd),
    "multi_tuple": (lambda: EvolvableMultiInput(TUP, 3, cnn_config=dict(ENC_CNN), vector_space_mlp=False, **LAT),
                    lambda: (_x((2, 8, 8)), _x((3,)))),
    "make_evo_mlp": (lambda: MakeEvolvable(torch.nn.Sequential(torch.nn.Linear(3, 4), torch.nn.ReLU(), torch.nn.Linear(4, 3), torch.nn.ReLU(), torch.nn.Linear(3, 2)),
                                            torch.zeros(1, 3), min_mlp_nodes=1, max_mlp_nodes=7, min_hidden_layers=1, max_hidden_layers=3), lambda: _x((3,))),
    "gpt": (lambda: EvolvableGPT(n_layer=2, vocab_size=7, n_embd=4, n_head=2, dim_feedfwd=6, block_size=5, min_layers=1, max_layers=3),
            lambda: _tok((2, 4), 7)),
    "bert": (lambda: EvolvableBERT([6, 5], [6, 5], end2end=True, src_vocab_size=7, tgt_vocab_size=7, d_model=4, n_head=2, dropout=0.0,
                                   max_encoder_layers=3, max_decoder_layers=3), lambda: (_tok((3, 2), 7), _tok((3, 2), 7, 1))),
    "make_evo_cnn": (lambda: MakeEvolvable(torch.nn.Sequential(torch.nn.Conv2d(2, 3, 3), torch.nn.ReLU(), torch.nn.Conv2d(3, 3, 3), torch.nn.ReLU(), torch.nn.Flatten(),
                                                               torch.nn.Linear(48, 4), torch.nn.ReLU(), torch.nn.Linear(4, 2)),
                                            torch.zeros(1, 2, 8, 8), min_mlp_nodes=1, max_mlp_nodes=7, min_channel_size=1, max_channel_size=5,
                                            min_cnn_hidden_layers=1, max_cnn_hidden_layers=3), lambda: _x((2, 8, 8))),
    # ---- networks (complete and partial configurations)
    "q_vec": (lambda: QNetwork(VEC, spaces.Discrete(3), encoder_config=dict(ENC_MLP), head_config=dict(HEAD), **LAT), lambda: _x((3,))),
    "q_vec_partial": (lambda: QNetwork(VEC, spaces.Discrete(2), encoder_config={"hidden_size": [3]}, latent_dim=4, min_latent_dim=1, max_latent_dim=40), lambda: _x((3,))),
    "q_img": (lambda: QNetwork(IMG, spaces.Discrete(3), encoder_config=dict(ENC_CNN2), head_config=dict(HEAD), **LAT), lambda: _x((2, 8, 8))),
    "q_img_bn": (lambda: QNetwork(IMG, spaces.Discrete(2), encoder_config=dict(ENC_CNN, layer_norm=True), head_config=dict(HEAD), **LAT), lambda: _x((2, 8, 8))),
    "q_seq": (lambda: QNetwork(SEQ, spaces.Discrete(2), encoder_config=dict(ENC_LSTM), head_config=dict(HEAD), recurrent=True, **LAT), lambda: _x((4, 3))),
    "q_simba": (lambda: QNetwork(VEC, spaces.Discrete(2), encoder_config=dict(ENC_SIMBA), head_config=dict(HEAD), simba=True, **LAT), lambda: _x((3,))),
    "q_dict_bn": (lambda: QNetwork(DCT, spaces.Discrete(2), encoder_config=dict(ENC_MULTI, cnn_config=dict(ENC_CNN, layer_norm=True)), head_config=dict(HEAD), **LAT), _xd),
    "q_dict": (lambda: QNetwork(DCT, spaces.Discrete(2), encoder_config=dict(ENC_MULTI), head_config=dict(HEAD), **LAT), _xd),
    "rainbow": (lambda: RainbowQNetwork(VEC, spaces.Discrete(2), support=torch.linspace(0, 1, 3), num_atoms=3,
                                        encoder_config=dict(ENC_MLP), head_config=dict(HEAD), **LAT), lambda: _x((3,))),
    "cont_q": (lambda: ContinuousQNetwork(VEC, spaces.Box(-1, 1, (2,)), encoder_config=dict(ENC_MLP), head_config=dict(HEAD), **LAT),
               lambda: (_x((3,)), _x((2,)))),
    "value": (lambda: ValueNetwork(VEC, encoder_config=dict(ENC_MLP), head_config=dict(HEAD), **LAT), lambda: _x((3,))),
    "det_actor": (lambda: DeterministicActor(VEC, spaces.Box(-1, 1, (2,)), encoder_config=dict(ENC_MLP), head_config=dict(HEAD), **LAT), lambda: _x((3,))),
    "stoch_actor": (lambda: StochasticActor(VEC, spaces.Discrete(3), encoder_config=dict(ENC_MLP), head_config=dict(HEAD), **LAT), lambda: _x((3,))),
    "stoch_actor_box": (lambda: StochasticActor(IMG, spaces.Box(-1, 1, (2,)), encoder_config=dict(ENC_CNN), head_config=dict(HEAD), **LAT), lambda: _x((2, 8, 8))),
}
# ---- flag audit: every constructor flag of every block takes each non-default value in at least one block
ACTS = ["Tanh", "ELU", "Softsign", "Sigmoid", "GumbelSoftmax", "Softplus", "Softmax", "LeakyReLU", "PReLU", "GELU", "Identity"]
for _i, _a in enumerate(ACTS):
    _o = ACTS[(_i + 3) % len(ACTS)]
    BLOCKS[f"mlp_act_{_a}"] = ((lambda a=_a, o=_o: EvolvableMLP(3, 2, [4], layer_norm=False, activation=a, output_activation=o, **MLPB)), lambda: _x((3,)))
BLOCKS.update({
    "mlp_newgelu": (lambda: EvolvableMLP(3, 2, [4, 3], layer_norm=True, activation="GELU", output_activation="GELU", new_gelu=True, **MLPB), lambda: _x((3,))),
    "mlp_noisy_std": (lambda: EvolvableMLP(3, 2, [4], layer_norm=False, noisy=True, noise_std=0.3, output_vanish=False, **MLPB), lambda: _x((3,))),
    "cnn_noinit": (lambda: EvolvableCNN([2, 8, 8], 3, [3], [3], [2], init_layers=False, activation="Tanh", output_activation="Sigmoid", **CNNB), lambda: _x((2, 8, 8))),
    "cnn3d_bn": (lambda: EvolvableCNN([1, 2, 7, 7], 2, [2], [3], [1], block_type="Conv3d", layer_norm=True, activation="ELU",
                                      sample_input=torch.zeros(1, 1, 2, 7, 7), **CNNB), lambda: _x((1, 2, 7, 7))),
    "lstm_drop": (lambda: EvolvableLSTM(2, 3, 2, num_layers=2, dropout=0.5, output_activation="Tanh", min_hidden_size=1, max_hidden_size=5), lambda: _x((3, 2))),
    "simba_act": (lambda: EvolvableSimBa(3, 2, output_activation="Tanh", **dict(ENC_SIMBA, scale_factor=3)), lambda: _x((3,))),
    "resnet_act": (lambda: EvolvableResNet([2, 6, 6], 2, 2, 2, 1, 1, scale_factor=3, output_activation="Sigmoid", min_channel_size=1, max_channel_size=5, min_blocks=1, max_blocks=3), lambda: _x((2, 6, 6))),
    "multi_rec": (lambda: EvolvableMultiInput(spaces.Dict({"seq": SEQ, "vec": VEC}), 3, lstm_config=dict(ENC_LSTM), mlp_config=dict(ENC_MLP),
                                              vector_space_mlp=True, recurrent=True, output_activation="Tanh", **LAT), lambda: {"seq": _x((4, 3)), "vec": _x((3,))}),
    "multi_flat": (lambda: EvolvableMultiInput(spaces.Dict({"seq": SEQ, "vec": VEC, "img": IMG}), 3, cnn_config=dict(ENC_CNN), vector_space_mlp=False,
                                               recurrent=False, **LAT), lambda: {"seq": _x((4, 3)), "vec": _x((3,)), "img": _x((2, 8, 8))}),
    "cont_q_norm": (lambda: ContinuousQNetwork(VEC, spaces.Box(-2, 3, (2,)), encoder_config=dict(ENC_MLP), head_config=dict(HEAD), normalize_actions=True, **LAT),
                    lambda: (_x((3,)), _x((2,)))),
    "stoch_squash": (lambda: StochasticActor(VEC, spaces.Box(-2, 3, (2,)), encoder_config=dict(ENC_MLP), head_config=dict(HEAD), squash_output=True, action_std_init=0.5, **LAT), lambda: _x((3,))),
    "stoch_multidiscrete": (lambda: StochasticActor(VEC, spaces.MultiDiscrete([2, 3]), encoder_config=dict(ENC_MLP), head_config=dict(HEAD), **LAT), lambda: _x((3,))),
    "det_noclip": (lambda: DeterministicActor(VEC, spaces.Box(-2, 3, (2,)), encoder_config=dict(ENC_MLP), head_config=dict(HEAD, output_activation="Tanh"), clip_actions=False, **LAT), lambda: _x((3,))),
    "rainbow_std": (lambda: RainbowQNetwork(VEC, spaces.Discrete(2), support=torch.linspace(-1, 1, 3), num_atoms=3, noise_std=0.2,
                                            encoder_config=dict(ENC_MLP), head_config=dict(HEAD), **LAT), lambda: _x((3,))),
    "rainbow_gelu": (lambda: RainbowQNetwork(VEC, spaces.Discrete(2), support=torch.linspace(-1, 1, 3), num_atoms=3,
                                             encoder_config=dict(ENC_MLP, activation="GELU", new_gelu=True),
                                             head_config=dict(HEAD, activation="GELU", new_gelu=True), **LAT), lambda: _x((3,))),
    "dueling": (lambda: DuelingDistributionalMLP(3, 2, [4], num_atoms=3, support=torch.linspace(-1, 1, 3), activation="GELU", new_gelu=True, **MLPB), lambda: _x((3,))),
    "dueling_plain": (lambda: DuelingDistributionalMLP(3, 3, [4, 3], num_atoms=3, support=torch.linspace(0, 2, 3), layer_norm=False, noisy=False,
                                                       output_vanish=False, init_layers=True, activation="Tanh", **MLPB), lambda: _x((3,))),
    "q_custom_enc": (lambda: QNetwork(VEC, spaces.Discrete(2), encoder_cls=EvolvableMLP, encoder_config=dict(num_inputs=3, num_outputs=4, hidden_size=[4], **MLPB),
                                      head_config=dict(HEAD), **LAT), lambda: _x((3,))),
    "value_resnet_alias": (lambda: ValueNetwork(spaces.Box(0, 1, (2, 6, 6)), encoder_cls="ResNet",
                                                encoder_config=dict(input_shape=[2, 6, 6], num_outputs=4, channel_size=2, kernel_size=3, stride_size=1, num_blocks=1,
                                                                    scale_factor=2, min_channel_size=1, max_channel_size=5, min_blocks=1, max_blocks=3),
                                                head_config=dict(HEAD), **LAT), lambda: _x((2, 6, 6))),
    "q_head_gelu": (lambda: QNetwork(VEC, spaces.Discrete(2), encoder_config=dict(ENC_MLP, activation="GELU", new_gelu=True),
                                     head_config=dict(HEAD, activation="GELU", new_gelu=True), **LAT), lambda: _x((3,))),
})
# blocks that only vary a flag of an architecture already walked in full: a reduced set of chains
LIGHT_BLOCKS = {f"mlp_act_{a}" for a in ACTS} | {"mlp_noisy_std", "cnn_noinit", "cnn3d_bn", "lstm_drop", "simba_act", "resnet_act",
                                                  "cont_q_norm", "stoch_squash", "stoch_multidiscrete", "det_noclip", "rainbow_std", "q_head_gelu"}
QUICK_BLOCKS = list(BLOCKS)

# values offered for the optional arguments of the mutation methods (None = let the method draw);
# 100 always hits the HARD LIMIT guard, i.e. the mutation leaves the architecture unchanged
ARG_CHOICES = {
    "hidden_layer": [None, 0, 0, 1, 1, 5],
    "numb_new_nodes": [None, 1, 1, 1, 2, 2, 100],
    "numb_new_channels": [None, 1, 1, 1, 2, 2, 100],
    "kernel_size": [None],
}


STAR = (ContinuousQNetwork, EvolvableBERT)            # modules called with several positional inputs


def build(block):
    mk, mx = BLOCKS[block]
    return mk(), mx()


def method_params(module, method):
    """names of the optional arguments of an advertised mutation method"""
    try:
        fn = getattr(module, method)
        return [p for p in inspect.signature(fn).parameters if p in ARG_CHOICES]
    except (AttributeError, TypeError, ValueError):
        return []


def forward(module, x, seed=7, mode="eval"):
    """deterministic output (sampling layers are seeded). mode: "eval" / "train" set the flag on the whole module first
    (in train mode the buffers are restored afterwards, so running statistics are not moved); "asis" leaves the
    module's flags exactly as the library left them."""
    if mode == "eval":
        module.eval()
    elif mode == "train":
        module.train()
    saved = [(b, b.detach().clone()) for b in module.buffers()] if mode != "eval" else []
    try:
        return _forward(module, x, seed)
    finally:
        for b, v in saved:
            b.data.copy_(v)
        if mode == "train":
            module.eval()


def _forward(module, x, seed):
    torch.manual_seed(seed)
    np.random.seed(seed)
    with torch.no_grad():
        if isinstance(x, tuple) and isinstance(module, STAR):
            y = module(*x)
        else:
            y = module(x)
    if isinstance(y, (tuple, list)):
        y = [t for t in y if isinstance(t, torch.Tensor)]
        y = torch.cat([t.reshape(t.shape[0], -1).float() if t.dim() > 0 else t.reshape(1, 1).float().expand(y[0].shape[0], 1) for t in y], dim=1) if y else torch.zeros(0)
    return y.detach().float()


def train_forward(module, x, n=2):
    """a few training-mode forward passes: BatchNorm running statistics move, parameters do not"""
    module.train()
    with torch.no_grad():
        for i in range(n):
            xi = _scale(x, 2.0 + i)
            if isinstance(xi, tuple) and isinstance(module, STAR):
                module(*xi)
            else:
                module(xi)
    module.eval()


def _scale(x, c):
    if isinstance(x, torch.Tensor) and not x.is_floating_point():
        return x                                     # token ids
    if isinstance(x, dict):
        return {k: v * c + 1 for k, v in x.items()}
    if isinstance(x, tuple):
        return tuple(_scale(v, c) for v in x)
    return x * c + 1


# ---------------------------------------------------------------------------------------------------
# whole agents: Mutations.mutation -> architecture_mutate -> reinit_from_mutated of the shared (target) networks
def build_agent(algo):
    from agilerl.algorithms import CQN, DDPG, DQN, PPO, TD3
    net = {"encoder_config": dict(ENC_MLP), "head_config": dict(HEAD), **LAT}
    netimg = {"encoder_config": dict(ENC_CNN), "head_config": dict(HEAD), **LAT}
    if algo == "dqn":
        return DQN(VEC, spaces.Discrete(3), net_config=net)
    if algo == "dqn_img":
        return DQN(IMG, spaces.Discrete(2), net_config=netimg)
    if algo == "cqn":
        return CQN(VEC, spaces.Discrete(3), net_config=net)
    if algo == "ddpg":
        return DDPG(VEC, spaces.Box(-1, 1, (2,)), net_config=net)
    if algo == "ddpg_unshared":
        return DDPG(VEC, spaces.Box(-1, 1, (2,)), net_config=net, share_encoders=False)
    if algo == "td3":
        return TD3(VEC, spaces.Box(-1, 1, (2,)), net_config=net)
    if algo == "ppo":
        return PPO(VEC, spaces.Discrete(3), net_config=net)
    if algo in ("maddpg", "matd3"):                 # lists of networks: the list branch of reinit_from_mutated
        from agilerl.algorithms import MADDPG, MATD3
        ids = ["speaker_0", "listener_0"]
        cls = MADDPG if algo == "maddpg" else MATD3
        return cls(observation_spaces=[VEC, spaces.Box(-1, 1, (4,))], action_spaces=[spaces.Box(-1, 1, (2,)), spaces.Box(-1, 1, (2,))],
                   agent_ids=ids, net_config=net)
    raise ValueError(algo)


AGENTS = ["dqn", "dqn_img", "cqn", "ddpg", "ddpg_unshared", "td3", "ppo", "maddpg", "matd3"]


def agent_groups(agent):
    """[(eval attribute, [shared attributes])] from the algorithm's own registry"""
    out = []
    for g in agent.registry.groups:
        sh = g.shared
        sh = [] if sh is None else ([sh] if isinstance(sh, str) else list(sh))
        out.append((g.eval, sh))
    return out
